(* Wire entry points (sx -> sx) for the Fetch cluster. *)
From Coq Require Import List Ascii String Bool Arith.
From Phil Require Import Base Tree Vars Choice Fetch.
Import ListNotations.
Local Open Scope char_scope.

(* structural equality of wire terms *)
Fixpoint sx_eqb (a b:sx) : bool :=
  match a, b with
  | SA x, SA y => eqs x y
  | SL l, SL m =>
      (fix go (l m:list sx) : bool :=
         match l, m with
         | [], [] => true
         | x :: l', y :: m' => sx_eqb x y && go l' m'
         | _, _ => false
         end) l m
  | _, _ => false
  end.

(* environment: association list ((name value) ...) *)
Fixpoint fe_assoc (l:list (str * str)) (k:str) : option str :=
  match l with [] => None | (a, b) :: r => if eqs a k then Some b else fe_assoc r k end.
Definition fe_pair_of_sx (x:sx) : option (str * str) :=
  match x with SL [SA k; SA v] => Some (k, v) | _ => None end.
Definition fe_env_of_sx (x:sx) : option (list (str * str)) :=
  match x with SL l => all_some (map fe_pair_of_sx l) | _ => None end.

(* the canon oracle: a table ((master-object source-object-or-() outcome) ...) recorded from the
   implementation run; outcome = (ok text) | (uerr kind tok line) | (crash class).
   Keys are compared as wire terms: the model re-encodes the objects it asks about. *)
Definition outcome_of_sx (x:sx) : option (res str) :=
  match x with
  | SL [SA t; SA v] =>
      if eqs t (s_ "ok") then Some (Ok v) else if eqs t (s_ "crash") then Some (Crash v) else None
  | SL [SA t; SA k; SA tok; SA l] =>
      if eqs t (s_ "uerr") then match nat_of_str l with Some n => Some (UErr k tok n) | None => None end
      else None
  | _ => None
  end.
Definition centry := (sx * sx * res str)%type.
Definition centry_of_sx (x:sx) : option centry :=
  match x with
  | SL [m; s; o] => option_map (fun r => (m, s, r)) (outcome_of_sx o)
  | _ => None
  end.
Definition ctable_of_sx (x:sx) : option (list centry) :=
  match x with SL l => all_some (map centry_of_sx l) | _ => None end.

Fixpoint ctable_get (tbl:list centry) (m s:sx) : res str :=
  match tbl with
  | [] => Crash (s_ "OracleMissing")
  | (m', s', r) :: rest => if sx_eqb m' m && sx_eqb s' s then r else ctable_get rest m s
  end.
Definition canon_of (tbl:list centry) (M:obj) (src:option obj) : res str :=
  ctable_get tbl (sx_obj M) (match src with Some o => sx_obj o | None => SL [] end).

Definition srcs_of_sx (x:sx) : option (list (list obj)) :=
  match x with SL l => all_some (map objs_of_sx l) | _ => None end.

Definition sx_unused (l:list (str * nat)) : sx :=
  SL [SA (s_ "ok"); SL (map (fun pl => SL [SA (fst pl); sx_nat (snd pl)]) l)].

(* (master sources env canon-table diff track) ->
     res (result-objects  (none) | (ok ((path line) ...))) *)
Definition run_fetch (x:sx) : sx :=
  match x with
  | SL [m; ss; e; t; d; tr] =>
      match objs_of_sx m, srcs_of_sx ss, fe_env_of_sx e, ctable_of_sx t, bool_of_sx d, bool_of_sx tr with
      | Some m', Some ss', Some e', Some t', Some d', Some tr' =>
          if tr' then
            sx_res (fun ou => SL [sx_objs (fst ou); sx_unused (snd ou)])
                   (fetch_track (fe_assoc e') (canon_of t') d' m' ss')
          else
            sx_res (fun o => SL [sx_objs o; SL [SA (s_ "none")]])
                   (fetch (fe_assoc e') (canon_of t') d' m' ss')
      | _, _, _, _, _, _ => sx_bad
      end
  | _ => sx_bad
  end.

(* (master sources) -> (master_ok srcs_ok): the hypotheses of Proofs/FetchTotal.v (fetch_total)
   evaluated on a wire master and wire sources *)
Definition run_fetchok (x:sx) : sx :=
  match x with
  | SL [m; ss] =>
      match objs_of_sx m, srcs_of_sx ss with
      | Some m', Some ss' => SL [sx_bool (master_ok m'); sx_bool (srcs_ok ss')]
      | _, _ => sx_bad
      end
  | _ => sx_bad
  end.
