(* Wire entry points (sx -> sx) for the command-line cluster. *)
From Coq Require Import List Ascii String Bool Arith ZArith.
From Phil Require Import Base Tree CmdLine.
Import ListNotations.
Local Open Scope char_scope.

Definition home_of_sx (x:sx) : option (option str) :=
  match x with SL [] => Some None | SL [SA h] => Some (Some h) | _ => None end.
Definition strs_of_sx (x:sx) : option (list str) :=
  match x with SL l => all_some (map (fun y => match y with SA s => Some s | _ => None end) l) | _ => None end.
Definition sx_strs (l:list str) : sx := SL (map SA l).

(* (home source target) -> score *)
Definition run_score (x:sx) : sx :=
  match x with
  | SL [h; SA source; SA target] =>
      match home_of_sx h with
      | Some home => sx_Z (get_path_score home source target)
      | None => sx_bad end
  | _ => sx_bad
  end.

(* (t s) -> (t.find(s) t.startswith(s) t.endswith(s)) *)
Definition run_strops (x:sx) : sx :=
  match x with
  | SL [SA t; SA s] => SL [sx_Z (pyfind t s); sx_bool (startswith t s); sx_bool (endswith t s)]
  | _ => sx_bad
  end.

(* every .expert_level in the tree is an int or None (what the parser can produce) *)
Fixpoint levels_wf (o:obj) : bool :=
  (match get_attr (s_ "expert_level") (oattrs o) with AInt _ | ANone => true | _ => false end)
  && match o with
     | Def _ _ _ => true
     | Scp _ ks _ => (fix go (l:list obj) := match l with [] => true | k :: r => levels_wf k && go r end) ks
     end.

(* the tie-break branch is reached for this source and is outside the exactness guard *)
Definition inexact (home:option str) (targets:list str) (levels:list Z) (s:str) : bool :=
  let scores := map (get_path_score home s) targets in
  let m := zmax_default0 scores in
  negb (m =? 0)%Z && (1 <? zcount m scores)%nat && negb (tiebreak_exact scores levels m).

Definition sx_ending (e:ending) : sx :=
  match e with
  | EOk l => SL [SA (s_ "ok"); SL (map (fun p => SL [sx_nat (fst p); SA (snd p)]) l)]
  | EUnknown s => SL [SA (s_ "unknown"); SA s]
  | EAmbiguous s c => SL [SA (s_ "ambiguous"); SA s; sx_strs c]
  | ENoEffect => SL [SA (s_ "noeffect")]
  | ECrash c => SL [SA (s_ "crash"); SA c]
  end.

(* (home master (source-path ...)) -> (targets levels (warned-targets ...) ending) | (unmodelled) *)
Definition run_decide (x:sx) : sx :=
  match x with
  | SL [h; m; srcs] =>
      match home_of_sx h, obj_of_sx m, strs_of_sx srcs with
      | Some home, Some master, Some sources =>
          if negb (levels_wf master) then SL [SA (s_ "unmodelled")]
          else
            match target_locators master with
            | Ok locs =>
                let targets := map lpath locs in
                let levels := map recursive_expert_level locs in
                if existsb (inexact home targets levels) sources then SL [SA (s_ "unmodelled")]
                else let '(w, e) := process_arg_paths home master sources in
                     SL [sx_strs targets; SL (map sx_Z levels); sx_strs w; sx_ending e]
            | _ => let '(w, e) := process_arg_paths home master sources in
                   SL [SL []; SL []; sx_strs w; sx_ending e]
            end
      | _, _, _ => sx_bad
      end
  | _ => sx_bad
  end.

Definition sx_prep (p:prep) : sx :=
  match p with
  | PSkip => SL [SA (s_ "skip")]
  | PFlag t => SL [SA (s_ "flag"); SA t]
  | PFile => SL [SA (s_ "file")]
  | PDef t => SL [SA (s_ "def"); SA t]
  | POther => SL [SA (s_ "other")]
  end.

(* (collect (file-name ...) (marker ...) (arg ...)) -> res ((text ...) (remaining ...)), with
   process_arg replaced by: text containing one of the markers -> Sorry, else the text itself *)
Definition run_args (x:sx) : sx :=
  match x with
  | SL [c; fs; fl; a] =>
      match bool_of_sx c, strs_of_sx fs, strs_of_sx fl, strs_of_sx a with
      | Some collect, Some files, Some fails, Some args =>
          let isfile := fun s => mems s files in
          let pa := fun t => if existsb (fun m => (0 <=? pyfind t m)%Z) fails then UErr (s_ "Sorry") t 0 else Ok t in
          SL [SL (map (fun arg => sx_prep (prep_arg isfile arg)) args);
              sx_res (fun p => SL [sx_strs (fst p); sx_strs (snd p)]) (process_args isfile pa collect args)]
      | _, _, _, _ => sx_bad
      end
  | _ => sx_bad
  end.
