(* Model of master.fetch(sources=[...], track_unused_definitions=..., diff=...)  (freephil/common.py):
     scope.fetch, scope.master_active_objects, scope.get(with_substitution=False),
     definition.fetch / fetch_value / fetch_diff, customized_copy / copy,
     scope.assign_tmp(False, active_only=True), scope.all_definitions(select_tmp=False).
   Domain: alias-free masters (an object with .alias that the loop reaches: UErr Unmodelled),
   master object names non-empty (else Unmodelled), skip_incompatible_objects=False.
   Oracles: env (os.environ.get, for Vars), canon (X.extract_format(source=Y).as_str()).

   No parent pointers and no object identity in the model:
   * a source object travels with its POSITION in the combined source forest and with the chain of
     object lists of ITS OWN document (Vars.ctx), because variable substitution is lexical;
   * "matching_source is master_object" is "the master occurrence at the index being processed";
   * the tmp marks of track_unused_definitions are the list of positions handed to
     definition.fetch_value ("consumed"), threaded through the run, plus the positions marked by
     variable substitution while those definitions are resolved (var_marks). *)
From Coq Require Import List Ascii String Bool Arith ZArith Lia.
From Phil Require Import Base Tree Vars Choice.
Import ListNotations.
Local Open Scope char_scope.

(* ------------------------------------------------------------------ located source objects *)
(* position: source index :: index in that source's root object list :: child indices *)
Definition pos := list nat.
Record lsrc := mklsrc { lpos : pos; lobj : obj; lctx : ctx }.

Fixpoint index_from {A} (i:nat) (l:list A) : list (nat * A) :=
  match l with [] => [] | a :: r => (i, a) :: index_from (S i) r end.

(* the objects [ks] of a scope at position [p] whose own chain is [chain] *)
Definition kids_at (p:pos) (ks:list obj) (chain:ctx) : list lsrc :=
  map (fun jk => mklsrc (p ++ [fst jk]) (snd jk) (ks :: chain)) (index_from 0 ks).

Definition src_kids (s:lsrc) : list lsrc :=
  match lobj s with Scp _ ks _ => kids_at (lpos s) ks (lctx s) | Def _ _ _ => [] end.

(* sources=[t0; t1; ...] : every root object list is its own document *)
Definition root_lsrcs (srcs:list (list obj)) : list lsrc :=
  flat_map (fun it => kids_at [fst it] (snd it) []) (index_from 0 srcs).

Definition lactive (s:lsrc) : bool := negb (odis (ohdr (lobj s))).

(* get_without_substitution(path, alias_path=None) carrying positions; forgetting them gives
   Vars.gws_obj (FetchBasics.gwsp_gws) *)
Fixpoint gwsp (p:pos) (chain:ctx) (path:str) (o:obj) : list lsrc :=
  match o with
  | Def h _ _ => if odis h || negb (eqs (oname h) path) then [] else [mklsrc p o chain]
  | Scp h ks _ =>
      if odis h then []
      else
        let inner (pth:str) :=
          (fix go (j:nat) (l:list obj) : list lsrc :=
             match l with
             | [] => []
             | k :: r => (if odis (ohdr k) then [] else gwsp (p ++ [j]) (ks :: chain) pth k) ++ go (S j) r
             end) 0 ks in
        match oname h with
        | [] => match path with [] => kids_at p ks chain | _ => inner path end
        | _ => if eqs (oname h) path then [mklsrc p o chain]
               else if prefixb (oname h ++ ["."]) path then inner (drop (length (oname h) + 1) path)
               else []
        end
  end.

(* source.get(path=<scope name>.<name>, with_substitution=False).active_objects() where source is
   the customized copy of the master scope holding the combined objects [srcs].  The copy has the
   master scope's name, so get_without_substitution strips "<scope name>." again (or, for the
   empty name, hands the path on unchanged): its children are always asked for [name] itself.
   [name] is non-empty here (fetch_one refuses empty names), so the "return self.objects" branch
   of the empty-named scope is never taken. *)
Definition match_sources (name:str) (srcs:list lsrc) : list lsrc :=
  filter lactive
    (flat_map (fun s => if odis (ohdr (lobj s)) then [] else gwsp (lpos s) (lctx s) name (lobj s)) srcs).

(* scope.fetch, first loop: "combined_objects.extend(source.objects)", a definition among the
   sources raises *)
Definition k_incompat_sd : str := s_ "IncompatibleScopeDefinition".  (* scope master, definition source *)
Definition k_incompat_ds : str := s_ "IncompatibleDefinitionScope".  (* definition master, scope source *)
Definition k_dup : str := s_ "DuplicateMaster".
Definition k_unmodelled : str := s_ "Unmodelled".

Fixpoint combine (ms:list lsrc) : res (list lsrc) :=
  match ms with
  | [] => Ok []
  | s :: r =>
      if is_def (lobj s) then UErr k_incompat_sd [] 0
      else do rest <- combine r; Ok (src_kids s ++ rest)
  end.

(* ------------------------------------------------------------------ master_active_objects *)
(* names_object: the first active object of every name seen so far *)
Fixpoint seen_get (n:str) (seen:list obj) : option obj :=
  match seen with
  | [] => None
  | o :: r => if eqs (oname (ohdr o)) n then Some o else seen_get n r
  end.

Inductive mstep := MSkip | MDup | MYield (seen':list obj).

Definition mao_step (seen:list obj) (k:obj) : mstep :=
  if odis (ohdr k) then MSkip
  else match seen_get (oname (ohdr k)) seen with
       | None => MYield (seen ++ [k])
       | Some first =>
           if omultiple first then MSkip
           else if is_def k then MDup
           else MYield seen
       end.

(* ------------------------------------------------------------------ strings_from_words *)
Inductive sval := SVNone | SVAuto | SVList (l:list str).
Definition strings_from_words (ws:list word) : sval :=
  if is_plain_none ws then SVNone else if is_plain_auto ws then SVAuto else SVList (map wv ws).
Fixpoint strs_eqb (a b:list str) : bool :=
  match a, b with
  | [], [] => true
  | x :: a', y :: b' => eqs x y && strs_eqb a' b'
  | _, _ => false
  end.
Definition sval_eqb (a b:sval) : bool :=
  match a, b with
  | SVNone, SVNone => true | SVAuto, SVAuto => true
  | SVList x, SVList y => strs_eqb x y
  | _, _ => false
  end.

(* ------------------------------------------------------------------ the multiple branch's tables *)
(* processed_as_str: text -> index into result_objs, or None for the -1 marker *)
Definition pdict := list (str * option nat).
Fixpoint pget (k:str) (d:pdict) : option (option nat) :=
  match d with [] => None | (k', v) :: r => if eqs k' k then Some v else pget k r end.
Fixpoint pset (k:str) (v:option nat) (d:pdict) : pdict :=
  match d with
  | [] => [(k, v)]
  | (k', v') :: r => if eqs k' k then (k', v) :: r else (k', v') :: pset k v r
  end.
(* result_objs[i] = None *)
Fixpoint set_none (i:nat) (l:list (option obj)) : list (option obj) :=
  match l, i with
  | [], _ => []
  | _ :: r, 0 => None :: r
  | x :: r, S j => x :: set_none j r
  end.
Fixpoint somes (l:list (option obj)) : list obj :=
  match l with [] => [] | Some o :: r => o :: somes r | None :: r => somes r end.

(* customized_copy(words=ws) of a master definition; customized_copy(objects=os) of a master scope *)
Definition dcopy (h:hdr) (a:attrs) (ws:list word) : obj := Def (with_tmpl h 0) ws a.
Definition scopy (h:hdr) (a:attrs) (os:list obj) : obj := Scp (with_tmpl h 0) os a.

Definition fout := (list obj * list pos)%type.

Section Fetch.
  Variable env : str -> option str.
  Variable canon : obj -> option obj -> res str.
  Variable diff : bool.

  (* ---------------------------------------------------------------- definition.fetch_value *)
  (* [k] = Def h mws a is the master definition *)
  Definition def_fetch_value (diff_mode:bool) (h:hdr) (mws:list word) (a:attrs) (s:lsrc)
    : res (option obj) :=
    match lobj s with
    | Scp _ _ _ => UErr k_incompat_ds [] 0
    | Def _ _ _ =>
        do ws <- resolve_top env diff_mode (lctx s) (lobj s);
        if odeprecated (Def h mws a) && sval_eqb (strings_from_words ws) (strings_from_words mws)
        then Ok None
        else
          match get_attr (s_ "type") a with
          | AType (TyChoice _) =>
              do w <- choice_fetch (get_attr (s_ "optional") a) mws ws false; Ok (Some (dcopy h a w))
          | AType (TyOther p) =>
              (* float / floats / int(s) with non-integer bounds have no fetch method; any other
                 converter is a custom one *)
              if prefixb (s_ "float") p || prefixb (s_ "int") p then Ok (Some (dcopy h a ws))
              else UErr k_unmodelled [] 0
          | _ => Ok (Some (dcopy h a ws))
          end
    end.

  (* definition.fetch(source, diff) *)
  Definition def_fetch (h:hdr) (mws:list word) (a:attrs) (s:lsrc) : res (option obj) :=
    if diff then
      do r <- def_fetch_value true h mws a s;
      do x <- canon (Def h mws a) r;
      do y <- canon (Def h mws a) None;
      if eqs x y then Ok None else Ok r
    else def_fetch_value false h mws a s.

  (* "for matching_source in ...: result_object = master_object.fetch(...)": the last one wins *)
  Fixpoint def_loop (h:hdr) (mws:list word) (a:attrs) (ms:list lsrc) (last:option obj)
    : res (option obj) :=
    match ms with
    | [] => Ok last
    | s :: r => do x <- def_fetch h mws a s; def_loop h mws a r x
    end.

  (* ---------------------------------------------------------------- one candidate of a multiple *)
  (* master_object.fetch(source=matching_source, diff=diff); [rec] = scope.fetch of the master
     scope [k] on already combined objects *)
  Definition cand_fetch (k:obj) (rec:list lsrc -> res fout) (s:lsrc) : res (option obj * list pos) :=
    match k with
    | Def h mws a => do r <- def_fetch h mws a s; Ok (r, [lpos s])
    | Scp h _ a => do comb <- combine [s]; do oc <- rec comb; Ok (Some (scopy h a (fst oc)), snd oc)
    end.

  Definition null_objs (l:list obj) : bool := match l with [] => true | _ => false end.
  (* "if diff: if master_object.is_scope: if len(candidate.objects) == 0: continue
               elif candidate is None: continue" *)
  Definition diff_skip (k:obj) (cand:option obj) : bool :=
    diff && match k with
            | Scp _ _ _ => match cand with Some c => null_objs (okids c) | None => false end
            | Def _ _ _ => match cand with None => true | Some _ => false end
            end.

  (* the double loop; state (processed_as_str, result_objs, consumed) *)
  Fixpoint mult_loop (k:obj) (rec:list lsrc -> res fout) (master_as_str:str)
           (cands:list (bool * lsrc)) (pd:pdict) (robjs:list (option obj)) (used:list pos)
    : res (pdict * list (option obj) * list pos) :=
    match cands with
    | [] => Ok (pd, robjs, used)
    | (from_master, s) :: r =>
        do cc <- cand_fetch k rec s;
        let cand := fst cc in
        (* marks set on the master's own objects are never read *)
        let used' := if from_master then used else used ++ snd cc in
        if diff_skip k cand
        then mult_loop k rec master_as_str r pd robjs used'
        else
          do cs <- canon k cand;
          if eqs cs master_as_str then mult_loop k rec master_as_str r pd robjs used'
          else
            match pget cs pd with
            | Some None => mult_loop k rec master_as_str r pd robjs used'
            | prev =>
                let robjs1 := match prev with Some (Some i) => set_none i robjs | _ => robjs end in
                if diff && from_master
                then mult_loop k rec master_as_str r (pset cs None pd) robjs1 used'
                else mult_loop k rec master_as_str r (pset cs (Some (length robjs1)) pd)
                               (robjs1 ++ [cand]) used'
            end
    end.

  (* self.get(path, with_substitution=False).active_objects() without the occurrence being
     processed ("if matching_source is master_object: continue"); positions are the master's own
     and never reported *)
  Definition self_matching (allks:list obj) (chain:ctx) (i:nat) (name:str) : list lsrc :=
    filter lactive
      (flat_map (fun jk => if (fst jk =? i)%nat || odis (ohdr (snd jk)) then []
                           else gwsp [fst jk] chain name (snd jk))
                (index_from 0 allks)).

  (* the template copy appended when not diff *)
  Definition template_of (k:obj) (pd:pdict) : obj :=
    set_hdr k (with_tmpl (ohdr k)
                 (if mandatory (ooptional k) then 0%Z
                  else match pd with [] => 1%Z | _ => (-1)%Z end)).

  (* ---------------------------------------------------------------- one master object *)
  (* body of "for master_object in self.master_active_objects():" ; [allks] / [chain] = objects and
     chain of the master scope, [i] = index of [k] in [allks], [srcs] = combined source objects *)
  Definition fetch_one (allks:list obj) (chain:ctx) (i:nat) (k:obj)
             (rec:list lsrc -> res fout) (srcs:list lsrc) : res fout :=
    match get_attr (s_ "alias") (oattrs k) with
    | ANone =>
      match oname (ohdr k) with
      | [] => UErr k_unmodelled [] 0
      | _ =>
        let matching := match_sources (oname (ohdr k)) srcs in
        if negb (omultiple k) then
          match k with
          | Def h mws a =>
              do ro <- def_loop h mws a matching None;
              let used := map lpos matching in
              match ro with
              | Some o => Ok ([o], used)
              | None => if negb diff && negb (odeprecated k) then Ok ([k], used) else Ok ([], used)
              end
          | Scp h _ a =>
              do comb <- combine matching;
              do oc <- rec comb;
              if diff && null_objs (fst oc) then Ok ([], snd oc)
              else Ok ([scopy h a (fst oc)], snd oc)
          end
        else
          do master_as_str <- canon k None;
          let cands := map (pair true) (self_matching allks chain i (oname (ohdr k)))
                       ++ map (pair false) matching in
          do st <- mult_loop k rec master_as_str cands [] [] [];
          let '(pd, robjs, used) := st in
          Ok ((if diff then [] else [template_of k pd]) ++ somes robjs, used)
      end
    | _ => UErr k_unmodelled [] 0
    end.

  (* ---------------------------------------------------------------- scope.fetch on combined sources *)
  (* the loop over master_active_objects, generic in the per-object body *)
  Definition mloop (body:nat -> obj -> res fout) : list obj -> nat -> list obj -> res fout :=
    fix loop (seen:list obj) (i:nat) (l:list obj) {struct l} : res fout :=
      match l with
      | [] => Ok ([], [])
      | k :: r =>
          match mao_step seen k with
          | MSkip => loop seen (S i) r
          | MDup => UErr k_dup [] 0
          | MYield seen' =>
              do a <- body i k;
              do b <- loop seen' (S i) r;
              Ok (fst a ++ fst b, snd a ++ snd b)
          end
      end.

  (* [M] = master scope, [mchain] = chain of the scope that holds M; result = result_objects
     and the consumed positions *)
  Fixpoint fetch_scope (M:obj) (mchain:ctx) (srcs:list lsrc) {struct M} : res fout :=
    match M with
    | Def _ _ _ => Crash (s_ "AttributeError")
    | Scp _ ks _ =>
        mloop (fun i k => fetch_one ks (ks :: mchain) i k (fetch_scope k (ks :: mchain)) srcs) [] 0 ks
    end.

  (* master.fetch(sources=srcs) for a root master (name "") *)
  Definition root_scope (m:list obj) : obj := Scp (plain_hdr []) m [].
  Definition fetch_root (m:list obj) (srcs:list (list obj)) : res fout :=
    fetch_scope (root_scope m) [] (root_lsrcs srcs).
End Fetch.

(* ------------------------------------------------------------------ track_unused_definitions *)
(* what scope._all_definitions visits below an active object at position [p]: active definitions
   with no disabled enclosing scope; the same objects are the ones assign_tmp(False,
   active_only=True) resets (FetchTrack.reset_is_visited) *)
Record dloc := mkdloc { dpos : pos; dpath : str; dline : nat; dnm : str }.

Fixpoint all_defs_p (p:pos) (ppath:str) (o:obj) : list dloc :=
  match o with
  | Def h _ _ => [mkdloc p (ppath ++ oname h) (oline h) (oname h)]
  | Scp h ks _ =>
      let pp := ppath ++ oname h ++ ["."] in
      (fix go (j:nat) (l:list obj) : list dloc :=
         match l with
         | [] => []
         | k :: r => (if odis (ohdr k) then [] else all_defs_p (p ++ [j]) pp k) ++ go (S j) r
         end) 0 ks
  end.
Definition all_defs_root (srcs:list lsrc) : list dloc :=
  flat_map (fun s => if odis (ohdr (lobj s)) then [] else all_defs_p (lpos s) [] (lobj s)) srcs.

(* source.assign_tmp(value=False, active_only=True): positions whose mark is reset *)
Fixpoint reset_p (p:pos) (o:obj) : list pos :=
  match o with
  | Def h _ _ => if odis h then [] else [p]
  | Scp h ks _ =>
      if odis h then []
      else (fix go (j:nat) (l:list obj) : list pos :=
              match l with [] => [] | k :: r => reset_p (p ++ [j]) k ++ go (S j) r end) 0 ks
  end.
Definition reset_root (srcs:list lsrc) : list pos := flat_map (fun s => reset_p (lpos s) (lobj s)) srcs.

Fixpoint pos_eqb (a b:pos) : bool :=
  match a, b with
  | [], [] => true
  | x :: a', y :: b' => (x =? y)%nat && pos_eqb a' b'
  | _, _ => false
  end.
Definition pos_in (p:pos) (l:list pos) : bool := existsb (pos_eqb p) l.

(* the tmp slot of the definition at [p] when all_definitions reads it: fetch_value's
   "source.tmp = True" comes after the reset; what was there before the call is [marks0] *)
Definition final_mark (marks0:pos -> option bool) (reset consumed:list pos) (p:pos) : option bool :=
  if pos_in p consumed then Some true else if pos_in p reset then Some false else marks0 p.

(* all_definitions(select_tmp=False): "self.tmp == False", then the name "include" is skipped *)
Definition unused_of (marks0:pos -> option bool) (srcs:list lsrc) (consumed:list pos) : list (str * nat) :=
  map (fun d => (dpath d, dline d))
      (filter (fun d => match final_mark marks0 (reset_root srcs) consumed (dpos d) with
                        | Some false => negb (eqs (dnm d) (s_ "include"))
                        | _ => false end)
              (all_defs_root srcs)).

(* ------------------------------------------------------------------ marks set by variable substitution *)
(* definition.resolve_variables: "substitution_source.tmp = True" on every definition that supplies a
   $variable, recursively (the source's own words are resolved in turn).  A run that ends in Ok has
   resolved every consumed definition, so these marks are a function of the consumed definitions:
   they are computed after the run, per consumed position.  The marked definition is identified by
   its primary id inside its document (the lexical chain of a definition never leaves its document). *)
Fixpoint marks_def (fuel:nat) (chain:ctx) (d:obj) : list nat :=
  match fuel with
  | 0 => []
  | S f =>
      flat_map
        (fun w =>
           if quote_eqb (wq w) Q1 then []
           else match fragments_of_word w with
                | Ok (_, frs) =>
                    flat_map
                      (fun fr =>
                         match fr with
                         | FLit _ => []
                         | FVar v =>
                             match (match chain with
                                    | [] => Ok None
                                    | _ => lexical_get (S (length v)) (oid d) chain v true
                                    end) with
                             | Ok (Some (o, ch)) => if is_def o then oid o :: marks_def f ch o else []
                             | _ => []
                             end
                         end) frs
                | _ => []
                end)
        (owords d)
  end.

(* the object at an index path below the object list [l] whose chain is [up], with its own chain *)
Fixpoint obj_at (path:list nat) (l:list obj) (up:ctx) : option (obj * ctx) :=
  match path with
  | [] => None
  | j :: rest =>
      match nth_error l j with
      | None => None
      | Some o =>
          match rest with
          | [] => Some (o, l :: up)
          | _ => match o with Scp _ ks _ => obj_at rest ks (l :: up) | Def _ _ _ => None end
          end
      end
  end.

(* index path of the first definition with primary id [id], depth first *)
Fixpoint find_pos_obj (id:nat) (p:pos) (o:obj) : option pos :=
  match o with
  | Def h _ _ => if (opid h =? id)%nat then Some p else None
  | Scp _ ks _ =>
      (fix go (j:nat) (l:list obj) : option pos :=
         match l with
         | [] => None
         | k :: r => match find_pos_obj id (p ++ [j]) k with Some x => Some x | None => go (S j) r end
         end) 0 ks
  end.
Fixpoint find_pos_list (id:nat) (p:pos) (j:nat) (l:list obj) : option pos :=
  match l with
  | [] => None
  | k :: r => match find_pos_obj id (p ++ [j]) k with Some x => Some x | None => find_pos_list id p (S j) r end
  end.

(* positions marked while resolving the consumed definition at position [p] *)
Definition var_marks_at (srcs:list (list obj)) (p:pos) : list pos :=
  match p with
  | [] => []
  | i :: path =>
      match nth_error srcs i with
      | None => []
      | Some t =>
          match obj_at path t [] with
          | Some (d, chain) =>
              flat_map (fun id => match find_pos_list id [i] 0 t with Some q => [q] | None => [] end)
                       (marks_def (S (oid d)) chain d)
          | None => []
          end
      end
  end.
Definition var_marks (srcs:list (list obj)) (consumed:list pos) : list pos :=
  flat_map (var_marks_at srcs) consumed.

(* "$" anywhere in the sources (used by the theorems: without it var_marks is empty) *)
Definition word_has_dollar (w:word) : bool := mem "$" (wv w).
Fixpoint obj_has_dollar (o:obj) : bool :=
  match o with
  | Def _ ws _ => existsb word_has_dollar ws
  | Scp _ ks _ => (fix go (l:list obj) : bool :=
                     match l with [] => false | k :: r => obj_has_dollar k || go r end) ks
  end.
Definition srcs_have_dollar (srcs:list (list obj)) : bool :=
  existsb (existsb obj_has_dollar) srcs.

(* master.fetch(sources=srcs, track_unused_definitions=True, diff=diff) starting from marks
   [marks0] on the source definitions *)
Definition fetch_track_marks (env:str -> option str) (canon:obj -> option obj -> res str) (diff:bool)
           (marks0:pos -> option bool) (m:list obj) (srcs:list (list obj))
  : res (list obj * list (str * nat)) :=
  do oc <- fetch_root env canon diff m srcs;
  Ok (fst oc, unused_of marks0 (root_lsrcs srcs) (snd oc ++ var_marks srcs (snd oc))).

(* freshly parsed sources: tmp = None everywhere *)
Definition fetch_track env canon diff m srcs := fetch_track_marks env canon diff (fun _ => None) m srcs.

(* track_unused_definitions=False *)
Definition fetch env canon diff (m:list obj) (srcs:list (list obj)) : res (list obj) :=
  do oc <- fetch_root env canon diff m srcs; Ok (fst oc).

(* ------------------------------------------------------------------ well-formed input (hypotheses of Proofs/FetchTotal.v) *)
(* every definition carries a primary id (true of parsed documents; variable resolution compares
   ids), and a choice-typed master definition lists its alternatives: its words are not the plain
   None / Auto (choice_converters.fetch asserts it) *)
Definition choice_typed (a:attrs) : bool :=
  match get_attr (s_ "type") a with AType (TyChoice _) => true | _ => false end.
Fixpoint master_obj_ok (o:obj) : bool :=
  match o with
  | Def h ws a =>
      negb (opid h =? 0)%nat &&
      (if choice_typed a then negb (is_plain_none ws) && negb (is_plain_auto ws) else true)
  | Scp _ ks _ => (fix go (l:list obj) : bool :=
                     match l with [] => true | k :: r => master_obj_ok k && go r end) ks
  end.
Fixpoint master_ok (m:list obj) : bool :=
  match m with [] => true | k :: r => master_obj_ok k && master_ok r end.
Definition srcs_ok (srcs:list (list obj)) : bool := forallb defs_have_ids_l srcs.
