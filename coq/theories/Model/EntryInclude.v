(* Wire entry points (sx -> sx) for the include cluster. *)
From Coq Require Import List Ascii String Bool Arith.
From Phil Require Import Base Tree Include.
Import ListNotations.
Local Open Scope char_scope.

(* (cwd p q) -> (isabs p, join p q, normpath p, dirname p, abspath cwd p) *)
Definition run_paths (x:sx) : sx :=
  match x with
  | SL [SA cwd; SA p; SA q] =>
      SL [sx_bool (isabs p); SA (join p q); SA (normpath p); SA (dirname p); SA (abspath cwd p)]
  | _ => sx_bad
  end.

(* file table entry: (path (ok objs)) | (path (bad line)) *)
Definition fent_of_sx (x:sx) : option (str * fent) :=
  match x with
  | SL [SA p; SL [SA k; v]] =>
      if eqs k (s_ "ok") then option_map (fun l => (p, FObjs l)) (objs_of_sx v)
      else if eqs k (s_ "bad") then
        match v with SA ln => option_map (fun n => (p, FBad n)) (nat_of_str ln) | _ => None end
      else None
  | _ => None
  end.
Definition fsys_of_sx (x:sx) : option fsys :=
  match x with SL l => all_some (map fent_of_sx l) | _ => None end.

(* one call = one (cwd, root) pair:
     mode "f": root = file name  : parse(file_name=root, process_includes=True)
     mode "s": root = objs       : parse(input_string=..., process_includes=True) *)
Definition call_one (fs:fsys) (mode:str) (x:sx) : sx :=
  match x with
  | SL [SA cwd; root] =>
      if eqs mode (s_ "f") then
        match root with
        | SA file => sx_res sx_objs (includes_file isc0 fs cwd file)
        | _ => sx_bad end
      else if eqs mode (s_ "s") then
        match objs_of_sx root with
        | Some objs => sx_res sx_objs (includes_string isc0 fs cwd objs)
        | None => sx_bad end
      else sx_bad
  | _ => sx_bad
  end.

(* (mode ((cwd root) ...) table) -> (res objs ...) : the same file table used from several
   current directories *)
Definition run_includes (x:sx) : sx :=
  match x with
  | SL [SA mode; SL calls; table] =>
      match fsys_of_sx table with
      | Some fs => SL (map (call_one fs mode) calls)
      | None => sx_bad
      end
  | _ => sx_bad
  end.
