(* Model of the printer: common.show_attributes, definition.show, scope.show / as_str,
   str(converter) for the built-in types, and the whitespace-only subset of textwrap.wrap. *)
From Coq Require Import List Ascii String Bool Arith ZArith Lia.
From Phil Require Import Base Tokenizer Tree Parser.
Import ListNotations.
Local Open Scope char_scope.

Definition zlen (s:str) : Z := Z.of_nat (length s).
Fixpoint join_with (sep:str) (l:list str) : str :=
  match l with [] => [] | [x] => x | x :: r => x ++ sep ++ join_with sep r end.
Definition spaces (n:nat) : str := repeat " " n.

(* ---------- str(converter) *)
Definition kw (name:string) (v:str) : str := s_ name ++ "=" :: v.
Definition opt_kw (name:string) (o:option Z) : list str :=
  match o with Some z => [kw name (str_of_Z z)] | None => [] end.
Definition with_kwds (name:string) (kwds:list str) : str :=
  match kwds with [] => s_ name | _ => s_ name ++ "(" :: join_with (s_ ", ") kwds ++ [")"] end.
Definition opt_eqb (a b:option Z) : bool :=
  match a, b with None, None => true | Some x, Some y => Z.eqb x y | _, _ => false end.
Definition str_of_ty (t:ty) : str :=
  match t with
  | TyWords => s_ "words" | TyStrings => s_ "strings" | TyStr => s_ "str" | TyQstr => s_ "qstr"
  | TyPath => s_ "path" | TyKey => s_ "key" | TyBool => s_ "bool"
  | TyInt a b n =>
      with_kwds "int" (opt_kw "value_min" a ++ opt_kw "value_max" b ++ [if n then s_ "allow_none=True" else s_ "allow_none=False"])
  | TyInts smin smax a b ne ae =>
      with_kwds "ints"
        ((if opt_eqb smin smax then opt_kw "size" smin else opt_kw "size_min" smin ++ opt_kw "size_max" smax)
         ++ opt_kw "value_min" a ++ opt_kw "value_max" b
         ++ (if ne then [s_ "allow_none_elements=True"] else [])
         ++ (if ae then [s_ "allow_auto_elements=True"] else []))
  | TyChoice m => if m then s_ "choice(multi=True)" else s_ "choice"
  | TyOther p => p
  end.

(* ---------- textwrap.wrap(text, width, expand_tabs=False, break_long_words=False, break_on_hyphens=False):
   the text is broken only at runs of ASCII blanks.  None = outside the modelled subset (a blank that
   only str.strip() treats as such: code points 28-31, 133, 160) or width <= 0 (Python raises ValueError). *)
Definition ascii_ws (c:ascii) : bool := let n := nat_of c in (((9 <=? n) && (n <=? 13)) || (n =? 32))%nat.
Definition wrap_unsupported (c:ascii) : bool :=
  let n := nat_of c in (((28 <=? n) && (n <=? 31)) || (n =? 133) || (n =? 160))%nat.
(* chunks: maximal runs of blanks / non-blanks; blanks are replaced by spaces first *)
Fixpoint chunks (s:str) (cur:str) (cur_ws:bool) : list (bool * str) :=
  match s with
  | [] => match cur with [] => [] | _ => [(cur_ws, rev cur)] end
  | c :: r =>
      let w := ascii_ws c in
      let c' := if w then " " else c in
      match cur with
      | [] => chunks r [c'] w
      | _ => if Bool.eqb w cur_ws then chunks r (c' :: cur) cur_ws
             else (cur_ws, rev cur) :: chunks r [c'] w
      end
  end.
(* fill one line: returns (line chunks reversed, remaining chunks) *)
Fixpoint fill (width:Z) (cur_len:Z) (cs:list (bool*str)) (acc:list (bool*str)) : list (bool*str) * list (bool*str) :=
  match cs with
  | [] => (acc, [])
  | (w, c) :: r => if (cur_len + zlen c <=? width)%Z then fill width (cur_len + zlen c)%Z r ((w, c) :: acc)
                   else (acc, cs)
  end.
Definition drop_trailing_ws (racc:list (bool*str)) : list (bool*str) :=
  match racc with (true, _) :: t => t | _ => racc end.
Fixpoint wrap_lines (fuel:nat) (width:Z) (cs:list (bool*str)) (have_lines:bool) : list str :=
  match fuel with 0%nat => [] | S f =>
  match cs with
  | [] => []
  | _ =>
    let cs1 := match cs with (true, _) :: r => if have_lines then r else cs | _ => cs end in
    match cs1 with
    | [] => []
    | _ =>
      let (racc0, rest0) := fill width 0 cs1 [] in
      (* a chunk longer than the width goes on a line of its own when the current line is empty *)
      let (racc, rest) := match racc0, rest0 with
                          | [], c :: r => if (zlen (snd c) >? width)%Z then ([c], r) else (racc0, rest0)
                          | _, _ => (racc0, rest0) end in
      let racc' := drop_trailing_ws racc in
      match racc' with
      | [] => wrap_lines f width rest have_lines
      | _ => List.concat (map snd (rev racc')) :: wrap_lines f width rest true
      end
    end
  end end.
Definition wrap (text:str) (width:Z) : option (list str) :=
  if (width <=? 0)%Z then None
  else if existsb wrap_unsupported text then None
  else let cs := chunks text [] false in Some (wrap_lines (S (S (length cs * 2))) width cs false).

(* ---------- show_attributes *)
Definition line (s:str) : str := s ++ [nl].
Definition is_level1_attr (n:str) : bool := eqs n (s_ "help") || eqs n (s_ "alias").
Definition py_truthy (v:aval) : bool :=
  match v with
  | ANone => false | AAuto => true | ABool b => b | AInt z => negb (Z.eqb z 0)
  | AStr s => match s with [] => false | _ => true end | AType _ => true end.
Definition str_of_aval_nonstr (v:aval) : str :=
  match v with
  | ANone => s_ "None" | AAuto => s_ "Auto" | ABool true => s_ "True" | ABool false => s_ "False"
  | AInt z => str_of_Z z | AType t => str_of_ty t | AStr s => s end.

Definition show_attr (prefix:str) (name:str) (v:aval) (level:Z) (width:Z) : res str :=
  if eqs name (s_ "deprecated") && negb (py_truthy v) then Ok [] else
  let isnone := match v with ANone => true | _ => false end in
  if (is_level1_attr name && negb isnone) || (negb isnone && (1 <? level)%Z) || (2 <? level)%Z then
    if eqs name (s_ "alias") && isnone then Ok [] else
    let head := prefix ++ s_ "  ." ++ name ++ s_ " = " in
    match v with
    | AStr value =>
        let indent := prefix ++ spaces (3 + length name + 3) in
        let fits := fun (t:str) => (zlen indent + zlen t <? width)%Z in
        let value' := if negb (is_ident value) || eqs (lowers value) (s_ "none") || eqs (lowers value) (s_ "auto")
                                  || negb (fits value) then quote_str Q2 value else value in
        if fits value' then Ok (line (head ++ value'))
        else
          let inner := removelast (drop 1 value') in
          match wrap inner (width - 2 - zlen indent)%Z with
          | None => UErr (s_ "Unmodelled") (s_ "wrap") 0
          | Some blocks0 =>
              let blocks := match blocks0 with [] => [inner] | _ => blocks0 end in
              Ok (List.concat (map (fun ib : nat * str =>
                                 let (i, b) := ib in
                                 line ((if (i =? 0)%nat then head else indent) ++ dq :: b ++ [dq]))
                              (combine (seq 0 (length blocks)) blocks)))
          end
    | _ => Ok (line (head ++ str_of_aval_nonstr v))
    end
  else Ok [].

Fixpoint show_attrs (prefix:str) (names:list str) (a:attrs) (level:Z) (width:Z) : res str :=
  match names with
  | [] => Ok []
  | n :: r => do x <- show_attr prefix n (get_attr n a) level width ;
              do y <- show_attrs prefix r a level width ; Ok (x ++ y)
  end.
Definition show_attributes (prefix:str) (names:list str) (a:attrs) (level:Z) (width:Z) : res str :=
  if (level <=? 0)%Z then Ok [] else show_attrs prefix names a level width.

(* ---------- expert-level gate shared by definition.show and scope.show *)
Definition hidden_by_expert (a:attrs) (expert:option Z) : res bool :=
  match get_attr (s_ "expert_level") a, expert with
  | ANone, _ => Ok false
  | _, None => Ok false
  | AInt own, Some k => Ok ((0 <=? k)%Z && (k <? own)%Z)
  | ABool b, Some k => Ok ((0 <=? k)%Z && (k <? (if b then 1 else 0))%Z)
  | _, Some k => if (0 <=? k)%Z then Crash (s_ "TypeError") else Ok false
  end.

(* ---------- definition.show : the value line(s) *)
Fixpoint show_words (ws:list word) (cur:str) (indent:str) (width:Z) : str :=
  match ws with
  | [] => line cur
  | w :: r =>
      let plus := cur ++ " " :: str_of_word w in
      if (zlen plus >? width - 2)%Z && (length indent <? length cur)%nat && negb (mem nl cur)
      then line (cur ++ s_ " \") ++ show_words r (indent ++ " " :: str_of_word w) indent width
      else show_words r plus indent width
  end.

Definition show_def (h:hdr) (ws:list word) (a:attrs) (merged:list str) (prefix:str)
                    (expert:option Z) (level:Z) (width:Z) : res str :=
  if (otmpl h <? 0)%Z && (level <? 2)%Z then Ok [] else
  if py_truthy (get_attr (s_ "deprecated") a) && (level <? 3)%Z then Ok [] else
  do hid <- hidden_by_expert a expert ;
  if hid then Ok [] else
  let l0 := prefix ++ (if odis h then ["!"] else []) ++ join_with ["."] (merged ++ [oname h])
            ++ (if eqs (oname h) include_w then [] else s_ " =") in
  let indent := prefix ++ spaces (length l0 - length prefix) in
  let warn := if py_truthy (get_attr (s_ "deprecated") a) then line (prefix ++ s_ "# WARNING: deprecated parameter") else [] in
  do at_ <- show_attributes prefix def_attr_names a level width ;
  Ok (warn ++ show_words ws l0 indent width ++ at_).

(* ---------- scope.show *)
Definition first_merges (ks:list obj) : bool := match ks with k :: _ => omerge (ohdr k) | [] => false end.

Fixpoint show_obj (o:obj) (merged:list str) (prefix:str) (expert:option Z) (level:Z) (width:Z) {struct o} : res str :=
  match o with
  | Def h ws a => show_def h ws a merged prefix expert level width
  | Scp h ks a =>
    if (otmpl h <? 0)%Z && (level <? 2)%Z then Ok [] else
    do hid <- hidden_by_expert a expert ;
    if hid then Ok [] else
    let show_kids := fix go (l:list obj) (merged:list str) (prefix:str) : res str :=
        match l with
        | [] => Ok []
        | k :: r => do x <- show_obj k merged prefix expert level width ;
                    do y <- go r merged prefix ; Ok (x ++ y)
        end in
    match oname h with
    | [] => match merged with [] => show_kids ks [] prefix | _ => Crash (s_ "AssertionError") end
    | _ =>
      if first_merges ks then show_kids ks (merged ++ [oname h]) prefix
      else
        do at_ <- show_attributes prefix scope_attr_names a level width ;
        let mname := join_with ["."] (merged ++ [oname h]) in
        let head := prefix ++ (if odis h then ["!"] else []) ++ mname in
        let open := match at_ with
                    | [] => line (head ++ s_ " {")
                    | _ => line head ++ at_ ++ line (prefix ++ ["{"]) end in
        do body <- show_kids ks [] (prefix ++ s_ "  ") ;
        Ok (open ++ body ++ line (prefix ++ ["}"]))
    end
  end.

Fixpoint show_objs (l:list obj) (prefix:str) (expert:option Z) (level:Z) (width:Z) : res str :=
  match l with
  | [] => Ok []
  | k :: r => do x <- show_obj k [] prefix expert level width ;
              do y <- show_objs r prefix expert level width ; Ok (x ++ y)
  end.

Definition default_width : Z := 79.
(* root_scope.as_str(prefix, expert_level, attributes_level, print_width) *)
Definition as_str (l:list obj) (prefix:str) (expert:option Z) (level:Z) (width:option Z) : res str :=
  show_objs l prefix expert level (match width with Some w => w | None => default_width end).
