(* Model of freephil/converters.py class choice_converters: fetch, from_words, as_words, __str__,
   and of tokens.is_plain_none / is_plain_auto.  Control flow mirrors the Python branch by branch;
   the Python dict "flags" is an association list with update-or-append (insertion order is never
   observed by the code except in as_words' "unused" list, where it is the order kept here). *)
From Coq Require Import List Ascii String Bool Arith ZArith Lia.
From Phil Require Import Base Tree.
Import ListNotations.
Local Open Scope char_scope.

(* ---------- Python str primitives used by the converter *)
Definition star : ascii := "*".
Definition plus : ascii := "+".
Definition null (s:str) : bool := match s with [] => true | _ => false end.          (* len(s) == 0 *)
Definition starts_star (s:str) : bool :=                                             (* s.startswith("*") *)
  match s with c :: _ => Ascii.eqb c star | [] => false end.
Definition tail1 (s:str) : str := match s with _ :: r => r | [] => [] end.          (* s[1:] *)
(* "if value.startswith("*"): value = value[1:]  else: value = value" *)
Definition unstar (s:str) : str := if starts_star s then tail1 s else s.

(* s.split(c) for a one-character separator: n separators give n+1 fields *)
Fixpoint split_on (c:ascii) (s:str) : list str :=
  match s with
  | [] => [[]]
  | x :: r =>
      if Ascii.eqb x c then [] :: split_on c r
      else match split_on c r with h :: t => (x :: h) :: t | [] => [[x]] end
  end.

(* s.find(c) : index of the first occurrence, -1 if none *)
Fixpoint find_char (c:ascii) (s:str) : Z :=
  match s with
  | [] => (-1)%Z
  | x :: r => if Ascii.eqb x c then 0%Z
              else let i := find_char c r in if (i <? 0)%Z then (-1)%Z else (i + 1)%Z
  end.

(* s.strip() with no argument: removes leading and trailing isspace characters *)
Fixpoint lstrip (s:str) : str :=
  match s with [] => [] | c :: r => if isspace c then lstrip r else s end.
Definition rstrip (s:str) : str := rev (lstrip (rev s)).
Definition strip (s:str) : str := rstrip (lstrip s).

(* "".join(l) *)
Definition join_empty (l:list str) : str := List.concat l.

(* ---------- tokens.is_plain_none / is_plain_auto *)
Definition is_plain (name:str) (ws:list word) : bool :=
  match ws with
  | [w] => negb (isq w) && eqs (lowers (wv w)) name
  | _ => false
  end.
Definition is_plain_none (ws:list word) : bool := is_plain (s_ "none") ws.
Definition is_plain_auto (ws:list word) : bool := is_plain (s_ "auto") ws.

(* ---------- "master.optional is not None and not master.optional" on an attribute value.
   .optional is assigned by bool_from_words: None, True, False or Auto (Auto is a truthy object);
   the other constructors follow Python truthiness of the value they stand for. *)
Definition aval_truthy (v:aval) : bool :=
  match v with
  | ANone => false | AAuto => true | ABool b => b | AInt z => negb (Z.eqb z 0)
  | AStr s => negb (null s) | AType _ => true
  end.
Definition mandatory (optional:aval) : bool :=
  match optional with ANone => false | v => negb (aval_truthy v) end.

(* ---------- the flags dict *)
Definition flags := list (str * bool).
Fixpoint fget (k:str) (fl:flags) : option bool :=
  match fl with
  | [] => None
  | (k', v) :: r => if eqs k' k then Some v else fget k r
  end.
Definition fhas (k:str) (fl:flags) : bool := match fget k fl with Some _ => true | None => false end.  (* k in flags *)
Fixpoint fset (k:str) (v:bool) (fl:flags) : flags :=                                            (* flags[k] = v *)
  match fl with
  | [] => [(k, v)]
  | (k', v') :: r => if eqs k' k then (k', v) :: r else (k', v') :: fset k v r
  end.

(* for word in master.words: flags[unstarred.lower()] = False ; alternatives.append(unstarred)
   (the list "alternatives" is map (fun w => unstar (wv w)) master, built in choice_fetch_x) *)
Fixpoint init_flags (master:list word) (fl:flags) : flags :=
  match master with
  | [] => fl
  | w :: r => init_flags r (fset (lowers (unstar (wv w))) false fl)
  end.

(* have_quote_or_star / have_plus detection loop, with its break *)
Fixpoint detect (ws:list word) (have_plus:bool) : bool * bool :=
  match ws with
  | [] => (false, have_plus)
  | w :: r =>
      if isq w || starts_star (wv w) then (true, have_plus)
      else detect r (if (0 <=? find_char plus (wv w))%Z then true else have_plus)
  end.

(* for value in values: if len(value.strip()) == 0: break   else: (loop ran to completion) *)
Fixpoint all_nonblank (vals:list str) : bool :=
  match vals with
  | [] => true
  | v :: r => if (length (strip v) =? 0)%nat then false else all_nonblank r
  end.

(* [word.value for word in source_words] == alternatives : equality of two lists of str *)
Fixpoint names_eqb (a b:list str) : bool :=
  match a, b with
  | [], [] => true
  | x :: a', y :: b' => eqs x y && names_eqb a' b'
  | _, _ => false
  end.

(* alts: the list "alternatives" (the star-stripped values of the master words, original case).
   The complete list without a star (what format writes when nothing is selected) is not the
   a+b form, also if names contain "+": have_plus is reset to False. *)
Definition process_plus (alts:list str) (source:list word) : bool :=
  let '(have_quote_or_star, have_plus0) := detect source false in
  let have_plus := if names_eqb (map wv source) alts then false else have_plus0 in
  if negb have_quote_or_star && have_plus then
    all_nonblank (tl (split_on plus (join_empty (map wv source))))
  else false.

(* outcome of the two selection loops: the flags, or raise_not_a_possible_choice(value) at a word *)
Inductive lres := LOk (fl:flags) | LBad (value:str) (line:nat).

(* for value in word.value.split("+"): ... (membership is tested with value.lower()) *)
Fixpoint plus_values (vals:list str) (line:nat) (fl:flags) : lres :=
  match vals with
  | [] => LOk fl
  | v :: r =>
      if null v then plus_values r line fl
      else if negb (fhas (lowers v) fl) then LBad v line
      else plus_values r line (fset (lowers v) true fl)
  end.
Fixpoint plus_loop (ws:list word) (fl:flags) : lres :=
  match ws with
  | [] => LOk fl
  | w :: r =>
      match plus_values (split_on plus (wv w)) (wline w) fl with
      | LOk fl' => plus_loop r fl'
      | bad => bad
      end
  end.

(* the else branch: starred / single bare word / several bare words.
   A name that is not a key never enters the dict: it raises when selected (unless
   ignore_errors) and is skipped otherwise. *)
Fixpoint normal_loop (single ignore_errors:bool) (ws:list word) (fl:flags) : lres :=
  match ws with
  | [] => LOk fl
  | w :: r =>
      let value := unstar (wv w) in
      let flag := if starts_star (wv w) then true else single in
      if negb (fhas (lowers value) fl) then
        if flag && negb ignore_errors then LBad value (wline w)
        else normal_loop single ignore_errors r fl
      else normal_loop single ignore_errors r (fset (lowers value) flag fl)
  end.

(* result of fetch.  The Sorry "Not a possible choice" carries the offending value, the line of
   the source word being processed and the list printed under "Possible choices are:" *)
Inductive fres :=
  | FOk (ws:list word)
  | FNotAChoice (value:str) (line:nat) (alts:list str)
  | FCrash (c:str).

(* final loop: master words with stars recomputed; flags[value.lower()] is a dict lookup *)
Fixpoint rebuild (master:list word) (fl:flags) : fres :=
  match master with
  | [] => FOk []
  | w :: r =>
      let value := unstar (wv w) in
      match fget (lowers value) fl with
      | None => FCrash (s_ "KeyError")
      | Some b =>
          match rebuild r fl with
          | FOk ws => FOk (mkword (if b then star :: value else value) (wq w) (wline w) :: ws)
          | other => other
          end
      end
  end.

Definition choice_fetch_x (optional:aval) (master source:list word) (ignore_errors:bool) : fres :=
  if is_plain_none master then FCrash (s_ "AssertionError")
  else if is_plain_auto master then FCrash (s_ "AssertionError")
  else if is_plain_auto source then FOk [uw (s_ "Auto")]
  else
    let fl0 := init_flags master [] in
    let alternatives := map (fun w => unstar (wv w)) master in
    let sel :=
      if mandatory optional || negb (is_plain_none source) then
        if process_plus alternatives source then plus_loop source fl0
        else normal_loop (length source =? 1)%nat ignore_errors source fl0
      else LOk fl0 in
    match sel with
    | LBad v l => FNotAChoice v l (map wv master)
    | LOk fl => rebuild master fl
    end.

Definition res_of_fres (r:fres) : res (list word) :=
  match r with
  | FOk ws => Ok ws
  | FNotAChoice v l _ => UErr (s_ "NotAChoice") v l
  | FCrash c => Crash c
  end.

(* choice_converters.fetch: the words of the returned definition *)
Definition choice_fetch (optional:aval) (master source:list word) (ignore_errors:bool) : res (list word) :=
  res_of_fres (choice_fetch_x optional master source ignore_errors).

(* ---------- from_words *)
Inductive pyv := PNone | PAuto | PStr (s:str) | PList (l:list str).

Fixpoint starred_names (ws:list word) : list str :=
  match ws with
  | [] => []
  | w :: r => if starts_star (wv w) then tail1 (wv w) :: starred_names r else starred_names r
  end.

(* words[0].where_str() inside an error message *)
Definition first_line (ws:list word) : res nat :=
  match ws with w :: _ => Ok (wline w) | [] => Crash (s_ "IndexError") end.

Fixpoint single_loop (ws all:list word) (result:option str) : res (option str) :=
  match ws with
  | [] => Ok result
  | w :: r =>
      if starts_star (wv w) then
        match result with
        | Some _ => do l <- first_line all ; UErr (s_ "MultipleChoices") [] l
        | None => single_loop r all (Some (tail1 (wv w)))
        end
      else single_loop r all result
  end.

Definition choice_from_words (multi:bool) (optional:aval) (ws:list word) : res pyv :=
  if is_plain_auto ws then Ok PAuto
  else if multi then
    let result := starred_names ws in
    if (length result =? 0)%nat && mandatory optional then
      do l <- first_line ws ; UErr (s_ "UnspecifiedChoice") [] l
    else Ok (PList result)
  else
    do result <- single_loop ws ws None ;
    match result with
    | None => if mandatory optional then do l <- first_line ws ; UErr (s_ "UnspecifiedChoice") [] l
              else Ok PNone
    | Some s => Ok (PStr s)
    end.

(* ---------- as_words *)
(* iterating python_object to build use_flags: a list gives its items, a str its characters *)
Definition pyv_items (v:pyv) : list str :=
  match v with PList l => l | PStr s => map (fun c => [c]) s | _ => [] end.
Definition pyv_is_none (v:pyv) : bool := match v with PNone => true | _ => false end.
(* value == python_object, value a str *)
Definition pyv_eq_str (v:pyv) (s:str) : bool := match v with PStr t => eqs s t | _ => false end.

(* single: state n_choices ; returns the words and the final n_choices *)
Fixpoint aw_single (m all:list word) (v:pyv) (n:nat) : res (list word * nat) :=
  match m with
  | [] => Ok ([], n)
  | w :: r =>
      let value := unstar (wv w) in
      if negb (pyv_is_none v) && pyv_eq_str v value then
        let n' := S n in
        if (1 <? n')%nat then do l <- first_line all ; UErr (s_ "ImproperMaster") [] l
        else do (ws, nf) <- aw_single r all v n' ; Ok (mkword (star :: value) (wq w) 0 :: ws, nf)
      else do (ws, nf) <- aw_single r all v n ; Ok (mkword value (wq w) 0 :: ws, nf)
  end.

(* multi: state (use_flags, n_choices) *)
Fixpoint aw_multi (m all:list word) (uf:flags) (n:nat) : res (list word * flags * nat) :=
  match m with
  | [] => Ok ([], uf, n)
  | w :: r =>
      let value := unstar (wv w) in
      match fget value uf with
      | Some used =>
          if used then do l <- first_line all ; UErr (s_ "ImproperMaster") [] l
          else do (ws, uf', nf) <- aw_multi r all (fset value true uf) (S n) ;
               Ok (mkword (star :: value) (wq w) 0 :: ws, uf', nf)
      | None => do (ws, uf', nf) <- aw_multi r all uf n ; Ok (mkword value (wq w) 0 :: ws, uf', nf)
      end
  end.

Definition choice_as_words (multi:bool) (optional:aval) (master:list word) (v:pyv) : res (list word) :=
  match v with
  | PAuto => Ok [uw (s_ "Auto")]
  | _ =>
    if multi && pyv_is_none v then Crash (s_ "AssertionError")
    else if negb multi then
      do (ws, n) <- aw_single master master v 0 ;
      if (n =? 0)%nat && (mandatory optional || negb (pyv_is_none v)) then UErr (s_ "InvalidChoice") [] 0
      else Ok ws
    else
      let uf0 := fold_left (fun fl k => fset k false fl) (pyv_items v) [] in
      do (ws, uf, n) <- aw_multi master master uf0 0 ;
      let unused := filter (fun kv => negb (snd kv)) uf in
      if negb (length unused =? 0)%nat then UErr (s_ "InvalidChoice") [] 0
      else if (n =? 0)%nat && mandatory optional then UErr (s_ "EmptyMandatory") [] 0
      else Ok ws
  end.

(* choice_converters.__str__ *)
Definition choice_str (multi:bool) : str := if multi then s_ "choice(multi=True)" else s_ "choice".

(* ---------- wire codecs of this file's types *)
Definition sx_fres (r:fres) : sx :=
  match r with
  | FOk ws => SL [SA (s_ "ok"); sx_words ws]
  | FNotAChoice v l alts => SL [SA (s_ "notachoice"); SA v; sx_nat l; SL (map SA alts)]
  | FCrash c => SL [SA (s_ "crash"); SA c]
  end.
Definition sx_pyv (v:pyv) : sx :=
  match v with
  | PNone => SL [SA (s_ "none")] | PAuto => SL [SA (s_ "auto")]
  | PStr s => SL [SA (s_ "str"); SA s] | PList l => SL [SA (s_ "list"); SL (map SA l)]
  end.
Definition str_of_sx (x:sx) : option str := match x with SA s => Some s | _ => None end.
Definition pyv_of_sx (x:sx) : option pyv :=
  match x with
  | SL [SA k] => if eqs k (s_ "none") then Some PNone else if eqs k (s_ "auto") then Some PAuto else None
  | SL [SA k; SA s] => if eqs k (s_ "str") then Some (PStr s) else None
  | SL [SA k; SL l] => if eqs k (s_ "list") then option_map PList (all_some (map str_of_sx l)) else None
  | _ => None
  end.
