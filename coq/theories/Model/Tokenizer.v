(* Model of freephil/tokenizer.py: escape/quote, character_iterator.scan_for_start,
   word_iterator.__next__ for an arbitrary settings record, tokenize_value_literal.
   Control flow mirrors the Python branch by branch; the iterator state is (rest, line). *)
From Coq Require Import List Ascii String Bool Arith Lia.
From Phil Require Import Base.
Import ListNotations.
Local Open Scope char_scope.

(* ---------- escape_python_str / quote_python_str / word.__str__ *)
Fixpoint escape (q:ascii) (s:str) : str :=
  match s with
  | [] => []
  | c :: r => if Ascii.eqb c bs then bs :: bs :: escape q r
              else if Ascii.eqb c q then bs :: q :: escape q r
              else c :: escape q r
  end.
Definition qchar (q:quote) : ascii := match q with Q1 | Q3s => sq | _ => dq end.
Definition qtoken (q:quote) : str :=
  match q with QN => [] | Q1 => [sq] | Q2 => [dq] | Q3s => [sq;sq;sq] | Q3d => [dq;dq;dq] end.
Definition quote_str (q:quote) (s:str) : str :=
  match q with QN => s | _ => qtoken q ++ escape (qchar q) s ++ qtoken q end.
Definition str_of_word (w:word) : str := quote_str (wq w) (wv w).

(* ---------- settings *)
Record settings := mksettings {
  single : str;            (* unquoted_single_character_words *)
  contig : str;            (* contiguous_word_characters; [] = "" = any *)
  embq : bool;             (* enable_unquoted_embedded_quotes *)
  comment : str;           (* comment_characters *)
  meta : option str }.     (* meta_comment *)

(* ---------- quoted body.  inl (value, rest, line after) | inr line = missing closing quote *)
Definition sres := (str * str * nat + nat)%type.
Definition scons (x:ascii) (r:sres) : sres :=
  match r with inl (v, r', l') => inl (x :: v, r', l') | other => other end.
Fixpoint scan (triple:bool) (q:ascii) (s:str) (line:nat) : sres :=
  match s with
  | [] => inr line
  | c :: r =>
    let line1 := bump c line in
    if Ascii.eqb c q then
      if negb triple then inl ([], r, line1)
      else match r with
           | q1 :: q2 :: r' => if Ascii.eqb q1 q && Ascii.eqb q2 q then inl ([], r', line1)
                               else scons c (scan triple q r line1)
           | _ => scons c (scan triple q r line1)
           end
    else if Ascii.eqb c bs then
      match r with
      | d :: r' =>
        if Ascii.eqb d bs then scons bs (scan triple q r' line1)
        else if Ascii.eqb d q then scons q (scan triple q r' (bump d line1))
        else if Ascii.eqb d nl then scan triple q r' (S line1)
        else scons c (scan triple q r line1)
      | [] => scons c (scan triple q r line1)
      end
    else scons c (scan triple q r line1)
  end.

(* ---------- unquoted continuation: characters after the first *)
Definition contig_any (σ:settings) : bool := match contig σ with [] => true | _ => false end.
Fixpoint take (σ:settings) (s:str) : str * str :=
  match s with
  | [] => ([], [])
  | c :: r =>
    if isspace c then ([], s)
    else if mem c (single σ) then ([], s)
    else if negb (contig_any σ) && negb (mem c (contig σ))
            && (negb (embq σ) || negb (Ascii.eqb c dq || Ascii.eqb c sq)) then ([], s)
    else let (w, r') := take σ r in (c :: w, r')
  end.

Inductive tokres := TEnd | TWord (w:word) (rest:str) (line:nat) | TErrQuote (line:nat).

Definition quoted_word (triple:bool) (c:ascii) (body:str) (line1:nat) : tokres :=
  match scan triple c body line1 with
  | inl (v, r'', l') =>
      TWord (mkword v (if triple then (if Ascii.eqb c dq then Q3d else Q3s)
                       else (if Ascii.eqb c dq then Q2 else Q1)) line1) r'' l'
  | inr l => TErrQuote l
  end.

(* word_iterator.__next__ : incomment = inside a # comment, skipping to end of line *)
Fixpoint nw (σ:settings) (incomment:bool) (s:str) (line:nat) : tokres :=
  match s with
  | [] => TEnd
  | c :: r =>
    let line1 := bump c line in
    if incomment then nw σ (negb (Ascii.eqb c nl)) r line1
    else if isspace c then nw σ false r line1
    else if mem c (comment σ)
            && (match meta σ with None => true | Some m => negb (prefixb m r) end)
      then nw σ true r line1
    else if Ascii.eqb c dq || Ascii.eqb c sq then
      match r with
      | q1 :: q2 :: r' =>
        if Ascii.eqb q1 c && Ascii.eqb q2 c then quoted_word true c r' line1
        else quoted_word false c r line1
      | _ => quoted_word false c r line1
      end
    else
      if negb (mem c (single σ)) && (contig_any σ || mem c (contig σ)) then
        let (w, r') := take σ r in TWord (mkword (c :: w) QN line1) r' line1
      else TWord (mkword [c] QN line1) r line1
  end.

(* the three settings records freephil uses *)
Definition s0 : settings := mksettings ["{";"}";"="] [] true ["#"] (Some ["p";"h";"i";"l"]).
Definition s1 : settings := mksettings ["{";"}";";"] [] true [] None.
Definition sv : settings := mksettings [] [] true [] None.
Definition default_contig : str :=
  s_ "ABCDEFGHIJKLMNOPQRSTUVWXYZabcdefghijklmnopqrstuvwxyz0123456789_".
Definition sdef : settings := mksettings [] default_contig true [] None.

(* list(word_iterator(s, settings)) ; fuel = length + 1 *)
Fixpoint all_words (fuel:nat) (σ:settings) (s:str) (line:nat) : res (list word) :=
  match fuel with
  | 0%nat => Crash (s_ "OutOfFuel")
  | S f =>
    match nw σ false s line with
    | TEnd => Ok []
    | TErrQuote l => UErr (s_ "MissingClosingQuote") [] l
    | TWord w r l => do ws <- all_words f σ r l ; Ok (w :: ws)
    end
  end.
Definition tokenize (σ:settings) (s:str) : res (list word) := all_words (S (length s)) σ s 1.
Definition tokenize_value_literal (s:str) : res (list word) := tokenize sv s.

(* ---------- character_iterator.scan_for_start(intro="#phil", followups=["__END__","__ON__"])
   returns (rest, line, Some followup-index) ; None = out of fuel (never, see proofs) *)
Definition intro : str := s_ "#phil".
Definition f_end : str := s_ "__END__".
Definition f_on  : str := s_ "__ON__".
Definition f_off : str := s_ "__OFF__".
Fixpoint skip_nonspace (s:str) : str :=
  match s with [] => [] | c :: r => if isspace c then s else skip_nonspace r end.
(* blanks other than newline (the repaired scanner stops at the end of the line) *)
Fixpoint skip_space (s:str) : str :=
  match s with [] => [] | c :: r => if isspace c && negb (Ascii.eqb c nl) then skip_space r else s end.
(* after a followup matched: Python returns at newline or EOF (true), breaks having consumed a non-blank (false) *)
Fixpoint after_followup (s:str) (line:nat) : (str * nat * bool) :=
  match s with
  | [] => ([], line, true)
  | c :: r => if Ascii.eqb c nl then (r, S line, true)
              else if isspace c then after_followup r line
              else (r, line, false)
  end.
(* the newline-run part of the scanner; [k] continues the outer scan (it is [sfs f] below) *)
Fixpoint nlrun (k : str -> nat -> str * nat * option nat) (g:nat) (t:str) (ln:nat) {struct g}
  : str * nat * option nat :=
  match g with 0%nat => (t, ln, None) | S g' =>
  match t with
  | [] => ([], ln, Some 0%nat)
  | _ :: t1 =>
    let ln1 := S ln in
    match t1 with
    | [] => ([], ln1, Some 0%nat)
    | d :: _ =>
      if Ascii.eqb d nl then nlrun k g' t1 ln1
      else if negb (prefixb intro t1) then k (drop 1 t1) ln1
      else
        let t2 := drop (length intro) t1 in
        let t3 := skip_nonspace t2 in
        match t3 with [] => ([], ln1, Some 0%nat) | _ =>
        let t4 := skip_space t3 in
        match t4 with [] => ([], ln1, Some 0%nat) | _ =>
        if prefixb f_end t4 then
          let '(t5, ln5, returned) := after_followup (drop (length f_end) t4) ln1 in
          if returned then (t5, ln5, Some 0%nat) else k t5 ln5
        else if prefixb f_on t4 then
          let '(t5, ln5, returned) := after_followup (drop (length f_on) t4) ln1 in
          if returned then (t5, ln5, Some 1%nat) else k t5 ln5
        else k t4 ln1
        end end
    end
  end end.
Fixpoint sfs (fuel:nat) (s:str) (line:nat) : str * nat * option nat :=
  match fuel with 0%nat => (s, line, None) | S f =>
  match s with
  | [] => ([], line, Some 0%nat)
  | c :: r =>
    if negb (Ascii.eqb c nl) then sfs f r line
    else nlrun (sfs f) (S (length s)) s line
  end end.
