(* Wire entry points (sx -> sx) for the tokenizer cluster. *)
From Coq Require Import List Ascii String Bool Arith.
From Phil Require Import Base Tokenizer.
Import ListNotations.
Local Open Scope char_scope.

Definition settings_of_code (s:str) : option settings :=
  match s with
  | ["0"] => Some s0 | ["1"] => Some s1 | ["v"] => Some sv | ["d"] => Some sdef | _ => None end.

(* (settings-code text) -> res (list word) *)
Definition run_tokenize (x:sx) : sx :=
  match x with
  | SL [SA code; SA text] =>
      match settings_of_code code with
      | Some σ => sx_res sx_words (tokenize σ text)
      | None => sx_bad end
  | _ => sx_bad
  end.

(* (quote-code text) -> quoted text *)
Definition run_quote (x:sx) : sx :=
  match x with
  | SL [SA q; SA text] =>
      match quote_of_code q with Some q' => SA (quote_str q' text) | None => sx_bad end
  | _ => sx_bad
  end.

(* text -> (rest-length line followup) of scan_for_start applied at line 1 *)
Definition run_sfs (x:sx) : sx :=
  match x with
  | SA text =>
      let '(r, l, f) := sfs (S (length text)) text 1 in
      SL [sx_nat (length r); sx_nat l; match f with Some n => sx_nat n | None => SA (s_ "fuel") end]
  | _ => sx_bad
  end.

(* character classes, all 256 code points: isspace and lower tables *)
Fixpoint upto (n:nat) : list nat := match n with 0 => [] | S m => upto m ++ [m] end.
Definition run_chartable (_:sx) : sx :=
  SL (map (fun n => let c := ascii_of_nat n in SL [sx_bool (isspace c); SA [lower c]]) (upto 256)).
