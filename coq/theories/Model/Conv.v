(* Numeric / bool converters of freephil/converters.py (bool, int, float, ints, floats):
   from_words and as_words with every constructor argument, written branch by branch after
   the Python.  Oracles (explicit arguments):
     pyeval : str -> option evr   result class of eval(value_string, math.__dict__, {}),
                                  None = the harness did not supply an answer (OracleMissing)
     fmt10g : num -> option str   "%.10g" % x for a float x (as_words of float types only)
   Python numbers are the type num; comparisons are exact (int against float included). *)
From Coq Require Import List Ascii String Bool Arith ZArith Lia.
From Phil Require Import Base.
Import ListNotations.
Local Open Scope char_scope.

(* ---------------------------------------------------------------- numbers *)
(* NFlt m e = the finite float m * 2^e (canonical: m odd, or m = 0 and e = 0 for +0.0);
   NNegZero = -0.0; NBool = Python bool (a subclass of int: isinstance(True, int)). *)
Inductive num :=
  | NInt (z:Z) | NFlt (m e:Z) | NNegZero | NInf (neg:bool) | NNaN | NBool (b:bool).

Definition b2z (b:bool) : Z := if b then 1%Z else 0%Z.

(* extended reals for the exact order *)
Inductive xr := XFin (m e:Z) | XPos | XNeg | XNan.
Definition xr_of (n:num) : xr :=
  match n with
  | NInt z => XFin z 0 | NFlt m e => XFin m e | NNegZero => XFin 0 0
  | NInf true => XNeg | NInf false => XPos | NNaN => XNan | NBool b => XFin (b2z b) 0
  end.
Definition fin_cmp (m1 e1 m2 e2:Z) : comparison :=
  let e := Z.min e1 e2 in Z.compare (m1 * 2 ^ (e1 - e)) (m2 * 2 ^ (e2 - e)).
Definition xr_lt (a b:xr) : bool :=
  match a with
  | XFin m1 e1 =>
      match b with
      | XFin m2 e2 => match fin_cmp m1 e1 m2 e2 with Lt => true | _ => false end
      | XPos => true | XNeg => false | XNan => false end
  | XPos => false
  | XNeg => match b with XFin _ _ => true | XPos => true | XNeg => false | XNan => false end
  | XNan => false
  end.
Definition xr_le (a b:xr) : bool :=
  match a with
  | XFin m1 e1 =>
      match b with
      | XFin m2 e2 => match fin_cmp m1 e1 m2 e2 with Gt => false | _ => true end
      | XPos => true | XNeg => false | XNan => false end
  | XPos => match b with XPos => true | _ => false end
  | XNeg => match b with XNan => false | _ => true end
  | XNan => false
  end.
(* Python  a < b  and  a <= b  on numbers (any comparison with NaN is False) *)
Definition num_lt (a b:num) : bool := xr_lt (xr_of a) (xr_of b).
Definition num_le (a b:num) : bool := xr_le (xr_of a) (xr_of b).

(* canonical form of m * 2^e *)
Fixpoint pos_tz (p:positive) : positive * Z :=
  match p with xO q => let '(r, k) := pos_tz q in (r, (k + 1)%Z) | _ => (p, 0%Z) end.
Definition norm_flt (m e:Z) : num :=
  match m with
  | Z0 => NFlt 0 0
  | Zpos p => let '(r, k) := pos_tz p in NFlt (Zpos r) (e + k)
  | Zneg p => let '(r, k) := pos_tz p in NFlt (Zneg r) (e + k)
  end.

(* float(z) for a Python int: correctly rounded to 53 bits, ties to even; OverflowError
   when the rounded value needs an exponent beyond binary64 *)
Definition float_of_Z (z:Z) : res num :=
  if (z =? 0)%Z then Ok (NFlt 0 0) else
  let a := Z.abs z in
  let n := (Z.log2 a + 1)%Z in
  if (n <=? 53)%Z then Ok (norm_flt z 0) else
  let sh := (n - 53)%Z in
  let q := Z.shiftr a sh in
  let r := (a - Z.shiftl q sh)%Z in
  let half := (2 ^ (sh - 1))%Z in
  let q' := if (half <? r)%Z || ((r =? half)%Z && Z.odd q) then (q + 1)%Z else q in
  if (1024 <? Z.log2 q' + 1 + sh)%Z then Crash (s_ "OverflowError")
  else Ok (norm_flt (Z.sgn z * q') sh).

(* value of a finite float as an integer when it is one: round(x) == x, then int(x) *)
Definition flt_integral (m e:Z) : option Z :=
  if (0 <=? e)%Z then Some (m * 2 ^ e)%Z
  else if (m mod 2 ^ (- e) =? 0)%Z then Some (m / 2 ^ (- e))%Z else None.
(* int(x): truncation toward zero, used by "%d" % x *)
Definition flt_trunc (m e:Z) : Z :=
  if (0 <=? e)%Z then (m * 2 ^ e)%Z else Z.quot m (2 ^ (- e)).

(* CPython refuses int <-> decimal text conversions beyond 4300 digits (ValueError) *)
Definition too_many_digits (z:Z) : bool :=
  let a := Z.abs z in
  if (Z.log2 a <? 14000)%Z then false else (10 ^ 4300 <=? a)%Z.

(* hex(z) of Python: 0x / -0x and lower-case digits *)
Fixpoint pos_bits (p:positive) : list bool :=           (* least significant first *)
  match p with xH => [true] | xO q => false :: pos_bits q | xI q => true :: pos_bits q end.
Definition hexchar (a b c d:bool) : ascii :=             (* a = least significant *)
  let n := ((if a then 1 else 0) + (if b then 2 else 0) + (if c then 4 else 0) + (if d then 8 else 0))%nat in
  ascii_of_nat (if (n <? 10)%nat then 48 + n else 87 + n).
Fixpoint nibbles (l:list bool) (acc:str) : str :=
  match l with
  | a :: b :: c :: d :: r => nibbles r (hexchar a b c d :: acc)
  | [a; b; c] => hexchar a b c false :: acc
  | [a; b] => hexchar a b false false :: acc
  | [a] => hexchar a false false false :: acc
  | [] => acc
  end.
Definition hex_of_Z (z:Z) : str :=
  match z with
  | Z0 => ["0"]
  | Zpos p => nibbles (pos_bits p) []
  | Zneg p => "-" :: nibbles (pos_bits p) []
  end.
Definition py_hex (z:Z) : str :=
  match z with
  | Zneg p => "-" :: "0" :: "x" :: nibbles (pos_bits p) []
  | _ => "0" :: "x" :: hex_of_Z z
  end.

(* int_converters._value_as_str / ints_converters._value_as_str:
     try: "%d" % x   except (OverflowError, ValueError): hex(x) if isinstance(x, int) else str(x)
   "%d" fails for an int beyond the digit limit (-> hex) and for inf / nan (-> str).  "%d" % float
   truncates; it could only fail for a float of more than 4300 digits, which no binary64 value has:
   the model refuses such an NFlt (NotBinary64) instead of inventing str(x). *)
Definition fmt_d_ok (n:num) : res unit :=
  match n with
  | NFlt m e => if too_many_digits (flt_trunc m e) then Crash (s_ "NotBinary64") else Ok tt
  | _ => Ok tt
  end.
Definition fmt_d (n:num) : res str :=
  match n with
  | NInt z => Ok (if too_many_digits z then py_hex z else str_of_Z z)
  | NBool b => Ok (str_of_Z (b2z b))
  | NFlt m e => let z := flt_trunc m e in
                if too_many_digits z then Crash (s_ "NotBinary64") else Ok (str_of_Z z)
  | NNegZero => Ok (str_of_Z 0)
  | NInf neg => Ok (if neg then s_ "-inf" else s_ "inf")
  | NNaN => Ok (s_ "nan")
  end.

(* as a float: float(x) for ints and bools, identity on floats *)
Definition as_float (n:num) : res num :=
  match n with
  | NInt z => float_of_Z z
  | NBool b => Ok (norm_flt (b2z b) 0)
  | _ => Ok n
  end.

(* ---------------------------------------------------------------- strings *)
Fixpoint lstrip (s:str) : str :=
  match s with c :: r => if isspace c then lstrip r else s | [] => [] end.
Definition strip (s:str) : str := rev (lstrip (rev (lstrip s))).   (* str.strip() *)

Fixpoint join_sp (l:list str) : str :=                             (* " ".join(l) *)
  match l with
  | [] => []
  | a :: r => match r with [] => a | _ => a ++ " " :: join_sp r end
  end.

(* str.split(): maximal runs of non-whitespace *)
Fixpoint split_go (s:str) (cur:str) : list str :=
  match s with
  | [] => match cur with [] => [] | _ => [rev cur] end
  | c :: r =>
      if isspace c then match cur with [] => split_go r [] | _ => rev cur :: split_go r [] end
      else split_go r (c :: cur)
  end.
Definition split_ws (s:str) : list str := split_go s [].

(* int(s) for a str s, base 10.  CPython: code points >= 127 that are whitespace become blanks,
   then C isspace (9-13, 32) is skipped on both sides: \x1c-\x1f are NOT skipped although
   str.isspace holds for them.  Optional sign, digits with single underscores between digits,
   at most 4300 digits. *)
Definition int_space (c:ascii) : bool :=
  let n := nat_of c in
  (((9 <=? n) && (n <=? 13)) || (n =? 32) || (n =? 133) || (n =? 160))%nat.
Fixpoint skip_int_space (s:str) : str :=
  match s with c :: r => if int_space c then skip_int_space r else s | [] => [] end.
(* the digits (most significant last in [acc]) and the rest; None on a misplaced underscore *)
Fixpoint int_scan (s:str) (acc:list Z) (after_us:bool) : option (list Z * str) :=
  match s with
  | c :: r =>
      match digit_of c with
      | Some d => int_scan r (d :: acc) false
      | None =>
          if Ascii.eqb c "_" then (if after_us then None else int_scan r acc true)
          else if after_us then None else Some (acc, s)
      end
  | [] => if after_us then None else Some (acc, [])
  end.
(* value of a digit list, least significant first *)
Fixpoint digits_value (l:list Z) : Z :=
  match l with [] => 0%Z | d :: r => (d + 10 * digits_value r)%Z end.
Definition py_int_of_str (s:str) : option Z :=
  let s1 := skip_int_space s in
  let '(neg, s2) :=
    match s1 with
    | c :: r => if Ascii.eqb c "-" then (true, r) else if Ascii.eqb c "+" then (false, r) else (false, s1)
    | [] => (false, [])
    end in
  match s2 with
  | c :: _ =>
      match digit_of c with
      | None => None
      | Some _ =>
          match int_scan s2 [] false with
          | Some (ds, rest) =>
              match skip_int_space rest with
              | [] => if (4300 <? Z.of_nat (length ds))%Z then None
                      else let v := digits_value ds in Some (if neg then (- v)%Z else v)
              | _ => None
              end
          | None => None
          end
      end
  | [] => None
  end.

(* ---------------------------------------------------------------- values *)
(* what eval(value_string, math.__dict__, {}) did *)
Inductive evr := ENum (n:num) | ENone | EAuto | EOther | ERaise.
(* result of number_from_value_string *)
Inductive nv := VNone | VAuto | VNum (n:num) | VOther.
(* extracted Python values *)
Inductive pyv := PNone | PAuto | PNum (n:num) | PList (l:list pyv).
(* result of int_from_words / float_from_words *)
Inductive sv := SVNone | SVAuto | SVNum (n:num).
(* result of str_from_words *)
Inductive sfw := SNone | SAuto | SStr (s:str).

(* converter instances after __init__ *)
Record nconv := mknconv { vmin : option num; vmax : option num; allow_none : bool }.
Record lconv := mklconv { smin : option Z; smax : option Z; lvmin : option num; lvmax : option num;
                          none_el : bool; auto_el : bool }.
Inductive cty := CBool | CInt (c:nconv) | CFloat (c:nconv) | CInts (c:lconv) | CFloats (c:lconv).

(* number_converters_base.__init__ / numbers_converters_base.__init__ (the asserts) *)
Definition number_init (lo hi:option num) (an:bool) : res nconv :=
  match lo, hi with
  | Some a, Some b => if num_le a b then Ok (mknconv lo hi an) else Crash (s_ "AssertionError")
  | _, _ => Ok (mknconv lo hi an)
  end.
Definition pos_or_none (o:option Z) : bool := match o with Some z => (0 <? z)%Z | None => true end.
Definition numbers_init (size smin' smax':option Z) (lo hi:option num) (ne ae:bool) : res lconv :=
  let sizes : res (option Z * option Z) :=
    match size with
    | Some n =>
        match smin', smax' with
        | None, None => if (0 <? n)%Z then Ok (Some n, Some n) else Crash (s_ "AssertionError")
        | _, _ => Crash (s_ "AssertionError")
        end
    | None =>
        if negb (pos_or_none smin') then Crash (s_ "AssertionError")
        else if negb (pos_or_none smax') then Crash (s_ "AssertionError")
        else match smin', smax' with
             | Some a, Some b => if (a <=? b)%Z then Ok (smin', smax') else Crash (s_ "AssertionError")
             | _, _ => Ok (smin', smax')
             end
    end in
  do ab <- sizes;
  match lo, hi with
  | Some a, Some b =>
      if num_le a b then Ok (mklconv (fst ab) (snd ab) lo hi ne ae) else Crash (s_ "AssertionError")
  | _, _ => Ok (mklconv (fst ab) (snd ab) lo hi ne ae)
  end.

(* words[0].where_str() in an error message: IndexError on an empty word list *)
Definition err_at {A} (ws:list word) (kind:string) (tok:str) : res A :=
  match ws with [] => Crash (s_ "IndexError") | w :: _ => UErr (s_ kind) tok (wline w) end.
(* the local where_str() helpers: words=None gives "" *)
Definition err_at_opt {A} (ows:option (list word)) (kind:string) (tok:str) : res A :=
  match ows with None => UErr (s_ kind) tok 0 | Some ws => err_at ws kind tok end.

Fixpoint map_res {A B} (f:A -> res B) (l:list A) : res (list B) :=
  match l with
  | [] => Ok []
  | a :: r => do b <- f a; do bs <- map_res f r; Ok (b :: bs)
  end.

Definition none_s : str := s_ "none".
Definition auto_s : str := s_ "auto".
Definition falses : list str := [s_ "false"; s_ "no"; s_ "off"; s_ "0"].
Definition trues : list str := [s_ "true"; s_ "yes"; s_ "on"; s_ "1"].

(* tokens.is_plain_none / is_plain_auto *)
Definition is_plain (what:str) (ws:list word) : bool :=
  match ws with
  | [w] => negb (isq w) && eqs (lowers (wv w)) what
  | _ => false
  end.
Definition str_from_words (ws:list word) : sfw :=
  if is_plain none_s ws then SNone
  else if is_plain auto_s ws then SAuto
  else SStr (join_sp (map wv ws)).

Definition bool_from_words (ws:list word) : res pyv :=
  match str_from_words ws with
  | SNone => Ok PNone
  | SAuto => Ok PAuto
  | SStr s =>
      let l := lowers s in
      if mems l falses then Ok (PNum (NBool false))
      else if mems l trues then Ok (PNum (NBool true))
      else match ws with
           | [] => Crash (s_ "AssertionError")       (* assert len(words) > 0 *)
           | w :: _ => UErr (s_ "NotBool") s (wline w)
           end
  end.

(* ---- bracket stripping loop of numbers_from_words *)
Definition starts (o:ascii) (s:str) : bool := match s with c :: _ => Ascii.eqb c o | [] => false end.
Definition ends (c:ascii) (s:str) : bool := starts c (rev s).
Definition mid (s:str) : str := removelast (tl s).                      (* s[1:-1] *)
(* while s.startswith(o) and s.endswith(c): s = s[1:-1].strip() ; flag = a change happened *)
Fixpoint strip_pair (o c:ascii) (fuel:nat) (s:str) : str * bool :=
  match fuel with
  | O => (s, false)
  | S f => if starts o s && ends c s then (fst (strip_pair o c f (strip (mid s))), true) else (s, false)
  end.
Fixpoint unbracket (fuel:nat) (s:str) : str :=
  match fuel with
  | O => s
  | S f =>
      let '(s1, b1) := strip_pair "(" ")" (length s) s in
      let '(s2, b2) := strip_pair "[" "]" (length s1) s1 in
      if b1 || b2 then unbracket f s2 else s2
  end.
Definition sepfix (c:ascii) : ascii := if Ascii.eqb c "," || Ascii.eqb c ";" then " " else c.
(* the value strings of a list text *)
Definition list_tokens (s:str) : list str := split_ws (map sepfix (unbracket (S (length s)) s)).

(* ---- truthiness for bool as_words *)
Definition num_is_zero (n:num) : bool :=
  match n with
  | NInt z => (z =? 0)%Z | NFlt m _ => (m =? 0)%Z | NNegZero => true
  | NInf _ => false | NNaN => false | NBool b => negb b
  end.
Definition truthy (v:pyv) : bool :=
  match v with
  | PNone => false | PAuto => true | PNum n => negb (num_is_zero n)
  | PList l => match l with [] => false | _ => true end
  end.

(* whether _value_as_str(x) returns (its text is irrelevant inside an error message) *)
Definition value_fmt_ok (isint:bool) (n:num) : res unit :=
  if isint then fmt_d_ok n else Ok tt.   (* the float family's text never fails to format *)

Section WithOracles.
  Variable pyeval : str -> option evr.
  Variable fmt10g : num -> option str.

  (* float_converters._value_as_str / floats_converters._value_as_str:
       try: "%.10g" % x   except OverflowError: try: str(x) except ValueError: hex(x)
     "%.10g" % x overflows only for an int too large for a float; str(int) fails beyond the digit limit *)
  Definition fmt_g (n:num) : res str :=
    match n with
    | NInt z =>
        match float_of_Z z with
        | Ok f => match fmt10g f with Some s => Ok s | None => Crash (s_ "OracleMissing") end
        | _ => Ok (if too_many_digits z then py_hex z else str_of_Z z)
        end
    | _ => do f <- as_float n;
           match fmt10g f with Some s => Ok s | None => Crash (s_ "OracleMissing") end
    end.
  Definition value_as_str (isint:bool) (n:num) : res str := if isint then fmt_d n else fmt_g n.

  Definition number_from_value_string (vs:sfw) (ws:list word) : res nv :=
    match vs with
    | SNone => Ok VNone
    | SAuto => Ok VAuto
    | SStr s =>
        let t := strip (lowers s) in
        if mems t [s_ "true"; s_ "false"] then err_at ws "NotNumeric" s
        else if eqs t none_s then Ok VNone
        else if eqs t auto_s then Ok VAuto
        else match py_int_of_str s with
             | Some z => Ok (VNum (NInt z))
             | None =>
                 match pyeval s with
                 | None => Crash (s_ "OracleMissing")
                 | Some (ENum n) => Ok (VNum n)
                 | Some ENone => Ok VNone
                 | Some EAuto => Ok VAuto
                 | Some EOther => Ok VOther
                 | Some ERaise => err_at ws "NotNumeric" s
                 end
             end
    end.

  Definition number_from_words (ws:list word) : res nv :=
    number_from_value_string (str_from_words ws) ws.

  (* the part of numbers_from_words after str_from_words *)
  Definition numbers_of_text (ws:list word) (s:str) : res (list nv) :=
    map_res (fun v => number_from_value_string (SStr v) ws) (list_tokens s).

  Definition int_from_number (x:nv) (ws:list word) : res num :=
    match x with
    | VNum (NInt z) => Ok (NInt z)                    (* isinstance(number, int) *)
    | VNum (NBool b) => Ok (NBool b)                  (* bool is an int: returned as it is *)
    | VNum (NFlt m e) =>                              (* finite float: round(x) == x, then int(x) *)
        match flt_integral m e with
        | Some z => Ok (NInt z)
        | None => err_at ws "NotInteger" []
        end
    | VNum NNegZero => Ok (NInt 0)
    | _ => err_at ws "NotInteger" []                  (* inf, nan (math.isfinite fails), non-numbers *)
    end.

  Definition float_from_number (x:nv) (ws:list word) : res num :=
    match x with
    | VNum (NInt z) =>                                (* try: float(number) except OverflowError: pass *)
        match float_of_Z z with
        | Ok f => Ok f
        | _ => err_at ws "NotFloat" []
        end
    | VNum (NBool b) => Ok (norm_flt (b2z b) 0)
    | VNum n => Ok n
    | _ => err_at ws "NotFloat" []
    end.

  Definition x_from_number (isint:bool) := if isint then int_from_number else float_from_number.

  (* int_from_words / float_from_words *)
  Definition x_from_words (isint:bool) (ws:list word) : res sv :=
    do r <- number_from_words ws;
    match r with
    | VNone => Ok SVNone
    | VAuto => Ok SVAuto
    | _ => do n <- x_from_number isint r ws; Ok (SVNum n)
    end.

  (* _check_value_base._check_value: not (value >= value_min) / not (value <= value_max), so a NaN on
     either side is refused; the error message formats the value and the bound *)
  Definition bound_err (isint:bool) (kind:string) (v b:num) (ows:option (list word)) : res unit :=
    do _ <- value_fmt_ok isint v; do _ <- value_fmt_ok isint b; err_at_opt ows kind [].
  Definition check_value (isint:bool) (lo hi:option num) (v:num) (ows:option (list word)) : res unit :=
    do _ <- match lo with
            | Some b => if negb (num_le b v) then bound_err isint "BelowMin" v b ows else Ok tt
            | None => Ok tt
            end;
    match hi with
    | Some b => if negb (num_le v b) then bound_err isint "AboveMax" v b ows else Ok tt
    | None => Ok tt
    end.

  (* numbers_converters_base._check_size *)
  Definition check_size (lo hi:option Z) (size:Z) (ows:option (list word)) : res unit :=
    do _ <- match hi with
            | Some m => if (m <? size)%Z then err_at_opt ows "TooMany" [] else Ok tt
            | None => Ok tt
            end;
    match lo with
    | Some m => if (size <? m)%Z then err_at_opt ows "NotEnough" [] else Ok tt
    | None => Ok tt
    end.

  (* number_converters_base.from_words *)
  Definition number_conv_from_words (isint:bool) (c:nconv) (ws:list word) : res pyv :=
    do v <- x_from_words isint ws;
    match v with
    | SVNone => if allow_none c then Ok PNone else UErr (s_ "CannotBeNone") [] 0
    | SVAuto => Ok PAuto
    | SVNum n => do _ <- check_value isint (vmin c) (vmax c) n (Some ws); Ok (PNum n)
    end.

  (* numbers_from_words *)
  Inductive lres := LNone | LAuto | LList (l:list nv).
  Definition numbers_from_words (ws:list word) : res lres :=
    match str_from_words ws with
    | SNone => Ok LNone
    | SAuto => Ok LAuto
    | SStr s => do l <- numbers_of_text ws s; Ok (LList l)
    end.

  (* one iteration of the element loop of numbers_converters_base.from_words *)
  Definition conv_elem (isint:bool) (c:lconv) (ws:list word) (x:nv) : res pyv :=
    match x with
    | VNone => if none_el c then Ok PNone else err_at ws "ElementNone" []
    | VAuto => if auto_el c then Ok PAuto else err_at ws "ElementAuto" []
    | _ => do n <- x_from_number isint x ws;
           do _ <- check_value isint (lvmin c) (lvmax c) n (Some ws);
           Ok (PNum n)
    end.

  Definition numbers_conv_from_words (isint:bool) (c:lconv) (ws:list word) : res pyv :=
    do r <- numbers_from_words ws;
    match r with
    | LNone => Ok PNone
    | LAuto => Ok PAuto
    | LList l =>
        do _ <- check_size (smin c) (smax c) (Z.of_nat (length l)) (Some ws);
        do vs <- map_res (conv_elem isint c ws) l;
        Ok (PList vs)
    end.

  Definition from_words (t:cty) (ws:list word) : res pyv :=
    match t with
    | CBool => bool_from_words ws
    | CInt c => number_conv_from_words true c ws
    | CFloat c => number_conv_from_words false c ws
    | CInts c => numbers_conv_from_words true c ws
    | CFloats c => numbers_conv_from_words false c ws
    end.

  (* ------------------------------------------------------------ as_words *)
  Definition none_w : list word := [uw (s_ "None")].
  Definition auto_w : list word := [uw (s_ "Auto")].

  Definition bool_as_words (v:pyv) : res (list word) :=
    match v with
    | PNone => Ok none_w
    | PAuto => Ok auto_w
    | _ => Ok [uw (if truthy v then s_ "True" else s_ "False")]
    end.

  (* number_converters_base.as_words: the value is checked against value_min/value_max before it is written *)
  Definition number_conv_as_words (isint:bool) (c:nconv) (v:pyv) : res (list word) :=
    match v with
    | PNone => if allow_none c then Ok none_w else UErr (s_ "CannotBeNone") [] 0
    | PAuto => Ok auto_w
    | PNum n => do _ <- check_value isint (vmin c) (vmax c) n None; do s <- value_as_str isint n; Ok [uw s]
    | PList _ => Crash (s_ "TypeError")               (* "%d" % [..] *)
    end.

  (* _check_value on an arbitrary element: None < bound etc. is a TypeError *)
  Definition check_value_py (isint:bool) (lo hi:option num) (v:pyv) : res unit :=
    match v with
    | PNum n => check_value isint lo hi n None
    | _ => match lo, hi with None, None => Ok tt | _, _ => Crash (s_ "TypeError") end
    end.

  (* the bound check applies to the numbers of the list only (None / Auto elements are tested first) *)
  Definition elem_as_word (isint:bool) (c:lconv) (v:pyv) : res word :=
    match v with
    | PNone => if none_el c then Ok (uw (s_ "None")) else UErr (s_ "ElementNone") [] 0
    | PAuto => if auto_el c then Ok (uw (s_ "Auto")) else UErr (s_ "ElementAuto") [] 0
    | PNum n => do _ <- check_value_py isint (lvmin c) (lvmax c) v; do s <- value_as_str isint n; Ok (uw s)
    | PList _ => Crash (s_ "TypeError")
    end.

  Definition numbers_conv_as_words (isint:bool) (c:lconv) (v:pyv) : res (list word) :=
    match v with
    | PNone => Ok none_w
    | PAuto => Ok auto_w
    | PNum _ => Crash (s_ "TypeError")                (* len(number) *)
    | PList l =>
        do _ <- check_size (smin c) (smax c) (Z.of_nat (length l)) None;
        map_res (elem_as_word isint c) l
    end.

  Definition as_words (t:cty) (v:pyv) : res (list word) :=
    match t with
    | CBool => bool_as_words v
    | CInt c => number_conv_as_words true c v
    | CFloat c => number_conv_as_words false c v
    | CInts c => numbers_conv_as_words true c v
    | CFloats c => numbers_conv_as_words false c v
    end.
End WithOracles.
