(* Numeric / bool converters of freephil/converters.py (bool, int, float, ints, floats):
   from_words and as_words with every constructor argument, written branch by branch after
   the Python.  Oracles (explicit arguments):
     pyeval : str -> option evr   result class of eval(value_string, math.__dict__, {}),
                                  None = the harness did not supply an answer (OracleMissing)
     fmt10g : num -> option str   "%.10g" % x for a float x (as_words of float types only)
   Python numbers are the type num; comparisons are exact (int against float included). *)
From Coq Require Import List Ascii String Bool Arith ZArith Lia.
From Phil Require Import Base.
Import ListNotations.
Local Open Scope char_scope.

(* ---------------------------------------------------------------- numbers *)
(* NFlt m e = the finite float m * 2^e (canonical: m odd, or m = 0 and e = 0 for +0.0);
   NNegZero = -0.0; NBool = Python bool (a subclass of int: isinstance(True, int)). *)
Inductive num :=
  | NInt (z:Z) | NFlt (m e:Z) | NNegZero | NInf (neg:bool) | NNaN | NBool (b:bool).

Definition b2z (b:bool) : Z := if b then 1%Z else 0%Z.

(* extended reals for the exact order *)
Inductive xr := XFin (m e:Z) | XPos | XNeg | XNan.
Definition xr_of (n:num) : xr :=
  match n with
  | NInt z => XFin z 0 | NFlt m e => XFin m e | NNegZero => XFin 0 0
  | NInf true => XNeg | NInf false => XPos | NNaN => XNan | NBool b => XFin (b2z b) 0
  end.
Definition fin_cmp (m1 e1 m2 e2:Z) : comparison :=
  let e := Z.min e1 e2 in Z.compare (m1 * 2 ^ (e1 - e)) (m2 * 2 ^ (e2 - e)).
Definition xr_lt (a b:xr) : bool :=
  match a with
  | XFin m1 e1 =>
      match b with
      | XFin m2 e2 => match fin_cmp m1 e1 m2 e2 with Lt => true | _ => false end
      | XPos => true | XNeg => false | XNan => false end
  | XPos => false
  | XNeg => match b with XFin _ _ => true | XPos => true | XNeg => false | XNan => false end
  | XNan => false
  end.
Definition xr_le (a b:xr) : bool :=
  match a with
  | XFin m1 e1 =>
      match b with
      | XFin m2 e2 => match fin_cmp m1 e1 m2 e2 with Gt => false | _ => true end
      | XPos => true | XNeg => false | XNan => false end
  | XPos => match b with XPos => true | _ => false end
  | XNeg => match b with XNan => false | _ => true end
  | XNan => false
  end.
(* Python  a < b  and  a <= b  on numbers (any comparison with NaN is False) *)
Definition num_lt (a b:num) : bool := xr_lt (xr_of a) (xr_of b).
Definition num_le (a b:num) : bool := xr_le (xr_of a) (xr_of b).

(* canonical form of m * 2^e *)
Fixpoint pos_tz (p:positive) : positive * Z :=
  match p with xO q => let '(r, k) := pos_tz q in (r, (k + 1)%Z) | _ => (p, 0%Z) end.
Definition norm_flt (m e:Z) : num :=
  match m with
  | Z0 => NFlt 0 0
  | Zpos p => let '(r, k) := pos_tz p in NFlt (Zpos r) (e + k)
  | Zneg p => let '(r, k) := pos_tz p in NFlt (Zneg r) (e + k)
  end.

(* float(z) for a Python int: correctly rounded to 53 bits, ties to even; OverflowError
   when the rounded value needs an exponent beyond binary64 *)
Definition float_of_Z (z:Z) : res num :=
  if (z =? 0)%Z then Ok (NFlt 0 0) else
  let a := Z.abs z in
  let n := (Z.log2 a + 1)%Z in
  if (n <=? 53)%Z then Ok (norm_flt z 0) else
  let sh := (n - 53)%Z in
  let q := Z.shiftr a sh in
  let r := (a - Z.shiftl q sh)%Z in
  let half := (2 ^ (sh - 1))%Z in
  let q' := if (half <? r)%Z || ((r =? half)%Z && Z.odd q) then (q + 1)%Z else q in
  if (1024 <? Z.log2 q' + 1 + sh)%Z then Crash (s_ "OverflowError")
  else Ok (norm_flt (Z.sgn z * q') sh).

(* value of a finite float as an integer when it is one: round(x) == x, then int(x) *)
Definition flt_integral (m e:Z) : option Z :=
  if (0 <=? e)%Z then Some (m * 2 ^ e)%Z
  else if (m mod 2 ^ (- e) =? 0)%Z then Some (m / 2 ^ (- e))%Z else None.
(* int(x): truncation toward zero, used by "%d" % x *)
Definition flt_trunc (m e:Z) : Z :=
  if (0 <=? e)%Z then (m * 2 ^ e)%Z else Z.quot m (2 ^ (- e)).

(* CPython refuses int <-> decimal text conversions beyond 4300 digits (ValueError) *)
Definition too_many_digits (z:Z) : bool :=
  let a := Z.abs z in
  if (Z.log2 a <? 14000)%Z then false else (10 ^ 4300 <=? a)%Z.

(* "%d" % x *)
Definition fmt_d (n:num) : res str :=
  match n with
  | NInt z => if too_many_digits z then Crash (s_ "ValueError") else Ok (str_of_Z z)
  | NBool b => Ok (str_of_Z (b2z b))
  | NFlt m e => let z := flt_trunc m e in
                if too_many_digits z then Crash (s_ "ValueError") else Ok (str_of_Z z)
  | NNegZero => Ok (str_of_Z 0)
  | NInf _ => Crash (s_ "OverflowError")
  | NNaN => Crash (s_ "ValueError")
  end.

Section WithOracles.
Variable pyeval : str -> option evr_placeholder.
End WithOracles.
