(* Base types shared by every model file: Latin-1 strings, words, the three-outcome
   result type, a generic S-expression type used as wire format between the Python
   harness and the extracted model, and decimal codecs. *)
From Coq Require Import List Ascii String Bool Arith ZArith Lia.
Import ListNotations.
Local Open Scope char_scope.

Definition str := list ascii.
Notation length := List.length.

Definition bs : ascii := "\".
Definition nl : ascii := "010".
Definition dq : ascii := """".
Definition sq : ascii := "'".

Definition nat_of (c:ascii) : nat := nat_of_ascii c.

(* Python str.isspace restricted to code points < 256 *)
Definition isspace (c:ascii) : bool :=
  let n := nat_of c in
  (((9 <=? n) && (n <=? 13)) || ((28 <=? n) && (n <=? 32)) || (n =? 133) || (n =? 160))%nat.

(* Python str.lower restricted to code points < 256 *)
Definition lower (c:ascii) : ascii :=
  let n := nat_of c in
  if (((65 <=? n) && (n <=? 90)) || ((192 <=? n) && (n <=? 214)) || ((216 <=? n) && (n <=? 222)))%nat
  then ascii_of_nat (n + 32) else c.
Definition lowers (s:str) : str := map lower s.

Fixpoint mem (c:ascii) (s:str) : bool :=
  match s with [] => false | d :: r => Ascii.eqb c d || mem c r end.

Fixpoint prefixb (p s : str) : bool :=
  match p, s with
  | [], _ => true
  | a :: p', b :: s' => Ascii.eqb a b && prefixb p' s'
  | _ :: _, [] => false
  end.

Fixpoint eqs (a b : str) : bool :=
  match a, b with
  | [], [] => true
  | x :: a', y :: b' => Ascii.eqb x y && eqs a' b'
  | _, _ => false
  end.

Definition mems (x:str) (l:list str) : bool := existsb (eqs x) l.

Fixpoint drop {A} (n:nat) (s:list A) : list A :=
  match n, s with 0%nat, _ => s | S m, _ :: r => drop m r | _, [] => [] end.

Definition bump (c:ascii) (line:nat) : nat := if Ascii.eqb c nl then S line else line.

Fixpoint count_nl (s:str) : nat :=
  match s with [] => 0 | c :: r => (if Ascii.eqb c nl then 1 else 0) + count_nl r end.

(* str literals from Coq strings *)
Definition s_ (x:String.string) : str := String.list_ascii_of_string x.
Arguments s_ x%string.

(* ---------- words *)
Inductive quote := QN | Q1 | Q2 | Q3s | Q3d.
Definition quote_eqb (a b:quote) : bool :=
  match a, b with QN,QN | Q1,Q1 | Q2,Q2 | Q3s,Q3s | Q3d,Q3d => true | _,_ => false end.
(* wline = 0 encodes Python's line_number=None *)
Record word := mkword { wv : str; wq : quote; wline : nat }.
Definition isq (w:word) : bool := match wq w with QN => false | _ => true end.
Definition weq (w:word) (s:str) : bool := negb (isq w) && eqs (wv w) s.
Definition uw (s:str) : word := mkword s QN 0.   (* tokenizer.word(value=s) *)
Definition qw (s:str) : word := mkword s Q2 0.   (* tokenizer.word with the double-quote token *)

(* ---------- three-outcome results.
   UErr  = RuntimeError / Sorry raised on purpose (kind, offending token, line; line 0 = none)
   Crash = any other exception class, or fuel exhaustion *)
Inductive res (A:Type) :=
  | Ok (a:A)
  | UErr (kind:str) (tok:str) (line:nat)
  | Crash (c:str).
Arguments Ok {A}. Arguments UErr {A}. Arguments Crash {A}.
Definition bind {A B} (r:res A) (f:A -> res B) : res B :=
  match r with Ok a => f a | UErr k t l => UErr k t l | Crash c => Crash c end.
Notation "'do' x <- r ; k" := (bind r (fun x => k)) (at level 200, x pattern, r at level 100, k at level 200).

(* ---------- wire format *)
Inductive sx := SA (s:str) | SL (l:list sx).

(* decimal codecs *)
Definition digit_of (c:ascii) : option Z :=
  let n := nat_of c in if ((48 <=? n) && (n <=? 57))%nat then Some (Z.of_nat (n - 48)) else None.
Fixpoint dec_digits (s:str) (acc:Z) : option Z :=
  match s with
  | [] => Some acc
  | c :: r => match digit_of c with Some d => dec_digits r (acc * 10 + d)%Z | None => None end
  end.
Definition Z_of_str (s:str) : option Z :=
  match s with
  | [] => None
  | c :: r => if Ascii.eqb c "-" then
                match r with [] => None | _ => option_map Z.opp (dec_digits r 0%Z) end
              else dec_digits s 0%Z
  end.
Definition nat_of_str (s:str) : option nat :=
  match Z_of_str s with Some z => if (z <? 0)%Z then None else Some (Z.to_nat z) | None => None end.

Definition digit_char (d:Z) : ascii := ascii_of_nat (48 + Z.to_nat d).
(* positive -> digits, fuel = number of binary digits is enough *)
Fixpoint pos_digits (fuel:nat) (z:Z) (acc:str) : str :=
  match fuel with
  | 0%nat => acc
  | S f => if (z <? 10)%Z then digit_char z :: acc
           else pos_digits f (z / 10)%Z (digit_char (z mod 10)%Z :: acc)
  end.
Definition str_of_Z (z:Z) : str :=
  if (z <? 0)%Z then "-" :: pos_digits (S (Z.to_nat (Z.log2 (- z)))) (- z)%Z []
  else pos_digits (S (Z.to_nat (Z.log2 z))) z [].
Definition str_of_nat (n:nat) : str := str_of_Z (Z.of_nat n).

Definition sx_nat (n:nat) : sx := SA (str_of_nat n).
Definition sx_Z (z:Z) : sx := SA (str_of_Z z).
Definition sx_bool (b:bool) : sx := SA (if b then ["1"] else ["0"]).
Definition bool_of_sx (x:sx) : option bool :=
  match x with SA ["1"] => Some true | SA ["0"] => Some false | _ => None end.

Definition quote_code (q:quote) : str :=
  match q with QN => ["n"] | Q1 => ["1"] | Q2 => ["2"] | Q3s => ["s"] | Q3d => ["d"] end.
Definition quote_of_code (s:str) : option quote :=
  match s with
  | ["n"] => Some QN | ["1"] => Some Q1 | ["2"] => Some Q2 | ["s"] => Some Q3s | ["d"] => Some Q3d
  | _ => None end.
Definition sx_word (w:word) : sx := SL [SA (wv w); SA (quote_code (wq w)); sx_nat (wline w)].
Definition word_of_sx (x:sx) : option word :=
  match x with
  | SL [SA v; SA q; SA l] =>
      match quote_of_code q, nat_of_str l with
      | Some q', Some l' => Some (mkword v q' l') | _, _ => None end
  | _ => None
  end.
Fixpoint all_some {A} (l:list (option A)) : option (list A) :=
  match l with
  | [] => Some []
  | Some a :: r => option_map (cons a) (all_some r)
  | None :: _ => None
  end.
Definition words_of_sx (x:sx) : option (list word) :=
  match x with SL l => all_some (map word_of_sx l) | _ => None end.
Definition sx_words (ws:list word) : sx := SL (map sx_word ws).

Definition sx_res {A} (f:A -> sx) (r:res A) : sx :=
  match r with
  | Ok a => SL [SA (s_ "ok"); f a]
  | UErr k t l => SL [SA (s_ "uerr"); SA k; SA t; sx_nat l]
  | Crash c => SL [SA (s_ "crash"); SA c]
  end.
Definition sx_bad : sx := SL [SA (s_ "badinput")].
