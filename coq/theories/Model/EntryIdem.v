(* Wire entry points (sx -> sx) for the cluster Idem (C07 / C08): the operations of the Fetch
   cluster plus master.fetch(sources=[master] + sources), i.e. THE MASTER OBJECT ITSELF as the
   first source.

   Model/Fetch.v has no object identity: master and sources are separate trees.  Python's scope.fetch
   tests "if matching_source is master_object: continue" in both candidate loops of the multiple branch,
   so when the master's own objects are among the sources (the property's "adding M itself as an
   extra first source") exactly one source object is passed over for every .multiple entry: the
   entry object itself.  Identity persists downwards only through non-multiple scopes
   (master_object.fetch(sources=[... master_object itself ...]) combines master_object.objects).
   [unself m] is the master as it acts as a source under that rule: every first occurrence of a
   .multiple entry removed, recursively inside the non-multiple scope entries; everything else
   (disabled objects, further occurrences, definitions) stays. *)
From Coq Require Import List Ascii String Bool Arith.
From Phil Require Import Base Tree Vars Choice Fetch EntryFetch.
Import ListNotations.
Local Open Scope char_scope.

(* the loop over master_active_objects, keeping what still acts as a source *)
Definition unself_list (f:obj -> obj) : list obj -> list obj -> list obj :=
  fix go (seen:list obj) (l:list obj) {struct l} : list obj :=
    match l with
    | [] => []
    | k :: r =>
        match mao_step seen k with
        | MSkip => k :: go seen r                 (* disabled, or a further occurrence of a multiple *)
        | MDup => k :: r                          (* fetch raises here *)
        | MYield seen' => (if omultiple k then [] else [f k]) ++ go seen' r
        end
    end.

Fixpoint unself_obj (o:obj) : obj :=
  match o with
  | Def _ _ _ => o
  | Scp h ks a => Scp h (unself_list unself_obj [] ks) a
  end.

Definition unself (m:list obj) : list obj := unself_list unself_obj [] m.

(* unself is the whole story only if no two entries of a master scope share a name (otherwise a
   .multiple entry object is also a candidate of ANOTHER entry's iteration, where it is not the
   master_object and is not passed over): masters with repeated entry names are outside this model *)
Fixpoint ment (seen:list obj) (l:list obj) : list obj :=
  match l with
  | [] => []
  | k :: r =>
      match mao_step seen k with
      | MSkip => ment seen r
      | MDup => []
      | MYield seen' => k :: ment seen' r
      end
  end.
Fixpoint str_in (x:str) (l:list str) : bool :=
  match l with [] => false | y :: r => eqs x y || str_in x r end.
Fixpoint distinct (l:list str) : bool :=
  match l with [] => true | x :: r => negb (str_in x r) && distinct r end.
Fixpoint self_guard (o:obj) : bool :=
  match o with
  | Def _ _ _ => true
  | Scp _ ks _ =>
      distinct (map (fun k => oname (ohdr k)) (ment [] ks)) &&
      (fix go (l:list obj) : bool :=
         match l with [] => true | k :: r => (odis (ohdr k) || self_guard k) && go r end) ks
  end.

(* (master sources env canon-table diff) -> res (result-objects (none)) ; the sources FOLLOW the
   master object itself *)
Definition run_fetch_self (x:sx) : sx :=
  match x with
  | SL [m; ss; e; t; d] =>
      match objs_of_sx m, srcs_of_sx ss, fe_env_of_sx e, ctable_of_sx t, bool_of_sx d with
      | Some m', Some ss', Some e', Some t', Some d' =>
          sx_res (fun o => SL [sx_objs o; SL [SA (s_ "none")]])
                 (if self_guard (root_scope m')
                  then fetch (fe_assoc e') (canon_of t') d' m' (unself m' :: ss')
                  else UErr k_unmodelled [] 0)
      | _, _, _, _, _ => sx_bad
      end
  | _ => sx_bad
  end.
