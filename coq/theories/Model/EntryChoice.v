(* Wire entry points (sx -> sx) for the choice cluster. *)
From Coq Require Import List Ascii String Bool Arith.
From Phil Require Import Base Tree Choice.
Import ListNotations.
Local Open Scope char_scope.

(* (optional master-words source-words ignore_errors)
   -> (fetch outcome with alternatives, fetch outcome as res) *)
Definition run_fetch (x:sx) : sx :=
  match x with
  | SL [o; m; s; i] =>
      match aval_of_sx o, words_of_sx m, words_of_sx s, bool_of_sx i with
      | Some o', Some m', Some s', Some i' =>
          SL [sx_fres (choice_fetch_x o' m' s' i'); sx_res sx_words (choice_fetch o' m' s' i')]
      | _, _, _, _ => sx_bad end
  | _ => sx_bad
  end.

(* (multi optional words) -> res pyv *)
Definition run_from_words (x:sx) : sx :=
  match x with
  | SL [mu; o; w] =>
      match bool_of_sx mu, aval_of_sx o, words_of_sx w with
      | Some mu', Some o', Some w' => sx_res sx_pyv (choice_from_words mu' o' w')
      | _, _, _ => sx_bad end
  | _ => sx_bad
  end.

(* (multi optional master-words source-words ignore_errors)
   -> (fetch outcome, from_words of the fetched words or () when the fetch fails) *)
Definition run_fetch_extract (x:sx) : sx :=
  match x with
  | SL [mu; o; m; s; i] =>
      match bool_of_sx mu, aval_of_sx o, words_of_sx m, words_of_sx s, bool_of_sx i with
      | Some mu', Some o', Some m', Some s', Some i' =>
          let r := choice_fetch_x o' m' s' i' in
          SL [sx_fres r;
              match choice_fetch o' m' s' i' with
              | Ok ws => sx_res sx_pyv (choice_from_words mu' o' ws)
              | _ => SL [] end]
      | _, _, _, _, _ => sx_bad end
  | _ => sx_bad
  end.

(* (multi optional master-words python-value) -> res words *)
Definition run_as_words (x:sx) : sx :=
  match x with
  | SL [mu; o; m; v] =>
      match bool_of_sx mu, aval_of_sx o, words_of_sx m, pyv_of_sx v with
      | Some mu', Some o', Some m', Some v' => sx_res sx_words (choice_as_words mu' o' m' v')
      | _, _, _, _ => sx_bad end
  | _ => sx_bad
  end.

(* multi -> printed type *)
Definition run_type_str (x:sx) : sx :=
  match bool_of_sx x with Some m => SA (choice_str m) | None => sx_bad end.
