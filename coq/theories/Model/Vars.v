(* Model of $variable substitution (freephil/common.py):
     variable_substitution_proxy.__init__ / get_new_words      -> fragments_of_word / get_new_words
     tokens.is_standard_identifier                            -> var_ident
     scope.lexical_get                                        -> lexical_get
     definition.resolve_variables                             -> resolve_def / resolve_top
     scope.resolve_variables, scope.get (alias-free)          -> resolve_obj / get_resolved
   The model has no parent pointers: the lexical environment of a definition is an explicit
   chain [ctx] = the object lists of the enclosing scopes, innermost first, root last.
   lexical_get returns the object found together with the chain of the scope that holds it,
   because definition.resolve_variables recurses into the definition found and resolves ITS
   words in ITS parent's chain with ITS primary_id as stop_id.
   Oracle: env : str -> option str (os.environ.get).
   Not modelled here: the side effect "substitution_source.tmp = True" (marks consumed
   definitions for track_unused_definitions; it never influences a resolved word). *)
From Coq Require Import List Ascii String Bool Arith Lia.
From Phil Require Import Base Tree.
Import ListNotations.
Local Open Scope char_scope.

(* ------------------------------------------------------------------ tokens.py *)
Definition vid_start (c:ascii) : bool :=
  let n := nat_of c in ((n =? 95) || ((65 <=? n) && (n <=? 90)) || ((97 <=? n) && (n <=? 122)))%nat.
Definition vid_digit (c:ascii) : bool :=
  let n := nat_of c in ((48 <=? n) && (n <=? 57))%nat.
Definition vid_cont (c:ascii) : bool := vid_start c || Ascii.eqb c "." || vid_digit c.

(* Python s.split(".") : never the empty list *)
Fixpoint vsplit_dot (s:str) : list str :=
  match s with
  | [] => [[]]
  | c :: r => if Ascii.eqb c "." then [] :: vsplit_dot r
              else match vsplit_dot r with h :: t => (c :: h) :: t | [] => [[c]] end
  end.

(* the first three tests of is_standard_identifier *)
Definition vident_chars (s:str) : bool :=
  match s with [] => false | c :: r => vid_start c && forallb vid_cont r end.
(* one unfolding of is_standard_identifier with [rec] for the recursive call on the components *)
Definition var_ident_step (rec : str -> bool) (s:str) : bool :=
  vident_chars s &&
  (let subs := vsplit_dot s in if (1 <? length subs)%nat then forallb rec subs else true).
(* the components contain no "." so the recursion is one level deep: the innermost [rec] is
   never reached (a dot-free string splits into one piece) *)
Definition var_ident (s:str) : bool := var_ident_step (var_ident_step (fun _ => true)) s.

(* " ".join *)
Fixpoint vjoin_sp (l:list str) : str :=
  match l with [] => [] | [x] => x | x :: r => x ++ " " :: vjoin_sp r end.

(* ------------------------------------------------------------------ variable_substitution_proxy *)
Inductive fragment := FLit (v:str) | FVar (v:str).
Definition frag_is_var (f:fragment) : bool := match f with FVar _ => true | FLit _ => false end.
Definition frag_value (f:fragment) : str := match f with FLit v | FVar v => v end.

(* where the character loop of __init__ currently is; the payload is fragment_value *)
Inductive fmode :=
  | MLit (fv:str)      (* outer while loop, not after "$" *)
  | MDollar            (* "$" consumed, next character decides the form *)
  | MParen (fv:str)    (* inside "$(" ... *)
  | MBare (fv:str).    (* inside "$name" *)

(* "if len(fragment_value) > 0: fragments.append(literal)" ; [acc] is kept in reverse order *)
Definition flush_lit (fv:str) (acc:list fragment) : list fragment :=
  match fv with [] => acc | _ => FLit fv :: acc end.

Definition k_dollar_end : str := s_ "VarDollarEnd".        (* "$ must be followed by an identifier" *)
Definition k_missing_paren : str := s_ "VarMissingParen".  (* 'missing ")"' *)
Definition k_improper : str := s_ "VarImproperName".       (* "improper variable name" *)
Definition k_not_a_def : str := s_ "NotADefinition".
Definition k_undefined : str := s_ "UndefinedVariable".
Definition c_fuel : str := s_ "OutOfFuel".

(* One character per step.  [have] = have_variables.  The "$name" loop ends at "." or at the
   first non-continuation character; that character is then handled by the outer loop, which is
   what the normalisation (m1, acc1) does. *)
Fixpoint frags (w:word) (m:fmode) (have:bool) (acc:list fragment) (s:str) {struct s}
  : res (bool * list fragment) :=
  match s with
  | [] =>
      match m with
      | MLit fv => Ok (have, rev (flush_lit fv acc))
      | MDollar => UErr k_dollar_end (wv w) (wline w)
      | MParen _ => UErr k_missing_paren (wv w) (wline w)
      | MBare fv => Ok (have, rev (FVar fv :: acc))
      end
  | c :: r =>
      let '(m1, acc1) :=
        match m with
        | MBare fv => if Ascii.eqb c "." || negb (vid_cont c) then (MLit [], FVar fv :: acc) else (m, acc)
        | _ => (m, acc)
        end in
      match m1 with
      | MLit fv =>
          if negb (Ascii.eqb c "$") then
            if Ascii.eqb c bs then
              (* if c == "\\" and look_ahead_1() == "$": fragment_value += next() *)
              match r with
              | d :: r' => if Ascii.eqb d "$" then frags w (MLit (fv ++ [c; d])) have acc1 r'
                           else frags w (MLit (fv ++ [c])) have acc1 r
              | [] => frags w (MLit (fv ++ [c])) have acc1 r
              end
            else frags w (MLit (fv ++ [c])) have acc1 r
          else frags w MDollar true (flush_lit fv acc1) r
      | MDollar =>
          if Ascii.eqb c "(" then frags w (MParen []) have acc1 r
          else if negb (vid_start c) then UErr k_improper (wv w) (wline w)
          else frags w (MBare [c]) have acc1 r
      | MParen fv =>
          if Ascii.eqb c ")" then
            let offs := match fv with d :: _ => if Ascii.eqb d "." then 1 else 0 | [] => 0 end in
            if negb (var_ident (drop offs fv)) then UErr k_improper (wv w) (wline w)
            else frags w (MLit []) have (FVar fv :: acc1) r
          else frags w (MParen (fv ++ [c])) have acc1 r
      | MBare fv => frags w (MBare (fv ++ [c])) have acc1 r
      end
  end.

(* (force_string, have_variables, fragments) *)
Definition fragments_of_word (w:word) : res (bool * bool * list fragment) :=
  do (have, frs) <- frags w (MLit []) false [] (wv w);
  Ok (isq w || (1 <? length frs)%nat, have, frs).

(* ------------------------------------------------------------------ scope.lexical_get *)
Definition ctx := list (list obj).
Definition found := (obj * ctx)%type.
Definition oid (o:obj) : nat := opid (ohdr o).
Definition onm (o:obj) : str := oname (ohdr o).

(* candidate test of the first loop *)
Definition cand (path:str) (o:obj) : bool :=
  match o with
  | Def h _ _ => eqs (oname h) path
  | Scp h _ _ => eqs (oname h) path || prefixb (oname h ++ ["."]) path
  end.

(* "primary_id is not None and primary_id >= stop_id": comparing with stop_id None is a TypeError *)
Definition stops (stop:nat) (o:obj) : bool := negb (oid o =? 0)%nat && (stop <=? oid o)%nat.

(* "if object.is_disabled: continue" comes after the stop test and before the candidate test:
   a disabled object can end the scan but is never a candidate (and so never descended into) *)
Definition live_cand (path:str) (o:obj) : bool := negb (odis (ohdr o)) && cand path o.

(* first loop: the candidates, in document order *)
Fixpoint scan (stop:nat) (path:str) (l:list obj) : res (list obj) :=
  match l with
  | [] => Ok []
  | o :: r =>
      if negb (oid o =? 0)%nat && (stop =? 0)%nat then Crash (s_ "TypeError")
      else if stops stop o then Ok []
      else do cs <- scan stop path r; Ok (if live_cand path o then o :: cs else cs)
  end.

(* second loop: [l] = candidates in pop() order, i.e. last first.  A candidate whose name is
   not the whole path is a scope whose name is a dotted prefix of it. *)
Fixpoint try_cands (rec : ctx -> str -> res (option found)) (chain:ctx) (path:str) (l:list obj)
  : res (option found) :=
  match l with
  | [] => Ok None
  | o :: rest =>
      if eqs (onm o) path then Ok (Some (o, chain))
      else do x <- rec (okids o :: chain) (drop (length (onm o) + 1) path);
           match x with Some y => Ok (Some y) | None => try_cands rec chain path rest end
  end.

(* both loops for the scope whose chain is [chain] (its own objects first) *)
Definition lex_here (rec : ctx -> str -> res (option found)) (stop:nat) (chain:ctx) (path:str)
  : res (option found) :=
  match chain with
  | [] => Ok None
  | cur :: _ => do cs <- scan stop path cur; try_cands rec chain path (rev cs)
  end.

(* "return self.primary_parent_scope.lexical_get(path, stop_id)" as a loop over the chain *)
Fixpoint lex_up (here : ctx -> res (option found)) (chain:ctx) : res (option found) :=
  match chain with
  | [] => Ok None
  | _ :: ups => do r <- here chain; match r with Some y => Ok (Some y) | None => lex_up here ups end
  end.

(* "while self.primary_parent_scope is not None: self = self.primary_parent_scope" *)
Fixpoint root_of (chain:ctx) : ctx :=
  match chain with
  | [] => []
  | [r] => [r]
  | _ :: ups => root_of ups
  end.

Definition strip_dot (path:str) : option str :=
  match path with c :: p => if Ascii.eqb c "." then Some p else None | [] => None end.

(* fuel: every descent into a candidate scope and every leading "." shortens the path, so
   S (length path) is enough (lexical_get_fuel in Proofs/VarsProofs.v).  The outward calls keep
   the path: they are the loop lex_up (after a leading "." the scope is the root, which has no
   parent, so no outward call follows). *)
Fixpoint lexical_get (fuel:nat) (stop:nat) (chain:ctx) (path:str) (search_up:bool)
  : res (option found) :=
  match fuel with
  | 0 => Crash c_fuel
  | S f =>
      let here := lex_here (fun c p => lexical_get f stop c p false) stop in
      match strip_dot path with
      | Some p => here (root_of chain) p
      | None => if search_up then lex_up (fun c => here c path) chain else here chain path
      end
  end.

(* ------------------------------------------------------------------ definition.resolve_variables *)
(* fragment.result is a word, or (sole unquoted variable) a list of words *)
Inductive fresult := RWord (w:word) | RWords (ws:list word).

Definition result_value (r:fresult) : res str :=
  match r with RWord x => Ok (wv x) | RWords _ => Crash (s_ "AttributeError") end.

Fixpoint mapM {A B} (f:A -> res B) (l:list A) : res (list B) :=
  match l with
  | [] => Ok []
  | a :: r => do b <- f a; do bs <- mapM f r; Ok (b :: bs)
  end.

(* the same with the fragments that follow handed to f (resolve_variables looks one fragment ahead) *)
Fixpoint mapM_tl {A B} (f:A -> list A -> res B) (l:list A) : res (list B) :=
  match l with
  | [] => Ok []
  | a :: r => do b <- f a r; do bs <- mapM_tl f r; Ok (b :: bs)
  end.

Definition get_new_words (w:word) (force have:bool) (rs:list fresult) : res (list word) :=
  if negb have then Ok [w]
  else if negb force then
    match rs with
    | [] => Crash (s_ "IndexError")
    | RWords ws :: _ => Ok ws
    | RWord _ :: _ => Crash (s_ "TypeError")
    end
  else do vs <- mapM result_value rs; Ok [mkword (List.concat vs) Q2 0].

Section Resolve.
  Variable env : str -> option str.

  (* variable_words for one variable fragment of word [w]; [rec ch o] is
     substitution_source.resolve_variables() (always with diff_mode=False) *)
  Definition lookup_var (rec : ctx -> obj -> res (list word)) (diff:bool) (chain:ctx) (stop:nat)
             (w:word) (v:str) (dt:str) : res (list word) :=
    do src <- match chain with
              | [] => Ok None                               (* primary_parent_scope is None *)
              | _ => lexical_get (S (length v)) stop chain v true
              end;
    do vw <- match src with
             | None => Ok None
             | Some (o, ch) =>
                 if negb (is_def o) then UErr k_not_a_def v (wline w)
                 else do ws <- rec ch o; Ok (Some ws)
             end;
    match vw with
    | Some ws => Ok ws
    | None =>
        match (if diff then Some dt else env v) with
        | Some e => Ok [mkword e Q2 0]
        | None => UErr k_undefined v (wline w)
        end
    end.

  (* diff_mode keeps an unresolved variable textual: "$name", or "$(name)" where the bare form would
     read differently - a dotted name, or identifier characters following in the resulting string
     (fix of C08-diff-variable-adjacent); [fc] = the first character of what the later fragments
     contribute *)
  Definition diff_text (v:str) (fc:option ascii) : str :=
    if existsb (Ascii.eqb ".") v
       || match fc with
          | Some c => negb (Ascii.eqb c ".") && vid_cont c
          | None => false
          end
    then "$" :: "(" :: v ++ [")"] else "$" :: v.

  (* "".join(later.result.value for later in fragments[i+1:])[:1] - the second loop of
     resolve_variables runs after every fragment has its result; when a later fragment fails the
     whole word fails with that error, whatever is returned here.  A later unresolved variable
     contributes a text that starts with "$" in either form. *)
  Fixpoint following_char rec (diff:bool) (chain:ctx) (stop:nat) (w:word) (nx:list fragment)
    : option ascii :=
    match nx with
    | [] => None
    | FLit (c :: _) :: _ => Some c
    | FLit [] :: r => following_char rec diff chain stop w r
    | FVar u :: r =>
        match lookup_var rec diff chain stop w u ["$"] with
        | Ok ws => match vjoin_sp (map wv ws) with
                   | c :: _ => Some c
                   | [] => following_char rec diff chain stop w r
                   end
        | _ => None
        end
    end.

  (* the text kept for the unresolved variable v in front of the fragments nx *)
  Definition dtext rec (diff:bool) (chain:ctx) (stop:nat) (w:word) (v:str) (nx:list fragment) : str :=
    diff_text v (if diff then following_char rec diff chain stop w nx else None).

  Definition frag_result rec (diff:bool) (chain:ctx) (stop:nat) (w:word) (force:bool) (f:fragment)
             (nx:list fragment) : res fresult :=
    match f with
    | FLit v => Ok (RWord (mkword v Q2 0))
    | FVar v =>
        do vws <- lookup_var rec diff chain stop w v (dtext rec diff chain stop w v nx);
        if negb force then Ok (RWords vws)
        else Ok (RWord (mkword (vjoin_sp (map wv vws)) Q2 0))
    end.

  Definition resolve_word rec (diff:bool) (chain:ctx) (stop:nat) (w:word) : res (list word) :=
    if quote_eqb (wq w) Q1 then Ok [w]
    else
      do (force, have, frs) <- fragments_of_word w;
      do rs <- mapM_tl (frag_result rec diff chain stop w force) frs;
      get_new_words w force have rs.

  Fixpoint resolve_words rec (diff:bool) (chain:ctx) (stop:nat) (ws:list word) : res (list word) :=
    match ws with
    | [] => Ok []
    | w :: r =>
        do a <- resolve_word rec diff chain stop w;
        do b <- resolve_words rec diff chain stop r;
        Ok (a ++ b)
    end.

  (* the words of d.resolve_variables(diff_mode); [chain] = chain of d.primary_parent_scope.
     Fuel: one unit per nested definition; ids strictly decrease along the nesting for trees
     whose definitions all carry an id, so S (oid d) is enough (resolve_fuel). *)
  Fixpoint resolve_def (fuel:nat) (diff:bool) (chain:ctx) (d:obj) : res (list word) :=
    match fuel with
    | 0 => Crash c_fuel
    | S f => resolve_words (fun ch o => resolve_def f false ch o) diff chain (oid d) (owords d)
    end.

  (* entry point with the fuel it uses *)
  Definition resolve_top (diff:bool) (chain:ctx) (d:obj) : res (list word) :=
    resolve_def (S (oid d)) diff chain d.

  (* object.resolve_variables() for a definition or a scope (scope: active objects only);
     [chain] = chain of the scope that holds [o] *)
  Fixpoint resolve_obj (chain:ctx) (o:obj) : res obj :=
    match o with
    | Def h _ a => do ws <- resolve_top false chain o; Ok (Def h ws a)
    | Scp h ks a =>
        do ks' <- (fix go (l:list obj) : res (list obj) :=
                     match l with
                     | [] => Ok []
                     | k :: r => if odis (ohdr k) then go r
                                 else do k' <- resolve_obj (ks :: chain) k; do r' <- go r; Ok (k' :: r')
                     end) ks;
        Ok (Scp h ks' a)
    end.

  (* root.resolve_variables() *)
  Fixpoint resolve_objs (chain:ctx) (l:list obj) : res (list obj) :=
    match l with
    | [] => Ok []
    | k :: r => if odis (ohdr k) then resolve_objs chain r
                else do k' <- resolve_obj chain k; do r' <- resolve_objs chain r; Ok (k' :: r')
    end.
End Resolve.

(* ------------------------------------------------------------------ get_without_substitution (alias_path=None) *)
Fixpoint gws_obj (chain:ctx) (path:str) (o:obj) : list found :=
  match o with
  | Def h _ _ => if odis h || negb (eqs (oname h) path) then [] else [(o, chain)]
  | Scp h ks _ =>
      if odis h then []
      else
        let inner (p:str) :=
          (fix go (l:list obj) : list found :=
             match l with
             | [] => []
             | k :: r => if odis (ohdr k) then go r else gws_obj (ks :: chain) p k ++ go r
             end) ks in
        match oname h with
        | [] => match path with [] => map (fun k => (k, ks :: chain)) ks | _ => inner path end
        | _ => if eqs (oname h) path then [(o, chain)]
               else if prefixb (oname h ++ ["."]) path then inner (drop (length (oname h) + 1) path)
               else []
        end
  end.

(* root.get_without_substitution(path): the root scope has the empty name *)
Definition gws_root (t:list obj) (path:str) : list found :=
  match path with
  | [] => map (fun k => (k, [t])) t
  | _ => flat_map (fun k => if odis (ohdr k) then [] else gws_obj [t] path k) t
  end.

(* root.get(path).objects *)
Definition get_resolved (env:str -> option str) (t:list obj) (path:str) : res (list obj) :=
  mapM (fun '(o, ch) => resolve_obj env ch o)
       (filter (fun '(o, _) => negb (odis (ohdr o))) (gws_root t path)).

(* ------------------------------------------------------------------ locating a definition by primary_id *)
(* [chain] = chain of the scope that holds [o]; depth first, document order *)
Fixpoint find_in_obj (id:nat) (chain:ctx) (o:obj) : option found :=
  match o with
  | Def h _ _ => if (opid h =? id)%nat then Some (o, chain) else None
  | Scp h ks _ =>
      (fix go (l:list obj) : option found :=
         match l with
         | [] => None
         | k :: r => match find_in_obj id (ks :: chain) k with Some x => Some x | None => go r end
         end) ks
  end.
Fixpoint find_in_list (id:nat) (chain:ctx) (l:list obj) : option found :=
  match l with
  | [] => None
  | k :: r => match find_in_obj id chain k with Some x => Some x | None => find_in_list id chain r end
  end.
Definition find_def (t:list obj) (id:nat) : option found := find_in_list id [t] t.

(* resolve the definition with primary_id [id] of the document [t] *)
Definition resolve_id (env:str -> option str) (diff:bool) (t:list obj) (id:nat) : res (list word) :=
  match find_def t id with
  | Some (d, ch) => resolve_top env diff ch d
  | None => Crash (s_ "NoSuchId")
  end.

(* ------------------------------------------------------------------ document order *)
(* primary ids in document order (pre-order: a scope before its children); 0 = None *)
Fixpoint pre_ids (o:obj) : list nat :=
  match o with
  | Def h _ _ => [opid h]
  | Scp h ks _ => opid h :: (fix go (l:list obj) : list nat :=
                               match l with [] => [] | k :: r => pre_ids k ++ go r end) ks
  end.
Fixpoint pre_ids_l (l:list obj) : list nat :=
  match l with [] => [] | k :: r => pre_ids k ++ pre_ids_l r end.

(* every definition carries an id *)
Fixpoint defs_have_ids (o:obj) : bool :=
  match o with
  | Def h _ _ => negb (opid h =? 0)%nat
  | Scp _ ks _ => (fix go (l:list obj) : bool :=
                     match l with [] => true | k :: r => defs_have_ids k && go r end) ks
  end.
Fixpoint defs_have_ids_l (l:list obj) : bool :=
  match l with [] => true | k :: r => defs_have_ids k && defs_have_ids_l r end.

(* the ids that are present never decrease (entries 0 = "no id" are skipped).  Not strictly: the
   implicit prefix scopes scope.adopt makes for a dotted name carry the id of the object they lead
   to (since /repo 2398dd1), so  a.b = 1  has the pre-order ids [n; n].  This is the order
   lexical_get's "stop at the first id >= stop_id" relies on. *)
Definition id_le (x y:nat) : bool := (x =? 0)%nat || (y =? 0)%nat || (x <=? y)%nat.
Fixpoint ordb (l:list nat) : bool :=
  match l with [] => true | x :: r => forallb (id_le x) r && ordb r end.

Definition doc_ordered (t:list obj) : bool := ordb (pre_ids_l t) && defs_have_ids_l t.

(* the pre-order ids without the repetitions: the id of a scope is left out when the id that follows
   it in pre-order (that of its first child) is the same, i.e. for a dotted-name prefix scope.
   For parsed documents this list is exactly 1, 2, ..., n (ParserShape.parse_lead_ids). *)
Fixpoint lead_ids (o:obj) : list nat :=
  match o with
  | Def h _ _ => [opid h]
  | Scp h ks _ =>
      let r := (fix go (l:list obj) : list nat :=
                  match l with [] => [] | k :: r => lead_ids k ++ go r end) ks in
      match r with
      | x :: _ => if (opid h =? x)%nat then r else opid h :: r
      | [] => [opid h]
      end
  end.
Fixpoint lead_ids_l (l:list obj) : list nat :=
  match l with [] => [] | k :: r => lead_ids k ++ lead_ids_l r end.

(* ------------------------------------------------------------------ what a lookup with stop_id <= n can see *)
(* the objects of one scope that a lookup with this stop_id looks at: everything before the
   first object whose id is present and >= stop_id (specification of the first loop of
   lexical_get: scan = filter live_cand over visible, VarsProofs.scan_visible) *)
Fixpoint visible (stop:nat) (l:list obj) : list obj :=
  match l with [] => [] | o :: r => if stops stop o then [] else o :: visible stop r end.

(* cut every object list at the first object that stops the scan for n, recursively *)
Fixpoint trunc_obj (n:nat) (o:obj) : obj :=
  match o with
  | Def h ws a => Def h ws a
  | Scp h ks a => Scp h ((fix go (l:list obj) : list obj :=
                            match l with
                            | [] => []
                            | k :: r => if stops n k then [] else trunc_obj n k :: go r
                            end) ks) a
  end.
Fixpoint trunc_objs (n:nat) (l:list obj) : list obj :=
  match l with
  | [] => []
  | k :: r => if stops n k then [] else trunc_obj n k :: trunc_objs n r
  end.
(* two chains / documents that are equal on the part visible below n *)
Definition agree_before (n:nat) (c c':ctx) : Prop := map (trunc_objs n) c = map (trunc_objs n) c'.
