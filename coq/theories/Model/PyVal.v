(* Python values handed out by extraction (definition.extract / scope.extract) and accepted by
   formatting (definition.format / scope.format).

     VNone / VAuto     None, freephil.Auto
     VStr s            str
     VNum n            int, float, bool (Conv.num)
     VList l           a plain Python list (strings, ints, floats, multi choice)
     VWords l          the word list that ".type = words" hands out (the tree's own list)
     VScope e          scope_extract
     VScopeList o l    scope_extract_list: __phil_optional__ = o, the items l

   ext = a scope_extract: __phil_name__ and the entries of __dict__ in insertion order (Python dict
   order) without the three bookkeeping entries __phil_name__/__phil_parent__/__phil_call__.
   The parent pointer is not part of the value: functions that need the dotted path take the names
   of the enclosing extracts as an explicit argument. *)
From Coq Require Import List Ascii String Bool Arith ZArith.
From Phil Require Import Base Tree.
From Phil Require Conv.
Import ListNotations.
Local Open Scope char_scope.

Inductive pyval :=
  | VNone | VAuto
  | VStr (s:str)
  | VNum (n:Conv.num)
  | VList (l:list pyval)
  | VWords (l:list word)
  | VScope (e:ext)
  | VScopeList (optional:aval) (l:list pyval)
with ext := Ext (name:str) (fields:list (str * pyval)).

Definition fields_t := list (str * pyval).
Definition ext_name (e:ext) : str := match e with Ext n _ => n end.
Definition ext_fields (e:ext) : fields_t := match e with Ext _ f => f end.

(* induction principle that reaches list items and field values *)
Section pyval_ind2.
  Variable P : pyval -> Prop.
  Hypothesis Hnone : P VNone.
  Hypothesis Hauto : P VAuto.
  Hypothesis Hstr : forall s, P (VStr s).
  Hypothesis Hnum : forall n, P (VNum n).
  Hypothesis Hlist : forall l, Forall P l -> P (VList l).
  Hypothesis Hwords : forall l, P (VWords l).
  Hypothesis Hscope : forall n fs, Forall (fun kv => P (snd kv)) fs -> P (VScope (Ext n fs)).
  Hypothesis Hslist : forall o l, Forall P l -> P (VScopeList o l).
  Fixpoint pyval_ind2 (v:pyval) : P v :=
    let go_list := fix go (l:list pyval) : Forall P l :=
      match l with [] => Forall_nil P | x :: r => Forall_cons x (pyval_ind2 x) (go r) end in
    match v with
    | VNone => Hnone | VAuto => Hauto | VStr s => Hstr s | VNum n => Hnum n
    | VList l => Hlist l (go_list l)
    | VWords l => Hwords l
    | VScope (Ext n fs) =>
        Hscope n fs ((fix go (l:fields_t) : Forall (fun kv => P (snd kv)) l :=
                        match l with
                        | [] => Forall_nil _
                        | (k, x) :: r => Forall_cons (k, x) (pyval_ind2 x) (go r)
                        end) fs)
    | VScopeList o l => Hslist o l (go_list l)
    end.
End pyval_ind2.

(* ---------- the dict operations of scope_extract.__dict__ (insertion ordered) *)
Fixpoint fget (k:str) (fs:fields_t) : option pyval :=
  match fs with
  | [] => None
  | (k', v) :: r => if eqs k' k then Some v else fget k r
  end.
(* d[k] = v : in place when the key exists, appended otherwise *)
Fixpoint fset (k:str) (v:pyval) (fs:fields_t) : fields_t :=
  match fs with
  | [] => [(k, v)]
  | (k', v') :: r => if eqs k' k then (k', v) :: r else (k', v') :: fset k v r
  end.
Definition fkeys (fs:fields_t) : list str := map fst fs.

(* ---------- names that getattr(scope_extract_instance, name) finds although they are no parameters:
   the attributes of the class (dir(scope_extract), compared with the implementation on every run)
   and the three bookkeeping entries of the instance *)
Definition class_attrs : list str :=
  [s_ "__call__"; s_ "__class__"; s_ "__delattr__"; s_ "__dict__"; s_ "__dir__"; s_ "__doc__"; s_ "__eq__";
   s_ "__format__"; s_ "__ge__"; s_ "__getattribute__"; s_ "__getstate__"; s_ "__gt__"; s_ "__hash__";
   s_ "__init__"; s_ "__init_subclass__"; s_ "__inject__"; s_ "__le__"; s_ "__lt__"; s_ "__module__";
   s_ "__ne__"; s_ "__new__"; s_ "__phil_get__"; s_ "__phil_join__"; s_ "__phil_path__";
   s_ "__phil_path_and_value__"; s_ "__phil_set__"; s_ "__reduce__"; s_ "__reduce_ex__"; s_ "__repr__";
   s_ "__setattr__"; s_ "__sizeof__"; s_ "__str__"; s_ "__subclasshook__"; s_ "__weakref__"].
Definition bookkeeping : list str := [s_ "__phil_name__"; s_ "__phil_parent__"; s_ "__phil_call__"].
Definition builtin_attr (n:str) : bool := mems n class_attrs || mems n bookkeeping.

(* getattr(self, name, scope_extract_attribute_error) *)
Inductive lookup := LMissing | LBuiltin | LField (v:pyval).
Definition getattr (fs:fields_t) (n:str) : lookup :=
  match fget n fs with
  | Some v => LField v
  | None => if builtin_attr n then LBuiltin else LMissing
  end.
