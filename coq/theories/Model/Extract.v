(* Extraction (PHIL tree -> Python object), formatting (Python object -> PHIL tree) and the
   guard / path logic of the extracted object:
     definition.extract / format / extract_format           def_extract, def_format, def_extract_format
     scope.extract with scope_extract.__phil_set__/__phil_join__   extract_obj, phil_set, join_ext
     scope.master_active_objects, scope.format, extract_format      format_obj, extract_format
     scope_extract.__phil_path__ / __setattr__ / __inject__          phil_path, setattr, inject
     scope.clone                                                      clone
   Control flow follows common.py branch by branch.  A root scope is an obj like any other
   (Scp with the empty name). *)
From Coq Require Import List Ascii String Bool Arith ZArith.
From Phil Require Import Base Tokenizer Tree PyVal ConvText.
From Phil Require Conv Choice Parser Show.
Import ListNotations.
Local Open Scope char_scope.

Definition has_dot (n:str) : bool := mem "." n.
Definition is_true (v:aval) : bool := match v with ABool true => true | _ => false end.   (* v is True *)

(* ---------- scope_extract.__phil_join__(self, other): the new __dict__ of self.
   [other] is consumed structurally; scope_extract_list and Auto have a __dict__ without parameter
   entries (joining them changes nothing), every other non-extract has none (AttributeError).
   A None in [other] (the placeholder of a disabled object in a later block) leaves a scope_extract or a
   scope_extract_list of [self] alone. *)
Definition not_none (v:pyval) : bool := match v with VNone => false | _ => true end.
Definition drop_leading_none (l:list pyval) : list pyval :=          (* if len > 1 and l[0] is None: del l[0] *)
  match l with VNone :: (_ :: _) as r => r | _ => l end.

Fixpoint join_ext (other:ext) (self:fields_t) {struct other} : res fields_t :=
  match other with
  | Ext _ ofs =>
    (fix go (l:fields_t) (self:fields_t) {struct l} : res fields_t :=
       match l with
       | [] => Ok self
       | (key, ov) :: r =>
         if Parser.reserved key then go r self else
         match fget key self with
         | None | Some VNone => go r (fset key ov self)
         | Some (VScopeList o sl) =>
             match ov with
             | VNone => go r self                           (* placeholder of a disabled object in a later block: ignored *)
             | VScopeList _ ol => go r (fset key (VScopeList o (drop_leading_none (sl ++ filter not_none ol))) self)
             | _ => Crash (s_ "AssertionError")
             end
         | Some (VScope (Ext n sf)) =>
             match ov with
             | VNone => go r self                           (* likewise *)
             | VScope oe => do sf' <- join_ext oe sf; go r (fset key (VScope (Ext n sf')) self)
             | VScopeList _ _ | VAuto => go r self
             | _ => Crash (s_ "AttributeError")            (* other_value.__dict__ *)
             end
         | Some _ => go r (fset key ov self)               (* no __phil_join__: replaced *)
         end
       end) ofs self
  end.

(* ---------- scope_extract.__phil_set__(name, optional, multiple, value).
   value = None stands for the marker class scope_extract_is_disabled.
   Non-multiple: a disabled object leaves an existing attribute alone (else it supplies the placeholder None).
   Multiple: a disabled object leaves an existing attribute alone too (ceef076); otherwise a missing attribute, or
   the placeholder None left by a disabled namesake, becomes a fresh list. *)
Definition phil_set (fs:fields_t) (name:str) (optional:aval) (multiple:bool) (value:option pyval) : res fields_t :=
  if has_dot name then Crash (s_ "AssertionError") else
  match getattr fs name with
  | LBuiltin => unmodelled "parameter named like an attribute of scope_extract"
  | node =>
    if negb multiple then
      match value, node with
      | None, LField _ => Ok fs                              (* disabled, attribute exists: return *)
      | _, _ =>
        let v := match value with None => VNone | Some v => v end in
        match node, v with
        | LField (VScope (Ext n sf)), VScope oe => do sf' <- join_ext oe sf; Ok (fset name (VScope (Ext n sf')) fs)
        | _, _ => Ok (fset name v fs)
        end
      end
    else
      match value, node with
      | None, LField _ => Ok fs                              (* disabled, attribute exists (None too): return *)
      | _, _ =>
        let '(fs1, nodev) :=
          match node with
          | LField VNone | LMissing | LBuiltin => (fset name (VScopeList optional []) fs, VScopeList optional [])
          | LField x => (fs, x)
          end in
        match value with
        | None => Ok fs1
        | Some v =>
          if not_none v || negb (is_true optional) then
            match nodev with
            | VScopeList o l => Ok (fset name (VScopeList o (l ++ [v])) fs1)
            | VList l => Ok (fset name (VList (l ++ [v])) fs1)
            | VWords _ => unmodelled "append to the word list of the tree"
            | _ => Crash (s_ "AttributeError")               (* no append method *)
            end
          else Ok fs1
        end
      end
  end.

Section Oracles.
  Variable pyeval : str -> option Conv.evr.
  Variable expanduser : str -> option str.

  (* ---------- definition.extract / format *)
  Definition def_from_words (h:hdr) (a:attrs) (ws:list word) : res pyval :=
    match get_attr (s_ "type") a with
    | ANone => Ok (strings_from_words ws)
    | AType t => ty_from_words pyeval expanduser t (get_attr (s_ "optional") a) ws
    | _ => UErr (s_ "NoFromWords") [] (oline h)             (* AttributeError turned into RuntimeError *)
    end.
  Definition def_as_words (h:hdr) (a:attrs) (ws:list word) (v:pyval) : res (list word) :=
    match get_attr (s_ "type") a with
    | ANone => strings_as_words v
    | AType t => ty_as_words t (get_attr (s_ "optional") a) ws v
    | _ => UErr (s_ "NoAsWords") [] (oline h)
    end.

  Definition def_extract (d:obj) : res pyval :=
    match d with
    | Def h ws a => def_from_words h a ws
    | Scp _ _ _ => unmodelled "def_extract of a scope"
    end.
  (* customized_copy(words=...) resets is_template *)
  Definition def_format (d:obj) (v:pyval) : res obj :=
    match d with
    | Def h ws a => do ws' <- def_as_words h a ws v; Ok (Def (with_tmpl h 0) ws' a)
    | Scp _ _ _ => unmodelled "def_format of a scope"
    end.
  Definition def_extract_format (d source:obj) : res obj :=
    do v <- def_extract source; def_format d v.

  (* ---------- scope.extract (definition.extract for a Def) *)
  Fixpoint extract_obj (o:obj) : res pyval :=
    match o with
    | Def h ws a => def_from_words h a ws
    | Scp h ks a =>
      do fs <- (fix go (l:list obj) (acc:fields_t) {struct l} : res fields_t :=
                  match l with
                  | [] => Ok acc
                  | k :: r =>
                    if (otmpl (ohdr k) <? 0)%Z then go r acc else
                    do value <- (if odis (ohdr k) || (0 <? otmpl (ohdr k))%Z then Ok None
                                 else do v <- extract_obj k; Ok (Some v));
                    do acc' <- phil_set acc (oname (ohdr k)) (ooptional k) (omultiple k) value;
                    go r acc'
                  end) ks [];
      Ok (VScope (Ext (oname h) fs))
    end.

  (* ---------- scope.format *)
  (* the items the loop "for python_object_i in python_object" visits *)
  Definition iter_items (v:pyval) : res (list pyval) :=
    match v with
    | VScope e => Ok [VScope e]                             (* python_object = [python_object] *)
    | VList l | VScopeList _ l => Ok l
    | VWords [] | VStr [] => Ok []
    | VWords _ | VStr _ => Crash (s_ "AttributeError")      (* item.__phil_get__ *)
    | VNum _ => Crash (s_ "TypeError")                      (* not iterable *)
    | VNone | VAuto => Crash (s_ "unreachable")
    end.
  (* len(sub_python_object) and the elements "for sub_python_object_i in sub_python_object" *)
  Definition multi_items (v:pyval) : res (list pyval) :=
    match v with
    | VList l | VScopeList _ l => Ok l
    | VStr s => Ok (map (fun c => VStr [c]) s)
    | VWords [] => Ok []
    | VWords _ => unmodelled "formatting a word as a value"
    | _ => Crash (s_ "TypeError")                           (* len() of None, Auto, a number, a scope_extract *)
    end.
  Definition copy_tmpl (o:obj) (t:Z) : obj := set_hdr o (with_tmpl (ohdr o) t).

  Fixpoint aget {A} (k:str) (l:list (str * A)) : option A :=
    match l with [] => None | (k', v) :: r => if eqs k' k then Some v else aget k r end.
  Fixpoint aset {A} (k:str) (v:A) (l:list (str * A)) : list (str * A) :=
    match l with
    | [] => [(k, v)]
    | (k', v') :: r => if eqs k' k then (k', v) :: r else (k', v') :: aset k v r
    end.

  (* one item of python_object for the master object k.  fmt = k.format ; state = (multiple_scopes_done,
     result reversed).  multiple_scopes_done.get(name, True) is False exactly when the entry exists and is false. *)
  Definition format_item (fmt:pyval -> res obj) (k:obj) (item:pyval) (st:list (str * bool) * list obj)
    : res (list (str * bool) * list obj) :=
    let name := oname (ohdr k) in
    let '(done, acc) := st in
    match item with
    | VScope (Ext _ fs) =>
        if has_dot name then Crash (s_ "AssertionError") else
        match getattr fs name with
        | LBuiltin => unmodelled "parameter named like an attribute of scope_extract"
        | LMissing => Ok st
        | LField sub =>
            if negb (omultiple k) then do x <- fmt sub; Ok (done, x :: acc)
            else
              do elems <- multi_items sub;
              match elems with
              | [] => Ok (done, copy_tmpl k 1 :: acc)
              | _ =>
                  let '(done', acc') :=
                    match aget name done with
                    | Some false => (aset name true done, copy_tmpl k (-1) :: acc)
                    | _ => (done, acc)
                    end in
                  do xs <- Conv.map_res fmt elems;
                  Ok (done', rev xs ++ acc')
              end
        end
    | _ => Crash (s_ "AttributeError")                      (* item.__phil_get__ *)
    end.
  Fixpoint format_items (fmt:pyval -> res obj) (k:obj) (items:list pyval) (st:list (str * bool) * list obj)
    : res (list (str * bool) * list obj) :=
    match items with
    | [] => Ok st
    | i :: r => do st' <- format_item fmt k i st; format_items fmt k r st'
    end.

  (* master_active_objects for one active object: what the generator does with it *)
  Inductive mao := MaoSkip | MaoDup | MaoYield.
  Definition mao_step (k:obj) (first:option bool) : mao :=
    match first with
    | None => MaoYield
    | Some true => MaoSkip                                  (* master.multiple: continue *)
    | Some false => if is_def k then MaoDup else MaoYield
    end.

  (* state of the loop: names_object (name -> .multiple of the first active object of that name),
     multiple_scopes_done, result (reversed) *)
  Fixpoint format_obj (m:obj) (v:pyval) {struct m} : res obj :=
    match m with
    | Def h ws a => do ws' <- def_as_words h a ws v; Ok (Def (with_tmpl h 0) ws' a)
    | Scp h ks a =>
      do out <- (fix go (l:list obj) (seen:list (str * bool)) (done:list (str * bool)) (acc:list obj) {struct l}
                 : res (list obj) :=
        match l with
        | [] => Ok (rev acc)
        | k :: r =>
          let name := oname (ohdr k) in
          if odis (ohdr k) then go r seen done acc else
          let first := aget name seen in
          let seen' := match first with None => seen ++ [(name, omultiple k)] | Some _ => seen end in
          match mao_step k first with
          | MaoSkip => go r seen' done acc
          | MaoDup => UErr (s_ "DuplicateMaster") [] (oline (ohdr k))
          | MaoYield =>
            let ms := omultiple k && negb (is_def k) in
            if ms && (match aget name done with Some _ => true | None => false end) then go r seen' done acc else
            let done1 := if ms then aset name false done else done in
            match v with
            | VNone => do x <- format_obj k VNone; go r seen' done1 (x :: acc)
            | VAuto => do x <- format_obj k VAuto; go r seen' done1 (x :: acc)
            | _ =>
              do items <- iter_items v;
              do st <- format_items (format_obj k) k items (done1, acc);
              go r seen' (fst st) (snd st)
            end
          end
        end) ks [] [] [];
      Ok (Scp (with_tmpl h 0) out a)
    end.

  (* scope.extract_format(source) / definition.extract_format(source) *)
  Definition extract_format (m source:obj) : res obj :=
    do v <- extract_obj source; format_obj m v.
End Oracles.

(* ---------- scope_extract.__phil_path__(object_name).
   anc = the __phil_name__ of the enclosing extracts, nearest first ([] = __phil_parent__ is None);
   a name is an option because the constructor accepts None. *)
Definition join_dot (l:list str) : str := Show.join_with ["."] l.
Definition nonempty_name (n:option str) : bool := match n with Some (_ :: _) => true | _ => false end.
Definition path_base (name:option str) (object_name:option str) : option str :=
  match object_name with
  | None => name
  | Some on => match name with None | Some [] => Some on | Some n => Some (n ++ "." :: on) end
  end.
Fixpoint phil_path (anc:list (option str)) (name:option str) (object_name:option str) : res (option str) :=
  match anc with
  | [] => Ok (path_base name object_name)
  | pn :: anc' =>
      if negb (nonempty_name pn) then Ok (path_base name object_name) else
      do pp <- phil_path anc' pn None;
      match pp, name with
      | Some p, Some n => Ok (Some (join_dot ([p; n] ++ match object_name with Some on => [on] | None => [] end)))
      | _, _ => Crash (s_ "TypeError")                      (* ".".join of a None *)
      end
  end.

(* the path spelled in the AttributeError messages of __setattr__ / __inject__ *)
Definition err_path (anc:list (option str)) (n:str) (name:str) : res str :=
  do pp <- phil_path anc (Some n) None;
  match pp with
  | Some [] => Ok name
  | Some p => Ok (p ++ "." :: name)
  | None => Crash (s_ "TypeError")
  end.

Inductive guard :=
  | GOk (e:ext)              (* the attribute was set *)
  | GRefuse (path:str)       (* AttributeError naming this path *)
  | GCrash (c:str)
  | GUnmodelled.

(* attributes of object that object.__setattr__ treats specially *)
Definition special_attr (n:str) : bool := mems n [s_ "__class__"; s_ "__dict__"; s_ "__weakref__"].
Definition set_builtin (n:str) (fs:fields_t) (name:str) (v:pyval) : guard :=
  if eqs name (s_ "__phil_name__") then match v with VStr s => GOk (Ext s fs) | _ => GUnmodelled end
  else if mems name bookkeeping || special_attr name then GUnmodelled
  else GOk (Ext n (fset name v fs)).                        (* an instance attribute shadowing the class attribute *)
Definition refuse (anc:list (option str)) (n:str) (name:str) : guard :=
  match err_path anc n name with Ok p => GRefuse p | UErr _ _ _ => GUnmodelled | Crash c => GCrash c end.

(* scope_extract.__setattr__(name, value) *)
Definition setattr (anc:list (option str)) (e:ext) (name:str) (v:pyval) : guard :=
  match e with
  | Ext n fs =>
      match getattr fs name with
      | LMissing => refuse anc n name
      | LField _ => GOk (Ext n (fset name v fs))
      | LBuiltin => set_builtin n fs name v
      end
  end.
Definition setattr_ok (fs:fields_t) (name:str) : bool :=
  match getattr fs name with LMissing => false | _ => true end.

(* scope_extract.__inject__(name, value) *)
Definition inject (anc:list (option str)) (e:ext) (name:str) (v:pyval) : guard :=
  match e with
  | Ext n fs =>
      match getattr fs name with
      | LMissing => GOk (Ext n (fset name v fs))
      | _ => refuse anc n name
      end
  end.

(* ---------- every scope_extract reachable in a value, with the names of its enclosing extracts
   (nearest first) and the field names leading to it from the root *)
Fixpoint reach (anc:list (option str)) (path:list str) (v:pyval) {struct v} : list (list (option str) * list str * ext) :=
  match v with
  | VScope (Ext n fs) =>
      (anc, path, Ext n fs) ::
      (fix go (l:fields_t) : list (list (option str) * list str * ext) :=
         match l with
         | [] => []
         | (k, x) :: r => reach (Some n :: anc) (path ++ [k]) x ++ go r
         end) fs
  | VScopeList _ l | VList l =>
      (fix go (l:list pyval) : list (list (option str) * list str * ext) :=
         match l with [] => [] | x :: r => reach anc path x ++ go r end) l
  | _ => []
  end.

Section Rendering.
  Variable pyeval : str -> option Conv.evr.
  Variable expanduser : str -> option str.

  (* extract_format(source).as_str() of a definition or a (non-root or root) scope: the canonical
     rendering that fetch compares *)
  Definition canon_str (m source:obj) : res str :=
    do t <- extract_format pyeval expanduser m source;
    Show.show_obj t [] [] None 0 Show.default_width.

  (* scope.clone(python_object) = parse(format(python_object).as_str(attributes_level=3)).extract() ;
     orc = the parser's oracle for .type / .call / eval-based attribute integers *)
  Definition clone (orc:Parser.oracle) (m:obj) (v:pyval) : res pyval :=
    do t <- format_obj m v;
    do text <- Show.show_obj t [] [] None 3 Show.default_width;
    do objs <- Parser.parse orc text;
    extract_obj pyeval expanduser (Scp (plain_hdr []) objs []).
End Rendering.

(* ---------- well-formedness for extraction (hypothesis of Proofs/ExtractTotal.v, evaluated on wire trees by
   EntryExtract.run_extractwf).  The extraction is run on SHAPES instead of values: what __phil_set__ / __phil_join__
   look at is only whether a value is a scope_extract (with which fields), a scope_extract_list, the placeholder None
   of a disabled object, or anything else.  extract_wf o = true iff no step meets a combination that raises. *)
Inductive shp := HFlat | HNone | HSList | HScope (fs:list (str * shp)).
Definition sfields := list (str * shp).


(* __phil_join__ on shapes; None = a combination that raises *)
Fixpoint ajoin_s (o:shp) (self:sfields) {struct o} : option sfields :=
  match o with
  | HScope ofs =>
      (fix go (l:sfields) (self:sfields) {struct l} : option sfields :=
         match l with
         | [] => Some self
         | (key, os) :: r =>
             if Parser.reserved key then go r self else
             match aget key self with
             | None | Some HFlat | Some HNone => go r (aset key os self)
             | Some HSList => match os with HSList | HNone => go r self | _ => None end
             | Some (HScope sf0) =>
                 match os with
                 | HScope _ => match ajoin_s os sf0 with Some sf1 => go r (aset key (HScope sf1) self) | None => None end
                 | HSList | HNone => go r self
                 | _ => None
                 end
             end
         end) ofs self
  | _ => None
  end.
Definition ajoin (ofs:sfields) (self:sfields) : option sfields := ajoin_s (HScope ofs) self.
(* __phil_set__ on shapes (value None = the disabled marker); None = a combination that may raise.
   A flat value under a .multiple object is refused although a plain list or None would do: shapes do not tell them apart *)
Definition aphil_set (fs:sfields) (name:str) (multiple:bool) (value:option shp) : option sfields :=
  if has_dot name then None else
  if negb multiple then
    match value, aget name fs with
    | None, Some _ => Some fs
    | None, None => Some (aset name HNone fs)
    | Some (HScope of0), Some (HScope sf0) =>
        match ajoin of0 sf0 with Some sf1 => Some (aset name (HScope sf1) fs) | None => None end
    | Some s, _ => Some (aset name s fs)
    end
  else
    match value, aget name fs with
    | None, Some _ => Some fs
    | _, None | _, Some HNone => Some (aset name HSList fs)
    | _, Some HSList => Some fs
    | Some _, Some HFlat | Some _, Some (HScope _) => None
    end.

(* the types whose from_words reads words[0] for an error message / asserts a non-empty list
   (path: only when os.path.expanduser refuses the text) *)
Definition needs_words (a:attrs) : bool :=
  match get_attr (s_ "type") a with
  | AType (TyBool | TyInt _ _ _ | TyInts _ _ _ _ _ _ | TyChoice _ | TyPath) => true
  | _ => false
  end.
Definition def_wf (ws:list word) (a:attrs) : bool :=
  negb (needs_words a) || negb (match ws with [] => true | _ => false end).


(* scope.extract on shapes *)
Fixpoint ashape (o:obj) : option shp :=
  match o with
  | Def _ ws a => if def_wf ws a then Some HFlat else None
  | Scp _ ks _ =>
      option_map HScope
        ((fix go (l:list obj) (acc:sfields) {struct l} : option sfields :=
            match l with
            | [] => Some acc
            | k :: r =>
                if (otmpl (ohdr k) <? 0)%Z then go r acc else
                match (if odis (ohdr k) || (0 <? otmpl (ohdr k))%Z then Some None
                       else match ashape k with Some s => Some (Some s) | None => None end) with
                | None => None
                | Some value =>
                    match aphil_set acc (oname (ohdr k)) (omultiple k) value with
                    | Some acc' => go r acc'
                    | None => None
                    end
                end
            end) ks [])
  end.
(* the well-formedness predicate: the extraction on shapes goes through *)
Definition extract_wf (o:obj) : bool := match ashape o with Some _ => true | None => false end.

