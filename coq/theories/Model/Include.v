(* Include processing: freephil.parse(file_name=..., process_includes=True, include_stack=...)
   together with scope.process_includes (common.py), over an abstract file system.

   Oracles
   - the file system AND the parser: [fs] maps a NORMALISED ABSOLUTE path to what
     "open the file and parse it without include processing" produces: the object list, or a
     parse error; a path that is not in the table does not exist (FileNotFoundError).
     The real code opens the file under the name it was given (not normalised); both agree when
     every directory named on the way exists and there are no symbolic links (harness assumption).
   - "include scope": [isc import_path phil_path] = the object list that process_include_scope
     splices (Python-level import); None = the oracle declines, the model answers Unmodelled.
   - the process's current directory [cwd] is an explicit argument (os.getcwd()).

   POSIX path functions are written out on [str] as posixpath does them (isabs, join, normpath,
   dirname, abspath) and compared with os.path on every run by the stream "paths".

   The include stack.  The Python passes ONE list object down the whole recursion; parse()
   appends the normalised name before it walks the objects and pops it afterwards.  On an error
   nothing is popped, but then the exception leaves every enclosing call as well and the list is
   never looked at again.  Every call that returns normally leaves the list exactly as it found
   it (one append, one pop, and by induction every nested call in between restored it).  Hence at
   the moment of any cycle test the shared list equals "the stack of the enclosing call plus that
   call's own file": a pure argument [stack] that the callee extends for its own children is the
   same thing. *)
From Coq Require Import List Ascii String Bool Arith ZArith Lia.
From Phil Require Import Base Tree.
Import ListNotations.
Local Open Scope char_scope.

(* ---------------------------------------------------------------- posixpath *)
Definition sl : ascii := "/".
Definition is_sl (c:ascii) : bool := Ascii.eqb c sl.

(* posixpath.isabs: s.startswith('/') *)
Definition isabs (p:str) : bool := match p with c :: _ => is_sl c | [] => false end.

(* str.endswith('/') *)
Fixpoint ends_sl (p:str) : bool :=
  match p with [] => false | c :: r => match r with [] => is_sl c | _ => ends_sl r end end.

(* posixpath.join(a, b) *)
Definition join (a b : str) : str :=
  if isabs b then b
  else match a with
       | [] => b
       | _ => if ends_sl a then a ++ b else a ++ sl :: b
       end.

(* str.split('/') - never empty *)
Fixpoint split_sl (p:str) : list str :=
  match p with
  | [] => [[]]
  | c :: r => if is_sl c then [] :: split_sl r
              else match split_sl r with h :: t => (c :: h) :: t | [] => [[c]] end
  end.

(* sep.join(list) *)
Fixpoint joins (sep:str) (l:list str) : str :=
  match l with
  | [] => []
  | x :: r => match r with [] => x | _ => x ++ sep ++ joins sep r end
  end.

Definition dot : str := ["."].
Definition dotdot : str := ["."; "."].

(* one or two leading slashes are kept, three or more count as one *)
Definition initial_slashes (p:str) : nat :=
  match p with
  | c1 :: r1 =>
      if is_sl c1 then
        match r1 with
        | c2 :: r2 =>
            if is_sl c2 then
              match r2 with c3 :: _ => if is_sl c3 then 1 else 2 | [] => 2 end
            else 1
        | [] => 1
        end
      else 0
  | [] => 0
  end.

(* the loop body of normpath; acc = new_comps, last element first *)
Definition np_step (init:nat) (acc:list str) (comp:str) : list str :=
  if eqs comp [] || eqs comp dot then acc
  else if negb (eqs comp dotdot)
          || (Nat.eqb init 0 && match acc with [] => true | _ => false end)
          || match acc with h :: _ => eqs h dotdot | [] => false end
       then comp :: acc
       else match acc with [] => [] | _ :: t => t end.

Definition normpath (p:str) : str :=
  match p with
  | [] => dot
  | _ =>
      let init := initial_slashes p in
      let body := joins [sl] (rev (fold_left (np_step init) (split_sl p) [])) in
      match init with
      | 0 => match body with [] => dot | _ => body end
      | _ => repeat sl init ++ body
      end
  end.

(* posixpath.abspath with os.getcwd() = cwd *)
Definition abspath (cwd p : str) : str :=
  if isabs p then normpath p else normpath (join cwd p).

(* p[:p.rfind('/')+1] *)
Fixpoint head_sl (p:str) : str :=
  match p with
  | [] => []
  | c :: r => let h := head_sl r in
              if is_sl c then c :: h else match h with [] => [] | _ => c :: h end
  end.
(* s.rstrip('/') *)
Fixpoint rstrip_sl (p:str) : str :=
  match p with
  | [] => []
  | c :: r => let t := rstrip_sl r in
              match t with [] => if is_sl c then [] else [c] | _ => c :: t end
  end.
Definition all_sl (p:str) : bool := forallb is_sl p.
(* posixpath.dirname *)
Definition dirname (p:str) : str :=
  let h := head_sl p in
  match h with
  | [] => h
  | _ => if all_sl h then h else rstrip_sl h
  end.

(* file_name_normalized = os.path.normpath(os.path.abspath(file_name)) *)
Definition nrm (cwd file : str) : str := normpath (abspath cwd file).

(* Which file a name denotes: exactly two leading slashes survive normpath, yet on Linux
   "//x" is the file "/x".  The file table is keyed by names with one leading slash; the cycle
   test of the code compares the normalised NAMES (so "//x" and "/x" are different entries of
   the include stack although they are the same file). *)
Definition fs_key (n:str) : str :=
  match n with
  | c1 :: r1 => match r1 with
                | c2 :: _ => if is_sl c1 && is_sl c2 then r1 else n
                | [] => n
                end
  | [] => n
  end.

(* ---------------------------------------------------------------- file system oracle *)
Inductive fent := FObjs (l:list obj) | FBad (line:nat).   (* parsed objects | the parser refuses the text (error line) *)
Definition fsys := list (str * fent).

Definition k_cycle : str := s_ "IncludeCycle".
Definition k_args : str := s_ "IncludeArgs".
Definition k_unknown : str := s_ "UnknownIncludeType".
Definition k_unmodelled : str := s_ "Unmodelled".
Definition k_parse : str := s_ "ParseError".
Definition c_fuel : str := s_ "OutOfFuel".
Definition c_nofile : str := s_ "FileNotFoundError".

Fixpoint fs_get (fs:fsys) (p:str) : res (list obj) :=
  match fs with
  | [] => Crash c_nofile
  | (k, v) :: r =>
      if eqs k p then match v with FObjs l => Ok l | FBad ln => UErr k_parse [] ln end
      else fs_get r p
  end.

(* ---------------------------------------------------------------- the include line *)
Inductive ikind :=
  | IKUnmodelled                              (* resolve_variables would rewrite the words *)
  | IKErr (k:str)
  | IKFile (name:str)
  | IKScope (import_path:str) (phil_path:option str).

(* a word that definition.resolve_variables looks into: not single-quoted, and has a "$" *)
Definition has_dollar (w:word) : bool := negb (quote_eqb (wq w) Q1) && mem "$" (wv w).

Definition classify (ws:list word) : ikind :=
  if existsb has_dollar ws then IKUnmodelled
  else
    match ws with
    | [] => IKErr k_args
    | w0 :: r0 =>
        match r0 with
        | [] => IKErr k_args                               (* len(words) < 2 *)
        | w1 :: rest =>
            let t := lowers (wv w0) in
            if eqs t (s_ "file") then
              match rest with [] => IKFile (wv w1) | _ => IKErr k_args end
            else if eqs t (s_ "scope") then
              match rest with
              | [] => IKScope (wv w1) None
              | w2 :: rest2 => match rest2 with [] => IKScope (wv w1) (Some (wv w2)) | _ => IKErr k_args end
              end
            else IKErr k_unknown
        end
    end.

(* reference_directory handling of process_includes *)
Definition resolve (refdir:option str) (x:str) : str :=
  match refdir with
  | Some d => if isabs x then x else join d x
  | None => x
  end.

Definition s_include : str := s_ "include".

Section Walk.
  Variable isc : str -> option str -> option (list obj).
  (* parse(file_name=..., process_includes=True, include_stack=include_stack) *)
  Variable rec : str -> res (list obj).
  Variable refdir : option str.

  Definition inc_def (h:hdr) (ws:list word) : res (list obj) :=
    match classify ws with
    | IKUnmodelled => UErr k_unmodelled [] (oline h)
    | IKErr k => UErr k [] (oline h)
    | IKFile x => rec (resolve refdir x)
    | IKScope ip pp =>
        match isc ip pp with Some l => Ok l | None => UErr k_unmodelled [] (oline h) end
    end.

  (* one iteration of "for object in self.objects": the objects appended to result.
     A scope that is walked comes back through customized_copy: is_template := 0. *)
  Fixpoint walk (o:obj) : res (list obj) :=
    match o with
    | Def h ws a =>
        if odis h then Ok [o]
        else if negb (eqs (oname h) s_include) then Ok [o]
        else inc_def h ws
    | Scp h ks a =>
        if odis h then Ok [o]
        else
          do ks' <- (fix go (l:list obj) : res (list obj) :=
                       match l with
                       | [] => Ok []
                       | k :: r => do x <- walk k; do y <- go r; Ok (x ++ y)
                       end) ks;
          Ok [Scp (with_tmpl h 0%Z) ks' a]
    end.

  Fixpoint walks (l:list obj) : res (list obj) :=
    match l with
    | [] => Ok []
    | k :: r => do x <- walk k; do y <- walks r; Ok (x ++ y)
    end.
End Walk.

Definition chain_text (chain:list str) : str := joins (s_ ", ") chain.

Section Inc.
  Variable isc : str -> option str -> option (list obj).
  Variable fs : fsys.
  Variable cwd : str.

  (* parse(file_name=file, process_includes=True, include_stack=stack).objects
     order as in the code: open + parse, then the cycle test, push, walk, pop *)
  Fixpoint includes (fuel:nat) (stack:list str) (file:str) : res (list obj) :=
    match fuel with
    | 0 => Crash c_fuel
    | S f =>
        let n := nrm cwd file in
        do objs <- fs_get fs (fs_key n);
        if mems n stack then UErr k_cycle (chain_text (stack ++ [n])) 0
        else walks isc (includes f (stack ++ [n])) (Some (dirname n)) objs
    end.

  (* a file can be on the stack under at most two names ("/x", "//x") *)
  Definition fuel0 : nat := S (2 * length fs).

  (* parse(file_name=file, process_includes=True): include_stack=None becomes a new list and
     the cycle test is skipped - the same as testing against the empty stack *)
  Definition includes_file (file:str) : res (list obj) := includes fuel0 [] file.

  (* parse(input_string=..., process_includes=True) where [objs] is what the parser made of the
     string: reference_directory None, process_includes starts a fresh stack *)
  Definition includes_string (objs:list obj) : res (list obj) :=
    walks isc (includes fuel0 []) None objs.
End Inc.

(* the executable instance: "include scope" is not modelled *)
Definition isc0 : str -> option str -> option (list obj) := fun _ _ => None.
