(* Wire entry points (sx -> sx) for the Vars cluster. *)
From Coq Require Import List Ascii String Bool Arith.
From Phil Require Import Base Tree Vars.
Import ListNotations.
Local Open Scope char_scope.

Definition sx_fragment (f:fragment) : sx := SL [sx_bool (frag_is_var f); SA (frag_value f)].

(* word -> res (force_string have_variables ((is_variable value) ...)) *)
Definition run_fragments (x:sx) : sx :=
  match word_of_sx x with
  | Some w =>
      sx_res (fun '(force, have, frs) => SL [sx_bool force; sx_bool have; SL (map sx_fragment frs)])
             (fragments_of_word w)
  | None => sx_bad
  end.

(* text -> is_standard_identifier *)
Definition run_ident (x:sx) : sx :=
  match x with SA s => sx_bool (var_ident s) | _ => sx_bad end.

(* environment: association list ((name value) ...) *)
Fixpoint assoc (l:list (str * str)) (k:str) : option str :=
  match l with [] => None | (a, b) :: r => if eqs a k then Some b else assoc r k end.
Definition pair_of_sx (x:sx) : option (str * str) :=
  match x with SL [SA k; SA v] => Some (k, v) | _ => None end.
Definition env_of_sx (x:sx) : option (list (str * str)) :=
  match x with SL l => all_some (map pair_of_sx l) | _ => None end.

Definition ids_of_sx (x:sx) : option (list nat) :=
  match x with
  | SL l => all_some (map (fun y => match y with SA s => nat_of_str s | _ => None end) l)
  | _ => None end.

(* (tree env (id ...)) -> (doc_ordered ((res-plain res-diff) ...)) *)
Definition run_resolve_ids (x:sx) : sx :=
  match x with
  | SL [t; e; ids] =>
      match objs_of_sx t, env_of_sx e, ids_of_sx ids with
      | Some t', Some e', Some ids' =>
          SL [sx_bool (doc_ordered t');
              SL (map (fun id => SL [sx_res sx_words (resolve_id (assoc e') false t' id);
                                     sx_res sx_words (resolve_id (assoc e') true t' id)]) ids')]
      | _, _, _ => sx_bad
      end
  | _ => sx_bad
  end.

(* definitions of a resolved tree in document order: ((name words) ...) *)
Fixpoint flat_defs (o:obj) : list sx :=
  match o with
  | Def h ws _ => [SL [SA (oname h); sx_words ws]]
  | Scp _ ks _ => (fix go (l:list obj) : list sx :=
                     match l with [] => [] | k :: r => flat_defs k ++ go r end) ks
  end.
Definition sx_flat (l:list obj) : sx := SL (flat_map flat_defs l).

(* (tree env) -> res of root.resolve_variables() *)
Definition run_resolve_all (x:sx) : sx :=
  match x with
  | SL [t; e] =>
      match objs_of_sx t, env_of_sx e with
      | Some t', Some e' => sx_res sx_flat (resolve_objs (assoc e') [t'] t')
      | _, _ => sx_bad
      end
  | _ => sx_bad
  end.

(* (tree env path) -> res of root.get(path) *)
Definition run_get (x:sx) : sx :=
  match x with
  | SL [t; e; SA path] =>
      match objs_of_sx t, env_of_sx e with
      | Some t', Some e' => sx_res sx_flat (get_resolved (assoc e') t' path)
      | _, _ => sx_bad
      end
  | _ => sx_bad
  end.
