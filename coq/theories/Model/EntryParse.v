(* Wire entry points for the parser cluster. *)
From Coq Require Import List Ascii String Bool Arith ZArith.
From Phil Require Import Base Tokenizer Tree Parser.
Import ListNotations.
Local Open Scope char_scope.

Definition res_aval_of_sx (x:sx) : option (res aval) :=
  match x with
  | SL [SA k; v] => if eqs k (s_ "ok") then option_map Ok (aval_of_sx v)
                    else if eqs k (s_ "crash") then match v with SA c => Some (Crash c) | _ => None end
                    else None
  | SL [SA k; SA kind; SA tok; SA line] =>
      if eqs k (s_ "uerr") then option_map (fun l => UErr kind tok l) (nat_of_str line) else None
  | _ => None
  end.
Definition oracle_of_sx (x:sx) : option oracle :=
  match x with
  | SL l => all_some (map (fun e => match e with
                                    | SL [SA k; r] => option_map (fun r' => (k, r')) (res_aval_of_sx r)
                                    | _ => None end) l)
  | _ => None
  end.

(* (oracle text) -> res (list obj) *)
Definition run_parse (x:sx) : sx :=
  match x with
  | SL [o; SA text] =>
      match oracle_of_sx o with
      | Some o' => sx_res sx_objs (parse o' text)
      | None => sx_bad end
  | _ => sx_bad
  end.

(* ---------- printer *)
From Phil Require Import Show.
Definition optZ_of (x:sx) : option (option Z) := optZ_of_sx x.
(* (objs prefix expert level width) -> res text ; expert/width are () or (n) *)
Definition run_show (x:sx) : sx :=
  match x with
  | SL [objs; SA prefix; e; SA lv; w] =>
      match objs_of_sx objs, optZ_of e, Z_of_str lv, optZ_of w with
      | Some l, Some e', Some lv', Some w' => sx_res SA (as_str l prefix e' lv' w')
      | _, _, _, _ => sx_bad end
  | _ => sx_bad
  end.

(* the side condition of C19_expert_filter_is_prune, evaluated on a tree sent by the harness *)
From Phil Require Import ShowProofs.
Definition run_wfshow (x:sx) : sx :=
  match objs_of_sx x with Some l => sx_bool (forallb wf_show l) | None => sx_bad end.

(* the hypothesis of C01_tree_level0 / C01_text_fixpoint_level0, evaluated on a tree sent by the harness *)
From Phil Require Import WordsRoundtrip TreeRoundtrip.
Definition run_dtreeok (x:sx) : sx :=
  match objs_of_sx x with Some l => sx_bool (forallb (dtree_ok []) l) | None => sx_bad end.
