(* Model of freephil/command_line.py (argument_interpreter) and of the part of
   common.py it uses to list the master's parameters (scope.all_definitions).

   Mirrored, branch by branch:
     str.find / startswith / endswith            pyfind / startswith / endswith
     argument_interpreter.get_path_score         get_path_score
     scope.all_definitions, _all_definitions     all_definitions (over Tree.obj)
     recursive_expert_level (in process_arg)     recursive_expert_level
     target_locators (in process_arg)            dedupe / target_locators
     the body of the loop of process_arg         decide / decide_for
     the loop of process_arg over the source
       definitions of one argument               process_sources / process_arg_paths
     process_args (argument pre-processing)      prep_arg / process_args

   Not modelled here (other files / oracle): freephil.parse of the argument text (the
   harness sends the source paths the real parser produced), the re-rendering
   customized_copy(name=target).as_str() and the final re-parse (value transfer), the
   file system (isfile is an explicit function argument). *)
From Coq Require Import List Ascii String Bool Arith ZArith Lia.
From Phil Require Import Base Tree.
Import ListNotations.
Local Open Scope char_scope.
Local Open Scope Z_scope.

Definition dot : ascii := ".".

(* ---------- Python string primitives *)

(* t.find(s): index of the first occurrence of s in t, or -1.  ffrom carries the index of
   the current suffix.  At the end of t only the empty s still matches (Python: "ab".find("") = 0,
   "".find("") = 0, "ab".find("c") = -1). *)
Fixpoint ffrom (s t : str) (i : Z) : Z :=
  match t with
  | [] => if prefixb s [] then i else -1
  | _ :: r => if prefixb s t then i else ffrom s r (i + 1)
  end.
Definition pyfind (t s : str) : Z := ffrom s t 0.

(* t.startswith(p) *)
Definition startswith (t p : str) : bool := prefixb p t.

(* t.endswith(s): len(s) <= len(t) and t[len(t)-len(s):] == s *)
Definition endswith (t s : str) : bool :=
  if (length t <? length s)%nat then false else eqs (drop (length t - length s) t) s.

(* ---------- get_path_score (command_line.py:54-76).
   The Python keeps a flag target_path_start_with_home_scope; the home-scope block either
   returns (7, 6, 5) or sets the flag.  home_block returns (early return value, flag). *)
Definition home_block (home : option str) (source target : str) : option Z * bool :=
  match home with
  | None => (None, false)
  | Some h =>
      if eqs (h ++ dot :: source) target then (Some 7, false)
      else if startswith target (h ++ [dot]) then
        if endswith target (dot :: source) then (Some 6, false)
        else if endswith target source then (Some 5, false)
        else (None, true)
      else (None, false)
  end.

Definition get_path_score (home : option str) (source target : str) : Z :=
  let i := pyfind target source in
  if i <? 0 then 0
  else if (i =? 0) && (length source =? length target)%nat then 8
  else
    match home_block home source target with
    | (Some r, _) => r
    | (None, flag) =>
        if flag then 2
        else if endswith target (dot :: source) then 4
        else if endswith target source then 3
        else 1
    end.

(* ---------- scope.all_definitions over Tree.obj.
   An object_locator is (parent, path, object); of the object only expert_level is used, of the
   parent only the chain parent, parent.primary_parent_scope, ... and their expert levels.
   The model has no parent pointers: the chain is the list of enclosing scopes met on the way
   down, innermost first, ending with the scope all_definitions was called on (for trees built
   by the parser, scope.adopt makes primary_parent_scope exactly that). *)
Definition expert_of (a : attrs) : option Z :=
  match get_attr (s_ "expert_level") a with AInt z => Some z | _ => None end.

Record loc := mkloc { lpath : str; lown : option Z; lchain : list (option Z) }.

(* object._all_definitions(parent, parent_path, result) with suppress_multiple=False,
   select_tmp=None.  definition: skipped when its name is "include".  scope: parent_path +=
   name + "." and recursion over active_objects() (is_disabled children skipped). *)
Fixpoint all_defs (chain : list (option Z)) (ppath : str) (o : obj) : list loc :=
  match o with
  | Def h _ a =>
      if eqs (oname h) (s_ "include") then []
      else [mkloc (ppath ++ oname h) (expert_of a) chain]
  | Scp h ks a =>
      let pp := ppath ++ oname h ++ [dot] in
      let ch := expert_of a :: chain in
      (fix go (l : list obj) : list loc :=
         match l with
         | [] => []
         | k :: r => (if odis (ohdr k) then [] else all_defs ch pp k) ++ go r
         end) ks
  end.

(* scope.all_definitions(): the scope it is called on contributes no path component
   (parent_path=""), is never tested for is_disabled itself, and is the last element of every
   chain.  Called on a definition: no such method. *)
Definition all_definitions (root : obj) : res (list loc) :=
  match root with
  | Def _ _ _ => Crash (s_ "AttributeError")
  | Scp _ ks a =>
      Ok (flat_map (fun k => if odis (ohdr k) then [] else all_defs [expert_of a] [] k) ks)
  end.

(* recursive_expert_level (command_line.py:97-113): own level if not None; else the first
   non-None level walking parent, parent.primary_parent_scope, ...; else 0.
   (A scope object is always truthy: scope defines neither __len__ nor __bool__.) *)
Fixpoint parent_expert_level (chain : list (option Z)) : Z :=
  match chain with
  | [] => 0
  | Some e :: _ => e
  | None :: r => parent_expert_level r
  end.
Definition recursive_expert_level (l : loc) : Z :=
  match lown l with Some e => e | None => parent_expert_level (lchain l) end.

(* target_locators (process_arg): the locators of all_definitions() with later occurrences of an
   already seen path dropped, the first occurrence kept; target_paths and expert_level are both
   computed from this list, so they stay aligned *)
Fixpoint dedupe (seen : list str) (l : list loc) : list loc :=
  match l with
  | [] => []
  | x :: r => if mems (lpath x) seen then dedupe seen r else x :: dedupe (lpath x :: seen) r
  end.
Definition target_locators (master : obj) : res (list loc) :=
  do locs <- all_definitions master; Ok (dedupe [] locs).

(* ---------- list primitives of the decision: max(), list.count, list.index *)
Fixpoint zmax (l : list Z) : option Z :=       (* None = ValueError: max() of an empty list *)
  match l with
  | [] => None
  | x :: r => match zmax r with None => Some x | Some m => Some (if m <? x then x else m) end
  end.
Fixpoint zcount (x : Z) (l : list Z) : nat :=
  match l with [] => 0%nat | y :: r => (if y =? x then S (zcount x r) else zcount x r) end.
Fixpoint zindex (x : Z) (l : list Z) : option nat :=   (* first occurrence *)
  match l with
  | [] => None
  | y :: r => if y =? x then Some 0%nat else option_map S (zindex x r)
  end.

(* [target_path for target_path, score in zip(target_paths, scores) if score == max_score] *)
Fixpoint best_matches (targets : list str) (scores : list Z) (m : Z) : list str :=
  match targets, scores with
  | t :: tr, s :: sr => if s =? m then t :: best_matches tr sr m else best_matches tr sr m
  | _, _ => []
  end.

(* The tie-break list is
     [score - (exp_lvl / 100) if score == max_score else float("-inf") for ... in zip(scores, expert_level)]
   Only positions holding the maximal score compete; the others hold -inf.  The model uses
   option Z with None = -inf and Some (100*score - exp_lvl) for the competitors.
   Float versus integer: all competitors have the same score m (1..8), so two competitors are
   compared by fl(m - fl(e/100)) and fl(m - fl(e'/100)).  Equal levels: the very same float
   computation, equal results.  Different levels: e/100 and e'/100 differ by at least 0.01 in the
   reals while the rounding error is a few ulp of a number of magnitude <= 8 + |e|/100, i.e. below
   2^-17 for |e| <= 2^40; so the floats are ordered as the integers -e, -e' are (spot-checked on
   1.6 million random adjacent level pairs per score).  Every finite float is above -inf.  The
   previous difficulty (equal integer keys at *different* scores rounding differently) cannot
   occur any more, because different scores no longer compete.  What remains: for huge levels
   (beyond about 2^53) neighbouring levels collapse to one float (Python reports a tie the
   integers do not have) and above about 1.8e310 the division raises OverflowError - only for
   competitors, the conditional expression does not evaluate the division elsewhere.
   tiebreak_exact is the guard the entry point uses: when a competitor's level is outside
   +-2^40 the model answers "unmodelled" instead of guessing. *)
Definition tb_key (m : Z) (p : Z * Z) : option Z :=
  if fst p =? m then Some (100 * fst p - snd p) else None.
Definition tiebreak_exact (scores levels : list Z) (m : Z) : bool :=
  forallb (fun p => negb (fst p =? m) || ((- (2 ^ 40) <=? snd p) && (snd p <=? 2 ^ 40)))
          (combine scores levels).

(* max / count / index on the tie-break list (None = -inf is below every Some) *)
Definition oltb (a b : option Z) : bool :=
  match a, b with
  | None, Some _ => true
  | Some x, Some y => x <? y
  | _, None => false
  end.
Definition oeqb (a b : option Z) : bool :=
  match a, b with
  | None, None => true
  | Some x, Some y => x =? y
  | _, _ => false
  end.
Fixpoint omax (l : list (option Z)) : option (option Z) :=    (* outer None = ValueError *)
  match l with
  | [] => None
  | x :: r => match omax r with None => Some x | Some m => Some (if oltb m x then x else m) end
  end.
Fixpoint ocount (x : option Z) (l : list (option Z)) : nat :=
  match l with [] => 0%nat | y :: r => (if oeqb y x then S (ocount x r) else ocount x r) end.
Fixpoint oindex (x : option Z) (l : list (option Z)) : option nat :=
  match l with
  | [] => None
  | y :: r => if oeqb y x then Some 0%nat else option_map S (oindex x r)
  end.

Inductive decision :=
  | Unknown                                   (* Sorry "Unknown ... parameter definition" *)
  | Ambiguous (cands : list str)              (* Sorry "Ambiguous parameter definition", Best matches *)
  | Chosen (i : nat) (t : str) (warn : bool). (* target_paths[i] = t; warn = the Warning was printed *)

(* body of the for-loop of process_arg for one source definition, given the score list.
   zip() truncates to the shorter list (combine does the same). *)
Definition pick_at (targets : list str) (oi : option nat) (warn : bool) : res decision :=
  match oi with
  | None => Crash (s_ "ValueError")                      (* list.index: not in list *)
  | Some i => match nth_error targets i with
              | None => Crash (s_ "IndexError")
              | Some t => Ok (Chosen i t warn) end
  end.
Definition pick (targets : list str) (l : list Z) (m : Z) (warn : bool) : res decision :=
  pick_at targets (zindex m l) warn.

(* max(scores, default=0): an empty list gives 0 (no ValueError) *)
Definition zmax_default0 (l : list Z) : Z := match zmax l with None => 0 | Some m => m end.

(* the tie-break: second max(), count, index on the list with -inf for non-competitors *)
Definition tiebreak (targets cands : list str) (keys : list (option Z)) : res decision :=
  match omax keys with
  | None => Crash (s_ "ValueError")                       (* the second max() has no default *)
  | Some m2 =>
      if (1 <? ocount m2 keys)%nat then Ok (Ambiguous cands)
      else pick_at targets (oindex m2 keys) true
  end.

(* the loop body after max_score has been computed *)
Definition decide_at (targets : list str) (levels scores : list Z) (m : Z) : res decision :=
  if m =? 0 then Ok Unknown
  else if (1 <? zcount m scores)%nat then
    tiebreak targets (best_matches targets scores m) (map (tb_key m) (combine scores levels))
  else pick targets scores m false.

Definition decide (targets : list str) (levels scores : list Z) : res decision :=
  decide_at targets levels scores (zmax_default0 scores).

Definition decide_for (home : option str) (targets : list str) (levels : list Z) (source : str)
  : res decision :=
  decide targets levels (map (get_path_score home source) targets).

(* ---------- process_arg after the argument has been parsed: loop over the source
   definitions' paths.  Result = warnings printed so far (the assumed targets, in order) and
   how the call ended. *)
Inductive ending :=
  | EOk (chosen : list (nat * str))        (* one chosen target per source definition, in order *)
  | EUnknown (src : str)
  | EAmbiguous (src : str) (cands : list str)
  | ENoEffect                              (* complete_definitions == "" *)
  | ECrash (c : str).

Fixpoint process_sources (home : option str) (targets : list str) (levels : list Z)
         (sources : list str) (warned : list str) (acc : list (nat * str)) : list str * ending :=
  match sources with
  | [] => (warned, match acc with [] => ENoEffect | _ => EOk acc end)
  | s :: r =>
      match decide_for home targets levels s with
      | Ok Unknown => (warned, EUnknown s)
      | Ok (Ambiguous c) => (warned, EAmbiguous s c)
      | Ok (Chosen i t w) =>
          process_sources home targets levels r (if w then warned ++ [t] else warned) (acc ++ [(i, t)])
      | UErr _ _ _ => (warned, ECrash (s_ "unreachable"))
      | Crash c => (warned, ECrash c)
      end
  end.

Definition process_arg_paths (home : option str) (master : obj) (sources : list str)
  : list str * ending :=
  match target_locators master with
  | Ok locs =>
      process_sources home (map lpath locs) (map recursive_expert_level locs) sources [] []
  | UErr _ _ _ => ([], ECrash (s_ "unreachable"))
  | Crash c => ([], ECrash c)
  end.

(* ---------- process_args (command_line.py:173-217): what is done with each argument.
   isfile is the file-system oracle. *)
Inductive prep :=
  | PSkip                      (* blank argument: continue *)
  | PFlag (text : str)         (* "--..." : process_arg(text), errors propagate *)
  | PFile                      (* an existing file: not modelled further *)
  | PDef (text : str)          (* contains "=": try process_arg(text); on failure fall through *)
  | POther.                    (* custom_processor / Sorry "Uninterpretable" *)

Definition prep_arg (isfile : str -> bool) (arg : str) : prep :=
  if forallb isspace arg then PSkip                          (* len(arg.strip()) == 0 *)
  else if startswith arg (s_ "--") then
    let w := drop 2 arg in                                   (* arg[2:] *)
    PFlag (if pyfind w (s_ "=") <? 0 then w ++ s_ " = True" else w)
  else if isfile arg then PFile
  else if 0 <=? pyfind arg (s_ "=") then PDef arg
  else POther.

(* outcome of process_args: the list of interpreted arguments (and, when collecting, the
   remaining arguments), or the first error.  process_arg is abstract here: pa text = Ok phil,
   or UErr/Crash.  collect = custom_processor appends the argument to remaining_args and
   returns True (process_and_fetch(custom_processor="collect_remaining")); otherwise
   custom_processor is None. *)
Section ProcessArgs.
  Context {A : Type}.
  Variable isfile : str -> bool.
  Variable pa : str -> res A.
  Variable collect : bool.

  Definition uninterpretable (arg : str) : res (list A * list str) -> res (list A * list str) :=
    fun rest =>
      if collect then do (ps, rem) <- rest; Ok (ps, arg :: rem)
      else UErr (s_ "Uninterpretable") arg 0.

  Fixpoint process_args (args : list str) : res (list A * list str) :=
    match args with
    | [] => Ok ([], [])
    | arg :: r =>
        match prep_arg isfile arg with
        | PSkip => process_args r
        | PFlag text =>
            do p <- pa text; do (ps, rem) <- process_args r; Ok (p :: ps, rem)
        | PFile => Crash (s_ "Unmodelled")
        | PDef text =>
            match pa text with
            | Ok p => do (ps, rem) <- process_args r; Ok (p :: ps, rem)
            | _ => uninterpretable arg (process_args r)    (* except (Exception, Sorry): pass *)
            end
        | POther => uninterpretable arg (process_args r)
        end
    end.
End ProcessArgs.
