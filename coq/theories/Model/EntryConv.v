(* Wire entry points (sx -> sx) for the converter cluster. *)
From Coq Require Import List Ascii String Bool Arith ZArith.
From Phil Require Import Base Conv.
Import ListNotations.
Local Open Scope char_scope.

Definition tag (k:string) (l:list sx) : sx := SL (SA (s_ k) :: l).

(* ---- big integers travel in hexadecimal (linear-time codecs; decimal text of Base.sx_Z is quadratic) *)
Definition hexval (c:ascii) : option nat :=
  let n := nat_of c in
  if ((48 <=? n) && (n <=? 57))%nat then Some (n - 48)%nat
  else if ((97 <=? n) && (n <=? 102))%nat then Some (n - 87)%nat else None.
Definition push_bit (z:Z) (b:bool) : Z := if b then Z.succ_double z else Z.double z.
Fixpoint hex_digits (s:str) (acc:Z) : option Z :=
  match s with
  | [] => Some acc
  | c :: r =>
      match hexval c with
      | Some n =>
          let t k := Nat.testbit n k in
          hex_digits r (push_bit (push_bit (push_bit (push_bit acc (t 3%nat)) (t 2%nat)) (t 1%nat)) (t 0%nat))
      | None => None
      end
  end.
Definition Z_of_hex (s:str) : option Z :=
  match s with
  | [] => None
  | c :: r => if Ascii.eqb c "-" then match r with [] => None | _ => option_map Z.opp (hex_digits r 0%Z) end
              else hex_digits s 0%Z
  end.
Definition sx_Zh (z:Z) : sx := SA (hex_of_Z z).

(* ---- numbers: (i hex) (f m e) (nz) (inf neg) (nan) (b bool) *)
Definition sx_num (n:num) : sx :=
  match n with
  | NInt z => tag "i" [sx_Zh z]
  | NFlt m e => tag "f" [sx_Z m; sx_Z e]
  | NNegZero => tag "nz" []
  | NInf neg => tag "inf" [sx_bool neg]
  | NNaN => tag "nan" []
  | NBool b => tag "b" [sx_bool b]
  end.
Definition num_of_sx (x:sx) : option num :=
  match x with
  | SL [SA k] => if eqs k (s_ "nz") then Some NNegZero else if eqs k (s_ "nan") then Some NNaN else None
  | SL [SA k; SA a] =>
      if eqs k (s_ "i") then option_map NInt (Z_of_hex a)
      else if eqs k (s_ "inf") then option_map NInf (bool_of_sx (SA a))
      else if eqs k (s_ "b") then option_map NBool (bool_of_sx (SA a))
      else None
  | SL [SA k; SA a; SA b] =>
      if eqs k (s_ "f") then
        match Z_of_str a, Z_of_str b with Some m, Some e => Some (NFlt m e) | _, _ => None end
      else None
  | _ => None
  end.
Definition optnum_of_sx (x:sx) : option (option num) :=
  match x with
  | SL [] => Some None
  | SL [n] => option_map Some (num_of_sx n)
  | _ => None
  end.
Definition optZ_of_sx (x:sx) : option (option Z) :=
  match x with
  | SL [] => Some None
  | SL [SA s] => option_map Some (Z_of_str s)
  | _ => None
  end.

(* ---- eval results: (num n) (none) (auto) (other) (raise) *)
Definition evr_of_sx (x:sx) : option evr :=
  match x with
  | SL [SA k] =>
      if eqs k (s_ "none") then Some ENone else if eqs k (s_ "auto") then Some EAuto
      else if eqs k (s_ "other") then Some EOther else if eqs k (s_ "raise") then Some ERaise else None
  | SL [SA k; n] => if eqs k (s_ "num") then option_map ENum (num_of_sx n) else None
  | _ => None
  end.
Definition evpair_of_sx (x:sx) : option (str * evr) :=
  match x with SL [SA s; r] => option_map (fun e => (s, e)) (evr_of_sx r) | _ => None end.
Definition evtable_of_sx (x:sx) : option (list (str * evr)) :=
  match x with SL l => all_some (map evpair_of_sx l) | _ => None end.
Fixpoint lookup_ev (t:list (str * evr)) (s:str) : option evr :=
  match t with [] => None | (k, v) :: r => if eqs k s then Some v else lookup_ev r s end.

(* ---- "%.10g" table: ((num text) ...) *)
Definition num_eqb (a b:num) : bool :=
  match a, b with
  | NInt x, NInt y => Z.eqb x y
  | NFlt m e, NFlt m' e' => Z.eqb m m' && Z.eqb e e'
  | NNegZero, NNegZero => true
  | NInf x, NInf y => Bool.eqb x y
  | NNaN, NNaN => true
  | NBool x, NBool y => Bool.eqb x y
  | _, _ => false
  end.
Definition fmtpair_of_sx (x:sx) : option (num * str) :=
  match x with SL [n; SA s] => option_map (fun n' => (n', s)) (num_of_sx n) | _ => None end.
Definition fmttable_of_sx (x:sx) : option (list (num * str)) :=
  match x with SL l => all_some (map fmtpair_of_sx l) | _ => None end.
Fixpoint lookup_fmt (t:list (num * str)) (n:num) : option str :=
  match t with [] => None | (k, v) :: r => if num_eqb k n then Some v else lookup_fmt r n end.

(* ---- converter instances *)
Definition cty_of_sx (x:sx) : option cty :=
  match x with
  | SL [SA k] => if eqs k (s_ "bool") then Some CBool else None
  | SL [SA k; a; b; n] =>
      match optnum_of_sx a, optnum_of_sx b, bool_of_sx n with
      | Some a', Some b', Some n' =>
          if eqs k (s_ "int") then Some (CInt (mknconv a' b' n'))
          else if eqs k (s_ "float") then Some (CFloat (mknconv a' b' n'))
          else None
      | _, _, _ => None
      end
  | SL [SA k; a; b; c; d; e; f] =>
      match optZ_of_sx a, optZ_of_sx b, optnum_of_sx c, optnum_of_sx d, bool_of_sx e, bool_of_sx f with
      | Some a', Some b', Some c', Some d', Some e', Some f' =>
          if eqs k (s_ "ints") then Some (CInts (mklconv a' b' c' d' e' f'))
          else if eqs k (s_ "floats") then Some (CFloats (mklconv a' b' c' d' e' f'))
          else None
      | _, _, _, _, _, _ => None
      end
  | _ => None
  end.

(* ---- python values: (none) (auto) (num n) (list v...) *)
Fixpoint sx_pyv (v:pyv) : sx :=
  match v with
  | PNone => tag "none" []
  | PAuto => tag "auto" []
  | PNum n => tag "num" [sx_num n]
  | PList l => tag "list" (map sx_pyv l)
  end.
Fixpoint pyv_of_sx (x:sx) : option pyv :=
  match x with
  | SL (SA k :: l) =>
      if eqs k (s_ "list") then option_map PList (all_some (map pyv_of_sx l))
      else match l with
           | [] => if eqs k (s_ "none") then Some PNone else if eqs k (s_ "auto") then Some PAuto else None
           | [n] => if eqs k (s_ "num") then option_map PNum (num_of_sx n) else None
           | _ => None
           end
  | _ => None
  end.

(* (type words evaltable) -> res pyv *)
Definition run_from_words (x:sx) : sx :=
  match x with
  | SL [t; ws; tbl] =>
      match cty_of_sx t, words_of_sx ws, evtable_of_sx tbl with
      | Some t', Some ws', Some tbl' => sx_res sx_pyv (from_words (lookup_ev tbl') t' ws')
      | _, _, _ => sx_bad
      end
  | _ => sx_bad
  end.

(* (type value fmttable) -> res words *)
Definition run_as_words (x:sx) : sx :=
  match x with
  | SL [t; v; tbl] =>
      match cty_of_sx t, pyv_of_sx v, fmttable_of_sx tbl with
      | Some t', Some v', Some tbl' => sx_res sx_words (as_words (lookup_fmt tbl') t' v')
      | _, _, _ => sx_bad
      end
  | _ => sx_bad
  end.

(* text -> () | (z) : Python int(text) *)
Definition run_int_of_str (x:sx) : sx :=
  match x with
  | SA s => match py_int_of_str s with Some z => SL [sx_Zh z] | None => SL [] end
  | _ => sx_bad
  end.

(* z -> res num : Python float(z) *)
Definition run_float_of_int (x:sx) : sx :=
  match x with
  | SA s => match Z_of_hex s with Some z => sx_res sx_num (float_of_Z z) | None => sx_bad end
  | _ => sx_bad
  end.

(* (a b) -> (a<b a<=b) *)
Definition run_num_cmp (x:sx) : sx :=
  match x with
  | SL [a; b] =>
      match num_of_sx a, num_of_sx b with
      | Some a', Some b' => SL [sx_bool (num_lt a' b'); sx_bool (num_le a' b')]
      | _, _ => sx_bad
      end
  | _ => sx_bad
  end.

(* constructor asserts: (int|float lo hi allow_none) / (ints|floats size smin smax lo hi ne ae) -> ok | crash *)
Definition run_init (x:sx) : sx :=
  match x with
  | SL [SA k; a; b; n] =>
      match optnum_of_sx a, optnum_of_sx b, bool_of_sx n with
      | Some a', Some b', Some n' => sx_res (fun _ => SL []) (number_init a' b' n')
      | _, _, _ => sx_bad
      end
  | SL [SA k; sz; a; b; c; d; e; f] =>
      match optZ_of_sx sz, optZ_of_sx a, optZ_of_sx b, optnum_of_sx c, optnum_of_sx d, bool_of_sx e, bool_of_sx f with
      | Some sz', Some a', Some b', Some c', Some d', Some e', Some f' =>
          sx_res (fun c => SL [match smin c with Some z => SL [sx_Z z] | None => SL [] end;
                               match smax c with Some z => SL [sx_Z z] | None => SL [] end])
                 (numbers_init sz' a' b' c' d' e' f')
      | _, _, _, _, _, _, _ => sx_bad
      end
  | _ => sx_bad
  end.
