(* The converters of freephil/converters.py on the value type of PyVal.v:
     words, strings, str, qstr, path, key       modelled here, branch by branch
     bool, int, ints                            delegated to Conv.v (value type mapped both ways)
     choice, choice(multi=True)                 delegated to Choice.v
     float, floats, custom converters (TyOther) UErr Unmodelled (fail closed)
   Oracles: pyeval (eval of a numeric text that int() refuses), expanduser (os.path.expanduser; None = it raised
   ValueError, e.g. a NUL byte after the tilde: the converter turns that into a RuntimeError).
   Values of a Python type a converter was not written for: where the Python raises at once the
   model gives the Crash class; where it returns something that is no word list (a word whose value is
   not a str, ...) the model answers UErr Unmodelled. *)
From Coq Require Import List Ascii String Bool Arith ZArith.
From Phil Require Import Base Tokenizer Tree PyVal.
From Phil Require Conv Choice Parser.
Import ListNotations.
Local Open Scope char_scope.

Definition none_w : list word := [uw (s_ "None")].
Definition auto_w : list word := [uw (s_ "Auto")].
Definition unmodelled {A} (what:string) : res A := UErr (s_ "Unmodelled") (s_ what) 0.

(* ---------- words *)
Definition words_from_words (ws:list word) : pyval :=
  if Parser.is_plain_none ws then VNone
  else if Parser.is_plain_auto ws then VAuto
  else VWords ws.
Definition words_as_words (v:pyval) : res (list word) :=
  match v with
  | VNone => Ok none_w
  | VAuto => Ok auto_w
  | VWords l => Ok l                                     (* every item is a tokenizer.word: returned as it is *)
  | VList [] | VScopeList _ [] => Ok []
  | VList _ | VScopeList _ _ => Crash (s_ "AssertionError")   (* assert isinstance(word, tokenizer.word) *)
  | VStr [] => unmodelled "words of a str"
  | VStr _ => Crash (s_ "AssertionError")
  | VNum _ | VScope _ => Crash (s_ "TypeError")          (* not iterable *)
  end.

(* ---------- strings (also the converter of a definition without .type) *)
Definition strings_from_words (ws:list word) : pyval :=
  if Parser.is_plain_none ws then VNone
  else if Parser.is_plain_auto ws then VAuto
  else VList (map (fun w => VStr (wv w)) ws).
(* unquoted only for a standard identifier that is not spelled none / auto (value.lower() not in ("none", "auto")) *)
Definition none_or_auto (s:str) : bool := eqs (lowers s) (s_ "none") || eqs (lowers s) (s_ "auto").
Definition string_word (s:str) : word := if Parser.is_ident s && negb (none_or_auto s) then uw s else qw s.
Definition strings_item (x:pyval) : res word :=
  match x with
  | VStr s => Ok (string_word s)
  | VList _ | VWords _ | VScopeList _ _ => unmodelled "strings item"
  | _ => Crash (s_ "TypeError")                          (* len() of None, Auto, a number, a scope_extract *)
  end.
Definition strings_as_words (v:pyval) : res (list word) :=
  match v with
  | VNone => Ok none_w
  | VAuto => Ok auto_w
  | VList l | VScopeList _ l => Conv.map_res strings_item l
  | VStr s => Ok (map (fun c => string_word [c]) s)      (* iterating a str gives its characters *)
  | VWords [] => Ok []
  | VWords _ => Crash (s_ "TypeError")                   (* len(word) *)
  | VNum _ | VScope _ => Crash (s_ "TypeError")
  end.

(* ---------- str / key / path *)
Definition str_from_words (ws:list word) : pyval :=
  if Parser.is_plain_none ws then VNone
  else if Parser.is_plain_auto ws then VAuto
  else VStr (Parser.join_sp (map wv ws)).
Definition str_as_words (v:pyval) : res (list word) :=
  match v with
  | VNone => Ok none_w
  | VAuto => Ok auto_w
  | VStr s => Ok [qw s]
  | _ => unmodelled "str of a non-str"                   (* a word whose value is no str *)
  end.

(* ---------- qstr *)
Definition qstr_from_words (ws:list word) : pyval :=
  if Parser.is_plain_none ws then VNone
  else if Parser.is_plain_auto ws then VAuto
  else VStr (Parser.join_sp (map str_of_word ws)).
Definition qstr_as_words (v:pyval) : res (list word) :=
  match v with
  | VNone => Ok none_w
  | VAuto => Ok auto_w
  | VStr s => tokenize_value_literal s
  | _ => unmodelled "qstr of a non-str"
  end.

(* ---------- value type maps for the delegated converters *)
Fixpoint to_conv (v:pyval) : option Conv.pyv :=
  match v with
  | VNone => Some Conv.PNone
  | VAuto => Some Conv.PAuto
  | VNum n => Some (Conv.PNum n)
  | VList l => option_map Conv.PList (all_some (map to_conv l))
  | _ => None
  end.
Fixpoint of_conv (v:Conv.pyv) : pyval :=
  match v with
  | Conv.PNone => VNone
  | Conv.PAuto => VAuto
  | Conv.PNum n => VNum n
  | Conv.PList l => VList (map of_conv l)
  end.
Definition optint (o:option Z) : option Conv.num := option_map Conv.NInt o.
Definition cty_of (t:ty) : option Conv.cty :=
  match t with
  | TyBool => Some Conv.CBool
  | TyInt lo hi an => Some (Conv.CInt (Conv.mknconv (optint lo) (optint hi) an))
  | TyInts smin smax lo hi ne ae => Some (Conv.CInts (Conv.mklconv smin smax (optint lo) (optint hi) ne ae))
  | _ => None
  end.

Definition of_choice (v:Choice.pyv) : pyval :=
  match v with
  | Choice.PNone => VNone
  | Choice.PAuto => VAuto
  | Choice.PStr s => VStr s
  | Choice.PList l => VList (map VStr l)
  end.
Definition str_of_val (v:pyval) : option str := match v with VStr s => Some s | _ => None end.
Definition to_choice (v:pyval) : option Choice.pyv :=
  match v with
  | VNone => Some Choice.PNone
  | VAuto => Some Choice.PAuto
  | VStr s => Some (Choice.PStr s)
  | VList l => option_map Choice.PList (all_some (map str_of_val l))
  | _ => None
  end.

Section Oracles.
  Variable pyeval : str -> option Conv.evr.
  Variable expanduser : str -> option str.

  (* the "%.10g" oracle is only reached by float types, which are not modelled here *)
  Definition no_fmt : Conv.num -> option str := fun _ => None.

  (* path_converters.from_words: ValueError of os.path.expanduser -> RuntimeError citing words[0] *)
  Definition path_from_words (ws:list word) : res pyval :=
    match str_from_words ws with
    | VStr s => match expanduser s with
                | Some p => Ok (VStr p)
                | None => Conv.err_at ws "PathRefused" s
                end
    | v => Ok v
    end.

  (* converter.from_words(words, master) ; optional = master.optional *)
  Definition ty_from_words (t:ty) (optional:aval) (ws:list word) : res pyval :=
    match t with
    | TyWords => Ok (words_from_words ws)
    | TyStrings => Ok (strings_from_words ws)
    | TyStr | TyKey => Ok (str_from_words ws)
    | TyQstr => Ok (qstr_from_words ws)
    | TyPath => path_from_words ws
    | TyChoice multi => do v <- Choice.choice_from_words multi optional ws; Ok (of_choice v)
    | TyOther _ => unmodelled "type"
    | _ =>
        match cty_of t with
        | Some c => do v <- Conv.from_words pyeval c ws; Ok (of_conv v)
        | None => unmodelled "type"
        end
    end.

  (* converter.as_words(python_object, master) ; mwords = master.words *)
  Definition ty_as_words (t:ty) (optional:aval) (mwords:list word) (v:pyval) : res (list word) :=
    match t with
    | TyWords => words_as_words v
    | TyStrings => strings_as_words v
    | TyStr | TyKey | TyPath => str_as_words v
    | TyQstr => qstr_as_words v
    | TyChoice multi =>
        match to_choice v with
        | Some c => Choice.choice_as_words multi optional mwords c
        | None => unmodelled "choice value"
        end
    | TyOther _ => unmodelled "type"
    | _ =>
        match cty_of t, to_conv v with
        | Some c, Some x => Conv.as_words no_fmt c x
        | _, _ => unmodelled "numeric value"
        end
    end.
End Oracles.
