(* The PHIL object tree (freephil.definition / freephil.scope), attribute values, converter
   descriptions, and wire codecs.  Parent pointers (primary_parent_scope) do not exist in the
   model: functions that need the enclosing scopes take them as an explicit context. *)
From Coq Require Import List Ascii String Bool Arith ZArith Lia.
From Phil Require Import Base.
Import ListNotations.
Local Open Scope char_scope.

(* converter instances.  Float-typed and custom converters are carried as their printed text
   (TyOther) and are outside the conversion model of this file's users unless stated. *)
Inductive ty :=
  | TyWords | TyStrings | TyStr | TyQstr | TyPath | TyKey | TyBool
  | TyInt (vmin vmax : option Z) (allow_none : bool)
  | TyInts (smin smax : option Z) (vmin vmax : option Z) (none_el auto_el : bool)
  | TyChoice (multi : bool)
  | TyOther (printed : str).

(* attribute values: None is represented by absence (or ANone), Auto by AAuto *)
Inductive aval :=
  | ANone | AAuto | ABool (b:bool) | AInt (z:Z) | AStr (s:str) | AType (t:ty).

Definition attrs := list (str * aval).
Fixpoint get_attr (n:str) (a:attrs) : aval :=
  match a with
  | [] => ANone
  | (k, v) :: r => if eqs k n then v else get_attr n r
  end.
Fixpoint del_attr (n:str) (a:attrs) : attrs :=
  match a with
  | [] => []
  | (k, v) :: r => if eqs k n then del_attr n r else (k, v) :: del_attr n r
  end.
Definition set_attr (n:str) (v:aval) (a:attrs) : attrs :=
  match v with ANone => del_attr n a | _ => (n, v) :: del_attr n a end.

Definition def_attr_names : list str :=
  [s_ "help"; s_ "caption"; s_ "short_caption"; s_ "optional"; s_ "type"; s_ "multiple";
   s_ "input_size"; s_ "style"; s_ "expert_level"; s_ "deprecated"; s_ "alias"].
Definition scope_attr_names : list str :=
  [s_ "style"; s_ "help"; s_ "caption"; s_ "short_caption"; s_ "optional"; s_ "call"; s_ "multiple";
   s_ "sequential_format"; s_ "disable_add"; s_ "disable_delete"; s_ "expert_level"; s_ "alias"].

(* header fields common to definitions and scopes.
   opid  : primary_id, 0 = None (ids handed out by the parser start at 1; the root scope is not an obj)
   oline : line of where_str, 0 = empty where_str
   otmpl : is_template in {-1,0,1} *)
Record hdr := mkhdr { oname : str; odis : bool; otmpl : Z; omerge : bool; opid : nat; oline : nat }.

Inductive obj :=
  | Def (h:hdr) (ws:list word) (a:attrs)
  | Scp (h:hdr) (kids:list obj) (a:attrs).

Definition ohdr (o:obj) : hdr := match o with Def h _ _ | Scp h _ _ => h end.
Definition oattrs (o:obj) : attrs := match o with Def _ _ a | Scp _ _ a => a end.
Definition is_def (o:obj) : bool := match o with Def _ _ _ => true | _ => false end.
Definition okids (o:obj) : list obj := match o with Scp _ k _ => k | _ => [] end.
Definition owords (o:obj) : list word := match o with Def _ w _ => w | _ => [] end.
Definition set_hdr (o:obj) (h:hdr) : obj := match o with Def _ w a => Def h w a | Scp _ k a => Scp h k a end.
Definition with_name (h:hdr) (n:str) : hdr := mkhdr n (odis h) (otmpl h) (omerge h) (opid h) (oline h).
Definition with_tmpl (h:hdr) (t:Z) : hdr := mkhdr (oname h) (odis h) t (omerge h) (opid h) (oline h).
Definition with_merge (h:hdr) (m:bool) : hdr := mkhdr (oname h) (odis h) (otmpl h) m (opid h) (oline h).
Definition with_dis (h:hdr) (d:bool) : hdr := mkhdr (oname h) d (otmpl h) (omerge h) (opid h) (oline h).
Definition plain_hdr (n:str) : hdr := mkhdr n false 0 false 0 0.

(* attribute accessors as Python truthiness where the code uses them that way *)
Definition attr_true (n:str) (o:obj) : bool :=           (* "if obj.multiple:" *)
  match get_attr n (oattrs o) with
  | ABool b => b | AAuto => true | AInt z => negb (Z.eqb z 0)
  | AStr s => negb (match s with [] => true | _ => false end) | AType _ => true | ANone => false end.
Definition omultiple (o:obj) : bool := attr_true (s_ "multiple") o.
Definition odeprecated (o:obj) : bool := match o with Def _ _ _ => attr_true (s_ "deprecated") o | _ => false end.
Definition otype (o:obj) : aval := get_attr (s_ "type") (oattrs o).
Definition ooptional (o:obj) : aval := get_attr (s_ "optional") (oattrs o).

(* size, for fuel *)
Fixpoint osize (o:obj) : nat :=
  match o with
  | Def _ ws _ => 1 + length ws
  | Scp _ ks _ => 1 + (fix go (l:list obj) := match l with [] => 0 | k :: r => osize k + go r end) ks
  end.
Definition osizes (l:list obj) : nat := fold_right (fun o n => osize o + n) 0 l.

(* induction principle that reaches the children *)
Section obj_ind2.
  Variable P : obj -> Prop.
  Hypothesis Hdef : forall h ws a, P (Def h ws a).
  Hypothesis Hscp : forall h ks a, Forall P ks -> P (Scp h ks a).
  Fixpoint obj_ind2 (o:obj) : P o :=
    match o with
    | Def h ws a => Hdef h ws a
    | Scp h ks a =>
        Hscp h ks a ((fix go (l:list obj) : Forall P l :=
                        match l with [] => Forall_nil P | k :: r => Forall_cons k (obj_ind2 k) (go r) end) ks)
    end.
End obj_ind2.

(* ---------- wire codecs *)
Definition sx_optZ (o:option Z) : sx := match o with None => SL [] | Some z => SL [sx_Z z] end.
Definition optZ_of_sx (x:sx) : option (option Z) :=
  match x with
  | SL [] => Some None
  | SL [SA s] => match Z_of_str s with Some z => Some (Some z) | None => None end
  | _ => None end.

Definition sx_ty (t:ty) : sx :=
  match t with
  | TyWords => SL [SA (s_ "words")] | TyStrings => SL [SA (s_ "strings")] | TyStr => SL [SA (s_ "str")]
  | TyQstr => SL [SA (s_ "qstr")] | TyPath => SL [SA (s_ "path")] | TyKey => SL [SA (s_ "key")]
  | TyBool => SL [SA (s_ "bool")]
  | TyInt a b n => SL [SA (s_ "int"); sx_optZ a; sx_optZ b; sx_bool n]
  | TyInts a b c d e f => SL [SA (s_ "ints"); sx_optZ a; sx_optZ b; sx_optZ c; sx_optZ d; sx_bool e; sx_bool f]
  | TyChoice m => SL [SA (s_ "choice"); sx_bool m]
  | TyOther p => SL [SA (s_ "other"); SA p]
  end.
Definition ty_of_sx (x:sx) : option ty :=
  match x with
  | SL [SA k] =>
      if eqs k (s_ "words") then Some TyWords else if eqs k (s_ "strings") then Some TyStrings
      else if eqs k (s_ "str") then Some TyStr else if eqs k (s_ "qstr") then Some TyQstr
      else if eqs k (s_ "path") then Some TyPath else if eqs k (s_ "key") then Some TyKey
      else if eqs k (s_ "bool") then Some TyBool else None
  | SL [SA k; a; b; n] =>
      if eqs k (s_ "int") then
        match optZ_of_sx a, optZ_of_sx b, bool_of_sx n with
        | Some a', Some b', Some n' => Some (TyInt a' b' n') | _, _, _ => None end
      else None
  | SL [SA k; a; b; c; d; e; f] =>
      if eqs k (s_ "ints") then
        match optZ_of_sx a, optZ_of_sx b, optZ_of_sx c, optZ_of_sx d, bool_of_sx e, bool_of_sx f with
        | Some a', Some b', Some c', Some d', Some e', Some f' => Some (TyInts a' b' c' d' e' f')
        | _, _, _, _, _, _ => None end
      else None
  | SL [SA k; m] =>
      if eqs k (s_ "choice") then option_map TyChoice (bool_of_sx m)
      else if eqs k (s_ "other") then match m with SA p => Some (TyOther p) | _ => None end
      else None
  | _ => None
  end.

Definition sx_aval (v:aval) : sx :=
  match v with
  | ANone => SL [SA (s_ "none")] | AAuto => SL [SA (s_ "auto")]
  | ABool b => SL [SA (s_ "bool"); sx_bool b] | AInt z => SL [SA (s_ "int"); sx_Z z]
  | AStr s => SL [SA (s_ "str"); SA s] | AType t => SL [SA (s_ "type"); sx_ty t]
  end.
Definition aval_of_sx (x:sx) : option aval :=
  match x with
  | SL [SA k] => if eqs k (s_ "none") then Some ANone else if eqs k (s_ "auto") then Some AAuto else None
  | SL [SA k; v] =>
      if eqs k (s_ "bool") then option_map ABool (bool_of_sx v)
      else if eqs k (s_ "int") then match v with SA s => option_map AInt (Z_of_str s) | _ => None end
      else if eqs k (s_ "str") then match v with SA s => Some (AStr s) | _ => None end
      else if eqs k (s_ "type") then option_map AType (ty_of_sx v)
      else None
  | _ => None
  end.

(* attributes travel in the class's attribute_names order, None entries omitted *)
Definition sx_attrs (names:list str) (a:attrs) : sx :=
  SL (flat_map (fun n => match get_attr n a with ANone => [] | v => [SL [SA n; sx_aval v]] end) names).
Definition attr_of_sx (x:sx) : option (str * aval) :=
  match x with SL [SA n; v] => option_map (fun v' => (n, v')) (aval_of_sx v) | _ => None end.
Definition attrs_of_sx (x:sx) : option attrs :=
  match x with SL l => all_some (map attr_of_sx l) | _ => None end.

Definition sx_hdr (h:hdr) : sx :=
  SL [SA (oname h); sx_bool (odis h); sx_Z (otmpl h); sx_bool (omerge h); sx_nat (opid h); sx_nat (oline h)].
Definition hdr_of_sx (x:sx) : option hdr :=
  match x with
  | SL [SA n; d; SA t; m; SA p; SA l] =>
      match bool_of_sx d, Z_of_str t, bool_of_sx m, nat_of_str p, nat_of_str l with
      | Some d', Some t', Some m', Some p', Some l' => Some (mkhdr n d' t' m' p' l')
      | _, _, _, _, _ => None end
  | _ => None
  end.

Fixpoint sx_obj (o:obj) : sx :=
  match o with
  | Def h ws a => SL [SA (s_ "def"); sx_hdr h; sx_words ws; sx_attrs def_attr_names a]
  | Scp h ks a => SL [SA (s_ "scope"); sx_hdr h; SL (map sx_obj ks); sx_attrs scope_attr_names a]
  end.
Definition sx_objs (l:list obj) : sx := SL (map sx_obj l).

Fixpoint obj_of_sx (x:sx) : option obj :=
  match x with
  | SL [SA k; h; b; a] =>
      match hdr_of_sx h, attrs_of_sx a with
      | Some h', Some a' =>
          if eqs k (s_ "def") then option_map (fun ws => Def h' ws a') (words_of_sx b)
          else if eqs k (s_ "scope") then
            match b with
            | SL l => option_map (fun ks => Scp h' ks a') (all_some (map obj_of_sx l))
            | _ => None end
          else None
      | _, _ => None
      end
  | _ => None
  end.
Definition objs_of_sx (x:sx) : option (list obj) :=
  match x with SL l => all_some (map obj_of_sx l) | _ => None end.
