(* Wire entry points (sx -> sx) for the Extract cluster.
   Python values travel as
     (none) (auto) (str s) (num n) (list v...) (words (w...)) (scope name ((key v)...)) (slist optional v...)
   with n in the number encoding of EntryConv and optional in the attribute-value encoding of Tree. *)
From Coq Require Import List Ascii String Bool Arith ZArith.
From Phil Require Import Base Tokenizer Tree PyVal ConvText Extract.
From Phil Require Conv Parser Show EntryConv EntryParse.
Import ListNotations.
Local Open Scope char_scope.

Definition tag := EntryConv.tag.

Fixpoint sx_pyval (v:pyval) : sx :=
  match v with
  | VNone => tag "none" []
  | VAuto => tag "auto" []
  | VStr s => tag "str" [SA s]
  | VNum n => tag "num" [EntryConv.sx_num n]
  | VList l => tag "list" (map sx_pyval l)
  | VWords l => tag "words" [sx_words l]
  | VScope (Ext n fs) => tag "scope" [SA n; SL (map (fun kv => SL [SA (fst kv); sx_pyval (snd kv)]) fs)]
  | VScopeList o l => tag "slist" (sx_aval o :: map sx_pyval l)
  end.

Fixpoint pyval_of_sx (x:sx) : option pyval :=
  match x with
  | SL (SA k :: l) =>
      if eqs k (s_ "list") then option_map VList (all_some (map pyval_of_sx l))
      else if eqs k (s_ "slist") then
        match l with
        | o :: l' =>
            match aval_of_sx o, all_some (map pyval_of_sx l') with
            | Some o', Some vs => Some (VScopeList o' vs)
            | _, _ => None
            end
        | [] => None
        end
      else if eqs k (s_ "scope") then
        match l with
        | [SA n; SL fl] =>
            option_map (fun fs => VScope (Ext n fs))
              (all_some (map (fun f => match f with
                                       | SL [SA key; v] => option_map (fun v' => (key, v')) (pyval_of_sx v)
                                       | _ => None
                                       end) fl))
        | _ => None
        end
      else
        match l with
        | [] => if eqs k (s_ "none") then Some VNone else if eqs k (s_ "auto") then Some VAuto else None
        | [a] =>
            if eqs k (s_ "str") then match a with SA s => Some (VStr s) | _ => None end
            else if eqs k (s_ "num") then option_map VNum (EntryConv.num_of_sx a)
            else if eqs k (s_ "words") then option_map VWords (words_of_sx a)
            else None
        | _ => None
        end
  | _ => None
  end.

(* os.path.expanduser as a table ((text expanded) | (text))...): a one-element entry (text) says that expanduser raised
   ValueError for that text; a text that is not listed is returned unchanged *)
Definition exptable_of_sx (x:sx) : option (list (str * option str)) :=
  match x with
  | SL l => all_some (map (fun e => match e with
                                    | SL [SA a; SA b] => Some (a, Some b)
                                    | SL [SA a] => Some (a, None)
                                    | _ => None end) l)
  | _ => None
  end.
Fixpoint lookup_exp (t:list (str * option str)) (s:str) : option str :=
  match t with [] => Some s | (k, v) :: r => if eqs k s then v else lookup_exp r s end.

(* the two oracle tables: (evaltable exptable) *)
Definition oracles_of_sx (x:sx) : option ((str -> option Conv.evr) * (str -> option str)) :=
  match x with
  | SL [ev; ex] =>
      match EntryConv.evtable_of_sx ev, exptable_of_sx ex with
      | Some ev', Some ex' => Some (EntryConv.lookup_ev ev', lookup_exp ex')
      | _, _ => None
      end
  | _ => None
  end.

(* (tree oracles) -> res value : scope.extract / definition.extract *)
Definition run_extract (x:sx) : sx :=
  match x with
  | SL [t; o] =>
      match obj_of_sx t, oracles_of_sx o with
      | Some t', Some (ev, ex) => sx_res sx_pyval (extract_obj ev ex t')
      | _, _ => sx_bad
      end
  | _ => sx_bad
  end.

(* (master value) -> res tree : scope.format / definition.format *)
Definition run_format (x:sx) : sx :=
  match x with
  | SL [m; v] =>
      match obj_of_sx m, pyval_of_sx v with
      | Some m', Some v' => sx_res sx_obj (format_obj m' v')
      | _, _ => sx_bad
      end
  | _ => sx_bad
  end.

(* (master source oracles) -> res tree : master.extract_format(source) *)
Definition run_extract_format (x:sx) : sx :=
  match x with
  | SL [m; s; o] =>
      match obj_of_sx m, obj_of_sx s, oracles_of_sx o with
      | Some m', Some s', Some (ev, ex) => sx_res sx_obj (extract_format ev ex m' s')
      | _, _, _ => sx_bad
      end
  | _ => sx_bad
  end.

(* (master source oracles) -> res text : master.extract_format(source).as_str() *)
Definition run_canon_str (x:sx) : sx :=
  match x with
  | SL [m; s; o] =>
      match obj_of_sx m, obj_of_sx s, oracles_of_sx o with
      | Some m', Some s', Some (ev, ex) => sx_res SA (canon_str ev ex m' s')
      | _, _, _ => sx_bad
      end
  | _ => sx_bad
  end.

(* (parser-oracle master value oracles) -> res value : master.clone(value) *)
Definition run_clone (x:sx) : sx :=
  match x with
  | SL [po; m; v; o] =>
      match EntryParse.oracle_of_sx po, obj_of_sx m, pyval_of_sx v, oracles_of_sx o with
      | Some po', Some m', Some v', Some (ev, ex) => sx_res sx_pyval (clone ev ex po' m' v')
      | _, _, _, _ => sx_bad
      end
  | _ => sx_bad
  end.

(* ---------- guard / path observations on the nodes of an extracted value, in [reach] order *)
Definition sx_optstr (o:option str) : sx := match o with Some s => SL [SA s] | None => SL [] end.
Definition sx_guard (g:guard) : sx :=
  match g with
  | GOk _ => tag "ok" []
  | GRefuse p => tag "refuse" [SA p]
  | GCrash c => tag "crash" [SA c]
  | GUnmodelled => tag "unmodelled" []
  end.
Definition node_t := (list (option str) * list str * ext)%type.

(* value -> for every reachable extract: (tree-path  __phil_path__()  ((field __phil_path__(field))...)) *)
Definition node_paths (nd:node_t) : sx :=
  let '(anc, path, e) := nd in
  SL [SL (map SA path);
      sx_res sx_optstr (phil_path anc (Some (ext_name e)) None);
      SL (map (fun kv => SL [SA (fst kv); sx_res sx_optstr (phil_path anc (Some (ext_name e)) (Some (fst kv)))])
              (ext_fields e))].
Definition run_paths (x:sx) : sx :=
  match pyval_of_sx x with
  | Some v => SL (map node_paths (reach [] [] v))
  | None => sx_bad
  end.

(* (value node-index name) ->
     (setattr  inject  [after a successful inject: inject-again  setattr  fields-after]) *)
Definition run_guard (x:sx) : sx :=
  match x with
  | SL [v; SA i; SA name] =>
      match pyval_of_sx v, nat_of_str i with
      | Some v', Some i' =>
          match nth_error (reach [] [] v') i' with
          | Some (anc, _, e) =>
              let probe := VStr (s_ "probe") in
              let s1 := setattr anc e name probe in
              let i1 := inject anc e name probe in
              SL [sx_guard s1; sx_guard i1;
                  match i1 with
                  | GOk e' => SL [sx_guard (inject anc e' name VNone); sx_guard (setattr anc e' name VNone);
                                  SL (map SA (fkeys (ext_fields e')))]
                  | _ => SL []
                  end;
                  match s1 with GOk e' => SL (map SA (fkeys (ext_fields e'))) | _ => SL [] end]
          | None => sx_bad
          end
      | _, _ => sx_bad
      end
  | _ => sx_bad
  end.

(* () -> (dir(scope_extract)  bookkeeping-names) *)
Definition run_class_attrs (x:sx) : sx := SL [SL (map SA class_attrs); SL (map SA bookkeeping)].

(* tree -> 1 | 0 : Extract.extract_wf, the hypothesis of ExtractTotal.extract_total (no Crash from extraction) *)
Definition run_extractwf (x:sx) : sx :=
  match obj_of_sx x with
  | Some t => sx_bool (extract_wf t)
  | None => sx_bad
  end.
