(* Wire entry point of the Index cluster: replay one history of index operations.

   Request  (run_history):
     ( fixed  master-id  (tree ...)            -- pool of distinct trees, a tree's id = its position
       ((m-id (src-id ...) res) ...)           -- fetch table  : m.fetch(sources=[...])
       ((t-id res) ...)                        -- extract table: t.extract(), value = opaque token
       ((m-id token res) ...)                  -- format table : m.format(python_object=token)
       (path ...)                              -- paths looked up after every step
       (op ...) )
     res = (ok id-or-token) | (err class)
   The tables are the calls of the real library recorded by the harness while the implementation
   ran the same history (plus t.extract() of every working tree it saw).  The model finds the
   answer to a call it decides to make by the CONTENT of the arguments; a call the implementation
   never made has no answer and shows up as class "OracleMiss".
   Reply: ( init-res  ((out working-id (stack-id ...) (lookup ...)) ...) ),
          init-res = (ok (working-id (stack ids) (lookups))) | (err class). *)
From Coq Require Import List Ascii String Bool Arith ZArith.
From Phil Require Import Base Tree Index.
Import ListNotations.
Local Open Scope char_scope.

Fixpoint sx_eqb (a b:sx) {struct a} : bool :=
  match a, b with
  | SA x, SA y => eqs x y
  | SL x, SL y =>
      (fix go (l1 l2:list sx) {struct l1} : bool :=
         match l1, l2 with
         | [], [] => true
         | p :: r, q :: t => sx_eqb p q && go r t
         | _, _ => false
         end) x y
  | _, _ => false
  end.

Fixpoint find_ix {A} (f:A -> bool) (l:list A) (i:nat) : option nat :=
  match l with [] => None | a :: r => if f a then Some i else find_ix f r (S i) end.

Definition nat_of_sx (x:sx) : option nat := match x with SA s => nat_of_str s | _ => None end.
Definition nats_of_sx (x:sx) : option (list nat) :=
  match x with SL l => all_some (map nat_of_sx l) | _ => None end.
Fixpoint nat_list_eqb (a b:list nat) : bool :=
  match a, b with
  | [], [] => true
  | x :: r, y :: t => Nat.eqb x y && nat_list_eqb r t
  | _, _ => false
  end.

Definition res_of_sx {A} (f:sx -> option A) (x:sx) : option (ores A) :=
  match x with
  | SL [SA k; v] =>
      if eqs k (s_ "ok") then option_map OOk (f v)
      else if eqs k (s_ "err") then match v with SA c => Some (OErr c) | _ => None end
      else None
  | _ => None
  end.
Definition str_of_sx (x:sx) : option str := match x with SA s => Some s | _ => None end.

Definition fentry := (nat * list nat * ores nat)%type.
Definition fentry_of_sx (x:sx) : option fentry :=
  match x with
  | SL [m; srcs; r] =>
      match nat_of_sx m, nats_of_sx srcs, res_of_sx nat_of_sx r with
      | Some m', Some s', Some r' => Some (m', s', r') | _, _, _ => None end
  | _ => None
  end.
Definition eentry := (nat * ores str)%type.
Definition eentry_of_sx (x:sx) : option eentry :=
  match x with
  | SL [t; r] =>
      match nat_of_sx t, res_of_sx str_of_sx r with
      | Some t', Some r' => Some (t', r') | _, _ => None end
  | _ => None
  end.
Definition mentry := (nat * str * ores nat)%type.
Definition mentry_of_sx (x:sx) : option mentry :=
  match x with
  | SL [m; SA tok; r] =>
      match nat_of_sx m, res_of_sx nat_of_sx r with
      | Some m', Some r' => Some (m', tok, r') | _, _ => None end
  | _ => None
  end.
Definition list_of_sx {A} (f:sx -> option A) (x:sx) : option (list A) :=
  match x with SL l => all_some (map f l) | _ => None end.

Definition miss {A} : ores A := OErr (s_ "OracleMiss").

Section Tables.
  Variable pool : list obj.
  Variable pool_sx : list sx.
  Variable ftab : list fentry.
  Variable etab : list eentry.
  Variable mtab : list mentry.

  Definition id_of (t:obj) : option nat := let e := sx_obj t in find_ix (sx_eqb e) pool_sx 0.
  Definition tree_of (r:ores nat) : ores obj :=
    match r with
    | OErr c => OErr c
    | OOk i => match nth_error pool i with Some t => OOk t | None => miss end
    end.
  Definition t_fetch (m:obj) (srcs:list obj) : ores obj :=
    match id_of m, all_some (map id_of srcs) with
    | Some mi, Some si =>
        match find (fun e => match e with (m', s', _) => Nat.eqb m' mi && nat_list_eqb s' si end) ftab with
        | Some (_, _, r) => tree_of r
        | None => miss
        end
    | _, _ => miss
    end.
  Definition t_extract (t:obj) : ores str :=
    match id_of t with
    | Some ti =>
        match find (fun e => Nat.eqb (fst e) ti) etab with
        | Some (_, r) => r
        | None => miss
        end
    | None => miss
    end.
  Definition t_format (m:obj) (p:str) : ores obj :=
    match id_of m with
    | Some mi =>
        match find (fun e => match e with (m', tok, _) => Nat.eqb m' mi && eqs tok p end) mtab with
        | Some (_, _, r) => tree_of r
        | None => miss
        end
    | None => miss
    end.

  Definition only_of_sx (x:sx) : option (option str) :=
    match x with
    | SL [SA k] => if eqs k (s_ "none") then Some None else None
    | SL [SA k; SA v] => if eqs k (s_ "some") then Some (Some v) else None
    | _ => None
    end.
  Definition tree_at (x:sx) : option obj :=
    match nat_of_sx x with Some i => nth_error pool i | None => None end.

  Definition op_of_sx (x:sx) : option (op str) :=
    match x with
    | SL [SA k] =>
        if eqs k (s_ "push") then Some Push
        else if eqs k (s_ "pop") then Some Pop
        else None
    | SL [SA k; a] =>
        if eqs k (s_ "ufp") then option_map UpdateFromPython (only_of_sx a)
        else if eqs k (s_ "setstate") then match a with SA z => option_map SetState (Z_of_str z) | _ => None end
        else if eqs k (s_ "getpy") then option_map GetPy (bool_of_sx a)
        else if eqs k (s_ "lookup") then option_map GetScopeByName (str_of_sx a)
        else if eqs k (s_ "reset") then option_map ResetScope (str_of_sx a)
        else if eqs k (s_ "erase") then option_map EraseScope (str_of_sx a)
        else None
    | SL [SA k; b; SA c] =>
        if eqs k (s_ "badtext") then option_map (fun b' => BadText b' c) (bool_of_sx b) else None
    | SL [SA k; u; only; b] =>
        match tree_at u, only_of_sx only, bool_of_sx b with
        | Some u', Some o', Some b' =>
            if eqs k (s_ "update") then Some (Update u' o' b')
            else if eqs k (s_ "merge") then Some (MergePhil u' o' b')
            else None
        | _, _, _ => None
        end
    | _ => None
    end.

  Definition sx_id (t:obj) : sx := match id_of t with Some i => sx_nat i | None => SA (s_ "?") end.
  Definition sx_pos (p:pos) : sx := SL (map sx_nat p).
  Definition sx_entry (e:option entry) : sx :=
    match e with
    | None => SL [SA (s_ "none")]
    | Some (EOne p _) => SL [SA (s_ "one"); sx_pos p]
    | Some (EMany l) => SL [SA (s_ "many"); SL (map (fun po => sx_pos (fst po)) l)]
    end.
  Definition sx_out (o:out str) : sx :=
    match o with
    | ORet b => SL [SA (s_ "ret"); sx_bool b]
    | ONone => SL [SA (s_ "none")]
    | OIdx n => SL [SA (s_ "idx"); sx_nat n]
    | OPy p fresh => SL [SA (s_ "py"); SA p; sx_bool fresh]
    | OEntry e => SL [SA (s_ "entry"); sx_entry e]
    | ORefused c => SL [SA (s_ "err"); SA c]
    | OBroke c => SL [SA (s_ "err"); SA c]
    end.

  Variable master : obj.
  Variable fixed : bool.
  Variable paths : list str.

  Definition mstep := step str t_fetch t_extract t_format master fixed.
  (* what is reported after every step; the look-ups go through the GetScopeByName operation *)
  Definition sx_obs (s:state str) : list sx :=
    [sx_id (working s); SL (map sx_id (states s));
     SL (map (fun p => match snd (mstep s (GetScopeByName p)) with OEntry e => sx_entry e | _ => sx_bad end) paths)].
  Fixpoint replay (ops:list (op str)) (s:state str) : list sx :=
    match ops with
    | [] => []
    | o :: r => let '(s', out) := mstep s o in SL (sx_out out :: sx_obs s') :: replay r s'
    end.
  Definition history (ops:list (op str)) : sx :=
    match init str t_fetch t_extract master with
    | OErr c => SL [SL [SA (s_ "err"); SA c]; SL []]
    | OOk s0 => SL [SL [SA (s_ "ok"); SL (sx_obs s0)]; SL (replay ops s0)]
    end.
End Tables.

Definition run_history (x:sx) : sx :=
  match x with
  | SL [fx; mid; pl; ft; et; mt; SL ps; SL os] =>
      match bool_of_sx fx, objs_of_sx pl, list_of_sx fentry_of_sx ft, list_of_sx eentry_of_sx et,
            list_of_sx mentry_of_sx mt, all_some (map str_of_sx ps) with
      | Some fixed, Some pool, Some ftab, Some etab, Some mtab, Some paths =>
          let pool_sx := map sx_obj pool in
          match nat_of_sx mid with
          | Some mi =>
              match nth_error pool mi, all_some (map (op_of_sx pool) os) with
              | Some master, Some ops => history pool pool_sx ftab etab mtab master fixed paths ops
              | _, _ => sx_bad
              end
          | None => sx_bad
          end
      | _, _, _, _, _, _ => sx_bad
      end
  | _ => sx_bad
  end.
