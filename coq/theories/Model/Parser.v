(* Model of freephil/parser.py (collect_assigned_words, collect_objects), scope.adopt,
   is_standard_identifier, is_reserved_identifier, attribute assignment, and
   freephil.parse(input_string) without include processing.
   Oracles (explicit argument [orc]): definition_converters_from_words (.type), int_from_words
   beyond plain decimal literals (it calls eval), scope_extract_call_proxy (.call). *)
From Coq Require Import List Ascii String Bool Arith ZArith Lia.
From Phil Require Import Base Tokenizer Tree.
Import ListNotations.
Local Open Scope char_scope.

(* ---------- identifiers (tokens.py, common.py) *)
Definition is_start (c:ascii) : bool :=
  let n := nat_of c in ((n =? 95) || ((65 <=? n) && (n <=? 90)) || ((97 <=? n) && (n <=? 122)))%nat.
Definition is_cont (c:ascii) : bool :=
  is_start c || (let n := nat_of c in (n =? 46) || ((48 <=? n) && (n <=? 57)))%nat.
Fixpoint splitdot (s:str) : list str :=
  match s with
  | [] => [[]]
  | c :: r => if Ascii.eqb c "." then [] :: splitdot r
              else match splitdot r with h :: t => (c :: h) :: t | [] => [[c]] end
  end.
Definition is_ident1 (s:str) : bool :=
  match s with [] => false | c :: r => is_start c && forallb is_cont r end.
Definition is_ident (s:str) : bool :=
  is_ident1 s && (match splitdot s with [_] => true | subs => forallb is_ident1 subs end).
Definition reserved (s:str) : bool :=
  (5 <=? length s)%nat && prefixb ["_";"_"] s && prefixb ["_";"_"] (rev s).
Definition include_w : str := s_ "include".

(* ---------- attribute values from words (converters.py: str/bool/int_from_words) *)
Definition is_plain (what:str) (ws:list word) : bool :=
  match ws with [w] => negb (isq w) && eqs (lowers (wv w)) what | _ => false end.
Definition is_plain_none := is_plain (s_ "none").
Definition is_plain_auto := is_plain (s_ "auto").
Fixpoint join_sp (l:list str) : str :=
  match l with [] => [] | [x] => x | x :: r => x ++ " " :: join_sp r end.
Definition str_from_words (ws:list word) : aval :=
  if is_plain_none ws then ANone else if is_plain_auto ws then AAuto
  else AStr (join_sp (map wv ws)).
Definition first_line (ws:list word) : nat := match ws with w :: _ => wline w | [] => 0 end.

Definition bool_from_words (ws:list word) : res aval :=
  match str_from_words ws with
  | ANone => Ok ANone | AAuto => Ok AAuto
  | AStr v =>
      let l := lowers v in
      if mems l [s_ "false"; s_ "no"; s_ "off"; s_ "0"] then Ok (ABool false)
      else if mems l [s_ "true"; s_ "yes"; s_ "on"; s_ "1"] then Ok (ABool true)
      else match ws with [] => Crash (s_ "AssertionError") | _ => UErr (s_ "NotBool") v (first_line ws) end
  | _ => Crash (s_ "unreachable")
  end.

Fixpoint lstrip (s:str) : str := match s with c :: r => if isspace c then lstrip r else s | [] => [] end.
Definition strip (s:str) : str := rev (lstrip (rev (lstrip s))).
Definition all_digits (s:str) : bool :=
  match s with [] => false | _ => forallb (fun c => match digit_of c with Some _ => true | None => false end) s end.
(* Python int(text) for the plain forms [blanks][+-]digits[blanks]; None = not of that form *)
Definition plain_int (s:str) : option Z :=
  let t := strip s in
  match t with
  | c :: r => if Ascii.eqb c "-" then (if all_digits r then option_map Z.opp (dec_digits r 0%Z) else None)
              else if Ascii.eqb c "+" then (if all_digits r then dec_digits r 0%Z else None)
              else if all_digits t then dec_digits t 0%Z else None
  | [] => None
  end.

(* oracle: kind character, key built from the words -> result *)
Definition wkey (ws:list word) : str := flat_map (fun w => quote_code (wq w) ++ wv w ++ ["000"]) ws.
Definition oracle := list (str * res aval).
Fixpoint olookup (k:str) (o:oracle) : option (res aval) :=
  match o with [] => None | (k', v) :: r => if eqs k k' then Some v else olookup k r end.
Definition ask (o:oracle) (kind:ascii) (ws:list word) : res aval :=
  match olookup (kind :: wkey ws) o with Some r => r | None => UErr (s_ "Unmodelled") [kind] 0 end.

Definition int_from_words (o:oracle) (ws:list word) : res aval :=
  match str_from_words ws with
  | ANone => Ok ANone | AAuto => Ok AAuto
  | AStr v =>
      let ls := strip (lowers v) in
      if eqs ls (s_ "true") || eqs ls (s_ "false") then UErr (s_ "NotNumeric") v (first_line ws)
      else if eqs ls (s_ "none") then Ok ANone
      else if eqs ls (s_ "auto") then Ok AAuto
      else match plain_int v with
           | Some z => Ok (AInt z)
           | None => ask o "I" ws
           end
  | _ => Crash (s_ "unreachable")
  end.

Definition assign_def_attr (o:oracle) (name:str) (ws:list word) : res aval :=
  if eqs name (s_ "optional") || eqs name (s_ "multiple") then bool_from_words ws
  else if eqs name (s_ "type") then
    (if is_plain_none ws then Ok ANone else if is_plain_auto ws then Ok AAuto else ask o "T" ws)
  else if eqs name (s_ "input_size") || eqs name (s_ "expert_level") then int_from_words o ws
  else Ok (str_from_words ws).

(* "fmt" % 0 : number of argument-consuming conversion specifiers, for formats that use only
   %% and the plain one-letter conversions; None = outside that subset (flags, widths, mappings,
   unknown letters, a trailing %) *)
Fixpoint count_specs (s:str) : option nat :=
  match s with
  | [] => Some 0%nat
  | c :: r =>
      if Ascii.eqb c "%" then
        match r with
        | d :: r' =>
            if Ascii.eqb d "%" then count_specs r'
            else if mem d (s_ "disrfgexo") then option_map S (count_specs r')
            else None
        | [] => None
        end
      else count_specs r
  end.

Definition assign_scope_attr (o:oracle) (name:str) (ws:list word) : res aval :=
  if mems name [s_ "optional"; s_ "multiple"; s_ "disable_add"; s_ "disable_delete"] then bool_from_words ws
  else if eqs name (s_ "expert_level") then int_from_words o ws
  else if eqs name (s_ "call") then
    (if is_plain_none ws then Ok ANone else if is_plain_auto ws then Ok AAuto else ask o "C" ws)
  else if eqs name (s_ "sequential_format") then
    match str_from_words ws with
    | AStr v => match count_specs v with
                | Some 1%nat => Ok (AStr v)
                | Some _ => UErr (s_ "BadSequentialFormat") v (first_line ws)
                | None => UErr (s_ "Unmodelled") (s_ "F") 0 end
    | AAuto => UErr (s_ "BadSequentialFormat") (s_ "Auto") (first_line ws)   (* Auto % 0 : TypeError, reported *)
    | v => Ok v
    end
  else Ok (str_from_words ws).

(* ---------- parse errors *)
Definition E {A} (kind:string) (tok:str) (line:nat) : res A := UErr (s_ kind) tok line.

(* ---------- collect_assigned_words: returns words and the position after them.
   fuel bounds the number of tokens read. *)
Definition is1 (w:word) (c:ascii) : bool := eqs (wv w) [c].
Fixpoint caw (fuel:nat) (s:str) (line:nat) (have_comment:bool) (last:word) (acc:list word) (lead:word)
  : res (list word * str * nat) :=
  let finish := fun (s':str) (l':nat) =>
    match acc with [] => E "MissingValue" (str_of_word lead) (wline lead) | _ => Ok (rev acc, s', l') end in
  match fuel with 0%nat => Crash (s_ "OutOfFuel") | S f =>
  match nw s1 false s line with
  | TEnd => finish [] line
  | TErrQuote l => E "MissingClosingQuote" [] l
  | TWord w r l =>
    if negb have_comment && negb (isq w) && (is1 w "{" || is1 w "}" || is1 w ";" || is1 w "#") then
      if is1 w ";" then finish r l
      else if negb (is1 w "#") then finish s line
      else caw f r l true w acc lead
    else if isq w || weq last [bs] then
      caw f r l have_comment w (if have_comment || (negb (isq w) && is1 w bs) then acc else w :: acc) lead
    else if negb (wline w =? wline last)%nat then finish s line
    else caw f r l have_comment w (if have_comment || is1 w bs then acc else w :: acc) lead
  end end.

Definition pop (σ:settings) (s:str) (line:nat) : res (word * str * nat) :=
  match nw σ false s line with
  | TEnd => E "UnexpectedEnd" [] 0
  | TErrQuote l => E "MissingClosingQuote" [] l
  | TWord w r l => Ok (w, r, l) end.
Definition pop_unq σ s line : res (word * str * nat) :=
  match pop σ s line with
  | Ok (w, r, l) => if isq w then E "UnquotedExpected" (str_of_word w) (wline w) else Ok (w, r, l)
  | e => e end.
Definition strip_bang (v:str) : str * bool :=
  match v with c :: r => if Ascii.eqb c "!" then (r, true) else (v, false) | [] => (v, false) end.
Definition expect_eq (w:word) : res unit :=
  if eqs (wv w) ["="] then Ok tt else E "SyntaxExpected" (wv w) (wline w).

(* ---------- scope.adopt with dotted names.  The implicit prefix scopes are made by
   scope(name=name, primary_id=object.primary_id): they carry the primary id of the object they lead
   to (since /repo 2398dd1; before that they had none), is_template 0, an empty where_str (line 0) *)
Fixpoint wrap_dotted (first:bool) (comps:list str) (o:obj) : obj :=
  match comps with
  | [] => o
  | [last] => if first then o else set_hdr o (with_merge (with_name (ohdr o) last) true)
  | c :: rest => Scp (mkhdr c false 0 (negb first) (opid (ohdr o)) 0) [wrap_dotted false rest o] []
  end.
Definition adopt (o:obj) : obj := wrap_dotted true (splitdot (oname (ohdr o))) o.
Definition prefix_reserved (name:str) : bool :=
  existsb (fun c => reserved c || eqs c include_w) (removelast (splitdot name)).
Definition name_reserved_def (n:str) : bool := reserved n || (negb (eqs n include_w) && mems include_w (splitdot n)).
Definition name_reserved_scp (n:str) : bool := reserved n || mems include_w (splitdot n).

(* attribute attaches to the innermost definition of the (possibly dotted-wrapped) active object *)
Fixpoint attach (name:str) (v:aval) (o:obj) : obj :=
  match o with
  | Def h w a => Def h w (set_attr name v a)
  | Scp h [k] a => Scp h [attach name v k] a
  | other => other
  end.

(* scope attribute loop: w is the word after the scope name *)
Fixpoint sattrs (o:oracle) (fuel:nat) (w:word) (s:str) (line:nat) (acc:attrs)
  : res (attrs * word * str * nat) :=
  match fuel with 0%nat => Crash (s_ "OutOfFuel") | S f =>
  if eqs (wv w) ["{"] then Ok (acc, w, s, line)
  else let (v, dis) := strip_bang (wv w) in
    let w' := mkword v QN (wline w) in
    match v with
    | c :: an =>
      if Ascii.eqb c "." && mems an scope_attr_names then
        do (eqw, r, l) <- pop_unq s0 s line ;
        do _ <- expect_eq eqw ;
        do (ws, r2, l2) <- caw (S (length r)) r l false w' [] w' ;
        do acc' <- (if dis then Ok acc else do av <- assign_scope_attr o an ws ; Ok (set_attr an av acc)) ;
        do (w2, r3, l3) <- pop_unq s0 r2 l2 ;
        sattrs o f w2 r3 l3 acc'
      else E "UnexpectedScopeAttribute" v (wline w)
    | [] => E "UnexpectedScopeAttribute" v (wline w)
    end
  end.

(* collect_objects.  State: position (s,line), next primary id, the active definition.
   Returns the objects, the position after the closing brace / end, and the next id. *)
Fixpoint cobj (o:oracle) (fuel:nat) (s:str) (line:nat) (nid:nat) (stop:bool) (start:option word)
              (prev_line:nat) (active:option obj) (acc:list obj)
  : res (list obj * str * nat * nat) :=
  let flush := fun (acc:list obj) => match active with Some d => d :: acc | None => acc end in
  let nomatch : res (list obj * str * nat * nat) :=
    match start with
    | None => E "MissingBrace" [] 0
    | Some sw => E "NoMatchingBrace" (str_of_word sw) (wline sw) end in
  match fuel with 0%nat => Crash (s_ "OutOfFuel") | S f =>
  match nw s0 false s line with
  | TErrQuote l => E "MissingClosingQuote" [] l
  | TEnd => if stop then nomatch else Ok (rev (flush acc), [], line, nid)
  | TWord lead r l =>
    if isq lead then E "UnquotedExpected" (str_of_word lead) (wline lead) else
    if eqs (wv lead) intro && negb (wline lead =? prev_line)%nat then
      do (w, r2, l2) <- pop_unq s0 r l ;
      if eqs (wv w) f_end then (if stop then nomatch else Ok (rev (flush acc), [], l2, nid))
      else if eqs (wv w) f_on then cobj o f r2 l2 nid stop start prev_line active acc
      else if negb (eqs (wv w) f_off) then E "UnknownPhilDirective" (wv w) (wline w)
      else let '(r3, l3, fu) := sfs (S (length r2)) r2 l2 in
           match fu with
           | Some 0%nat => if stop then nomatch else Ok (rev (flush acc), [], l3, nid)   (* __END__ or end of input *)
           | _ => cobj o f r3 l3 nid stop start prev_line active acc
           end
    else if stop && eqs (wv lead) ["}"] then Ok (rev (flush acc), r, l, nid)
    else if eqs (wv lead) ["{"] then E "UnexpectedBrace" (wv lead) (wline lead)
    else
      let (lv, dis) := strip_bang (wv lead) in
      let lead' := mkword lv QN (wline lead) in
      do (w, r2, l2) <- pop s0 r l ;
      if negb (isq w) && (eqs (wv w) ["{"] || prefixb ["."] (wv w) || prefixb ["!";"."] (wv w)) then
        if negb (is_ident lv) then
          (if eqs lv [";"] then E "Unexpected" lv (wline lead) else E "ImproperScopeName" lv (wline lead)) else
        if name_reserved_scp lv then E "Reserved" lv (wline lead) else
        do (sa, bw, r3, l3) <- sattrs o (S (length r2)) w r2 l2 [] ;
        do (kids, r4, l4, nid4) <- cobj o f r3 l3 (S nid) true (Some bw) 0%nat None [] ;
        if prefix_reserved lv then E "Reserved" lv 0 else
        cobj o f r4 l4 nid4 stop start (wline lead) None
             (adopt (Scp (mkhdr lv dis 0 false nid (wline lead)) kids sa) :: flush acc)
      else
        (* word_iterator.backup(): back to the position before [w] *)
        if negb (prefixb ["."] lv) then
          if negb (is_ident lv) then
            (if eqs lv [";"] then E "Unexpected" lv (wline lead) else E "ImproperDefinitionName" lv (wline lead)) else
          do (r5, l5) <- (if eqs lv include_w then Ok (r, l)
                           else do (eqw, r5, l5) <- pop_unq s0 r l ; do _ <- expect_eq eqw ; Ok (r5, l5)) ;
          do (ws, r6, l6) <- caw (S (length r5)) r5 l5 false lead' [] lead' ;
          if name_reserved_def lv then E "Reserved" lv (wline lead) else
          if prefix_reserved lv then E "Reserved" lv 0 else
          cobj o f r6 l6 (S nid) stop start (wline lead)
               (Some (adopt (Def (mkhdr lv dis 0 false nid (wline lead)) ws []))) (flush acc)
        else
          let an := drop 1 lv in
          match active with
          | None => E "UnexpectedDefinitionAttribute" lv (wline lead)
          | Some ad =>
            if negb (mems an def_attr_names) then E "UnexpectedDefinitionAttribute" lv (wline lead) else
            do (eqw, r5, l5) <- pop_unq s0 r l ;
            do _ <- expect_eq eqw ;
            do (ws, r6, l6) <- caw (S (length r5)) r5 l5 false lead' [] lead' ;
            do ad' <- (if dis then Ok ad else do av <- assign_def_attr o an ws ; Ok (attach an av ad)) ;
            cobj o f r6 l6 nid stop start (wline lead) (Some ad') acc
          end
  end end.

(* freephil.parse(input_string=s): the objects of the root scope *)
Definition parse (o:oracle) (s:str) : res (list obj) :=
  do (objs, _, _, _) <- cobj o (S (S (length s))) s 1%nat 1%nat false None 0%nat None [] ;
  Ok objs.
