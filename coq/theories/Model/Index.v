(* freephil.interface.index as a state machine (property C20).

   What is modelled here (freephil's own logic, branch by branch):
     index.__init__/setup_phil (working_phil=None), build_index -> index_phil_objects,
     rebuild_index -> reindex_phil_objects, push_state, pop_state, set_state,
     update_from_python, get_python_object, get_scope_by_name (phil_parent=None, no prefix),
     merge_phil (phil_object form; rebuild_index=True), update, reset_scope, erase_scope,
     delete_phil_objects, get_all_path_names, full_path.
   What is NOT modelled here but taken as an oracle (library functions of common.py, the
   subject of C04-C09): scope.fetch, scope.extract, scope.format.  They are explicit function
   arguments [fetch], [extract], [format] (Section variables; after the Section closes they are
   ordinary arguments, instantiated by EntryIndex.v with lookup tables recorded from the real
   library calls).  freephil.parse is not modelled either: operations carry parsed trees.
   Not modelled: text/template/expert-level/input-file indices, styles, menus, the log,
   set_prefix, phil_parent of get_scope_by_name, merge_phil(rebuild_index=False), files.
   get_standard_phil_label (called by index_phil_objects) writes .short_caption into the objects
   of the initial working tree; the wire codec of the harness drops that attribute.

   Object identity: a Python tree is modelled by its content.  The path index stores, with
   every object, its position (list of child numbers from the root) in the tree it was built
   from, so "the looked-up object is the live object of the working tree" is expressible.

   push_state / set_state copy a tree with copy.deepcopy (since /repo d2d0b2d; before, with a
   self-fetch, finding F23): a value copy, which is the tree itself here.

   [fixed] selects the repaired pop_state/set_state (cache invalidated); [fixed = false] is
   pop_state/set_state as they were before the repair of finding F12 (kept for the refutation
   theorem C20_refuted_pop_stale). *)
From Coq Require Import List Ascii String Bool Arith ZArith Lia.
From Phil Require Import Base Tree.
Import ListNotations.
Local Open Scope char_scope.

(* ---------- oracle results: a value or the class name of the exception raised *)
Inductive ores (A:Type) := OOk (a:A) | OErr (cls:str).
Arguments OOk {A}. Arguments OErr {A}.

(* ---------- paths *)
Definition dot : ascii := ".".
(* common.full_path: names of the ancestors up to (excluding) the nearest one named "" *)
Definition join_path (prefix name : str) : str :=
  match prefix with [] => name | _ => prefix ++ dot :: name end.
Definition kid_prefix (o:obj) (path_o:str) : str :=
  match oname (ohdr o) with [] => [] | _ => path_o end.

Definition is_scope (o:obj) : bool := negb (is_def o).
(* "phil_object.multiple is True" *)
Definition mult_is_true (o:obj) : bool :=
  match get_attr (s_ "multiple") (oattrs o) with ABool true => true | _ => false end.

(* ---------- the path index: a Python dict (insertion ordered, update in place) *)
Definition pos := list nat.
Inductive entry := EOne (p:pos) (o:obj) | EMany (l:list (pos * obj)).
Definition pindex := list (str * entry).
Fixpoint dget (k:str) (d:pindex) : option entry :=
  match d with [] => None | (k', v) :: r => if eqs k' k then Some v else dget k r end.
Fixpoint dset (k:str) (v:entry) (d:pindex) : pindex :=
  match d with
  | [] => [(k, v)]
  | (k', v') :: r => if eqs k' k then (k', v) :: r else (k', v') :: dset k v r
  end.
Definition add_name (k:str) (l:list str) : list str := if mems k l then l else l ++ [k].

(* state threaded through index_phil_objects / reindex_phil_objects *)
Record wst := mkw { widx : pindex; wms : list str; wmd : list str; werr : option str }.
Definition w0 : wst := mkw [] [] [] None.

(* build = true : index_phil_objects(collect_multiple=True), as called by build_index at set-up
   build = false: reindex_phil_objects, as called by rebuild_index.
   An exception stops the walk; the dictionary filled so far stays. *)
Definition skip_obj (build:bool) (o:obj) : bool :=
  let t := otmpl (ohdr o) in if build then Z.eqb t (-1) else Z.ltb t 0.
(* the path_index part of one visit (plus multiple_scopes / multiple_defs when building) *)
Definition visit (build:bool) (fp:str) (ps:pos) (o:obj) (st:wst) : wst :=
  if mult_is_true o then
    let st0 := if build
               then (if is_scope o then mkw (widx st) (add_name fp (wms st)) (wmd st) None
                     else mkw (widx st) (wms st) (add_name fp (wmd st)) None)
               else st in
    match dget fp (widx st0) with
    | Some (EMany l) => mkw (dset fp (EMany (l ++ [(ps, o)])) (widx st0)) (wms st0) (wmd st0) None
    | Some (EOne _ _) => mkw (widx st0) (wms st0) (wmd st0) (Some (s_ "AttributeError"))
    | None => mkw (dset fp (EMany [(ps, o)]) (widx st0)) (wms st0) (wmd st0) None
    end
  else mkw (dset fp (EOne ps o) (widx st)) (wms st) (wmd st) None.
(* "Type required for parameter" (index_phil_objects only) *)
Definition type_missing (build:bool) (o:obj) : bool :=
  build && is_def o && (match otype o with ANone => true | _ => false end).
Definition fold_kids {S:Type} (f:nat -> obj -> S -> S) : list obj -> nat -> S -> S :=
  fix go (l:list obj) (i:nat) (s:S) {struct l} : S :=
    match l with [] => s | k :: r => go r (Datatypes.S i) (f i k s) end.

Fixpoint walk (build:bool) (prefix:str) (ps:pos) (o:obj) (st:wst) {struct o} : wst :=
  match werr st with
  | Some _ => st
  | None =>
    let fp := join_path prefix (oname (ohdr o)) in
    if skip_obj build o then st else
    let st1 := visit build fp ps o st in
    match werr st1 with
    | Some _ => st1
    | None =>
      if type_missing build o
      then mkw (widx st1) (wms st1) (wmd st1) (Some (s_ "RuntimeError"))
      else
        match o with
        | Def _ _ _ => st1
        | Scp _ ks _ => fold_kids (fun i k s => walk build (kid_prefix o fp) (ps ++ [i]) k s) ks 0%nat st1
        end
    end
  end.

Definition index_of (w:obj) : wst := walk false [] [] w w0.
Definition build_of (w:obj) : wst := walk true [] [] w w0.

(* ---------- get_all_path_names *)
Fixpoint apn (prefix:str) (o:obj) (paths:list str) {struct o} : list str :=
  let fp := join_path prefix (oname (ohdr o)) in
  let paths1 := if mems fp paths then paths else paths ++ [fp] in
  match o with
  | Def _ _ _ => paths1
  | Scp _ ks _ =>
      (fix go (l:list obj) (acc:list str) {struct l} : list str :=
         match l with [] => acc | k :: r => go r (apn (kid_prefix o fp) k acc) end) ks paths1
  end.

(* ---------- delete_phil_objects(current_phil = o, phil_path_list = paths, only_scope = only);
   [path_o] is o.full_path().  The Python re-enters a child scope once per listed path that
   starts with the child's path; the second and later passes find nothing left to delete
   (the criteria do not depend on siblings), so one pass is made here. *)
Definition only_ok (only:option str) (fp:str) : bool :=
  match only with
  | None => true
  | Some s => eqs s fp || prefixb (fp ++ [dot]) s || prefixb (s ++ [dot]) fp
  end.
Fixpoint del_in (paths:list str) (only:option str) (path_o:str) (o:obj) {struct o} : obj :=
  match o with
  | Def _ _ _ => o
  | Scp h ks a =>
      Scp h ((fix go (l:list obj) {struct l} : list obj :=
                match l with
                | [] => []
                | k :: r =>
                    let fp := join_path (kid_prefix o path_o) (oname (ohdr k)) in
                    if negb (only_ok only fp) then k :: go r
                    else if negb (Z.eqb (otmpl (ohdr k)) 0) then k :: go r
                    else if mems fp paths then go r
                    else (if is_scope k && existsb (fun p => prefixb fp p) paths
                          then del_in paths only fp k else k) :: go r
                end) ks) a
  end.

(* merge_phil: "if len(redundant_paths) > 0: delete_phil_objects(old_phil, redundant_paths, only_scope)" *)
Definition prune (red:list str) (only:option str) (w:obj) : obj :=
  match red with [] => w | _ => del_in red only [] w end.

(* ---------- the index object *)
Section IndexMachine.
  Variable py : Type.                                   (* extracted Python objects (opaque) *)
  Variable fetch : obj -> list obj -> ores obj.         (* fetch m srcs = m.fetch(sources=srcs) *)
  Variable extract : obj -> ores py.                    (* t.extract() *)
  Variable format : obj -> py -> ores obj.              (* m.format(python_object=p) *)
  Variable master : obj.

  Record state := mkst {
    working : obj;                 (* self.working_phil *)
    params : option py;            (* self.params *)
    dirty : bool;                  (* self._phil_has_changed *)
    states : list obj;             (* self._states, last element = top *)
    pidx : pindex;                 (* self._full_path_index *)
    mscopes : list str;            (* keys of self._multiple_scopes (filled at set-up only) *)
    mdefs : list str               (* keys of self._multiple_defs *)
  }.
  Definition set_working (s:state) (w:obj) : state :=
    mkst w (params s) (dirty s) (states s) (pidx s) (mscopes s) (mdefs s).
  Definition set_params (s:state) (p:option py) : state :=
    mkst (working s) p (dirty s) (states s) (pidx s) (mscopes s) (mdefs s).
  Definition set_states (s:state) (l:list obj) : state :=
    mkst (working s) (params s) (dirty s) l (pidx s) (mscopes s) (mdefs s).
  Definition set_pidx (s:state) (i:pindex) : state :=
    mkst (working s) (params s) (dirty s) (states s) i (mscopes s) (mdefs s).
  (* _phil_has_changed = True; params = None *)
  Definition invalidate (s:state) : state :=
    mkst (working s) None true (states s) (pidx s) (mscopes s) (mdefs s).

  Inductive op :=
    | Update (u:obj) (only:option str) (raise_sorry:bool)   (* update(text): u = parse(text) *)
    | MergePhil (u:obj) (only:option str) (overwrite:bool)  (* merge_phil(phil_object=u | phil_string) *)
    | BadText (upd:bool) (cls:str)                          (* update (upd) / merge_phil of a text on which parse() raised cls *)
    | UpdateFromPython (p:option py)
    | Push | Pop | SetState (i:Z)
    | GetPy (make_copy:bool)
    | GetScopeByName (path:str)
    | ResetScope (path:str) | EraseScope (path:str).

  (* ORefused: an exception left the method before it changed anything;
     OBroke  : an exception left the method after it had changed the object *)
  Inductive out :=
    | ORet (b:bool) | ONone | OIdx (n:nat) | OPy (p:py) (fresh:bool) | OEntry (e:option entry)
    | ORefused (cls:str) | OBroke (cls:str).

  (* __init__ -> setup_phil(None): working = master.fetch(); build_index(collect_multiple=True);
     params = working.extract(); an exception means there is no index object *)
  Definition init : ores state :=
    match fetch master [] with
    | OErr e => OErr e
    | OOk w =>
        let r := build_of w in
        match werr r with
        | Some e => OErr e
        | None =>
            match extract w with
            | OErr e => OErr e
            | OOk p => OOk (mkst w (Some p) false [] (widx r) (wms r) (wmd r))
            end
        end
    end.

  (* self.rebuild_index(); then [k] (the rest of the method) unless reindexing raised *)
  Definition rebuild_then (s:state) (k:state -> state * out) : state * out :=
    let r := index_of (working s) in
    let s' := set_pidx s (widx r) in
    match werr r with
    | Some e => (s', OBroke e)
    | None => k s'
    end.

  Definition redundant (s:state) (u:obj) : list str :=
    filter (fun p => mems p (mscopes s) || mems p (mdefs s)) (apn [] u []).

  Definition merge (s:state) (u:obj) (only:option str) (overwrite:bool) : state * out :=
    let old := working s in
    let red := if overwrite then redundant s u else [] in
    let old' := prune red only old in
    match fetch master [old'; u] with
    | OErr e => (set_working s old', match red with [] => ORefused e | _ => OBroke e end)
    | OOk new => rebuild_then (set_working s new) (fun s2 => (invalidate s2, ONone))
    end.

  (* push_state: self._states.append(copy.deepcopy(self.working_phil)).  A tree is modelled by its
     content, so the deep copy is the tree itself; no library function is called and nothing can raise *)
  Definition push (s:state) : state := set_states s (states s ++ [working s]).

  (* rest of update_from_python once python_object (p) is chosen: push_state, format, rebuild_index *)
  Definition ufp_tail (p:py) (s1:state) : state * out :=
    let s2 := push s1 in                                 (* self.push_state() *)
    match format master p with
    | OErr e => (s2, OBroke e)
    | OOk t => rebuild_then (set_working s2 t) (fun s3 => (s3, ONone))
    end.

  Definition step (fixed:bool) (s:state) (o:op) : state * out :=
    match o with
    | BadText upd cls => (s, ORefused (if upd then s_ "Sorry" else cls))   (* update: except Exception -> Sorry *)
    | Update u only raise_sorry =>
        (* try: parse; master.fetch(source=u)  except Exception: raise Sorry (Sorry itself is a
           SystemExit and passes through "except Exception") *)
        match fetch master [u] with
        | OErr e => (s, ORefused (if raise_sorry then s_ "Sorry" else e))
        | OOk _ => merge s u only true
        end
    | MergePhil u only overwrite => merge s u only overwrite
    | UpdateFromPython po =>
        (* python_object None: use self.params, or return False; else self.params = python_object *)
        match (match po with
               | Some p => Some (p, set_params s (Some p))
               | None => match params s with Some p => Some (p, s) | None => None end
               end) with
        | None => (s, ORet false)
        | Some (p, s1) => ufp_tail p s1
        end
    | Push => let s1 := push s in (s1, OIdx (length (states s1) - 1))
    | Pop =>
        match states s with
        | [] => (s, ORet false)
        | _ =>
            let s1 := set_states (set_working s (last (states s) (working s))) (removelast (states s)) in
            let s2 := if fixed then invalidate s1 else s1 in
            rebuild_then s2 (fun s3 => (s3, ORet true))
        end
    | SetState i =>
        if (i <? 0)%Z then (s, ORefused (s_ "AssertionError")) else
        match states s with
        | [] => (s, ORet false)
        | _ =>
            match nth_error (states s) (Z.to_nat i) with
            | None => (s, ORefused (s_ "IndexError"))
            | Some t =>
                (* self.working_phil = copy.deepcopy(self._states[index]) *)
                let s1 := set_working s t in
                let s2 := if fixed then invalidate s1 else s1 in
                rebuild_then s2 (fun s3 => (s3, ORet true))
            end
        end
    | GetPy make_copy =>
        if make_copy then
          match extract (working s) with
          | OErr e => (s, ORefused e)
          | OOk p => (s, OPy p true)
          end
        else if dirty s || (match params s with None => true | Some _ => false end) then
          match extract (working s) with
          | OErr e => (s, ORefused e)
          | OOk p => (mkst (working s) (Some p) false (states s) (pidx s) (mscopes s) (mdefs s), OPy p true)
          end
        else
          match params s with
          | Some p => (s, OPy p false)
          | None => (s, ORefused (s_ "unreachable"))
          end
    | GetScopeByName path => (s, OEntry (dget path (pidx s)))
    | ResetScope path =>
        let old' := del_in [path] None [] (working s) in
        match fetch master [old'] with
        | OErr e => (set_working s old', OBroke e)
        | OOk new => (set_working s new, ONone)
        end
    | EraseScope path => (set_working s (del_in [path] None [] (working s)), ONone)
    end.

  Definition step1 (fixed:bool) (s:state) (o:op) : state := fst (step fixed s o).
  Definition run (fixed:bool) (ops:list op) (s:state) : state := fold_left (step1 fixed) ops s.
End IndexMachine.

Arguments mkst {py}. Arguments working {py}. Arguments params {py}. Arguments dirty {py}.
Arguments states {py}. Arguments pidx {py}. Arguments mscopes {py}. Arguments mdefs {py}.
Arguments Update {py}. Arguments MergePhil {py}. Arguments BadText {py}. Arguments UpdateFromPython {py}.
Arguments Push {py}. Arguments Pop {py}. Arguments SetState {py}. Arguments GetPy {py}.
Arguments GetScopeByName {py}. Arguments ResetScope {py}. Arguments EraseScope {py}.
Arguments ORet {py}. Arguments ONone {py}. Arguments OIdx {py}. Arguments OPy {py}. Arguments OEntry {py}.
Arguments ORefused {py}. Arguments OBroke {py}.
