(* C07 - Fetching is idempotent and insensitive to complete copies of the master.
   Model: Model/Fetch.v (fetch env canon diff m srcs = master.fetch(sources=srcs, diff=diff)) and, for
   "the master object itself as a source", Model/EntryIdem.v (unself: Python's identity skip).
   env (os.environ) and canon (X.extract_format(source=Y).as_str()) are oracles; every theorem holds
   for every env and for every canon satisfying the hypotheses named in its domain.

   Domain D07 env canon m  (Proofs/FetchIdem.v: wfd, def_ok, default_ok, master_plain):
     - the entries of every master scope (master_active_objects) carry distinct, non-empty, dot-free
       names; further master occurrences of a .multiple entry and .multiple entries nested inside
       .multiple scopes are allowed;
     - every master definition: is_template = 0, not deprecated, a modelled converter, and for a
       choice: the choice converter maps the master's words and every result to themselves
       (choice_stable: proved for well-formed choice masters with >= 2 alternatives, C07_choice_condition;
       fails for a single alternative, C07_refuted_single_choice);
     - no "$" in the master; the theorems take "$"-free sources (no variable substitution);
     - H_default_canonical (default_ok) for every .multiple entry k: the instance obtained by fetching
       k against a copy of itself has the canonical text k reports for itself,
         canon k (Some (k.fetch(k))) = canon k None.
       This is the ONLY hypothesis on the canon oracle.  The real canon satisfies it unless a
       .multiple scope contains .multiple entries whose defaults are not in canonical form or occur
       several times (findings F7a / F7b: C07_refuted_nested_multiple); the stream evaluates it on
       every generated master.
   wf_master m (unique sibling names, Proofs/FetchShape.v) is needed in addition where a copy of
   the master is a source.
   The TEXT form ("re-parsed from its printed text", Proofs/FetchReparse.v): C07_refetch_text composes
   C07_refetch, the print/parse round trip of C01 and a strengthening of C05's observational lemma
   (fetch results do not depend on the line numbers of source words): fetching parse(print W) gives W
   up to the line numbers of value words (the re-parsed words sit on the lines of the printed text),
   and every printed form of the two is identical.  Further hypotheses: the master holds no hidden
   template (nohids: true of every parsed master without deprecated definitions / include lines), canon
   is blind to word lines (true of extract_format().as_str()), and the shown part of W is in the
   printer/parser round-trip domain dtree_ok.  That last hypothesis is discharged for parsed inputs
   (Proofs/FetchDomain.v, C07_refetch_text_parsed): master and sources are parser outputs, no object
   carrying merge_names (a dotted prefix) is .multiple or disabled, choice alternatives without their
   star are printable words; then print, parse and re-fetch all succeed and give W up to word lines.
   Both extra conditions are necessary for the domain lemma (counterexample Examples, two of them genuine
   failures of the text round trip on the library: findings C07-reserved-shell, C07-choice-delimiter).
   fetch does not skip hidden templates in a source, so the text form (which omits them) and the object
   form coincide only inside D07 - outside they differ on the real code too (finding F7a).
   "The master's own defaults as first source" (Proofs/FetchDefaultsFirst.v, C07_defaults_first): with
   d = M.fetch(), M.fetch(sources=[d] + S) = M.fetch(sources=S) on D07, outcome for outcome.  d is not
   master-like (under a .multiple name it holds the template copy plus the kept instances of the further
   master occurrences), so this is a separate induction; wf_master is NOT needed (masters with further
   occurrences of a .multiple entry are covered: C07_defaults_first_example).
   "The defaults as re-parsed TEXT in front of other sources" (Proofs/FetchDefaultsText.v,
   C07_defaults_text_first): with d = M.fetch(), d' = parse(d.as_str()), the runs M.fetch(sources=[d'] + S) and
   M.fetch(sources=S) agree outcome for outcome: the same error (kind, word and line), or results equal up to the
   line numbers of value words with identical printed forms.  Equality of the results on the nose fails (where S
   leaves a default the first run hands on the word of d', on its line of the printed text:
   C07_defaults_text_example).  Hypotheses: those of C07_refetch_text (canon blind to word lines, D07, nohids,
   the shown part of d in dtree_ok); the last one is discharged for parsed masters
   (C07_defaults_text_first_parsed; the sources S need not be parser outputs).  Ingredients: the object form
   without the hidden templates of d (C07_defaults_pruned_first: M.fetch([prune d] + S) = M.fetch(S)), and
   C07_fetch_lines_prefix: a first source that is fetched ALONE without error may change its word lines in front
   of any further sources without changing an error of the combined run.
   Nothing of this property is left to the stream alone. *)
From Coq Require Import List Ascii String Bool Arith ZArith.
From Phil Require Import Base Tree Vars Choice Fetch FetchBasics FetchShape FetchDisabled FetchExamples
  FetchIdemLists FetchIdemBase FetchIdem FetchIdemCopy FetchIdemNoMult FetchIdemChoice FetchIdemExamples EntryFetch EntryIdem
  ChoiceProofs ChoiceTop Parser Show ShowProofs TreeRoundtrip ParserShape FetchReparse FetchDomain FetchDefaultsFirst
  FetchDefaultsText.
Import ListNotations.

(* W = M.fetch(S): fetching W again, as an object, gives W *)
Theorem C07_refetch : forall env canon m srcs w,
  D07 env canon m -> srcs_have_dollar srcs = false ->
  fetch env canon false m srcs = Ok w -> fetch env canon false m [w] = Ok w.
Proof. exact refetch. Qed.
Print Assumptions C07_refetch.

(* a complete (parsed) copy of the master as an extra first source changes nothing - outcome for
   outcome, errors included *)
Theorem C07_master_copy : forall env canon m srcs,
  D07 env canon m -> wf_master m -> srcs_have_dollar srcs = false ->
  fetch env canon false m (m :: srcs) = fetch env canon false m srcs.
Proof. exact master_copy. Qed.
Print Assumptions C07_master_copy.

(* the master object ITSELF as an extra first source (sources=[M] + S; unself models the identity
   test "matching_source is master_object") changes nothing *)
Theorem C07_master_self : forall env canon m srcs,
  D07 env canon m -> wf_master m -> srcs_have_dollar srcs = false ->
  fetch env canon false m (unself m :: srcs) = fetch env canon false m srcs.
Proof. exact master_self. Qed.
Print Assumptions C07_master_self.

(* more generally: any first source in which every entry finds its own words / (recursively) its
   own scope / a copy of itself or nothing (mlike) *)
Theorem C07_first_source_like_master : forall env canon m mc srcs,
  D07 env canon m -> mlike m mc -> existsb obj_has_dollar mc = false -> srcs_have_dollar srcs = false ->
  fetch env canon false m (mc :: srcs) = fetch env canon false m srcs.
Proof. exact first_source_mlike. Qed.
Print Assumptions C07_first_source_like_master.

(* fetching with no source equals fetching the master *)
Theorem C07_empty : forall env canon m, D07 env canon m -> wf_master m ->
  fetch env canon false m [] = fetch env canon false m [m].
Proof. exact empty_is_master. Qed.
Print Assumptions C07_empty.

(* any history of cycles - re-fetch alone, after a copy of the master, after the master itself -
   leaves the working parameters exactly as they were: nothing grows, is reordered or altered *)
Theorem C07_history : forall env canon m srcs w w',
  D07 env canon m -> wf_master m -> srcs_have_dollar srcs = false ->
  fetch env canon false m srcs = Ok w -> cycles env canon m w w' -> w' = w.
Proof. exact history. Qed.
Print Assumptions C07_history.

(* masters without any .multiple entry: no hypothesis on canon at all (D07s is purely structural) *)
Theorem C07_refetch_nomultiple : forall env canon m srcs w,
  D07s m -> srcs_have_dollar srcs = false ->
  fetch env canon false m srcs = Ok w -> fetch env canon false m [w] = Ok w.
Proof. exact refetch_nomultiple. Qed.
Print Assumptions C07_refetch_nomultiple.

Theorem C07_master_copy_nomultiple : forall env canon m srcs,
  D07s m -> wf_master m -> srcs_have_dollar srcs = false ->
  fetch env canon false m (m :: srcs) = fetch env canon false m srcs.
Proof. exact master_copy_nomultiple. Qed.
Print Assumptions C07_master_copy_nomultiple.

Theorem C07_master_self_nomultiple : forall env canon m srcs,
  D07s m -> wf_master m -> srcs_have_dollar srcs = false ->
  fetch env canon false m (unself m :: srcs) = fetch env canon false m srcs.
Proof. exact master_self_nomultiple. Qed.
Print Assumptions C07_master_self_nomultiple.

Theorem C07_empty_nomultiple : forall env canon m, D07s m -> wf_master m ->
  fetch env canon false m [] = fetch env canon false m [m].
Proof. exact empty_nomultiple. Qed.
Print Assumptions C07_empty_nomultiple.

(* the choice condition of the domain (choice_stable) holds for every well-formed choice master
   (C11's wf_choice_master) with at least two alternatives and no "+" in a name *)
Theorem C07_choice_condition : forall opt m, wf_choice_master m = true -> 2 <= length m ->
  (forall w, In w m -> mem Choice.plus (wv w) = false) -> choice_stable opt m.
Proof. exact choice_stable_wf. Qed.
Print Assumptions C07_choice_condition.

(* since the repair of choice_converters.fetch (the complete list of alternatives without a star is
   not the a+b form) the restriction on "+" is not needed: names may contain "+" *)
Theorem C07_choice_condition_any_names : forall opt m, wf_choice_master m = true -> 2 <= length m ->
  choice_stable opt m.
Proof. exact choice_stable_wf_any_names. Qed.
Print Assumptions C07_choice_condition_any_names.

(* ---------------------------------------------------------------- outside the domain: refutations *)
(* F7a (the design-time witness, canon table recorded from the library):
   master  s .multiple=True { d = yes .type=bool .multiple=True },  source  s { d = no }.
   W has 2 objects (hidden template + one instance); fetching W as an object gives 3: the template
   instance re-entered as a value. *)
Theorem C07_refuted_nested_multiple : exists env canon m srcs w w2,
  fetch env canon false m srcs = Ok w /\ fetch env canon false m [w] = Ok w2 /\ length w = 2 /\ length w2 = 3.
Proof.
  exists ex_env, f7a_canon, f7a_m, [f7a_src].
  destruct f7a_refetch_grows as [w [w2 H]]. exists w, w2. exact H.
Qed.
Print Assumptions C07_refuted_nested_multiple.

(* ... and what fails there is exactly H_default_canonical for the entry s *)
Theorem C07_refuted_default_not_canonical : exists env canon m k c u,
  In k (entries m) /\ omultiple k = true /\
  cand_fetch env canon false k (fetch_scope env canon false k [m]) (mklsrc [] k []) = Ok (Some c, u) /\
  canon k (Some c) <> canon k None.
Proof.
  destruct f7a_default_not_ok as [k [c [u H]]]. exists ex_env, f7a_canon, f7a_m, k, c, u. exact H.
Qed.
Print Assumptions C07_refuted_default_not_canonical.

(* F7d: a choice with a single alternative, nothing selected: the re-fetch selects it (any canon) *)
Theorem C07_refuted_single_choice : forall env canon, exists m w w2,
  fetch env canon false m [] = Ok w /\ fetch env canon false m [w] = Ok w2 /\ w2 <> w.
Proof.
  intros env canon. exists f7d_m. eexists. eexists. split; [vm_compute; reflexivity|]. split; [vm_compute; reflexivity|]. discriminate.
Qed.
Print Assumptions C07_refuted_single_choice.

(* ---------------------------------------------------------------- non-vacuity *)
(* a master with a .multiple scope and a disabled definition, its canon, a source: in D07, well-formed,
   the run ends in Ok and the result is a fixed point *)
Example C07_domain_satisfiable :
  D07 ex_env ex_canon ex_master /\ wf_master ex_master /\ srcs_have_dollar [ex_source] = false /\
  fetch ex_env ex_canon false ex_master [ex_source] = Ok ex_result /\
  fetch ex_env ex_canon false ex_master [ex_result] = Ok ex_result.
Proof. exact (conj ex_D07 (conj ex_wf (conj ex_no_dollar (conj ex_fetch ex_refetch)))). Qed.

(* ---------------------------------------------------------------- the text form *)
(* W = M.fetch(S) printed, parsed again and fetched gives W up to the line numbers of value words
   ([we] erases exactly those), and prints identically at every prefix, level and width *)
Theorem C07_refetch_text : forall env canon o m srcs w width text l,
  (forall k c c', optwe c c' -> canon k c = canon k c') ->
  D07 env canon m -> nohids m = true -> srcs_have_dollar srcs = false ->
  fetch env canon false m srcs = Ok w ->
  forallb (dtree_ok []) (shown w) = true ->
  as_str w [] None 0 width = Ok text -> parse o text = Ok l ->
  exists w', fetch env canon false m [l] = Ok w' /\ map we w' = map we w /\
             forall p e lv wd, as_str w' p e lv wd = as_str w p e lv wd.
Proof. exact refetch_text. Qed.
Print Assumptions C07_refetch_text.

(* masters without .multiple: for every canon *)
Theorem C07_refetch_text_nomultiple : forall env canon o m srcs w width text l,
  D07s m -> nohids m = true -> srcs_have_dollar srcs = false ->
  fetch env canon false m srcs = Ok w ->
  forallb (dtree_ok []) (shown w) = true ->
  as_str w [] None 0 width = Ok text -> parse o text = Ok l ->
  exists w', fetch env canon false m [l] = Ok w' /\ map we w' = map we w /\
             forall p e lv wd, as_str w' p e lv wd = as_str w p e lv wd.
Proof. exact refetch_text_nomultiple. Qed.
Print Assumptions C07_refetch_text_nomultiple.

(* the object form with the hidden templates of W removed (what the text form sees) *)
Theorem C07_refetch_pruned : forall env canon m srcs w,
  D07 env canon m -> nohids m = true -> srcs_have_dollar srcs = false ->
  fetch env canon false m srcs = Ok w -> fetch env canon false m [prune w] = Ok w.
Proof. exact refetch_pruned. Qed.
Print Assumptions C07_refetch_pruned.

(* every parsed master without deprecated definitions or include lines has no hidden template *)
Theorem C07_parsed_masters_have_no_hidden_templates : forall o s m,
  parse o s = Ok m -> no_deprecated_or_include m = true -> nohids m = true.
Proof. exact parsed_master_nohids. Qed.
Print Assumptions C07_parsed_masters_have_no_hidden_templates.

(* non-vacuity: a master with a multiple scope, a plain scope and a multiple definition, two sources;
   every hypothesis of C07_refetch_text computed; strict equality fails (word lines differ) *)
Example C07_refetch_text_example :
  (forall k c c', optwe c c' -> ex_canon k c = ex_canon k c') /\
  D07 ex_env ex_canon ex2_master /\ nohids ex2_master = true /\ srcs_have_dollar [ex2_src1; ex2_src2] = false /\
  fetch ex_env ex_canon false ex2_master [ex2_src1; ex2_src2] = Ok ex2_result /\
  mstables ex2_result = true /\ forallb (dtree_ok []) (shown ex2_result) = true /\
  as_str ex2_result [] None 0 None = Ok ex2_text /\ parse [] ex2_text = Ok ex2_parsed /\
  fetch ex_env ex_canon false ex2_master [ex2_parsed] = Ok ex2_again /\
  map we ex2_again = map we ex2_result /\ ex2_again <> ex2_result /\
  length ex2_result = 8 /\ length (prune ex2_result) = 6.
Proof. exact refetch_text_example. Qed.

(* ---------------------------------------------------------------- the text form for parsed inputs *)
(* the fetch result of parsed inputs lies in the print/parse round-trip domain *)
Theorem C07_parsed_fetch_result_in_domain : forall env canon om sm m srcs w,
  parse om sm = Ok m -> no_deprecated_or_include m = true ->
  Forall (fun src => exists o s, parse o s = Ok src) srcs ->
  master_plain m -> srcs_have_dollar srcs = false ->
  forallb merged_plain m = true -> forallb choice_alts_ok m = true ->
  fetch env canon false m srcs = Ok w -> forallb (dtree_ok []) (shown w) = true.
Proof. exact parsed_fetch_result_in_domain. Qed.
Print Assumptions C07_parsed_fetch_result_in_domain.

(* saving W and loading it again: printing and parsing succeed and the re-fetch gives W up to the
   line numbers of value words, with identical printed forms *)
Theorem C07_refetch_text_parsed : forall env canon om sm m srcs o' w width,
  (forall k c c', optwe c c' -> canon k c = canon k c') ->
  parse om sm = Ok m -> no_deprecated_or_include m = true ->
  Forall (fun src => exists o s, parse o s = Ok src) srcs ->
  D07 env canon m -> srcs_have_dollar srcs = false ->
  forallb merged_plain m = true -> forallb choice_alts_ok m = true ->
  fetch env canon false m srcs = Ok w ->
  exists text l w', as_str w [] None 0 width = Ok text /\ parse o' text = Ok l /\
             fetch env canon false m [l] = Ok w' /\ map we w' = map we w /\
             forall p e lv wd, as_str w' p e lv wd = as_str w p e lv wd.
Proof. exact refetch_text_parsed_total. Qed.
Print Assumptions C07_refetch_text_parsed.

(* non-vacuity: parsed master (scope, multiple scope, multiple definition, choice, dotted name) and two
   parsed sources; every hypothesis computed *)
Example C07_fetch_domain_example :
  parse exd_oracle exd_master_text = Ok exd_master /\
  parse [] exd_src1_text = Ok exd_src1 /\ parse [] exd_src2_text = Ok exd_src2 /\
  no_deprecated_or_include exd_master = true /\
  forallb (dtree_ok []) exd_master = true /\ master_plain exd_master /\
  forallb merged_plain exd_master = true /\ forallb choice_alts_ok exd_master = true /\
  srcs_have_dollar [exd_src1; exd_src2] = false /\
  forallb (forallb defs_words_ok) [exd_src1; exd_src2] = true /\
  fetch ex_env ex_canon false exd_master [exd_src1; exd_src2] = Ok exd_result /\
  forallb (dtree_ok []) (shown exd_result) = true /\
  length exd_result = 9 /\ length (shown exd_result) = 7 /\
  as_str exd_result [] None 0 None = Ok exd_text /\ parse [] exd_text = Ok exd_parsed /\
  fetch ex_env ex_canon false exd_master [exd_parsed] = Ok exd_again /\
  map we exd_again = map we exd_result /\ exd_again <> exd_result.
Proof. exact fetch_domain_example. Qed.

(* ---------------------------------------------------------------- the master's own defaults as first source *)
(* d = M.fetch() (no source at all) as an extra first source changes nothing - outcome for outcome, errors
   included.  No uniqueness of sibling names is assumed: further master occurrences of a .multiple entry
   (whose kept instances d carries next to the template copy) are covered. *)
Theorem C07_defaults_first : forall env canon m d srcs,
  D07 env canon m -> srcs_have_dollar srcs = false ->
  fetch env canon false m [] = Ok d ->
  fetch env canon false m (d :: srcs) = fetch env canon false m srcs.
Proof. exact defaults_first. Qed.
Print Assumptions C07_defaults_first.

(* the statement as planned, with the (superfluous) hypothesis wf_master *)
Theorem C07_defaults_first_wf : forall env canon m d srcs,
  D07 env canon m -> wf_master m -> srcs_have_dollar srcs = false ->
  fetch env canon false m [] = Ok d ->
  fetch env canon false m (d :: srcs) = fetch env canon false m srcs.
Proof. exact defaults_first_wf. Qed.
Print Assumptions C07_defaults_first_wf.

(* the defaults alone are a fixed point *)
Theorem C07_defaults_alone : forall env canon m d, D07 env canon m ->
  fetch env canon false m [] = Ok d -> fetch env canon false m [d] = Ok d.
Proof. exact defaults_alone. Qed.
Print Assumptions C07_defaults_alone.

(* masters without .multiple: for every canon *)
Theorem C07_defaults_first_nomultiple : forall env canon m d srcs,
  D07s m -> srcs_have_dollar srcs = false ->
  fetch env canon false m [] = Ok d ->
  fetch env canon false m (d :: srcs) = fetch env canon false m srcs.
Proof. exact defaults_first_nomultiple. Qed.
Print Assumptions C07_defaults_first_nomultiple.

(* non-vacuity: a plain scope, a .multiple definition with TWO master occurrences (so the master is outside
   wf_master), a .multiple scope; the defaults hold two objects named d (not master-like); the run with the
   defaults in front of a source equals the run without *)
Example C07_defaults_first_example :
  D07 ex_env ex_canon dfx_master /\ ~ wf_master dfx_master /\ srcs_have_dollar [dfx_src] = false /\
  fetch ex_env ex_canon false dfx_master [] = Ok dfx_defaults /\
  List.length dfx_defaults = 5 /\ List.length (gview (s_ "d") dfx_defaults) = 2 /\
  fetch ex_env ex_canon false dfx_master [dfx_src] = Ok dfx_result /\
  fetch ex_env ex_canon false dfx_master [dfx_defaults; dfx_src] = Ok dfx_result /\
  List.length dfx_result = 7 /\ dfx_result <> dfx_defaults.
Proof. exact defaults_first_example. Qed.

(* ---------------------------------------------------------------- the defaults as re-parsed TEXT as first source *)
(* d = M.fetch() printed at attributes level 0 and parsed again (d') as an extra first source: the two runs
   agree outcome for outcome ([outcome_up_to_lines]: the same error - kind, word, line - or results equal up to
   the line numbers of value words, printing identically at every prefix, level and width) *)
Theorem C07_defaults_text_first : forall env canon o m d srcs width text d',
  (forall k c c', optwe c c' -> canon k c = canon k c') ->
  D07 env canon m -> nohids m = true -> srcs_have_dollar srcs = false ->
  fetch env canon false m [] = Ok d ->
  forallb (dtree_ok []) (shown d) = true ->
  as_str d [] None 0 width = Ok text -> parse o text = Ok d' ->
  match fetch env canon false m (d' :: srcs), fetch env canon false m srcs with
  | Ok w', Ok w => map we w' = map we w /\ forall p e lv wd, as_str w' p e lv wd = as_str w p e lv wd
  | UErr k t l, UErr k' t' l' => k = k' /\ t = t' /\ l = l'
  | Crash c, Crash c' => c = c'
  | _, _ => False
  end.
Proof. exact defaults_text_outcome. Qed.
Print Assumptions C07_defaults_text_first.

(* masters without .multiple: for every canon *)
Theorem C07_defaults_text_first_nomultiple : forall env canon o m d srcs width text d',
  D07s m -> nohids m = true -> srcs_have_dollar srcs = false ->
  fetch env canon false m [] = Ok d ->
  forallb (dtree_ok []) (shown d) = true ->
  as_str d [] None 0 width = Ok text -> parse o text = Ok d' ->
  outcome_up_to_lines (fetch env canon false m (d' :: srcs)) (fetch env canon false m srcs).
Proof. exact defaults_text_outcome_nomultiple. Qed.
Print Assumptions C07_defaults_text_first_nomultiple.

(* parsed masters: printing the defaults and parsing the text succeed; the sources are arbitrary "$"-free trees *)
Theorem C07_defaults_text_first_parsed : forall env canon om sm m srcs o' d width,
  (forall k c c', optwe c c' -> canon k c = canon k c') ->
  parse om sm = Ok m -> no_deprecated_or_include m = true ->
  D07 env canon m -> srcs_have_dollar srcs = false ->
  forallb merged_plain m = true -> forallb choice_alts_ok m = true ->
  fetch env canon false m [] = Ok d ->
  exists text d', as_str d [] None 0 width = Ok text /\ parse o' text = Ok d' /\
    outcome_up_to_lines (fetch env canon false m (d' :: srcs)) (fetch env canon false m srcs).
Proof. exact defaults_text_outcome_parsed. Qed.
Print Assumptions C07_defaults_text_first_parsed.

(* the object form without the hidden templates of d (what the text shows): outcome for outcome, on the nose *)
Theorem C07_defaults_pruned_first : forall env canon m d srcs,
  D07 env canon m -> nohids m = true -> srcs_have_dollar srcs = false ->
  fetch env canon false m [] = Ok d ->
  fetch env canon false m (prune d :: srcs) = fetch env canon false m srcs.
Proof. exact defaults_pruned_first. Qed.
Print Assumptions C07_defaults_pruned_first.

(* a first source that is fetched alone without error: its word lines do not matter in front of any further
   sources - the same error, or results equal up to word lines (strengthens C07's use of fetch_lines, which
   relates successful runs only: "Not a possible choice" carries the line of the offending source word) *)
Theorem C07_fetch_lines_prefix : forall env canon,
  (forall k c c', optwe c c' -> canon k c = canon k c') ->
  forall m a a' srcs w0,
  existsb obj_has_dollar a = false -> existsb obj_has_dollar a' = false -> leql a a' ->
  fetch env canon false m [a] = Ok w0 ->
  match fetch env canon false m (a :: srcs), fetch env canon false m (a' :: srcs) with
  | Ok w, Ok w' => map we w = map we w'
  | UErr k t l, UErr k' t' l' => k = k' /\ t = t' /\ l = l'
  | Crash c, Crash c' => c = c'
  | _, _ => False
  end.
Proof. exact fetch_lines_prefix. Qed.
Print Assumptions C07_fetch_lines_prefix.

(* non-vacuity: a parsed master with a plain scope, a .multiple definition with TWO master occurrences (outside
   wf_master), a .multiple scope; every hypothesis of C07_defaults_text_first / _parsed computed; the defaults
   hold 5 objects of which the text shows 4; both runs give 7 objects, equal up to word lines and NOT equal; a
   source with a definition where a scope is expected fails identically in both runs *)
Example C07_defaults_text_example :
  (forall k c c', optwe c c' -> ex_canon k c = ex_canon k c') /\
  parse [] dtx_master_text = Ok dtx_master /\ no_deprecated_or_include dtx_master = true /\
  D07 ex_env ex_canon dtx_master /\ ~ wf_master dtx_master /\ nohids dtx_master = true /\
  forallb merged_plain dtx_master = true /\ forallb choice_alts_ok dtx_master = true /\
  srcs_have_dollar [dtx_src] = false /\
  fetch ex_env ex_canon false dtx_master [] = Ok dtx_defaults /\
  forallb (dtree_ok []) (shown dtx_defaults) = true /\
  List.length dtx_defaults = 5 /\ List.length (shown dtx_defaults) = 4 /\ List.length (gview (s_ "d") dtx_defaults) = 2 /\
  as_str dtx_defaults [] None 0 None = Ok dtx_text /\ parse [] dtx_text = Ok dtx_parsed /\
  fetch ex_env ex_canon false dtx_master [dtx_src] = Ok dtx_result /\
  fetch ex_env ex_canon false dtx_master [dtx_parsed; dtx_src] = Ok dtx_result2 /\
  List.length dtx_result = 7 /\ map we dtx_result2 = map we dtx_result /\ dtx_result2 <> dtx_result /\
  fetch ex_env ex_canon false dtx_master [dtx_parsed; dtx_bad] = UErr k_incompat_sd [] 0 /\
  fetch ex_env ex_canon false dtx_master [dtx_bad] = UErr k_incompat_sd [] 0.
Proof. exact defaults_text_example. Qed.

(* an error carrying a source line (parsed master of C07_fetch_domain_example with its choice e = *u v; the source
   sets e = zzz on its line 3): the same error, word and line with the re-parsed defaults in front *)
Example C07_defaults_text_error_example :
  D07 ex_env ex_canon exd_master /\ nohids exd_master = true /\ srcs_have_dollar [dte_bad] = false /\
  fetch ex_env ex_canon false exd_master [] = Ok dte_defaults /\
  forallb (dtree_ok []) (shown dte_defaults) = true /\
  as_str dte_defaults [] None 0 None = Ok dte_text /\ parse [] dte_text = Ok dte_parsed /\
  fetch ex_env ex_canon false exd_master [dte_parsed; dte_bad] = UErr (s_ "NotAChoice") (s_ "zzz") 3 /\
  fetch ex_env ex_canon false exd_master [dte_bad] = UErr (s_ "NotAChoice") (s_ "zzz") 3.
Proof. exact defaults_text_error_example. Qed.
