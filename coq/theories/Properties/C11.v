(* C11 - Choices keep the master's alternatives and select only what was asked.
   Only the property theorems; each is closed by [exact] of a lemma proved in Proofs/ChoiceProofs.v or
   Proofs/ChoiceTop.v and followed by Print Assumptions.

   Vocabulary (Proofs/ChoiceProofs.v, ChoiceTop.v):
     key w            lower-cased name of a word with its selection star removed
     restar b w       the master word w with its star set to b (quote token and line kept)
     plus_form0 src   every word bare and un-starred, a "+" somewhere, no blank piece after the first "+"
     full_list m src  the values of the source words are exactly the master's alternatives (the master
                      words' values with the selection star removed; same case, same order): what
                      format writes when nothing is selected
     plus_form m src  plus_form0 src and not full_list m src: the source is read as the a+b form
                      (the complete list is never read so, also if names contain "+")
     requested mand m src k
                      what the source asks for the alternative named k of the master m:
                        plain None and not mandatory     -> false
                        "+" form                          -> k is (up to case) one of the names joined with "+"
                        otherwise                         -> the LAST word naming k is starred, or is the only word
     wf_choice_master at least one alternative, names distinct up to case, no name that still starts
                      with "*" once the selection star is removed, none called none/auto
     mandatory opt    ".optional is not None and not .optional" *)
From Coq Require Import List Ascii String Bool Arith.
From Phil Require Import Base Tree Choice ChoiceProofs ChoiceTop.
Import ListNotations.

(* Same names, same order, same quoting, same lines - whatever the source contained. *)
Theorem C11_alternatives_kept : forall opt m src ign r,
  choice_fetch opt m src ign = Ok r ->
  (is_plain_auto src = true -> r = [uw (s_ "Auto")]) /\
  (is_plain_auto src = false ->
     length r = length m /\ map wq r = map wq m /\ map wline r = map wline m
     /\ Forall2 (fun a b => wv a = unstar (wv b) \/ wv a = star :: unstar (wv b)) r m
     /\ (wf_choice_master m = true -> map (fun w => unstar (wv w)) r = map (fun w => unstar (wv w)) m)).
Proof. exact alternatives_kept. Qed.
Print Assumptions C11_alternatives_kept.

(* The result is the master with exactly the requested alternatives starred. *)
Theorem C11_selection : forall opt m src ign r,
  choice_fetch opt m src ign = Ok r -> is_plain_auto src = false ->
  r = map (fun w => restar (requested (mandatory opt) m src (key w)) w) m
  /\ (wf_choice_master m = true ->
        map (fun w => starts_star (wv w)) r = map (fun w => requested (mandatory opt) m src (key w)) m).
Proof. exact selection. Qed.
Print Assumptions C11_selection.

(* A name given several times: the last occurrence decides (star it to select, leave it bare to clear). *)
Theorem C11_last_occurrence_decides : forall opt m pre w post ign r a,
  let src := pre ++ w :: post in
  choice_fetch opt m src ign = Ok r -> is_plain_auto src = false ->
  (mandatory opt || negb (is_plain_none src)) = true -> plus_form m src = false ->
  (forall p, In p post -> key p <> key w) ->
  In a m -> key a = key w ->
  In (restar (starts_star (wv w) || (length src =? 1)%nat) a) r.
Proof. exact last_occurrence_decides. Qed.
Print Assumptions C11_last_occurrence_decides.

(* None clears the selection unless .optional = False. *)
Theorem C11_none_clears : forall opt m src ign,
  mandatory opt = false -> is_plain_none src = true ->
  choice_fetch opt m src ign =
    if master_ok m then Ok (map (restar false) m) else Crash (s_ "AssertionError").
Proof. exact none_clears. Qed.
Print Assumptions C11_none_clears.

(* A starred name, or a single name, that is not an alternative: the first such word raises
   "Not a possible choice" naming it as written, with the master's words as the list of choices. *)
Theorem C11_unknown_selected_errors : forall opt m pre w post,
  let src := pre ++ w :: post in
  let sg := (length src =? 1)%nat in
  master_ok m = true -> is_plain_auto src = false ->
  (mandatory opt || negb (is_plain_none src)) = true -> plus_form m src = false ->
  flagged sg w = true -> mems (key w) (keys m) = false ->
  (forall p, In p pre -> flagged sg p = true -> mems (key p) (keys m) = true) ->
  choice_fetch_x opt m src false = FNotAChoice (unstar (wv w)) (wline w) (map wv m).
Proof. exact unknown_selected_errors. Qed.
Print Assumptions C11_unknown_selected_errors.

(* The same in the "+" form: the first joined name that is not an alternative (up to case). *)
Theorem C11_unknown_selected_errors_plus : forall opt m src ign pre v l post,
  master_ok m = true -> plus_form m src = true ->
  plus_pieces src = pre ++ (v, l) :: post ->
  (forall p, In p pre -> mems (lowers (fst p)) (keys m) = true) -> mems (lowers v) (keys m) = false ->
  choice_fetch_x opt m src ign = FNotAChoice v l (map wv m).
Proof. exact unknown_selected_errors_plus. Qed.
Print Assumptions C11_unknown_selected_errors_plus.

(* Never silently dropped: as soon as SOME selected name of the source (starred, single, or joined
   with "+") is not an alternative, fetch raises, naming such a name - wherever else that name
   occurs in the source (formerly refuted for "x *x"). *)
Theorem C11_selected_unknown_never_dropped : forall opt m src,
  master_ok m = true -> is_plain_auto src = false ->
  (mandatory opt || negb (is_plain_none src)) = true ->
  (plus_form m src = false ->
     (exists w, In w src /\ flagged (length src =? 1)%nat w = true /\ mems (key w) (keys m) = false) ->
     exists w, In w src /\ flagged (length src =? 1)%nat w = true /\ mems (key w) (keys m) = false
       /\ choice_fetch_x opt m src false = FNotAChoice (unstar (wv w)) (wline w) (map wv m)) /\
  (plus_form m src = true -> forall ign,
     (exists n, In n (plus_names src) /\ mems (lowers n) (keys m) = false) ->
     exists v l, In (v, l) (plus_pieces src) /\ mems (lowers v) (keys m) = false
       /\ choice_fetch_x opt m src ign = FNotAChoice v l (map wv m)).
Proof. exact selected_unknown_never_dropped. Qed.
Print Assumptions C11_selected_unknown_never_dropped.

(* The "+" form is case-insensitive like the other spellings: when every joined name is an
   alternative up to case, exactly those alternatives are starred (formerly refuted for "A+b"). *)
Theorem C11_plus_case_insensitive : forall opt m src ign,
  master_ok m = true -> plus_form m src = true ->
  (forall n, In n (plus_names src) -> mems (lowers n) (keys m) = true) ->
  choice_fetch opt m src ign =
    Ok (map (fun w => restar (mems (key w) (map lowers (plus_names src))) w) m).
Proof. exact plus_case_insensitive. Qed.
Print Assumptions C11_plus_case_insensitive.

(* Conversely every error of fetch is of that kind: it names a selected word of the source whose
   name is not an alternative (up to case) and lists the master's words; unselected names never raise. *)
Theorem C11_error_sound : forall opt m src ign v l alts,
  choice_fetch_x opt m src ign = FNotAChoice v l alts ->
  alts = map wv m /\
  (plus_form m src = false ->
     ign = false /\ exists pre w post, src = pre ++ w :: post /\ v = unstar (wv w) /\ l = wline w
       /\ flagged (length src =? 1)%nat w = true /\ mems (key w) (keys m) = false) /\
  (plus_form m src = true -> In (v, l) (plus_pieces src) /\ mems (lowers v) (keys m) = false).
Proof. exact error_sound. Qed.
Print Assumptions C11_error_sound.

(* An un-starred unknown name among several words changes nothing (neither result nor error). *)
Theorem C11_unknown_unselected_ignored : forall opt m pre u post ign,
  (2 <= length (pre ++ post))%nat ->
  starts_star (wv u) = false -> mems (key u) (keys m) = false ->
  plus_form m (pre ++ post) = false -> plus_form m (pre ++ u :: post) = false ->
  choice_fetch_x opt m (pre ++ u :: post) ign = choice_fetch_x opt m (pre ++ post) ign.
Proof. exact unknown_unselected_ignored. Qed.
Print Assumptions C11_unknown_unselected_ignored.

(* Single choice: at most one name; two starred words are refused. *)
Theorem C11_extract_single : forall opt ws,
  (forall v, choice_from_words false opt ws = Ok v ->
     (v = PAuto /\ is_plain_auto ws = true) \/
     (is_plain_auto ws = false /\
        ((v = PNone /\ starred_names ws = [] /\ mandatory opt = false) \/
         (exists s, v = PStr s /\ starred_names ws = [s])))) /\
  ((2 <= length (starred_names ws))%nat ->
     exists l, choice_from_words false opt ws = UErr (s_ "MultipleChoices") [] l).
Proof. exact extract_single. Qed.
Print Assumptions C11_extract_single.

(* Multi choice: the starred names in the order of the words (= master order after a fetch,
   see C11_fetch_then_extract). *)
Theorem C11_extract_multi_master_order : forall opt ws v,
  choice_from_words true opt ws = Ok v ->
  (v = PAuto /\ is_plain_auto ws = true) \/ (is_plain_auto ws = false /\ v = PList (starred_names ws)).
Proof. exact extract_multi. Qed.
Print Assumptions C11_extract_multi_master_order.

(* .optional = False: never None, never the empty list. *)
Theorem C11_mandatory_never_empty : forall multi opt ws v,
  mandatory opt = true -> choice_from_words multi opt ws = Ok v -> v <> PNone /\ v <> PList [].
Proof. exact mandatory_never_empty. Qed.
Print Assumptions C11_mandatory_never_empty.

(* fetch then extract: exactly the requested alternatives, in master order. *)
Theorem C11_fetch_then_extract : forall multi opt m src ign r,
  wf_choice_master m = true ->
  choice_fetch opt m src ign = Ok r -> is_plain_auto src = false ->
  extract_spec multi (mandatory opt) (selected_names (mandatory opt) m src) (choice_from_words multi opt r).
Proof. exact fetch_then_extract. Qed.
Print Assumptions C11_fetch_then_extract.

Theorem C11_fetch_auto_then_extract : forall multi opt m src ign r,
  choice_fetch opt m src ign = Ok r -> is_plain_auto src = true ->
  choice_from_words multi opt r = Ok PAuto.
Proof. exact fetch_auto_then_extract. Qed.
Print Assumptions C11_fetch_auto_then_extract.

(* A single name - bare or quoted, in any case - selects exactly the alternative it names. *)
Theorem C11_single_name_selects : forall multi opt m w a ign,
  wf_choice_master m = true -> In a m -> key w = key a ->
  starts_star (wv w) = false -> mem plus (wv w) = false ->
  exists r, choice_fetch opt m [w] ign = Ok r
    /\ r = map (fun x => restar (eqs (key a) (key x)) x) m
    /\ choice_from_words multi opt r = Ok (if multi then PList [unstar (wv a)] else PStr (unstar (wv a))).
Proof. exact single_name_selects. Qed.
Print Assumptions C11_single_name_selects.

(* With ignore_errors (skip_incompatible_objects) the normal form never raises. *)
Theorem C11_ignore_errors_normal : forall opt m src v l alts,
  plus_form m src = false -> choice_fetch_x opt m src true <> FNotAChoice v l alts.
Proof. exact ignore_errors_normal. Qed.
Print Assumptions C11_ignore_errors_normal.

(* The complete list of the alternatives written without a star (what format writes when nothing is
   selected; any quoting, any .optional, any ignore_errors) for a well-formed master with at least
   two alternatives: it is not read as the a+b form EVEN IF names contain "+", it is accepted, no
   alternative comes back starred, and the values that come back are those of the source
   (formerly "Not a possible choice: x" for the alternatives x+y z x+y+z). *)
Theorem C11_full_list_selects_nothing : forall opt m src ign,
  wf_choice_master m = true -> full_list m src = true -> (2 <= length src)%nat ->
  plus_form m src = false
  /\ choice_fetch opt m src ign = Ok (map (restar false) m)
  /\ map (fun w => starts_star (wv w)) (map (restar false) m) = map (fun _ => false) m
  /\ map wv (map (restar false) m) = map wv src.
Proof. exact full_list_selects_nothing. Qed.
Print Assumptions C11_full_list_selects_nothing.

(* More generally: several words, none starred, not the a+b form - nothing is selected, nothing raises. *)
Theorem C11_unstarred_list_selects_nothing : forall opt m src ign,
  master_ok m = true -> (2 <= length src)%nat -> plus_form m src = false ->
  (forall w, In w src -> starts_star (wv w) = false) ->
  choice_fetch opt m src ign = Ok (map (restar false) m).
Proof. exact unstarred_list_selects_nothing. Qed.
Print Assumptions C11_unstarred_list_selects_nothing.

(* The boundary: only an incomplete (or differently spelled) list can be the a+b form. *)
Theorem C11_plus_form_needs_incomplete_list : forall m src,
  plus_form m src = true -> full_list m src = false.
Proof. exact plus_form_needs_incomplete_list. Qed.
Print Assumptions C11_plus_form_needs_incomplete_list.

(* Outside wf_choice_master the names are not kept: an alternative written **a comes back as *a,
   i.e. as the selected alternative a. *)
Theorem C11_refuted_starred_name :
  exists m src r, wf_choice_master m = false
    /\ choice_fetch ANone m src false = Ok r
    /\ map (fun w => unstar (wv w)) r <> map (fun w => unstar (wv w)) m
    /\ choice_from_words true ANone r = Ok (PList [s_ "a"; s_ "b"]).
Proof. exact refuted_starred_name. Qed.
Print Assumptions C11_refuted_starred_name.

(* ---------- non-vacuity *)
Definition ex_master : list word := [mkword (s_ "*Ab") QN 1; mkword (s_ "c_d") QN 1; mkword (s_ "x y") Q1 2].

Example C11_wf_satisfiable : wf_choice_master ex_master = true /\ master_ok ex_master = true.
Proof. vm_compute. split; reflexivity. Qed.

(* starred subset, case-insensitive, quotes and lines of the master kept *)
Example C11_example_starred :
  choice_fetch (ABool false) ex_master [uw (s_ "*C_D"); qw (s_ "*x y")] false
  = Ok [mkword (s_ "Ab") QN 1; mkword (s_ "*c_d") QN 1; mkword (s_ "*x y") Q1 2].
Proof. vm_compute. reflexivity. Qed.

(* the same name twice: the last occurrence decides *)
Example C11_example_last_decides :
  choice_fetch ANone ex_master [uw (s_ "*c_d"); uw (s_ "ab"); uw (s_ "C_D")] false
  = Ok [mkword (s_ "Ab") QN 1; mkword (s_ "c_d") QN 1; mkword (s_ "x y") Q1 2]
  /\ choice_fetch ANone ex_master [uw (s_ "c_d"); uw (s_ "*c_d")] false
  = Ok [mkword (s_ "Ab") QN 1; mkword (s_ "*c_d") QN 1; mkword (s_ "x y") Q1 2].
Proof. vm_compute. split; reflexivity. Qed.

(* + form with blanks around + and a leading + ; extraction in master order *)
Example C11_example_plus :
  plus_form ex_master [uw (s_ "+c_d"); uw (s_ "+"); uw (s_ "ab")] = true
  /\ choice_fetch ANone ex_master [uw (s_ "+c_d"); uw (s_ "+"); uw (s_ "ab")] false
     = Ok [mkword (s_ "*Ab") QN 1; mkword (s_ "*c_d") QN 1; mkword (s_ "x y") Q1 2]
  /\ choice_from_words true ANone [mkword (s_ "*Ab") QN 1; mkword (s_ "*c_d") QN 1; mkword (s_ "x y") Q1 2]
     = Ok (PList [s_ "Ab"; s_ "c_d"]).
Proof. vm_compute. repeat split; reflexivity. Qed.

(* hypotheses of C11_unknown_selected_errors / _plus / C11_unknown_unselected_ignored are satisfiable *)
Example C11_example_errors :
  choice_fetch_x ANone ex_master [uw (s_ "*ab"); uw (s_ "*zz"); uw (s_ "*yy")] false
    = FNotAChoice (s_ "zz") 0 [s_ "*Ab"; s_ "c_d"; s_ "x y"]
  /\ choice_fetch_x ANone ex_master [uw (s_ "ab+zz")] false
    = FNotAChoice (s_ "zz") 0 [s_ "*Ab"; s_ "c_d"; s_ "x y"]
  /\ choice_fetch_x (ABool false) ex_master [uw (s_ "None")] false
    = FNotAChoice (s_ "None") 0 [s_ "*Ab"; s_ "c_d"; s_ "x y"]
  /\ choice_fetch_x ANone ex_master [uw (s_ "*ab"); uw (s_ "zz"); uw (s_ "c_d")] false
    = choice_fetch_x ANone ex_master [uw (s_ "*ab"); uw (s_ "c_d")] false
  /\ choice_fetch_x ANone ex_master [uw (s_ "*ab"); uw (s_ "c_d")] false
    = FOk [mkword (s_ "*Ab") QN 1; mkword (s_ "c_d") QN 1; mkword (s_ "x y") Q1 2].
Proof. vm_compute. repeat split; reflexivity. Qed.

(* mandatory: nothing selected is an error of extraction, not None *)
Example C11_example_mandatory :
  choice_fetch (ABool false) ex_master [uw (s_ "ab"); uw (s_ "c_d")] false
    = Ok [mkword (s_ "Ab") QN 1; mkword (s_ "c_d") QN 1; mkword (s_ "x y") Q1 2]
  /\ choice_from_words false (ABool false) [mkword (s_ "Ab") QN 1; mkword (s_ "c_d") QN 1; mkword (s_ "x y") Q1 2]
    = UErr (s_ "UnspecifiedChoice") [] 1
  /\ choice_from_words false (ABool true) [mkword (s_ "Ab") QN 1; mkword (s_ "c_d") QN 1; mkword (s_ "x y") Q1 2]
    = Ok PNone.
Proof. vm_compute. repeat split; reflexivity. Qed.

(* the two inputs on which the property used to fail (repaired in the code) *)
Example C11_example_former_findings :
  choice_fetch ANone [uw (s_ "A"); uw (s_ "b"); uw (s_ "C")] [uw (s_ "A+b")] false
    = Ok [uw (s_ "*A"); uw (s_ "*b"); uw (s_ "C")]
  /\ choice_fetch ANone [uw (s_ "a"); uw (s_ "b")] [uw (s_ "x"); uw (s_ "*x")] false
    = UErr (s_ "NotAChoice") (s_ "x") 0
  /\ choice_fetch ANone [uw (s_ "a"); uw (s_ "b")] [uw (s_ "x"); uw (s_ "*x")] true
    = Ok [uw (s_ "a"); uw (s_ "b")].
Proof. vm_compute. repeat split; reflexivity. Qed.

(* the complete list of alternatives whose names contain "+": accepted, nothing selected (formerly
   FNotAChoice "x"); an incomplete list of the same names is still the a+b form *)
Definition ex_plus_master : list word := [uw (s_ "x+y"); uw (s_ "z"); uw (s_ "x+y+z")].
Example C11_full_list_example :
  wf_choice_master ex_plus_master = true
  /\ full_list ex_plus_master ex_plus_master = true
  /\ plus_form0 ex_plus_master = true
  /\ plus_form ex_plus_master ex_plus_master = false
  /\ choice_fetch_x ANone ex_plus_master [uw (s_ "x+y"); uw (s_ "z"); uw (s_ "x+y+z")] false
     = FOk [uw (s_ "x+y"); uw (s_ "z"); uw (s_ "x+y+z")]
  /\ choice_fetch_x (ABool false) ex_plus_master [uw (s_ "x+y"); uw (s_ "z"); uw (s_ "x+y+z")] false
     = FOk [uw (s_ "x+y"); uw (s_ "z"); uw (s_ "x+y+z")]
  /\ plus_form ex_plus_master [uw (s_ "x+y"); uw (s_ "z")] = true
  /\ choice_fetch_x ANone ex_plus_master [uw (s_ "x+y"); uw (s_ "z")] false
     = FNotAChoice (s_ "x") 0 [s_ "x+y"; s_ "z"; s_ "x+y+z"].
Proof. vm_compute. repeat split; reflexivity. Qed.
