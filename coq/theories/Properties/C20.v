(* C20 - The GUI parameter index stays coherent over any edit history.
   Model: Model/Index.v (interface.index as a state machine; [step fixed]: fixed = true is the code
   as it is, fixed = false is pop_state/set_state before the repair of finding F12, which left the
   cached python object in place; kept for the refutation theorem).  push_state / set_state copy a
   tree by value (copy.deepcopy, /repo d2d0b2d; the self-fetch they used before was finding F23): they
   call no library function.
   The library functions fetch / extract / format are universally quantified; what each theorem
   assumes about them is a named hypothesis:
     H_fmt     extract (format master p) = p on round-trip objects (pyok)           [C09]
     H_ext_ok  extraction results are round-trip objects                             [C09]
     H_tmpl    is_template of a fetch result is -1, 0 or 1 (only needed at set-up: __init__ indexes
               master.fetch() with index_phil_objects, every later state with reindex_phil_objects)
     H_refetch fetch m [prune (fetch m [prune w; u]); u] = fetch m [prune w; u]
               (C20_update_twice only)                                               [C07-like]
   The stack theorems (C20_pop_restores, C20_stack_ops_total) assume nothing about the library.
   Inv s := (dirty s = false -> forall p, params s = Some p -> extract (working s) = OOk p)   cache coherent
         /\ pidx s = widx (index_of (working s))                 path index = re-indexing of the working tree
         /\ Forall reindexable (states s)                        re-indexing a stacked state does not raise
         /\ (forall p, params s = Some p -> pyok p)              the cached object is a round-trip object
         /\ werr (index_of (working s)) = None                   re-indexing the working tree does not raise
   Histories are lists of operations of any length, run = fold_left step.  [run_ok] says that every
   operation is one of the property's (no reset_scope / erase_scope, python objects given to
   update_from_python are round-trip objects) and that no step raised after it had already changed
   the index (OBroke: a library call or the re-indexing raised in the middle of a method).
   This file holds only the theorems; the proofs are in Proofs/IndexProofs.v, IndexInv.v,
   IndexExamples.v. *)
From Coq Require Import List Ascii String ZArith.
From Phil Require Import Base Tree Index IndexProofs IndexInv IndexExamples.
Import ListNotations.

(* the invariant holds after __init__ *)
Theorem C20_inv_init : forall py fetch extract master pyok (s0:state py),
  H_tmpl fetch -> H_ext_ok py extract pyok ->
  init py fetch extract master = OOk s0 -> Inv py extract pyok s0.
Proof. exact inv_init. Qed.
Print Assumptions C20_inv_init.

(* every operation of the property preserves it (repaired machine) *)
Theorem C20_inv_step : forall py fetch extract format master pyok (s:state py) (o:op py),
  H_fmt py extract format master pyok -> H_ext_ok py extract pyok ->
  Inv py extract pyok s -> op_ok py pyok o ->
  ~ broke py (snd (step py fetch extract format master true s o)) ->
  Inv py extract pyok (fst (step py fetch extract format master true s o)).
Proof. exact inv_step. Qed.
Print Assumptions C20_inv_step.

(* hence every state reachable from __init__ by any history satisfies it *)
Theorem C20_reachable : forall py fetch extract format master pyok (ops:list (op py)) (s0:state py),
  H_fmt py extract format master pyok -> H_ext_ok py extract pyok -> H_tmpl fetch ->
  init py fetch extract master = OOk s0 ->
  run_ok py fetch extract format master pyok ops s0 ->
  Inv py extract pyok (run py fetch extract format master true ops s0).
Proof. exact reachable_from_init. Qed.
Print Assumptions C20_reachable.

(* in every reachable state get_python_object hands out the extraction of the working tree
   (or raises exactly when that extraction raises) *)
Theorem C20_handout : forall py fetch extract format master pyok (ops:list (op py)) (s0:state py) mc,
  H_fmt py extract format master pyok -> H_ext_ok py extract pyok -> H_tmpl fetch ->
  init py fetch extract master = OOk s0 ->
  run_ok py fetch extract format master pyok ops s0 ->
  handout_ok py extract (run py fetch extract format master true ops s0)
    (snd (step py fetch extract format master true (run py fetch extract format master true ops s0) (GetPy mc))).
Proof. exact handout_reachable. Qed.
Print Assumptions C20_handout.

(* pop_state before its repair (fixed = false): after push; update; get_python_object; pop_state the
   cached object is handed out although the working tree extracts to something else (finding F12) *)
(* cinit / crun fx / cstep fx = init / run fx / step fx of the small concrete library of IndexExamples.v
   (master m1: "a = 1 .type = int"); hist_f12 = [Push; Update "a = 2"; GetPy; Pop] *)
Theorem C20_refuted_pop_stale :
  exists s0, cinit = OOk s0 /\
  let s := crun false hist_f12 s0 in
  exists p q, snd (cstep false s (GetPy false)) = OPy p false /\ cextract (working s) = OOk q /\ p <> q.
Proof. exact refuted_pop_stale. Qed.
Print Assumptions C20_refuted_pop_stale.

(* stack discipline: after a push, any balanced history and the matching pop, the working tree is
   the working tree at the push and the stack is as before the push (either machine; no hypothesis
   on the library, from any state) *)
Theorem C20_pop_restores : forall py fetch extract format master fx (s:state py) l s1,
  balanced py fetch extract format master fx (step1 py fetch extract format master fx s Push) l s1 ->
  s1 = run py fetch extract format master fx (Push :: l) s
  /\ working (step1 py fetch extract format master fx s1 Pop) = working s
  /\ states (step1 py fetch extract format master fx s1 Pop) = states s.
Proof. exact pop_restores. Qed.
Print Assumptions C20_pop_restores.

(* in a state satisfying the invariant push_state / pop_state / set_state never raise after having
   changed the index: the tree they re-index is a copy of a former working tree *)
Theorem C20_stack_ops_total : forall py fetch extract format master pyok fx (s:state py),
  Inv py extract pyok s ->
  ~ broke py (snd (step py fetch extract format master fx s Push))
  /\ ~ broke py (snd (step py fetch extract format master fx s Pop))
  /\ forall i, ~ broke py (snd (step py fetch extract format master fx s (SetState i))).
Proof. exact stack_ops_total. Qed.
Print Assumptions C20_stack_ops_total.

(* the same update applied twice in a row: the second application leaves the working tree alone,
   provided re-fetching the update on top of its own result is stable (H_refetch) *)
Theorem C20_update_twice : forall py fetch extract format master fx (s:state py) u only rs,
  snd (step py fetch extract format master fx s (Update u only rs)) = ONone ->
  H_refetch py fetch master s u only (working (step1 py fetch extract format master fx s (Update u only rs))) ->
  working (step1 py fetch extract format master fx (step1 py fetch extract format master fx s (Update u only rs)) (Update u only rs))
  = working (step1 py fetch extract format master fx s (Update u only rs)).
Proof. exact update_twice. Qed.
Print Assumptions C20_update_twice.

(* whatever get_scope_by_name returns in a state satisfying the invariant is, object by object, the
   object at the recorded position of the CURRENT working tree, and the path asked for is that
   object's full path *)
Theorem C20_lookup_live : forall py fetch extract format master pyok fx (s:state py) path e,
  Inv py extract pyok s ->
  snd (step py fetch extract format master fx s (GetScopeByName path)) = OEntry (Some e) ->
  forall q o, In (q, o) (objs_of e) ->
  exists pre, locate [] (working s) q = Some (o, pre) /\ join_path pre (oname (ohdr o)) = path.
Proof. exact lookup_live. Qed.
Print Assumptions C20_lookup_live.

(* conversely every object the indexer reaches (no hidden template, is_template < 0, on the way) is found
   under its full path; if no other position of the working tree has that full path (paths outside
   multiple scopes of a fetched tree), the look-up returns exactly that object *)
Theorem C20_lookup_complete : forall py fetch extract format master pyok fx (s:state py) q o pre,
  Inv py extract pyok s -> visible (working s) q = true -> locate [] (working s) q = Some (o, pre) ->
  (forall q' o' pre', locate [] (working s) q' = Some (o', pre') ->
     join_path pre' (oname (ohdr o')) = join_path pre (oname (ohdr o)) -> q' = q) ->
  exists e, snd (step py fetch extract format master fx s (GetScopeByName (join_path pre (oname (ohdr o))))) = OEntry (Some e)
            /\ forall q' o', In (q', o') (objs_of e) -> q' = q /\ o' = o.
Proof. exact lookup_complete. Qed.
Print Assumptions C20_lookup_complete.

(* ---------- non-vacuity *)
(* the hypotheses on the library are satisfiable (a small flat library) *)
Example C20_hyps_satisfiable :
  H_fmt cpy cextract cformat m1 cok /\ H_ext_ok cpy cextract cok /\ H_tmpl cfetch.
Proof. exact hyps_satisfiable. Qed.
(* a history over ten different operations on which no step breaks *)
Example C20_run_ok_example : exists s0, init cpy cfetch cextract m1 = OOk s0 /\ run_ok cpy cfetch cextract cformat m1 cok hist_ok s0.
Proof. exact run_ok_example. Qed.
(* the repaired machine on the F12 history hands out a fresh extraction *)
Example C20_fixed_pop_fresh :
  exists s0, cinit = OOk s0 /\
  let s := crun true hist_f12 s0 in
  exists p, snd (cstep true s (GetPy false)) = OPy p true /\ cextract (working s) = OOk p.
Proof. exact fixed_pop_fresh. Qed.
(* a balanced history with a nested push/pop, and the restored tree *)
Example C20_balanced_example :
  exists s0 s1, init cpy cfetch cextract m1 = OOk s0 /\
  balanced cpy cfetch cextract cformat m1 true (step1 cpy cfetch cextract cformat m1 true s0 Push)
           [Update u2 None true; Push; GetPy false; Pop; GetPy false] s1 /\
  working (step1 cpy cfetch cextract cformat m1 true s1 Pop) = working s0.
Proof. exact balanced_example. Qed.
(* H_refetch holds on an example, and the look-up of the example finds the live definition *)
Example C20_refetch_example :
  exists s0, init cpy cfetch cextract m1 = OOk s0 /\
  snd (step cpy cfetch cextract cformat m1 true s0 (Update u2 None true)) = ONone /\
  H_refetch cpy cfetch m1 s0 u2 None (working (step1 cpy cfetch cextract cformat m1 true s0 (Update u2 None true))).
Proof. exact refetch_example. Qed.
Example C20_lookup_example :
  exists s0 e, init cpy cfetch cextract m1 = OOk s0 /\
  snd (step cpy cfetch cextract cformat m1 true (run cpy cfetch cextract cformat m1 true [Update u2 None true] s0)
            (GetScopeByName (s_ "a"))) = OEntry (Some e) /\
  e = EOne [0%nat] (Def (plain_hdr (s_ "a")) [uw (s_ "2")] ty_int).
Proof. exact lookup_example. Qed.
