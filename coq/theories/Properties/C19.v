(* C19 - Printing filters show exactly what the requested levels allow.
   Theorems over the printer model (all trees, all widths/prefixes/attribute levels):
   - the text printed with expert level k is, byte for byte, the text of the pruned tree printed with
     no filter (prune drops every object whose own level exceeds k together with everything below it,
     and a scope that exists only as dotted prefix of dropped objects) - for trees as the parser builds
     them (wf_show: numeric levels, dotted-prefix scopes have one child; checked on every parsed tree
     of the stream);
   - a negative level shows everything (every tree);
   - attributes level 0 prints no attribute; visibility is monotone in the level; level 1 shows only
     help/alias; level 2 only attributes that are set.
   - a prefix (any string without a newline character) is prepended to every printer line and changes
     nothing else: printing with prefix p at width w gives exactly the printer lines of the un-prefixed
     print at width w - |p|, each with p in front (a "printer line" may contain raw newlines of quoted
     words; those continuation fragments belong to the word and carry no prefix).
   - the filtered text parses to exactly the allowed sub-tree: at attributes level 0 for every tree of the
     shape the parser builds (dtree_ok; no hypothesis on the levels is needed: a non-numeric level of a
     visible object makes printing fail, one inside a hidden sub-tree is never looked at); at EVERY attributes
     level >= 1 (1, 2, 3, ...) for trees with dot-free names whose attributes are unset, bool, int or STRING valued
     (.help .caption .short_caption .style .alias; a string may hold blanks, quotes, backslashes, newlines), each
     string short enough to be printed on its line at the print width (stree_ok; the printer then writes it as
     one word, bare or double-quoted, and textwrap is not reached): the re-parsed tree carries exactly the
     attributes visible at that level (C19_filtered_text_parses_levels; _level3 and _level2 in the terms of erase3:
     both levels rebuild the same attribute lists;
     _level3_partial is the older bool/int statement, contained in the new one: C19_old_domain_is_contained);
     the trees re-parsed from ANY TWO levels >= 0 agree once attributes are ignored (C19_reparsed_levels_agree;
     the two runs may use different widths and oracles); the domain holds no deprecated definition (level < 3
     hides those by design of the printer: C19_example_deprecated_levels_differ);
   - every parse result whose expert levels are unset or numbers satisfies wf_show, so the expert-filter
     theorem applies to every such parsed document (C19_parsed_trees_are_wf).
   PARTIAL, still decided by the correspondence stream + oracle only: string attributes that are WRAPPED over
   several lines (the re-parsed value then is the text with every run of blanks/newlines turned into one blank,
   not the value: C19_example_wrapped_text_differs; the skeleton still agrees there), .type / .call /
   .sequential_format / Auto-valued attributes.
   Larger domains (end of the file, Proofs/ShowReparseFiltered.v), again for ANY expert filter e: level 3 with
   deprecated definitions (stree_ok_d: C19_filtered_text_parses_level3_deprecated), level 3 with dotted names and
   deprecated definitions (sdtree_ok: C19_filtered_text_parses_level3_dotted), every level >= 1 with dotted names
   (ldtree_ok: C19_filtered_text_parses_levels_dotted, _level2_dotted); pruning stays in each of these domains (a
   prefix scope whose only child is hidden disappears with it; a kept child keeps its header, so the prefix scope
   still has one child carrying merge_names: C19_pruning_stays_in_the_dotted_domains). *)
From Coq Require Import List Ascii String ZArith Bool.
From Phil Require Import Base Tokenizer Tree Parser Show ShowProofs ShowPrefix ShowErase WordsRoundtrip TreeRoundtrip ShowReparse ShowReparseAttrs ParserShape.
Import ListNotations.

Theorem C19_expert_filter_is_prune : forall k l, forallb wf_show l = true -> forall prefix level width,
  show_objs l prefix (Some k) level width = show_objs (prunes k l) prefix None level width.
Proof. exact show_objs_expert_is_prune. Qed.
Print Assumptions C19_expert_filter_is_prune.

Theorem C19_negative_level_shows_all : forall k, (k < 0)%Z -> forall l prefix level width,
  show_objs l prefix (Some k) level width = show_objs l prefix None level width.
Proof. exact show_objs_negative_is_all. Qed.
Print Assumptions C19_negative_level_shows_all.

Theorem C19_level0_prints_no_attribute : forall prefix names a w, show_attributes prefix names a 0 w = Ok [].
Proof. exact level0_no_attributes. Qed.
Print Assumptions C19_level0_prints_no_attribute.

Theorem C19_invisible_attribute_prints_nothing : forall prefix name v level width,
  attr_visible name v level = false -> show_attr prefix name v level width = Ok [].
Proof. exact show_attr_invisible. Qed.
Print Assumptions C19_invisible_attribute_prints_nothing.

Theorem C19_levels_monotone : forall name v a b, (a <= b)%Z ->
  attr_visible name v a = true -> attr_visible name v b = true.
Proof. exact attr_visible_monotone. Qed.
Print Assumptions C19_levels_monotone.

Theorem C19_level1_only_help_alias : forall name v, attr_visible name v 1 = true -> is_level1_attr name = true.
Proof. exact level1_only_help_alias. Qed.
Print Assumptions C19_level1_only_help_alias.

Theorem C19_level2_only_set : forall name v, attr_visible name v 2 = true -> v <> ANone.
Proof. exact level2_set_attributes. Qed.
Print Assumptions C19_level2_only_set.

Theorem C19_prefix_on_every_line : forall l p e lvl w, mem nl p = false ->
  show_objs l [] e lvl (w - zlen p) = lift render (objs_lines l [] e lvl (w - zlen p))
  /\ show_objs l p e lvl w = lift (fun ls => render (add_prefix p ls)) (objs_lines l [] e lvl (w - zlen p)).
Proof. exact show_objs_prefix. Qed.
Print Assumptions C19_prefix_on_every_line.

Theorem C19_every_line_starts_with_prefix : forall l p e lvl w ls, mem nl p = false ->
  objs_lines l p e lvl w = Ok ls -> Forall (fun x => exists y, x = p ++ y) ls.
Proof. exact objs_lines_start_with_prefix. Qed.
Print Assumptions C19_every_line_starts_with_prefix.

Theorem C19_text_is_its_printer_lines : forall l q e lvl w,
  show_objs l q e lvl w = lift render (objs_lines l q e lvl w).
Proof. exact show_objs_lines. Qed.
Print Assumptions C19_text_is_its_printer_lines.

Theorem C19_filtered_text_parses_level0 : forall o l e w text,
  forallb (dtree_ok []) l = true ->
  as_str l [] e 0 w = Ok text ->
  exists l', parse o text = Ok l' /\ map erase_obj l' = map erase_all (shown e l).
Proof. exact filtered_text_parses_level0_ok. Qed.
Print Assumptions C19_filtered_text_parses_level0.

Theorem C19_filtered_text_parses_level3_partial : forall o l e w text,
  forallb atree_ok l = true ->
  as_str l [] e 3 w = Ok text ->
  exists l', parse o text = Ok l' /\ map erase_obj l' = map erase3 (shown e l).
Proof. exact filtered_text_parses_level3. Qed.
Print Assumptions C19_filtered_text_parses_level3_partial.

Theorem C19_reparsed_levels_agree_partial : forall o0 o3 l e w0 w3 t0 t3 l0 l3,
  forallb atree_ok l = true ->
  as_str l [] e 0 w0 = Ok t0 -> parse o0 t0 = Ok l0 ->
  as_str l [] e 3 w3 = Ok t3 -> parse o3 t3 = Ok l3 ->
  map erase_obj l0 = map erase_all l3 /\ map erase_all l0 = map erase_all l3.
Proof. exact reparsed_levels_agree. Qed.
Print Assumptions C19_reparsed_levels_agree_partial.

Theorem C19_pruning_stays_in_the_domain : forall k l,
  forallb (dtree_ok []) l = true -> forallb (dtree_ok []) (prunes k l) = true.
Proof. exact prunes_keeps_dtree_ok. Qed.
Print Assumptions C19_pruning_stays_in_the_domain.

Theorem C19_parsed_trees_are_wf : forall o s l,
  parse o s = Ok l -> expert_levels_numeric l = true -> forallb wf_show l = true.
Proof. exact parse_lands_in_wf_show. Qed.
Print Assumptions C19_parsed_trees_are_wf.

(* non-vacuity: a parsed document with a dotted name below a hidden level satisfies wf_show, and the filter
   really removes something *)
Definition c19_doc : str := s_ "s.t.x = 1
.expert_level = 3
b = 2
u .expert_level = 1 { v = 3 }
".
Example C19_example_wf :
  match parse [] c19_doc with Ok l => forallb wf_show l | _ => false end = true.
Proof. vm_compute. reflexivity. Qed.
Example C19_example_filter :
  match parse [] c19_doc with
  | Ok l => as_str l [] (Some 1%Z) 0 None
  | _ => Ok [] end = Ok (s_ "b = 2
u {
  v = 3
}
").
Proof. vm_compute. reflexivity. Qed.

(* ---------- the re-parse clause with string-valued attributes, at every attributes level >= 1 *)
Theorem C19_filtered_text_parses_levels : forall lvl o l e w text, (0 <? lvl)%Z = true ->
  forallb (stree_ok (width_of w) []) l = true ->
  as_str l [] e lvl w = Ok text ->
  exists l', parse o text = Ok l' /\ map erase_obj l' = map (eraseL lvl) (shown e l).
Proof. exact filtered_text_parses_levels. Qed.
Print Assumptions C19_filtered_text_parses_levels.

Theorem C19_filtered_text_parses_level3 : forall o l e w text,
  forallb (stree_ok (width_of w) []) l = true ->
  as_str l [] e 3 w = Ok text ->
  exists l', parse o text = Ok l' /\ map erase_obj l' = map erase3 (shown e l).
Proof. exact filtered_text_parses_level3_strings. Qed.
Print Assumptions C19_filtered_text_parses_level3.

Theorem C19_filtered_text_parses_level2 : forall o l e w text,
  forallb (stree_ok (width_of w) []) l = true ->
  as_str l [] e 2 w = Ok text ->
  exists l', parse o text = Ok l' /\ map erase_obj l' = map erase3 (shown e l).
Proof. exact filtered_text_parses_level2_strings. Qed.
Print Assumptions C19_filtered_text_parses_level2.

Theorem C19_reparsed_levels_agree : forall la lb oa ob l e wa wb ta tb l1 l2,
  (0 <=? la)%Z = true -> (0 <=? lb)%Z = true ->
  forallb (stree_ok (width_of wa) []) l = true -> forallb (stree_ok (width_of wb) []) l = true ->
  as_str l [] e la wa = Ok ta -> parse oa ta = Ok l1 ->
  as_str l [] e lb wb = Ok tb -> parse ob tb = Ok l2 ->
  map erase_all l1 = map erase_all l2.
Proof. exact reparsed_any_levels_agree. Qed.
Print Assumptions C19_reparsed_levels_agree.

(* not vacuous: on the domain every level prints and the text parses *)
Theorem C19_reparsed_levels_defined : forall lvl o l e w, (0 <? lvl)%Z = true ->
  forallb (stree_ok (width_of w) []) l = true ->
  exists text l', as_str l [] e lvl w = Ok text /\ parse o text = Ok l'.
Proof. exact reparsed_levels_defined. Qed.
Print Assumptions C19_reparsed_levels_defined.

Theorem C19_old_domain_is_contained : forall w o p, atree_ok o = true -> stree_ok w p o = true.
Proof. exact atree_ok_stree_ok. Qed.
Print Assumptions C19_old_domain_is_contained.

Theorem C19_pruning_stays_in_the_string_domain : forall w p e l,
  forallb (stree_ok w p) l = true -> forallb (stree_ok w p) (shown e l) = true.
Proof. exact shown_keeps_stree_ok. Qed.
Print Assumptions C19_pruning_stays_in_the_string_domain.

(* non-vacuity: a scope with a help text, a definition whose help text holds blanks and a quote (sa_tree) *)
Example C19_example_string_domain :
  forallb (stree_ok default_width []) sa_tree = true /\ forallb atree_ok sa_tree = false.
Proof. exact sa_in_domain. Qed.
Example C19_example_string_roundtrips :
  map erase_obj (sa_parsed 3 None None) = map erase3 sa_tree
  /\ map erase_obj (sa_parsed 2 None None) = map erase3 sa_tree
  /\ map erase_obj (sa_parsed 1 None None) = map (eraseL 1) sa_tree
  /\ map erase_obj (sa_parsed 3 (Some 0%Z) None) = map erase3 (prunes 0 sa_tree)
  /\ map erase_all (sa_parsed 1 (Some 0%Z) None) = map erase_all (sa_parsed 3 (Some 0%Z) None)
  /\ map erase_all (sa_parsed 0 (Some 0%Z) None) = map erase_all (sa_parsed 2 (Some 0%Z) None)
  /\ length (prunes 0 sa_tree) = 1 /\ map erase_all (prunes 0 sa_tree) <> map erase_all sa_tree.
Proof. exact sa_roundtrips. Qed.
(* outside the domain: a wrapped text comes back with its blanks normalised; a deprecated definition is
   printed at level 3 only *)
Example C19_example_wrapped_text_differs :
  forallb (stree_ok 20 []) sa_tree = false
  /\ map erase_obj (sa_parsed 3 None (Some 20%Z)) <> map erase3 sa_tree
  /\ map erase_all (sa_parsed 3 None (Some 20%Z)) = map erase_all sa_tree.
Proof. exact wrapped_differs. Qed.
Example C19_example_deprecated_levels_differ :
  forallb (stree_ok default_width []) sa_dep = false
  /\ as_str sa_dep [] None 2 None = Ok (s_ "y = 2
").
Proof. exact deprecated_hidden_at_level2. Qed.

(* ---------- the larger domains: deprecated definitions (level 3), dotted names (level 3 and every level >= 1) *)
From Phil Require Import ShowReparseDeprecated ShowReparseFiltered.

Theorem C19_filtered_text_parses_level3_deprecated : forall o l e w text,
  forallb (stree_ok_d (width_of w) []) l = true ->
  as_str l [] e 3 w = Ok text ->
  exists l', parse o text = Ok l' /\ map erase_obj l' = map erase3 (shown e l).
Proof. exact filtered_text_parses_level3_deprecated. Qed.
Print Assumptions C19_filtered_text_parses_level3_deprecated.

Theorem C19_filtered_text_parses_level3_dotted : forall o l e w text,
  forallb (sdtree_ok (width_of w) [] []) l = true ->
  as_str l [] e 3 w = Ok text ->
  exists l', parse o text = Ok l' /\ map erase_obj l' = map erase3 (shown e l).
Proof. exact filtered_text_parses_level3_dotted. Qed.
Print Assumptions C19_filtered_text_parses_level3_dotted.

Theorem C19_filtered_text_parses_levels_dotted : forall lvl o l e w text, (0 <? lvl)%Z = true ->
  forallb (ldtree_ok (width_of w) [] []) l = true ->
  as_str l [] e lvl w = Ok text ->
  exists l', parse o text = Ok l' /\ map erase_obj l' = map (eraseL lvl) (shown e l).
Proof. exact filtered_text_parses_levels_dotted. Qed.
Print Assumptions C19_filtered_text_parses_levels_dotted.

Theorem C19_filtered_text_parses_level2_dotted : forall o l e w text,
  forallb (ldtree_ok (width_of w) [] []) l = true ->
  as_str l [] e 2 w = Ok text ->
  exists l', parse o text = Ok l' /\ map erase_obj l' = map erase3 (shown e l).
Proof. exact filtered_text_parses_level2_dotted. Qed.
Print Assumptions C19_filtered_text_parses_level2_dotted.

Theorem C19_pruning_stays_in_the_deprecated_domain : forall w p e l,
  forallb (stree_ok_d w p) l = true -> forallb (stree_ok_d w p) (shown e l) = true.
Proof. exact shown_keeps_stree_ok_d. Qed.
Print Assumptions C19_pruning_stays_in_the_deprecated_domain.

Theorem C19_pruning_stays_in_the_dotted_domains : forall w p e l,
  (forallb (sdtree_ok w [] p) l = true -> forallb (sdtree_ok w [] p) (shown e l) = true)
  /\ (forallb (ldtree_ok w [] p) l = true -> forallb (ldtree_ok w [] p) (shown e l) = true).
Proof. exact (fun w p e l => conj (shown_keeps_sdtree_ok w p e l) (shown_keeps_ldtree_ok w p e l)). Qed.
Print Assumptions C19_pruning_stays_in_the_dotted_domains.

(* non-vacuity: a.b.x deprecated with expert_level 2, a.c.y, p.q.z with expert_level 2, k deprecated with
   expert_level 1, m.n with a help text; printed with e = Some 1 (and Some 0, None) at level 3 *)
Example C19_example_filtered_deprecated_dotted :
  map erase_obj (fl_reparsed (Some 1%Z)) = map erase3 (prunes 1 fl_tree)
  /\ map erase_obj (fl_reparsed (Some 0%Z)) = map erase3 (prunes 0 fl_tree)
  /\ map erase_obj (fl_reparsed None) = map erase3 fl_tree
  /\ map erase_all (prunes 1 fl_tree) <> map erase_all fl_tree
  /\ map erase_all (prunes 0 fl_tree) <> map erase_all (prunes 1 fl_tree)
  /\ length (prunes 0 fl_tree) = 2.
Proof. exact fl_roundtrips. Qed.
Example C19_example_filtered_domain :
  forallb (sdtree_ok default_width [] []) fl_tree = true /\ forallb (stree_ok_d default_width []) fl_tree = false
  /\ forallb (ldtree_ok default_width [] []) fl_tree = false
  /\ length fl_tree = 5 /\ length (prunes 1 fl_tree) = 3
  /\ forallb (sdtree_ok default_width [] []) (prunes 1 fl_tree) = true.
Proof. exact fl_in_domain. Qed.
Example C19_example_filtered_dotted_levels :
  map erase_obj (dot_filtered2 1 (Some 1%Z)) = map (eraseL 1) (prunes 1 dot_tree2)
  /\ map erase_obj (dot_filtered2 2 (Some 1%Z)) = map erase3 (prunes 1 dot_tree2)
  /\ map erase_all (prunes 1 dot_tree2) <> map erase_all dot_tree2
  /\ forallb (ldtree_ok default_width [] []) (prunes 1 dot_tree2) = true.
Proof. exact dot_levels_filtered. Qed.
