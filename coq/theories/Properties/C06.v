(* C06 - every source definition is either consumed or reported as unused.
   Model: Model/Fetch.v.  fetch_track_marks env canon diff marks0 m srcs =
   master.fetch(sources=srcs, track_unused_definitions=True, diff=diff) when the tmp slot of the
   source definition at position p holds marks0 p before the call; fetch_track = freshly parsed
   sources (all None).  Statements hold for every env, every canon oracle, both diff flags.
   Domain: alias-free masters (else the model answers Unmodelled, not Ok), runs that end in Ok;
   C06_exact is for sources without "$".  The stated exception: definition.resolve_variables marks
   the definition that supplies a $variable as consumed, so a definition used only as a variable
   is not reported; C06_with_variables says exactly what is reported then, and
   C06_variable_exception_witness shows the exception is real. *)
From Coq Require Import List Ascii String Bool Arith ZArith.
From Phil Require Import Base Tree Vars Choice Fetch FetchBasics FetchShape FetchDisabled FetchTrack FetchExamples.
Import ListNotations.

(* tracking does not change the merged result (errors included) *)
Theorem C06_result_unchanged : forall env canon diff marks0 m srcs,
  rmap fst (fetch_track_marks env canon diff marks0 m srcs) = fetch env canon diff m srcs.
Proof. exact track_result_unchanged. Qed.
Print Assumptions C06_result_unchanged.

(* The reported list is exactly unused_spec m srcs: the active source definitions (no disabled
   enclosing scope, not named "include"), in document order, each once, with full dotted path and
   line, whose position is not in [named m srcs].
   named m srcs (Proofs/FetchTrack.v) = the source definitions whose path names an active master
   parameter, by get_without_substitution semantics: starting from all source root objects, for
   every entry k of the master scope (master_active_objects) take the active source objects that
   get_without_substitution finds for k's name; if k is a definition these are the named
   definitions; if k is a scope their children are offered to k's entries in turn. *)
Theorem C06_exact : forall env canon diff marks0 m srcs r u,
  srcs_have_dollar srcs = false ->
  fetch_track_marks env canon diff marks0 m srcs = Ok (r, u) -> u = unused_spec m srcs.
Proof. exact track_exact. Qed.
Print Assumptions C06_exact.

(* with "$" in the sources: the same list minus the definitions that variable substitution marked
   while the consumed definitions were resolved (var_marks) *)
Theorem C06_with_variables : forall env canon diff marks0 m srcs r u,
  fetch_track_marks env canon diff marks0 m srcs = Ok (r, u) ->
  exists consumed, (forall q, In q consumed <-> In q (named m srcs)) /\
    u = map (fun d => (dpath d, dline d))
            (filter (fun d => negb (pos_in (dpos d) (consumed ++ var_marks srcs consumed))
                              && negb (eqs (dnm d) (s_ "include")))
                    (all_defs_root (root_lsrcs srcs))).
Proof. exact track_with_variables. Qed.
Print Assumptions C06_with_variables.

(* master "a = 1", source "y = 5 ; a = $y": y names no master parameter and is not reported *)
Theorem C06_variable_exception_witness :
  exists env canon m srcs r u,
    fetch_track env canon false m srcs = Ok (r, u) /\ u <> unused_spec m srcs.
Proof. exact f10b_refutes. Qed.
Print Assumptions C06_variable_exception_witness.

(* a source DEFINITION found for a master SCOPE entry, or a source scope found for a master
   definition entry, ends the run ("Incompatible parameter objects"): on an Ok run every object
   found for an entry has the entry's kind, so [named] never has to decide such a case *)
Theorem C06_no_clash_on_ok_runs : forall env canon diff m srcs oc,
  fetch_root env canon diff m srcs = Ok oc ->
  forall k s, In k (entries m) -> In s (match_sources (oname (ohdr k)) (root_lsrcs srcs)) ->
  is_def (lobj s) = is_def k.
Proof. exact fetch_ok_no_clash. Qed.
Print Assumptions C06_no_clash_on_ok_runs.

(* offering more source objects names exactly what each part names (multiples: every instance of
   a multiple scope is matched against the same master scope) *)
Theorem C06_named_additive : forall M a b p,
  In p (named_scope M (a ++ b)) <-> In p (named_scope M a) \/ In p (named_scope M b).
Proof. exact named_scope_app. Qed.
Print Assumptions C06_named_additive.

(* stale marks: the tmp slots left on the source definitions by earlier calls (or None after
   parsing) never influence the outcome - assign_tmp(False, active_only=True) resets every
   definition whose slot all_definitions(select_tmp=False) later reads *)
Theorem C06_stale_marks_irrelevant : forall env canon diff marks0 marks0' m srcs,
  fetch_track_marks env canon diff marks0 m srcs = fetch_track_marks env canon diff marks0' m srcs.
Proof. exact stale_marks_irrelevant. Qed.
Print Assumptions C06_stale_marks_irrelevant.

(* the reset covers the reads *)
Theorem C06_reset_covers_reads : forall srcs d,
  In d (all_defs_root srcs) -> In (dpos d) (reset_root srcs).
Proof. exact all_defs_root_reset. Qed.
Print Assumptions C06_reset_covers_reads.

(* ---------------------------------------------------------------- non-vacuity *)
(* master a, s{b} (multiple), !d ; source a, s{b=y}, s{b=x}, zz, d : zz (unknown) and d (names only
   a DISABLED master parameter) are reported, with their lines; everything else is consumed *)
Example C06_exact_satisfiable :
  fetch_track ex_env ex_canon false ex_master [ex_source] =
    Ok (ex_result, [(s_ "zz", 4); (s_ "d", 5)]) /\ srcs_have_dollar [ex_source] = false.
Proof. exact (conj ex_fetch_track ex_no_dollar). Qed.
