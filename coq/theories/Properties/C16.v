(* C16 - User mistakes surface as RuntimeError or Sorry, never as internal errors.
   Theorems (all inputs, every oracle table):
   - the tokenizer model never ends in an internal error and always returns;
   - freephil.parse (model): the only way to an internal error is through one of the three oracle
     functions (.type construction, eval-based integer attribute, .call proxy) - if none of the recorded
     oracle answers is an internal error, parse ends in Ok or a user error, and the fuel the entry point
     passes is never exhausted (every call returns).  This isolates exactly the recorded findings F18
     (.call) and F6-attr (non-finite integer attribute), which enter through those oracles.
   - master.fetch(sources) (model, Proofs/FetchTotal.v): the internal errors fetch can end in are exactly
     characterised (an internal error of the canonical-rendering oracle; AssertionError for a choice master
     that does not list its alternatives; variable resolution over definitions without ids) and NONE occurs
     when the oracle is crash-free, choice masters list their alternatives and sources are parsed documents
     (master_ok / srcs_ok are evaluated on every well-formed case of the stream); fetch is structurally
     recursive, so every call returns.
   - typed values (model, Proofs/ConvTotal.v): for every numeric/bool converter with ANY constructor
     arguments (bounds may be inf / nan / huge), every non-empty word list and every total eval oracle,
     from_words ends in a value or a user error; the internal errors it can end in at all are exactly
     characterised (empty word list, missing oracle answer, an oracle float with > 4300 integer digits);
     likewise as_words on values of the right Python type;
   - extraction (model, Proofs/ExtractTotal.v): scope.extract ends in a value or a user error on every tree
     satisfying extract_wf (evaluated on every fetch result of the streams); its possible internal errors are
     characterised without hypothesis (IndexError/AssertionError for empty word lists or ill-formed joins,
     AttributeError for a join of unlike kinds - the recorded finding C16-join-disabled is the one way to
     reach it from a parsed document).
   PARTIAL: the argument interpreter's own logic and validate() are covered by the correspondence
   streams (outcome classes compared on token soup, mutated documents and value texts). *)
From Coq Require Import List Ascii String.
From Phil Require Import Base Tokenizer Tree Parser LexProofs ParserTotal Vars Choice Fetch FetchTotal.
From Phil Require Conv ConvTotal PyVal Extract ExtractTotal.

Theorem C16_tokenize_no_crash : forall σ s c, tokenize σ s <> Crash c.
Proof. exact tokenize_no_crash. Qed.
Print Assumptions C16_tokenize_no_crash.

Theorem C16_parse_no_crash : forall o s, oracle_ok o -> ParserTotal.ok_res (parse o s).
Proof. exact parse_total. Qed.
Print Assumptions C16_parse_no_crash.

Theorem C16_parse_no_crash_without_oracle : forall s, ParserTotal.ok_res (parse nil s).
Proof. exact parse_total_no_oracle. Qed.
Print Assumptions C16_parse_no_crash_without_oracle.

Theorem C16_scan_for_start_never_goes_back : forall fuel s line, length (fst (fst (sfs fuel s line))) <= length s.
Proof. exact sfs_le. Qed.
Print Assumptions C16_scan_for_start_never_goes_back.

Theorem C16_fetch_no_crash : forall env canon diff m srcs,
  canon_ok canon -> master_ok m = true -> srcs_ok srcs = true ->
  FetchTotal.ok_res (fetch env canon diff m srcs).
Proof. exact fetch_total. Qed.
Print Assumptions C16_fetch_no_crash.

Theorem C16_fetch_track_no_crash : forall env canon diff marks0 m srcs,
  canon_ok canon -> master_ok m = true -> srcs_ok srcs = true ->
  FetchTotal.ok_res (fetch_track_marks env canon diff marks0 m srcs).
Proof. exact fetch_track_total. Qed.
Print Assumptions C16_fetch_track_no_crash.

Theorem C16_fetch_crash_kinds : forall env canon diff m srcs c,
  fetch env canon diff m srcs = Crash c -> fetch_crash canon c.
Proof. exact fetch_crash_kinds. Qed.
Print Assumptions C16_fetch_crash_kinds.

Theorem C16_from_words_no_crash : forall pyeval t ws,
  ws <> nil -> ConvTotal.oracle_total pyeval -> ConvTotal.bounds_sane t = true ->
  ConvTotal.ok_res (Conv.from_words pyeval t ws).
Proof. exact ConvTotal.from_words_total. Qed.
Print Assumptions C16_from_words_no_crash.

Theorem C16_from_words_crash_kinds : forall pyeval t ws c,
  Conv.from_words pyeval t ws = Crash c -> ConvTotal.fw_crash pyeval t ws c.
Proof. exact ConvTotal.from_words_crash_kinds. Qed.
Print Assumptions C16_from_words_crash_kinds.

Theorem C16_as_words_no_crash : forall fmt10g t v,
  ConvTotal.typed t v = true -> ConvTotal.fmt_total fmt10g -> ConvTotal.value_sane t v = true ->
  ConvTotal.ok_res (Conv.as_words fmt10g t v).
Proof. exact ConvTotal.as_words_total. Qed.
Print Assumptions C16_as_words_no_crash.

Theorem C16_extract_no_crash : forall pe ex,
  ExtractTotal.oracle_total pe -> forall o, Extract.extract_wf o = true ->
  ExtractTotal.ok_res (Extract.extract_obj pe ex o).
Proof. exact ExtractTotal.extract_total. Qed.
Print Assumptions C16_extract_no_crash.

Theorem C16_extract_crash_kinds : forall pe ex o c,
  Extract.extract_obj pe ex o = Crash c -> ExtractTotal.extract_crash pe c.
Proof. exact ExtractTotal.extract_crash_kinds. Qed.
Print Assumptions C16_extract_crash_kinds.
