(* C16 - User mistakes surface as RuntimeError or Sorry, never as internal errors.
   Proved here (all inputs, PARTIAL): the tokenizer never ends in an internal error and always
   returns (fuel = length + 1 is never exhausted).  Parser / converters / argument interpreter: the
   model classifies every outcome as Ok | UErr | Crash and the correspondence stream compares that
   class with the exception class of the implementation on token soup and mutated documents. *)
From Coq Require Import List Ascii String.
From Phil Require Import Base Tokenizer LexProofs.

Theorem C16_tokenize_no_crash_partial : forall σ s c, tokenize σ s <> Crash c.
Proof. exact tokenize_no_crash. Qed.
Print Assumptions C16_tokenize_no_crash_partial.
