(* C18 - Extracted parameter objects are guarded, self-describing and detached.
   Only property theorems here (each closed by [exact] of a lemma of Proofs/ExtractGuard.v / ExtractPath.v).
   Model functions (executed by the correspondence stream through EntryExtract.v):
     extract_obj     scope.extract with __phil_set__ / __phil_join__
     reach           every scope_extract of a value with the names of its enclosing extracts (the parent chain)
                     and the field path leading to it
     phil_path       scope_extract.__phil_path__(object_name)
     setattr, inject scope_extract.__setattr__ / __inject__  (GOk = attribute set, GRefuse p = AttributeError spelling p)
   Detachment (no aliasing between extracted values and the tree) is not expressible on values: the stream checks it
   on the implementation. *)
From Coq Require Import List Ascii String Bool Arith ZArith.
From Phil Require Import Base Tokenizer Tree PyVal ConvText Extract ExtractGuard ExtractPath.
From Phil Require Conv Parser.
Import ListNotations.
Local Open Scope char_scope.

(* ------------------------------------------------------------------ self-describing *)
(* Extraction of a root scope whose scopes have non-empty names (the parser guarantees it): every reachable
   scope_extract - each element of every multiple scope included - reports the dotted path of the fields leading
   to it, and that path plus ".f" for each of its own fields f. *)
Theorem C18_path : forall pe ex h ks a v,
  oname h = [] -> names_nonempty (Scp h ks a) -> extract_obj pe ex (Scp h ks a) = Ok v ->
  Forall node_ok (reach [] [] v).
Proof. exact extract_paths. Qed.
Print Assumptions C18_path.

(* the invariant behind it: every extract is stored under the key that is its own name - also after __phil_join__
   merged several same-named scopes and inside every scope_extract_list *)
Theorem C18_named : forall pe ex t v, names_nonempty t -> extract_obj pe ex t = Ok v ->
  named v /\ (forall h ks a, t = Scp h ks a -> exists fs, v = VScope (Ext (oname h) fs)).
Proof. exact extract_named. Qed.
Print Assumptions C18_named.

(* on any value with that invariant, whatever the position it is attached at *)
Theorem C18_path_general : forall v anc path, named v -> Forall (fun k => k <> []) path ->
  Forall (top_ok anc path) (tops v) -> Forall node_ok (reach anc path v).
Proof. exact reach_ok. Qed.
Print Assumptions C18_path_general.

(* ------------------------------------------------------------------ guarded *)
(* assignment to a field succeeds and replaces the value *)
Theorem C18_guard_field : forall anc n fs name v x,
  fget name fs = Some x -> setattr anc (Ext n fs) name v = GOk (Ext n (fset name v fs)).
Proof. exact setattr_field. Qed.
Print Assumptions C18_guard_field.

(* for every name that is not an attribute of the class: assignment succeeds iff the name is a field *)
Theorem C18_guard : forall anc e name v, builtin_attr name = false ->
  ((exists e', setattr anc e name v = GOk e') <-> In name (fkeys (ext_fields e))).
Proof. exact setattr_iff. Qed.
Print Assumptions C18_guard.

(* names of class attributes / bookkeeping entries are found by getattr: never refused by the guard *)
Theorem C18_guard_class_attrs : forall anc n fs name v p,
  builtin_attr name = true -> setattr anc (Ext n fs) name v <> GRefuse p.
Proof. exact setattr_builtin_not_refused. Qed.
Print Assumptions C18_guard_class_attrs.

(* at every node of an extraction: an undeclared name is refused with the full dotted path (and can be injected);
   an existing name is assignable, and injecting it is refused with the full dotted path *)
Theorem C18_guard_path : forall pe ex h ks a v,
  oname h = [] -> names_nonempty (Scp h ks a) -> extract_obj pe ex (Scp h ks a) = Ok v ->
  forall anc path e, In (anc, path, e) (reach [] [] v) ->
  forall name x,
    (fget name (ext_fields e) = None -> builtin_attr name = false ->
       setattr anc e name x = GRefuse (join_dot (path ++ [name]))
       /\ exists e', inject anc e name x = GOk e')
    /\ (forall y, fget name (ext_fields e) = Some y ->
         inject anc e name x = GRefuse (join_dot (path ++ [name]))
         /\ exists e', setattr anc e name x = GOk e').
Proof. exact extract_guard_paths. Qed.
Print Assumptions C18_guard_path.

(* ------------------------------------------------------------------ inject once *)
Theorem C18_inject_once : forall anc n fs name v,
  fget name fs = None -> builtin_attr name = false ->
  inject anc (Ext n fs) name v = GOk (Ext n (fset name v fs))
  /\ fget name (fset name v fs) = Some v
  /\ (forall v', inject anc (Ext n (fset name v fs)) name v' = refuse anc n name)
  /\ (forall v', setattr anc (Ext n (fset name v fs)) name v' = GOk (Ext n (fset name v' (fset name v fs)))).
Proof. exact inject_fresh. Qed.
Print Assumptions C18_inject_once.

Theorem C18_inject_refuses_existing : forall anc n fs name v x,
  fget name fs = Some x -> inject anc (Ext n fs) name v = refuse anc n name.
Proof. exact inject_existing. Qed.
Print Assumptions C18_inject_refuses_existing.

(* ------------------------------------------------------------------ declared parameters are assignable *)
(* every object of a scope that is not a hidden template (is_template < 0: the copy scope.format puts in front of the
   instances of a multiple scope) gives the extracted node an attribute of its name - a disabled object and a
   visible template (is_template > 0) too: the value is None, or an empty list for .multiple *)
Theorem C18_declared_are_fields : forall pe ex h ks a n fs,
  extract_obj pe ex (Scp h ks a) = Ok (VScope (Ext n fs)) ->
  forall k, In k ks -> (0 <= otmpl (ohdr k))%Z -> In (oname (ohdr k)) (fkeys fs).
Proof. exact declared_are_fields. Qed.
Print Assumptions C18_declared_are_fields.

Theorem C18_declared_assignable : forall pe ex h ks a e anc v,
  extract_obj pe ex (Scp h ks a) = Ok (VScope e) ->
  forall k, In k ks -> (0 <= otmpl (ohdr k))%Z -> exists e', setattr anc e (oname (ohdr k)) v = GOk e'.
Proof. exact declared_assignable. Qed.
Print Assumptions C18_declared_assignable.

(* attributes are never lost: __phil_set__ and __phil_join__ only add keys *)
Theorem C18_keys_grow : forall fs name opt mult value fs',
  phil_set fs name opt mult value = Ok fs' -> incl (fkeys fs) (fkeys fs') /\ In name (fkeys fs').
Proof. exact phil_set_keys. Qed.
Print Assumptions C18_keys_grow.

(* ------------------------------------------------------------------ non-vacuity *)
Definition ex_tree : obj :=
  Scp (plain_hdr []) [
    Def (plain_hdr (s_ "a")) [uw (s_ "1")] [];
    Scp (plain_hdr (s_ "s")) [Def (plain_hdr (s_ "b")) [uw (s_ "2")] []] [(s_ "multiple", ABool true)];
    Scp (plain_hdr (s_ "s")) [Scp (plain_hdr (s_ "t")) [Def (plain_hdr (s_ "c")) [uw (s_ "3")] []] []] [(s_ "multiple", ABool true)]] [].
Example C18_example :
  names_nonempty ex_tree /\
  exists v, extract_obj (fun _ => None) (fun s => Some s) ex_tree = Ok v
            /\ map (fun nd => join_dot (snd (fst nd))) (reach [] [] v) = [[]; s_ "s"; s_ "s"; s_ "s.t"].
Proof.
  split.
  - cbn. repeat split; discriminate.
  - eexists. split; [vm_compute; reflexivity|]. vm_compute. reflexivity.
Qed.
