From Coq Require Import List.
From Phil Require Import Base Tree PyVal ConvText Extract.
Theorem C18_placeholder : True. Proof. exact I. Qed.
Print Assumptions C18_placeholder.
