(* C02 - All surface spellings of one abstract tree parse to that same tree.
   Proved here (token level, all inputs, PARTIAL): the layout freedoms are invisible to the tokenizer -
   any run of blanks/newlines before a token, a structure-context comment up to the end of its line,
   and the quoted spelling of a word (C03) yield the same token stream.  The tree-level statement
   (terminators, continuations, nesting vs. dotted names, off regions, '!' exactness) is tied to the
   code by the correspondence stream over the layout grammar and checked by the oracle against the
   abstract tree; no parser-level theorem yet. *)
From Coq Require Import List Ascii String.
From Phil Require Import Base Tokenizer LexProofs QuoteProofs.
Import ListNotations.
Local Open Scope char_scope.

Theorem C02_blank_runs_irrelevant_partial : forall σ blanks s line,
  forallb isspace blanks = true ->
  nw σ false (blanks ++ s) line = nw σ false s (line + count_nl blanks).
Proof. exact nw_skip_blanks. Qed.
Print Assumptions C02_blank_runs_irrelevant_partial.

Theorem C02_comment_to_end_of_line_partial : forall body s line,
  mem nl body = false -> prefixb (s_ "phil") (body ++ nl :: s) = false ->
  nw s0 false ("#" :: body ++ nl :: s) line = nw s0 false s (S line).
Proof. exact nw_s0_comment. Qed.
Print Assumptions C02_comment_to_end_of_line_partial.

Theorem C02_quoted_word_any_context_partial : forall σ q s rest line,
  q <> QN -> mem (qchar q) (comment σ) = false ->
  (is_triple q = false -> s = [] -> prefixb [qchar q] rest = false) ->
  nw σ false (quote_str q s ++ rest) line = TWord (mkword s q line) rest (line + count_nl s).
Proof. exact nw_quoted. Qed.
Print Assumptions C02_quoted_word_any_context_partial.

(* non-vacuity: blanks, an own-line comment and a newline in front of a token change nothing but the line *)
Example C02_example :
  map (fun w => (wv w, wq w)) (match tokenize s0 (s_ "a   =
  # note {;}
 '1'") with Ok l => l | _ => [] end)
  = map (fun w => (wv w, wq w)) (match tokenize s0 (s_ "a='1'") with Ok l => l | _ => [] end).
Proof. vm_compute. reflexivity. Qed.
