(* C02 - All surface spellings of one abstract tree parse to that same tree.   PARTIAL.
   Token level (all inputs): blank runs, structure-context comments and the quoted spelling of a word
   are invisible to the tokenizer.
   Parser level (all inputs, every oracle; Proofs/ParserLayout.v):
   - layout in front of ANY object at ANY depth is irrelevant: for a prefix p made of blanks, newlines and
     full-line comments, collect_objects on p ++ s equals collect_objects on s one position later
     (C02_layout_before_any_object), and the whole document modulo line numbers (C02_layout_prefix);
   - blanks around '=' are irrelevant (C02_blanks_around_equals);
   - a newline and a ';' terminate a value alike (C02_semicolon_or_newline), a trailing '# comment' after a
     value changes nothing (C02_trailing_comment);
   - '!' disables exactly the construct it precedes and nothing else: the parse of "!name..." is the parse
     of "name..." with the disabled flag set on that one object (the innermost one for a dotted name),
     identical errors included (C02_bang_disables_exactly_one, C02_bang_at_any_iteration);
   - results do not depend on the fuel (C02_fuel_irrelevant).
   Not proved (decided by the correspondence stream over the layout grammar + oracle against the
   abstract tree, on every run): lifting these iteration-level facts through an arbitrary preceding text
   to "two renderings of one abstract tree parse alike"; backslash / quoted continuation lines; nesting
   versus dotted names; off regions; '!' on attributes at document level. *)
From Coq Require Import List Ascii String.
From Phil Require Import Base Tokenizer Tree Parser LexProofs QuoteProofs ParserTotal ParserLayout.
Import ListNotations.
Local Open Scope char_scope.

Theorem C02_blank_runs_irrelevant_partial : forall σ blanks s line,
  forallb isspace blanks = true ->
  nw σ false (blanks ++ s) line = nw σ false s (line + count_nl blanks).
Proof. exact nw_skip_blanks. Qed.
Print Assumptions C02_blank_runs_irrelevant_partial.

Theorem C02_comment_to_end_of_line_partial : forall body s line,
  mem nl body = false -> prefixb (s_ "phil") (body ++ nl :: s) = false ->
  nw s0 false ("#" :: body ++ nl :: s) line = nw s0 false s (S line).
Proof. exact nw_s0_comment. Qed.
Print Assumptions C02_comment_to_end_of_line_partial.

Theorem C02_quoted_word_any_context_partial : forall σ q s rest line,
  q <> QN -> mem (qchar q) (comment σ) = false ->
  (is_triple q = false -> s = [] -> prefixb [qchar q] rest = false) ->
  nw σ false (quote_str q s ++ rest) line = TWord (mkword s q line) rest (line + count_nl s).
Proof. exact nw_quoted. Qed.
Print Assumptions C02_quoted_word_any_context_partial.

Theorem C02_layout_before_any_object : forall o f p s line nid stop start prev active acc, layout p ->
  (stop = true \/ count_nl p = 0 \/ nw s0 false s (line + count_nl p) <> TEnd) ->
  cobj o f (p ++ s) line nid stop start prev active acc
  = cobj o f s (line + count_nl p) nid stop start prev active acc.
Proof. exact cobj_layout. Qed.
Print Assumptions C02_layout_before_any_object.

Theorem C02_layout_prefix : forall o p s, layout p ->
  erase_res (parse o (p ++ s)) = erase_res (parse o s).
Proof. exact parse_layout_prefix. Qed.
Print Assumptions C02_layout_prefix.

Theorem C02_blanks_around_equals : forall o f name b1 b2 tl line nid stop start prev active acc,
  is_ident name = true -> eqs name include_w = false ->
  forallb isspace b1 = true -> forallb isspace b2 = true -> count_nl b1 = 0 -> count_nl b2 = 0 ->
  cobj o (S f) (name ++ b1 ++ "=" :: b2 ++ tl) line nid stop start prev active acc
  = cobj o (S f) (name ++ "=" :: tl) line nid stop start prev active acc.
Proof. exact def_blanks_irrelevant. Qed.
Print Assumptions C02_blanks_around_equals.

Theorem C02_semicolon_or_newline : forall o name txt w ws rest,
  is_ident name = true -> eqs name include_w = false ->
  vtext 1 txt (w :: ws) ->
  next_starts_object rest 2 = true -> not_directive rest 1 ->
  erase_res (parse o (name ++ "=" :: txt ++ nl :: rest)) = erase_res (parse o (name ++ "=" :: txt ++ ";" :: rest)).
Proof. exact parse_semicolon_newline_words. Qed.
Print Assumptions C02_semicolon_or_newline.

Theorem C02_trailing_comment : forall o name txt w ws b body rest,
  is_ident name = true -> eqs name include_w = false ->
  vtext 1 txt (w :: ws) ->
  forallb isspace b = true -> count_nl b = 0 -> b <> [] ->
  plainb body = true -> delim s1 (body ++ [nl]) = true ->
  next_starts_object rest 2 = true ->
  parse o (name ++ "=" :: txt ++ b ++ "#" :: body ++ nl :: rest) = parse o (name ++ "=" :: txt ++ nl :: rest).
Proof. exact parse_trailing_comment. Qed.
Print Assumptions C02_trailing_comment.

Theorem C02_bang_disables_exactly_one : forall o name rest,
  is_ident name = true -> delim s0 rest = true ->
  parse o ("!" :: name ++ rest)
  = on_first (dis_depth (length (splitdot name) - 1)) (parse o (name ++ rest)).
Proof. exact bang_object. Qed.
Print Assumptions C02_bang_disables_exactly_one.

Theorem C02_bang_at_any_iteration : forall o f c s line nid stop start prev active acc,
  wstart s0 c = true -> c <> "!" -> c <> "." ->
  cobj o f ("!" :: c :: s) line nid stop start prev active acc
  = nth_res (length (flushed active acc)) (dis_depth (name_depth (c :: s) line))
      (cobj o f (c :: s) line nid stop start prev active acc).
Proof. exact cobj_bang. Qed.
Print Assumptions C02_bang_at_any_iteration.

Theorem C02_fuel_irrelevant : forall o f g s line nid stop start prev active acc,
  length s < f -> length s < g ->
  cobj o f s line nid stop start prev active acc = cobj o g s line nid stop start prev active acc.
Proof. exact cobj_fuel_enough. Qed.
Print Assumptions C02_fuel_irrelevant.


(* non-vacuity: blanks, an own-line comment and a newline in front of a token change nothing but the line *)
Example C02_example :
  map (fun w => (wv w, wq w)) (match tokenize s0 (s_ "a   =
  # note {;}
 '1'") with Ok l => l | _ => [] end)
  = map (fun w => (wv w, wq w)) (match tokenize s0 (s_ "a='1'") with Ok l => l | _ => [] end).
Proof. vm_compute. reflexivity. Qed.
