(* C12 - $variables resolve lexically, backwards only, and never inside single quotes.
   This file holds only the property theorems over Model/Vars.v (the functions the
   correspondence streams of harness/streams/c12.py execute); each is closed by [exact] of a
   lemma proved in Proofs/VarsProofs.v or Proofs/VarsOrder.v and followed by Print Assumptions.

   Reading guide.  [chain] is the lexical environment: the object lists of the enclosing scopes,
   innermost first, root last.  resolve_top env diff chain d = d.resolve_variables(diff).words;
   resolve_id env diff t n = the same for the definition with primary_id n of the parsed
   document t.  Ids: 0 stands for None.  doc_ordered t = the ids that are present never decrease in
   document order (pre-order: a scope before its children) and every definition has one.  That is what
   freephil.parse produces (C12_parsed_documents_are_ordered; the correspondence stream also evaluates
   doc_ordered on every parsed tree it uses); more precisely the parser hands out 1, 2, 3, ... in
   document order to EVERY object, and the implicit prefix scopes of a dotted name  a.b.c = 1  carry
   the id of the object they lead to (/repo 2398dd1; C12_parsed_documents_ids_consecutive,
   C12_parsed_documents_all_have_ids).  Before that repair the prefix scopes had no id, lexical_get
   never cut them off, and a LATER dotted definition was visible to an earlier reference (former
   finding C12-later-dotted-scope-visible); the theorems of the section "backwards only" now cover
   dotted names without exception. *)
From Coq Require Import List Ascii String Bool Arith.
From Phil Require Import Base Tree Vars VarsProofs VarsOrder Parser ParserShape VarsParsed.
Import ListNotations.
Local Open Scope char_scope.

(* ---------------------------------------------------------------- passthrough *)
(* a word that is single-quoted or contains no "$" is returned as it is, whatever the context *)
Theorem C12_passthrough_word : forall env rec diff chain stop w,
  wq w = Q1 \/ mem "$" (wv w) = false ->
  resolve_word env rec diff chain stop w = Ok [w].
Proof. exact resolve_word_passthrough. Qed.
Print Assumptions C12_passthrough_word.

(* whole definition: if every word is such, resolve returns exactly the words *)
Theorem C12_passthrough : forall env diff chain d,
  (forall w, In w (owords d) -> wq w = Q1 \/ mem "$" (wv w) = false) ->
  resolve_top env diff chain d = Ok (owords d).
Proof. exact resolve_passthrough. Qed.
Print Assumptions C12_passthrough.

(* ---------------------------------------------------------------- shape *)
(* A word with variables (have_variables) that is not single-quoted:
   - not force_string: it is exactly one unquoted variable reference and the result is the word
     list looked up for it, verbatim (lookup_var = the referenced definition's resolved words, or
     the environment word; the last argument of lookup_var is the text diff_mode keeps for an
     unresolved reference (dtext): "$name", or "$(name)" where the bare form would read differently in
     front of what the later fragments contribute, which is why each fragment is handed the fragments
     that follow it);
   - force_string: the result is exactly ONE double-quoted word without line whose text is the
     concatenation of the literal fragments and of the looked-up words' values joined by one
     blank (or the error of the first failing lookup). *)
Theorem C12_shape : forall env rec diff chain stop w force frs,
  wq w <> Q1 ->
  fragments_of_word w = Ok (force, true, frs) ->
  (force = false ->
     exists v, frs = [FVar v] /\ wq w = QN /\
               resolve_word env rec diff chain stop w = lookup_var env rec diff chain stop w v (dtext env rec diff chain stop w v []))
  /\ (force = true ->
     resolve_word env rec diff chain stop w =
       do ts <- mapM_tl (fun f nx => match f with
                               | FLit v => Ok v
                               | FVar v => do ws <- lookup_var env rec diff chain stop w v (dtext env rec diff chain stop w v nx);
                                           Ok (vjoin_sp (map wv ws))
                               end) frs;
       Ok [mkword (List.concat ts) Q2 0]).
Proof. exact resolve_word_shape. Qed.
Print Assumptions C12_shape.

(* have_variables / force_string are what the fragments say *)
Theorem C12_shape_flags : forall w force have frs,
  fragments_of_word w = Ok (force, have, frs) ->
  have = existsb frag_is_var frs /\ force = (isq w || (1 <? length frs))%nat.
Proof. exact fragments_ok. Qed.
Print Assumptions C12_shape_flags.

(* ---------------------------------------------------------------- termination *)
(* a definition found by a lookup has a strictly smaller id than the referencing one *)
Theorem C12_strictly_earlier : forall f stop chain path su o ch,
  Forall (fun l => defs_have_ids_l l = true) chain ->
  lexical_get f stop chain path su = Ok (Some (o, ch)) ->
  Forall (fun l => defs_have_ids_l l = true) ch /\ (is_def o = true -> oid o <> 0 /\ oid o < stop).
Proof. exact lexical_get_found_def. Qed.
Print Assumptions C12_strictly_earlier.

(* the fuel lexical_get is given by its callers is enough *)
Theorem C12_lookup_terminates : forall stop chain path su,
  lexical_get (S (length path)) stop chain path su <> Crash c_fuel.
Proof. intros. apply lexical_get_fuel. apply Nat.lt_succ_diag_r. Qed.
Print Assumptions C12_lookup_terminates.

(* with the fuel of the entry point, resolution never runs out of fuel (self references
   included: "a = $a" can only reach an earlier a, the environment, or the error) *)
Theorem C12_terminates_chain : forall env diff chain d,
  Forall (fun l => defs_have_ids_l l = true) chain ->
  resolve_top env diff chain d <> Crash c_fuel.
Proof. exact resolve_top_terminates. Qed.
Print Assumptions C12_terminates_chain.

Theorem C12_terminates : forall env diff t id,
  doc_ordered t = true -> resolve_id env diff t id <> Crash c_fuel.
Proof. exact resolve_id_terminates. Qed.
Print Assumptions C12_terminates.

(* ---------------------------------------------------------------- environment *)
(* when the lexical lookup finds something, neither the environment nor diff_mode matter for
   this reference (rec = resolution of the definition found) *)
Theorem C12_env_shadowed : forall env env' rec diff diff' chain stop w v dt dt' o ch,
  chain <> [] ->
  lexical_get (S (length v)) stop chain v true = Ok (Some (o, ch)) ->
  lookup_var env rec diff chain stop w v dt = lookup_var env' rec diff' chain stop w v dt'.
Proof. exact lookup_var_env_shadowed. Qed.
Print Assumptions C12_env_shadowed.

(* whole resolution: if it succeeds with the empty environment (every reference reached is
   defined earlier) the result is the same for every environment and for diff_mode *)
Theorem C12_env_never_consulted : forall env diff chain d ws,
  resolve_top (fun _ => None) false chain d = Ok ws ->
  resolve_top env diff chain d = Ok ws.
Proof. intros env diff chain d ws. unfold resolve_top. apply resolve_def_env_irrelevant. Qed.
Print Assumptions C12_env_never_consulted.

(* ---------------------------------------------------------------- backwards only *)
(* chain level: the result depends only on the truncations of the chain at the id of d *)
Theorem C12_backward_only_chain : forall env diff c c' d,
  Forall (fun l => defs_have_ids_l l = true) c -> Forall (fun l => defs_have_ids_l l = true) c' ->
  oid d <> 0 ->
  agree_before (oid d) c c' ->
  resolve_top env diff c d = resolve_top env diff c' d.
Proof. exact resolve_top_backward_only. Qed.
Print Assumptions C12_backward_only_chain.

(* document level: two documents in document order that agree up to and including id n *)
Theorem C12_backward_only : forall env diff t t' n,
  doc_ordered t = true -> doc_ordered t' = true ->
  trunc_objs (S n) t = trunc_objs (S n) t' ->
  resolve_id env diff t n = resolve_id env diff t' n.
Proof. exact resolve_id_backward_only. Qed.
Print Assumptions C12_backward_only.

(* what agreement means: anything from the first object with an id >= n on may be inserted,
   deleted or edited ... *)
Theorem C12_later_objects_irrelevant : forall n l1 o l2,
  stops n o = true -> trunc_objs n (l1 ++ o :: l2) = trunc_objs n l1.
Proof. exact trunc_objs_app_stop. Qed.
Print Assumptions C12_later_objects_irrelevant.

(* ... the truncation contains no id >= n, and - this is where document order is needed, and what
   lexical_get's "stop at the first id >= stop_id" relies on - it loses no id < n *)
Theorem C12_truncation_is_earlier_part : forall n l id,
  (In id (pre_ids_l (trunc_objs n l)) -> id = 0 \/ id < n) /\
  (ordb (pre_ids_l l) = true -> In id (pre_ids_l l) -> id <> 0 -> id < n ->
   In id (pre_ids_l (trunc_objs n l))).
Proof. intros n l id. split; [apply trunc_objs_ids_below|apply trunc_keeps_earlier]. Qed.
Print Assumptions C12_truncation_is_earlier_part.

(* objects appended to a document, all with ids above n (in particular: none without an id), change
   nothing for the definition with id n.  This is the statement the former finding refuted for the
   id-less prefix scope of a later dotted definition; see C12_example_later_dotted below for the
   old witness and C12_example_idless_scope_is_never_cut_off for why "n < id" cannot allow id 0 *)
Theorem C12_later_appended_irrelevant : forall env diff t later n,
  doc_ordered t = true -> doc_ordered (t ++ later) = true ->
  (forall id, In id (pre_ids_l later) -> n < id) ->
  resolve_id env diff (t ++ later) n = resolve_id env diff t n.
Proof. exact resolve_id_later_appended. Qed.
Print Assumptions C12_later_appended_irrelevant.

(* the same behind the last child of an enclosing scope, at the level of what a lookup can see *)
Theorem C12_later_children_irrelevant : forall m h ks later a,
  (forall id, In id (pre_ids_l later) -> m <= id /\ id <> 0) ->
  trunc_obj m (Scp h (ks ++ later) a) = trunc_obj m (Scp h ks a).
Proof. exact trunc_obj_kids_appended. Qed.
Print Assumptions C12_later_children_irrelevant.

(* ---------------------------------------------------------------- backwards only, for everything the parser returns
   (no hypothesis on ids or order is left; dotted names included) *)
Theorem C12_parsed_backward_only : forall o s s' t t' env diff n,
  parse o s = Ok t -> parse o s' = Ok t' ->
  trunc_objs (S n) t = trunc_objs (S n) t' ->
  resolve_id env diff t n = resolve_id env diff t' n.
Proof. exact parsed_backward_only. Qed.
Print Assumptions C12_parsed_backward_only.

(* a parsed document that continues another parsed document: whatever the continuation contains -
   dotted definitions, scopes, disabled objects - it is irrelevant for every object of the first part *)
Theorem C12_parsed_appended_irrelevant : forall o s s' t later env diff n,
  parse o s = Ok t -> parse o s' = Ok (t ++ later) ->
  In n (pre_ids_l t) ->
  resolve_id env diff (t ++ later) n = resolve_id env diff t n.
Proof. exact parsed_appended. Qed.
Print Assumptions C12_parsed_appended_irrelevant.

(* what a lookup with stop_id n can reach of a parsed document: exactly the objects with ids below n
   (C12_truncation_is_earlier_part without the alternative "id = 0") *)
Theorem C12_parsed_truncation_exact : forall o s t n id,
  parse o s = Ok t ->
  (In id (pre_ids_l (trunc_objs n t)) <-> In id (pre_ids_l t) /\ id < n).
Proof. exact parsed_truncation_exact. Qed.
Print Assumptions C12_parsed_truncation_exact.

Theorem C12_parsed_terminates : forall o s t env diff id,
  parse o s = Ok t -> resolve_id env diff t id <> Crash c_fuel.
Proof. exact parsed_terminates. Qed.
Print Assumptions C12_parsed_terminates.

(* ---------------------------------------------------------------- search order *)
(* the candidates of one scope are the visible objects that are not disabled and match the path
   (live_cand), in document order *)
Theorem C12_nearest_candidates : forall stop path l,
  stop <> 0 -> scan stop path l = Ok (filter (live_cand path) (visible stop l)).
Proof. exact scan_visible. Qed.
Print Assumptions C12_nearest_candidates.

(* within a scope later objects take precedence over earlier ones ... *)
Theorem C12_nearest_later_first : forall rec stop cur ups path l1 l2,
  stop <> 0 -> visible stop cur = l1 ++ l2 ->
  lex_here rec stop (cur :: ups) path =
  match try_cands rec (cur :: ups) path (rev (filter (live_cand path) l2)) with
  | Ok None => try_cands rec (cur :: ups) path (rev (filter (live_cand path) l1))
  | r => r
  end.
Proof. exact lex_here_later_first. Qed.
Print Assumptions C12_nearest_later_first.

(* ... in particular the LAST visible, not disabled object named by the path wins *)
Theorem C12_nearest_last_wins : forall rec stop cur ups path l1 d l2,
  stop <> 0 -> visible stop cur = l1 ++ d :: l2 ->
  onm d = path -> odis (ohdr d) = false -> (forall o, In o l2 -> live_cand path o = false) ->
  lex_here rec stop (cur :: ups) path = Ok (Some (d, cur :: ups)).
Proof. exact lex_here_last_wins. Qed.
Print Assumptions C12_nearest_last_wins.

(* innermost enclosing scope first, then outwards *)
Theorem C12_nearest_outward : forall f stop cur ups path,
  strip_dot path = None ->
  lexical_get (S f) stop (cur :: ups) path true =
  match lex_here (fun c p => lexical_get f stop c p false) stop (cur :: ups) path with
  | Ok None => lexical_get (S f) stop ups path true
  | r => r
  end.
Proof. exact lexical_get_outward. Qed.
Print Assumptions C12_nearest_outward.

(* a path with a leading "." is looked up in the root only *)
Theorem C12_nearest_anchored : forall f stop chain r p su,
  lexical_get (S f) stop (chain ++ [r]) ("." :: p) su =
  lex_here (fun c p => lexical_get f stop c p false) stop [r] p.
Proof. intros. rewrite (lexical_get_anchored f stop (chain ++ [r]) ("." :: p) p su eq_refl).
       rewrite root_of_last. reflexivity. Qed.
Print Assumptions C12_nearest_anchored.

(* a dotted path descends into the candidate scope (remainder of the path, no outward search
   from there); if that yields nothing the next candidate is tried *)
Theorem C12_nearest_descend : forall f stop chain path o rest,
  eqs (onm o) path = false ->
  strip_dot (drop (length (onm o) + 1) path) = None ->
  try_cands (fun c p => lexical_get (S f) stop c p false) chain path (o :: rest) =
  match lex_here (fun c p => lexical_get f stop c p false) stop (okids o :: chain)
                 (drop (length (onm o) + 1) path) with
  | Ok None => try_cands (fun c p => lexical_get (S f) stop c p false) chain path rest
  | r => r
  end.
Proof.
  intros f stop chain path o rest He Hs. rewrite try_cands_descend by exact He.
  rewrite lexical_get_no_search_up by exact Hs. reflexivity.
Qed.
Print Assumptions C12_nearest_descend.

(* ---------------------------------------------------------------- the error line *)
(* an UndefinedVariable error names a variable v and a line l such that some definition d'
   (d or one reached through references) has a word on line l, not single-quoted, containing
   the reference $v, for which the lexical lookup from d' finds nothing and env has no v *)
Theorem C12_undefined_line : forall env diff chain d v l,
  resolve_top env diff chain d = UErr k_undefined v l ->
  exists d' ch' w' force have frs,
    In w' (owords d') /\ wline w' = l /\ wq w' <> Q1 /\
    fragments_of_word w' = Ok (force, have, frs) /\ In (FVar v) frs /\
    (ch' = [] \/ lexical_get (S (length v)) (oid d') ch' v true = Ok None) /\
    env v = None.
Proof. intros env diff chain d v l. unfold resolve_top. apply resolve_def_undefined. Qed.
Print Assumptions C12_undefined_line.

(* syntax errors of a reference carry the word and its line *)
Theorem C12_syntax_error_line : forall w k t l,
  fragments_of_word w = UErr k t l ->
  (k = k_dollar_end \/ k = k_missing_paren \/ k = k_improper) /\ t = wv w /\ l = wline w.
Proof. exact fragments_uerr. Qed.
Print Assumptions C12_syntax_error_line.

(* ---------------------------------------------------------------- concrete documents *)
Definition hd_ (n:String.string) (dis:bool) (pid line:nat) : hdr := mkhdr (s_ n) dis BinNums.Z0 false pid line.
Definition w_ (v:String.string) (line:nat) : word := mkword (s_ v) QN line.

(* ---------------------------------------------------------------- disabled objects (former finding F10, repaired) *)
(* a disabled object is never a candidate ... *)
Theorem C12_disabled_never_supplies : forall stop path l cs,
  scan stop path l = Ok cs -> Forall (fun o => odis (ohdr o) = false /\ In o l) cs.
Proof. exact scan_live. Qed.
Print Assumptions C12_disabled_never_supplies.

(* ... so whatever a lookup returns (at any depth of a dotted path, in any enclosing scope) is
   not disabled ... *)
Theorem C12_disabled_never_found : forall f stop chain path su o ch,
  lexical_get f stop chain path su = Ok (Some (o, ch)) -> odis (ohdr o) = false.
Proof. exact lexical_get_found_live. Qed.
Print Assumptions C12_disabled_never_found.

(* ... and a disabled object that does not end the scan (its id is absent or below stop_id)
   might as well be absent; one whose id is >= stop_id still ends the scan, like any other *)
Theorem C12_disabled_invisible : forall stop path l1 o l2,
  stop <> 0 -> odis (ohdr o) = true -> stops stop o = false ->
  scan stop path (l1 ++ o :: l2) = scan stop path (l1 ++ l2).
Proof. exact scan_skip_disabled. Qed.
Print Assumptions C12_disabled_invisible.

(* ---------------------------------------------------------------- non-vacuity *)
Definition ex_doc : list obj :=
  [Def (hd_ "x" false 1 1) [w_ "1" 1; mkword (s_ "two words") Q2 1] [];
   Scp (hd_ "s" false 2 2)
     [Def (hd_ "x" false 3 3) [w_ "2" 3] [];
      Scp (hd_ "t" false 4 4)
        [Def (hd_ "a" false 5 5)
           [w_ "$x" 5; w_ "$(.x)" 5; w_ "$(s.x)" 5; mkword (s_ "p$(.x)q\$x") Q2 5; mkword (s_ "$x") Q1 5;
            w_ "$x.y" 5] []] [];
      Def (hd_ "x" false 6 6) [w_ "3" 6] []] []].

Example C12_example_ordered : doc_ordered ex_doc = true.
Proof. vm_compute. reflexivity. Qed.

Example C12_example_resolve :
  resolve_id (fun _ => None) false ex_doc 5 =
  Ok [w_ "2" 3; w_ "1" 1; mkword (s_ "two words") Q2 1; w_ "2" 3;
      mkword (s_ "p1 two wordsq\$x") Q2 0; mkword (s_ "$x") Q1 5; mkword (s_ "2.y") Q2 0].
Proof. vm_compute. reflexivity. Qed.

Example C12_example_sole : fragments_of_word (w_ "$(s.x)" 5) = Ok (false, true, [FVar (s_ "s.x")]).
Proof. vm_compute. reflexivity. Qed.
Example C12_example_mixed :
  fragments_of_word (w_ "a\$b$c.d$(.e)" 1) =
  Ok (true, true, [FLit (s_ "a\$b"); FVar (s_ "c"); FLit (s_ ".d"); FVar (s_ ".e")]).
Proof. vm_compute. reflexivity. Qed.

Example C12_example_disabled :   (* the former F10 witness  !y = 1 ; z = $y  : Undefined variable, line 2 *)
  let t := [Def (hd_ "y" true 1 1) [w_ "1" 1] []; Def (hd_ "z" false 2 2) [w_ "$y" 2] []] in
  doc_ordered t = true /\
  resolve_id (fun _ => None) false t 2 = UErr k_undefined (s_ "y") 2 /\
  resolve_id (fun _ => None) false [Def (hd_ "y" false 1 1) [w_ "1" 1] []; Def (hd_ "z" false 2 2) [w_ "$y" 2] []] 2
    = Ok [w_ "1" 1].
Proof. repeat split; vm_compute; reflexivity. Qed.

Example C12_example_self_reference :   (* a = 1 ; a = $a ; a = $a : each sees the previous one *)
  let t := [Def (hd_ "a" false 1 1) [w_ "$a" 1] []; Def (hd_ "a" false 2 2) [w_ "$a" 2] []] in
  resolve_id (fun _ => None) false t 2 = UErr k_undefined (s_ "a") 1 /\
  resolve_id (fun v => Some (s_ "E")) false t 2 = Ok [mkword (s_ "E") Q2 0].
Proof. split; vm_compute; reflexivity. Qed.

Example C12_example_agree :   (* editing the later x = 3 and appending objects keeps the part below 6 *)
  trunc_objs 6 ex_doc =
  trunc_objs 6 [Def (hd_ "x" false 1 1) [w_ "1" 1; mkword (s_ "two words") Q2 1] [];
   Scp (hd_ "s" false 2 2)
     [Def (hd_ "x" false 3 3) [w_ "2" 3] [];
      Scp (hd_ "t" false 4 4)
        [Def (hd_ "a" false 5 5)
           [w_ "$x" 5; w_ "$(.x)" 5; w_ "$(s.x)" 5; mkword (s_ "p$(.x)q\$x") Q2 5; mkword (s_ "$x") Q1 5;
            w_ "$x.y" 5] []] [];
      Def (hd_ "x" false 6 6) [w_ "changed" 6] []; Def (hd_ "y" false 7 7) [w_ "new" 7] []] [];
   Def (hd_ "x" false 8 9) [w_ "9" 9] []].
Proof. vm_compute. reflexivity. Qed.

(* the witness of the former finding C12-later-dotted-scope-visible (repaired in /repo 2398dd1):
     u { a = $s }              uses the environment's s / reports an undefined variable
     u { a = $s } ; s.x = 1    did raise "Not a definition: $s"; now it is the same as without s.x,
   because the prefix scope s carries the id 3 of x and ends the scan for stop_id 2 *)
Definition later_dotted_head : str := s_ "u {
  a = $s
}
".
Definition later_dotted_tail : str := s_ "s.x = 1
".
Definition later_dotted_t : list obj :=
  [Scp (hd_ "u" false 1 1) [Def (hd_ "a" false 2 2) [w_ "$s" 2] []] []].
Definition later_dotted_later : list obj :=
  [Scp (mkhdr (s_ "s") false BinNums.Z0 false 3 0)
     [Def (mkhdr (s_ "x") false BinNums.Z0 true 3 4) [w_ "1" 4] []] []].

Example C12_example_later_dotted :
  let env := fun v => if eqs v (s_ "s") then Some (s_ "E") else None in
  parse [] later_dotted_head = Ok later_dotted_t /\
  parse [] (later_dotted_head ++ later_dotted_tail) = Ok (later_dotted_t ++ later_dotted_later) /\
  pre_ids_l (later_dotted_t ++ later_dotted_later) = [1; 2; 3; 3] /\
  resolve_id env false later_dotted_t 2 = Ok [mkword (s_ "E") Q2 0] /\
  resolve_id env false (later_dotted_t ++ later_dotted_later) 2 = Ok [mkword (s_ "E") Q2 0] /\
  resolve_id (fun _ => None) false later_dotted_t 2 = UErr k_undefined (s_ "s") 2 /\
  resolve_id (fun _ => None) false (later_dotted_t ++ later_dotted_later) 2 = UErr k_undefined (s_ "s") 2.
Proof. repeat split; vm_compute; reflexivity. Qed.

(* the same inside the enclosing scope:  t { a = $s ; s.x = 1 } *)
Example C12_example_later_dotted_inside :
  match parse [] (s_ "t {
  a = $s
  s.x = 1
}
") with
  | Ok l => (pre_ids_l l, resolve_id (fun _ => None) false l 2, resolve_id (fun _ => Some (s_ "E")) false l 2)
  | _ => ([], Crash [], Crash [])
  end = ([1; 2; 3; 3], UErr k_undefined (s_ "s") 2, Ok [mkword (s_ "E") Q2 0]).
Proof. vm_compute. reflexivity. Qed.

(* an EARLIER dotted definition is of course still found, through its prefix scope *)
Example C12_example_earlier_dotted :
  match parse [] (s_ "s.x = 1
u {
  a = $(s.x) ""<$(s.x)>""
  b = $s
}
") with
  | Ok l => (pre_ids_l l, resolve_id (fun _ => None) false l 3, resolve_id (fun _ => None) false l 4)
  | _ => ([], Crash [], Crash [])
  end = ([1; 1; 2; 3; 4], Ok [w_ "1" 1; mkword (s_ "<1>") Q2 0], UErr k_not_a_def (s_ "s") 4).
Proof. vm_compute. reflexivity. Qed.

(* why C12_later_appended_irrelevant asks for "n < id" and cannot allow objects WITHOUT an id: the
   code tests "primary_id is not None and primary_id >= stop_id", so an object without primary id
   never ends the scan.  The parser makes no such object any more (C12_parsed_documents_all_have_ids);
   a tree assembled by hand (scope(name=...) without primary_id, adopted later) still behaves so *)
Example C12_example_idless_scope_is_never_cut_off :
  let env := fun v => if eqs v (s_ "s") then Some (s_ "E") else None in
  let t := [Scp (hd_ "u" false 1 1) [Def (hd_ "a" false 2 1) [w_ "$s" 1] []] []] in
  let later := [Scp (hd_ "s" false 0 0) [Def (hd_ "x" false 3 2) [w_ "1" 2] []] []] in
  doc_ordered t = true /\ doc_ordered (t ++ later) = true /\
  resolve_id env false t 2 = Ok [mkword (s_ "E") Q2 0] /\
  resolve_id env false (t ++ later) 2 = UErr k_not_a_def (s_ "s") 1.
Proof. repeat split; vm_compute; reflexivity. Qed.

(* the hypothesis doc_ordered of the theorems above holds for EVERY document the parser (model) accepts *)
Theorem C12_parsed_documents_are_ordered : forall o s l, parse o s = Ok l -> doc_ordered l = true.
Proof. exact parse_doc_ordered. Qed.
Print Assumptions C12_parsed_documents_are_ordered.

(* every object of a parsed document carries a primary id - the prefix scopes of dotted names
   included - so every object is subject to the document-order cut-off of lexical_get *)
Theorem C12_parsed_documents_all_have_ids : forall o s l x,
  parse o s = Ok l -> In x (pre_ids_l l) -> x <> 0.
Proof. exact parse_all_have_ids. Qed.
Print Assumptions C12_parsed_documents_all_have_ids.

(* the ids in document order, the repetitions of the prefix scopes left out, are 1, 2, ..., n *)
Theorem C12_parsed_documents_ids_consecutive : forall o s l,
  parse o s = Ok l -> exists n, lead_ids_l l = seq 1 n.
Proof. exact parse_lead_ids. Qed.
Print Assumptions C12_parsed_documents_ids_consecutive.
