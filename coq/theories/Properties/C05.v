(* C05 - merging obeys the documented rules: last value wins, multiples accumulate; splitting a
   source, spelling a path nested or dotted, interleaving unrelated parameters never changes the result.
   Model: Model/Fetch.v (fetch = master.fetch(sources=...)).  Every theorem holds for EVERY
   environment oracle [env] and EVERY canon oracle [canon] (canon M s = M.extract_format(source=s)
   .as_str()); the metamorphic part for both diff flags and for ALL masters (multiples nested in
   multiples included), for sources without "$" (a $variable is resolved in the lexical context of
   its own source document, which the three rewrites change); the rules part describes the model's
   loops exactly, error outcomes included, and needs no domain restriction at model level (the
   restriction D05 of the property text - no multiple inside a multiple scope - concerns what canon
   means, i.e. the reference model of the harness, not these statements).
   Definitions used in the statements:
     Proofs/FetchMergeObs.v    gw / omatch (get_without_substitution without positions), oeq / leq
                               (observational equality of source objects / object lists)
     Proofs/FetchMergeMeta.v   skel, erase_layout, braces, renamed, prefix_hdr_ok, unrelated, swap1
     Proofs/FetchMergeRules.v  dedupe_keep_last, has_key, subseq, def_default, eval_cands, differing,
                               candidates, tmpl_of
     Proofs/FetchBasics.v      entries (master_active_objects as a list)
   The statement about EXTRACTED lists ("the master's first occurrence only if .optional = False")
   is stated at tree level: the template copy has is_template = 0 iff .optional is set and false
   (C05_template_flag); scope.extract skipping is_template <> 0 belongs to the Extract cluster.
   NOT proved here: the split clause for the unused-definitions list of the tracked call (compared on
   every run by stream c05 "meta"), and any clause for sources with "$" (compared on every run). *)
From Coq Require Import List Ascii String Bool Arith ZArith.
From Phil Require Import Base Tree Vars Choice Parser Fetch FetchBasics FetchShape FetchDisabled FetchExamples
                         FetchMergeObs FetchMergeMeta FetchMergeRules FetchMergeExamples.
Import ListNotations.

(* ================================================================= metamorphic part *)

(* The general statement behind the three clauses: the result depends on "$"-free sources only
   through the observational class of their concatenation: for every path n the matches of n, in
   order, must be definitions with the same words resp. scopes whose children are related again. *)
Theorem C05_observational : forall env canon diff m srcs srcs',
  srcs_have_dollar srcs = false -> srcs_have_dollar srcs' = false ->
  leq (List.concat srcs) (List.concat srcs') ->
  fetch env canon diff m srcs = fetch env canon diff m srcs'.
Proof. exact fetch_obs. Qed.
Print Assumptions C05_observational.

(* splitting one source into two at any top-level boundary *)
Theorem C05_split : forall env canon diff m xs a b ys,
  srcs_have_dollar (xs ++ [a ++ b] ++ ys) = false ->
  fetch env canon diff m (xs ++ [a ++ b] ++ ys) = fetch env canon diff m (xs ++ [a; b] ++ ys).
Proof. exact fetch_split. Qed.
Print Assumptions C05_split.

(* fetch sees of a source object only its skeleton: names, disabled flags, words, nesting, order -
   not the merge flag, primary id, where-line, is_template or attributes *)
Theorem C05_sources_skeleton : forall env canon diff m srcs srcs',
  srcs_have_dollar srcs = false -> map (map skel) srcs = map (map skel) srcs' ->
  fetch env canon diff m srcs = fetch env canon diff m srcs'.
Proof. exact fetch_skel. Qed.
Print Assumptions C05_sources_skeleton.

(* in particular the layout fields (merge flag, primary id, where-line) of source objects *)
Theorem C05_spelling : forall env canon diff m srcs,
  srcs_have_dollar srcs = false ->
  fetch env canon diff m srcs = fetch env canon diff m (map (map erase_layout) srcs).
Proof. exact fetch_erase_layout. Qed.
Print Assumptions C05_spelling.

(* what the parser builds for a dotted name "h1.h2...last" (Parser.wrap_dotted) differs from the
   same path written with braces (single-child scopes with any ids and lines) in layout fields only *)
Theorem C05_dotted_is_braces : forall h hs o last,
  Forall prefix_hdr_ok (h :: hs) ->
  erase_layout (wrap_dotted true (map oname (h :: hs) ++ [last]) o) = erase_layout (braces (h :: hs) (renamed o last)).
Proof. exact dotted_is_braces. Qed.
Print Assumptions C05_dotted_is_braces.

(* hence: any top-level object of any source spelled dotted or nested *)
Theorem C05_dotted : forall env canon diff m S1 xs ys S2 h hs o last,
  Forall prefix_hdr_ok (h :: hs) ->
  srcs_have_dollar (S1 ++ [xs ++ wrap_dotted true (map oname (h :: hs) ++ [last]) o :: ys] ++ S2) = false ->
  fetch env canon diff m (S1 ++ [xs ++ wrap_dotted true (map oname (h :: hs) ++ [last]) o :: ys] ++ S2)
  = fetch env canon diff m (S1 ++ [xs ++ braces (h :: hs) (renamed o last) :: ys] ++ S2).
Proof. exact fetch_dotted. Qed.
Print Assumptions C05_dotted.

(* interleaving: two adjacent objects with unrelated names (non-empty, different, neither a dotted
   prefix of the other) swapped at top level of a source ... *)
Theorem C05_interleave : forall env canon diff m S1 xs a b ys S2,
  unrelated a b -> srcs_have_dollar (S1 ++ [xs ++ a :: b :: ys] ++ S2) = false ->
  fetch env canon diff m (S1 ++ [xs ++ a :: b :: ys] ++ S2) = fetch env canon diff m (S1 ++ [xs ++ b :: a :: ys] ++ S2).
Proof. exact fetch_interleave_top. Qed.
Print Assumptions C05_interleave.

(* ... or inside any (named) scope of a source, at any depth (swap1) *)
Theorem C05_interleave_nested : forall env canon diff m S1 t t' S2,
  swap1 t t' -> srcs_have_dollar (S1 ++ [t] ++ S2) = false ->
  fetch env canon diff m (S1 ++ [t] ++ S2) = fetch env canon diff m (S1 ++ [t'] ++ S2).
Proof. exact fetch_interleave. Qed.
Print Assumptions C05_interleave_nested.

(* ================================================================= the rules *)

(* the result is the concatenation of one block per entry of master_active_objects, each block
   being the per-entry computation fetch_one on the combined sources: at top level ... *)
Theorem C05_blocks : forall env canon diff m srcs r,
  fetch env canon diff m srcs = Ok r ->
  exists bs, r = List.concat bs /\
    Forall2 (fun k b => exists i u,
               fetch_one env canon diff m [m] i k (fetch_scope env canon diff k [m]) (root_lsrcs srcs) = Ok (b, u))
            (entries m) bs.
Proof. exact fetch_blocks. Qed.
Print Assumptions C05_blocks.

(* ... and inside every master scope (the recursion hands C05_last_wins / C05_multiple_rule down) *)
Theorem C05_blocks_any_depth : forall env canon diff h ks a mchain srcs o,
  fetch_scope env canon diff (Scp h ks a) mchain srcs = Ok o ->
  exists bs, fst o = List.concat bs /\
    Forall2 (fun k b => exists i u,
               fetch_one env canon diff ks (ks :: mchain) i k (fetch_scope env canon diff k (ks :: mchain)) srcs = Ok (b, u))
            (entries ks) bs.
Proof. exact scope_blocks. Qed.
Print Assumptions C05_blocks_any_depth.

(* non-multiple definition: if the entry's computation ends in Ok then EVERY matching active source
   definition (match_sources: sources in list order, document order within a source) was evaluated
   successfully, and the block is the value computed from the LAST one (definition.fetch of it:
   the master's header and attributes around the words fetch_value yields), or the default -
   the master definition itself, nothing for a deprecated one or in diff mode - when there is no
   match (or the last one yields "no value": an unchanged deprecated definition, an unchanged value
   in diff mode) *)
Theorem C05_last_wins : forall env canon diff allks chain i h mws a rec srcs o,
  omultiple (Def h mws a) = false ->
  fetch_one env canon diff allks chain i (Def h mws a) rec srcs = Ok o ->
  let ms := match_sources (oname h) srcs in
  Forall (fun s => exists y, def_fetch env canon diff h mws a s = Ok y) ms /\
  match ms with
  | [] => fst o = def_default diff (Def h mws a)
  | s0 :: _ => exists y, def_fetch env canon diff h mws a (last ms s0) = Ok y /\
                         fst o = match y with Some v => [v] | None => def_default diff (Def h mws a) end
  end.
Proof. exact def_rule. Qed.
Print Assumptions C05_last_wins.

(* earlier matching definitions are still evaluated: the FIRST one whose evaluation fails decides
   the outcome, whatever follows it *)
Theorem C05_earlier_invalid_raises : forall env canon diff allks chain i h mws a rec srcs front s rest,
  omultiple (Def h mws a) = false -> get_attr (s_ "alias") a = ANone -> oname h <> [] ->
  match_sources (oname h) srcs = front ++ s :: rest ->
  Forall (fun s => exists y, def_fetch env canon diff h mws a s = Ok y) front ->
  (forall y, def_fetch env canon diff h mws a s <> Ok y) ->
  fetch_one env canon diff allks chain i (Def h mws a) rec srcs =
  (do y <- def_fetch env canon diff h mws a s; Ok ([], [])).
Proof. exact def_rule_error. Qed.
Print Assumptions C05_earlier_invalid_raises.

(* non-multiple scope: all matches are scopes and the block is the same fetch of the master scope
   on the concatenated children of the matching source scopes, in order *)
Theorem C05_scope_recursion : forall env canon diff allks chain i h ks a rec srcs o,
  omultiple (Scp h ks a) = false ->
  fetch_one env canon diff allks chain i (Scp h ks a) rec srcs = Ok o ->
  let ms := match_sources (oname h) srcs in
  Forall (fun s => is_def (lobj s) = false) ms /\
  exists oc, rec (flat_map src_kids ms) = Ok oc /\
             fst o = if diff && null_objs (fst oc) then [] else [scopy h a (fst oc)].
Proof. exact scope_rule. Qed.
Print Assumptions C05_scope_recursion.

(* multiple entry, diff = false, as an equation between outcomes (errors included):
   candidates = further master occurrences, then the matching sources, in order; each is fetched and
   rendered (eval_cands); those whose text equals the master's are dropped (differing); the block is
   the template copy followed by dedupe_keep_last of the rest *)
Theorem C05_multiple_rule : forall env canon allks chain i k rec srcs,
  omultiple k = true -> get_attr (s_ "alias") (oattrs k) = ANone -> oname (ohdr k) <> [] ->
  rmap fst (fetch_one env canon false allks chain i k rec srcs) =
  (do mas <- canon k None;
   do kl <- eval_cands env canon k rec (candidates allks chain i k srcs);
   Ok (tmpl_of k (differing mas kl) :: somes (map snd (dedupe_keep_last (differing mas kl))))).
Proof. exact multiple_rule. Qed.
Print Assumptions C05_multiple_rule.

(* every surviving candidate is an object: "somes" drops nothing *)
Theorem C05_multiple_instances_exact : forall env canon k rec mas cands kl,
  canon k None = Ok mas -> eval_cands env canon k rec cands = Ok kl ->
  map Some (somes (map snd (dedupe_keep_last (differing mas kl)))) = map snd (dedupe_keep_last (differing mas kl)).
Proof. exact multiple_instances_exact. Qed.
Print Assumptions C05_multiple_instances_exact.

(* the template copy: is_template = 0 exactly when .optional is set and false (then extract keeps it
   as the first list element); otherwise +1 / -1 and extract skips it *)
Theorem C05_template_flag : forall k l,
  otmpl (ohdr (tmpl_of k l)) = 0%Z <-> mandatory (ooptional k) = true.
Proof. exact template_flag. Qed.
Print Assumptions C05_template_flag.

(* ---- dedupe_keep_last: x survives iff it is the last element with its key; each key once;
        exactly the keys of the input; relative order kept *)
Theorem C05_dedupe_survivors : forall A (l:list (str * A)) x,
  In x (dedupe_keep_last l) <-> exists l1 l2, l = l1 ++ x :: l2 /\ has_key (fst x) l2 = false.
Proof. exact dedupe_In. Qed.
Print Assumptions C05_dedupe_survivors.

Theorem C05_dedupe_each_key_once : forall A (l:list (str * A)), NoDup (map fst (dedupe_keep_last l)).
Proof. exact dedupe_nodup. Qed.
Print Assumptions C05_dedupe_each_key_once.

Theorem C05_dedupe_same_keys : forall A (l:list (str * A)) k,
  In k (map fst (dedupe_keep_last l)) <-> In k (map fst l).
Proof. exact dedupe_keys. Qed.
Print Assumptions C05_dedupe_same_keys.

Theorem C05_dedupe_order_kept : forall A (l:list (str * A)), subseq (dedupe_keep_last l) l.
Proof. exact dedupe_subseq. Qed.
Print Assumptions C05_dedupe_order_kept.

(* ================================================================= non-vacuity *)
(* master a / multiple scope s / scope t; the sources give a twice (3 wins), s three times with a
   duplicate (collapsed onto the later copy), t.c dotted.  One source, split in two, t.c with
   braces, two unrelated neighbours swapped: always the same result *)
Example C05_example :
  fetch ex_env ex_canon false m5 ([] ++ [s5a ++ s5b] ++ [[s5c_dotted]]) = Ok r5 /\
  fetch ex_env ex_canon false m5 ([] ++ [s5a; s5b] ++ [[s5c_dotted]]) = Ok r5 /\
  fetch ex_env ex_canon false m5 [s5a ++ s5b; [s5c_braces]] = Ok r5 /\
  srcs_have_dollar ([] ++ [s5a ++ s5b] ++ [[s5c_dotted]]) = false.
Proof. exact (conj ex5_fetch (conj ex5_split (conj ex5_braces ex5_no_dollar))). Qed.

Example C05_unrelated_satisfiable :
  unrelated (Def (dh "a" false 1 1) [w_ "2" 1] []) (Scp (dh "s" false 2 2) [Def (dh "b" false 3 2) [w_ "y" 2] []] []) /\
  fetch ex_env ex_canon false m5
    [[Scp (dh "s" false 2 2) [Def (dh "b" false 3 2) [w_ "y" 2] []] []; Def (dh "a" false 1 1) [w_ "2" 1] []] ++ s5b; [s5c_dotted]] = Ok r5.
Proof. exact (conj ex5_unrelated ex5_swapped). Qed.

(* the hypothesis "unrelated" is needed: swapping two definitions of the same name changes the result *)
Example C05_related_swap_differs :
  fetch ex_env ex_canon false m5 [[Def (dh "a" false 1 1) [w_ "2" 1] []; Def (dh "a" false 6 4) [w_ "3" 4] []]]
  <> fetch ex_env ex_canon false m5 [[Def (dh "a" false 6 4) [w_ "3" 4] []; Def (dh "a" false 1 1) [w_ "2" 1] []]].
Proof. exact ex5_related_swap_differs. Qed.

Example C05_dotted_hypotheses_satisfiable :
  s5c_dotted = wrap_dotted true (map oname [dh "t" false 1 1] ++ [s_ "c"]) (Def (dh "t.c" false 1 1) [w_ "5" 1] []) /\
  Forall prefix_hdr_ok [dh "t" false 1 1].
Proof. exact (conj ex5_dotted_shape ex5_prefix_ok). Qed.

Example C05_earlier_invalid_example :
  fetch ex_env ex_canon false mch [[Def (dh "c" false 1 1) [w_ "w" 1] []; Def (dh "c" false 2 2) [w_ "y" 2] []]]
  = UErr (s_ "NotAChoice") (s_ "w") 1.
Proof. exact ex5_earlier_invalid. Qed.

Example C05_dedupe_example : dedupe_keep_last [(s_ "x", 1); (s_ "y", 2); (s_ "x", 3)] = [(s_ "y", 2); (s_ "x", 3)].
Proof. exact ex5_dedupe. Qed.
