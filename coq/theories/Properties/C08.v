(* C08 - fetch_diff is a faithful and minimal difference.
   Model: Model/Fetch.v with diff = true (definition.fetch_diff, the diff branches of scope.fetch).
   env and canon (X.extract_format(source=Y).as_str()) are oracles.

   C08_only_differences holds for EVERY master, source list, env and canon.
   The other theorems are stated on the domain
     D08 env canon m  =  D07 env canon m (Properties/C07.v) /\ wf_master m (unique sibling names: no further
                         master occurrence of a .multiple entry - finding F7c otherwise, C08_refuted_...)
                         /\ nms (no .multiple SCOPE: the .multiple entries are definitions)
   under the hypothesis H_self on the oracle: canon k (Some k) = canon k None (the library defines
   extract_format(source=None) as extract_format(source=self)), for "$"-free sources.
   They are in analysis form: whenever the run returns a tree, it is the described one.  That the later
   runs do return (no exception) is evaluated by the stream, as are masters with .multiple scopes
   (there the canonical text of a partial scope instance enters, about which nothing is assumed here).

   Vocabulary (Proofs/FetchDiffCycle.v), one block per master entry k (entries m, in master order):
     wb k b          the block of k in working parameters obtained by fetching: a value v that fetch_value
                     reproduces / a scope of such blocks / template + instances with pairwise different
                     canonical texts, all different from the master's
     dsp k b db      its difference: [v] if canon k (Some v) <> canon k None, else []; a scope of differences,
                     dropped when empty; all instances of a .multiple definition, without the template
     req k b db rb   what merging the difference back gives: v itself where it was kept, the MASTER's
                     definition where it was dropped (its canonical text is v's), scopes block-wise,
                     the unchanged block for a .multiple definition
   Equal canonical texts mean equal extracted values for the library's converters; that step is not
   part of the model (the stream compares extract() dumps).

   Masters WITH .multiple scopes (Proofs/FetchDiffMScopes.v), domain D08S = D07 /\ wf_master (no nms; .multiple
   entries inside .multiple scopes included).  Vocabulary wbS / dspS / reqS (wb / dsp / req plus one case):
     wbS k b       for a .multiple scope: the template copy + FULL instances (each given block-wise, recursively)
                   with pairwise different canonical texts, all different from the master's
     dspS k b db   for a .multiple scope: per instance its PARTIAL instance - the scope holding the difference
                   of the instance's blocks (so NOT "all instances without the template": each instance is
                   reduced to what differs from the template's definitions); no template
   C08_working_blocks_ms and C08_defaults_empty_ms need no further hypothesis.  C08_diff_spec_ms is stated
   under partial_texts_ok m (about the oracle, for the .multiple scopes of m only): an instance whose text
   differs from the master's has a non-empty partial instance whose text differs from the master's, and partial
   instances with equal texts come from instances with equal texts (processed_as_str is keyed by the text of
   the PARTIAL instance in a difference run).  C08_partial_texts_needed: with an oracle that prints values
   without names the hypothesis fails and an instance is lost (not a run of the library, which prints names).
   C08_restore_ms / C08_diff_of_restored_ms: vocabulary reqS (req plus one case: for a .multiple scope the
   template copy + per partial instance the instance merged with the template - kept values themselves,
   dropped ones replaced by the template's definitions, block-wise), under the second oracle hypothesis
   restored_texts_ok m (for the .multiple scopes of m): the restored instance has the canonical text of the
   instance it restores (in a merging run processed_as_str is keyed by the text of the RESTORED instance).
   Both hypotheses are true of the library's printing as long as equal canonical texts of definitions mean
   equal values. *)
From Coq Require Import List Ascii String Bool Arith ZArith.
From Phil Require Import Base Tree Vars Choice Fetch FetchBasics FetchShape FetchDisabled FetchExamples
  FetchIdemLists FetchIdemBase FetchIdem FetchIdemCopy FetchIdemExamples FetchDiffBase FetchDiff FetchDiffCycle FetchDiffExamples FetchDiffMScopes VarsDiffText.
Import ListNotations.

(* D contains only parameters whose value differs from the master default: every definition of a
   difference has, under its master definition, a canonical text different from the master's own;
   no scope of a difference is empty; nothing undeclared (dok, Proofs/FetchDiff.v) *)
Theorem C08_only_differences : forall env canon m srcs d,
  fetch env canon true m srcs = Ok d -> Forall (dok canon m) d.
Proof. exact only_differences. Qed.
Print Assumptions C08_only_differences.

(* working parameters obtained by fetching consist of one block per master entry *)
Theorem C08_working_blocks : forall env canon, (forall k, canon k (Some k) = canon k None) ->
  forall m srcs w, D08 env canon m -> srcs_have_dollar srcs = false ->
  fetch env canon false m srcs = Ok w ->
  exists bs, w = List.concat bs /\ Bl (wb env canon) (entries m) bs.
Proof. exact working_blocks. Qed.
Print Assumptions C08_working_blocks.

(* the difference, block by block *)
Theorem C08_diff_spec : forall env canon, (forall k, canon k (Some k) = canon k None) ->
  forall m srcs w d, D08 env canon m -> srcs_have_dollar srcs = false ->
  fetch env canon false m srcs = Ok w -> fetch env canon true m [w] = Ok d ->
  exists bs dbs, w = List.concat bs /\ d = List.concat dbs /\ Bl2 (dsp env canon) (entries m) bs dbs.
Proof. exact diff_spec. Qed.
Print Assumptions C08_diff_spec.

(* merging D back reproduces W: every kept value itself, every dropped one replaced by the master's
   definition of the same canonical text; instance lists of .multiple definitions unchanged, in order *)
Theorem C08_restore : forall env canon, (forall k, canon k (Some k) = canon k None) ->
  forall m srcs w d r, D08 env canon m -> srcs_have_dollar srcs = false ->
  fetch env canon false m srcs = Ok w -> fetch env canon true m [w] = Ok d -> fetch env canon false m [d] = Ok r ->
  exists xs rbs, w = List.concat (map fst xs) /\ d = List.concat (map snd xs) /\ r = List.concat rbs /\
                 Bl2 (QR env canon) (entries m) xs rbs.
Proof. exact restore_spec. Qed.
Print Assumptions C08_restore.

(* the difference of a difference-restored W is D again *)
Theorem C08_diff_of_restored : forall env canon, (forall k, canon k (Some k) = canon k None) ->
  forall m srcs w d r d2, D08 env canon m -> srcs_have_dollar srcs = false ->
  fetch env canon false m srcs = Ok w -> fetch env canon true m [w] = Ok d -> fetch env canon false m [d] = Ok r ->
  fetch env canon true m [r] = Ok d2 -> d2 = d.
Proof. exact diff_of_restored. Qed.
Print Assumptions C08_diff_of_restored.

(* the difference of the master's own defaults is empty *)
Theorem C08_defaults_empty : forall env canon, (forall k, canon k (Some k) = canon k None) ->
  forall m w0 d, D08 env canon m ->
  fetch env canon false m [] = Ok w0 -> fetch env canon true m [w0] = Ok d -> d = [].
Proof. exact defaults_empty. Qed.
Print Assumptions C08_defaults_empty.

(* ---------------------------------------------------------------- masters with .multiple scopes *)
(* working parameters obtained by fetching, one block per master entry; a .multiple scope contributes its
   template copy and full instances (wbS) *)
Theorem C08_working_blocks_ms : forall env canon m srcs w, D08S env canon m -> srcs_have_dollar srcs = false ->
  fetch env canon false m srcs = Ok w ->
  exists bs, w = List.concat bs /\ Bl (wbS env canon) (entries m) bs.
Proof. exact working_blocks_ms. Qed.
Print Assumptions C08_working_blocks_ms.

(* the difference, block by block; a .multiple scope contributes one partial instance per instance (dspS) *)
Theorem C08_diff_spec_ms : forall env canon, (forall k, canon k (Some k) = canon k None) ->
  forall m srcs w d, D08S env canon m -> partial_texts_ok env canon m -> srcs_have_dollar srcs = false ->
  fetch env canon false m srcs = Ok w -> fetch env canon true m [w] = Ok d ->
  exists bs dbs, w = List.concat bs /\ d = List.concat dbs /\ Bl2 (dspS env canon) (entries m) bs dbs.
Proof. exact diff_spec_ms. Qed.
Print Assumptions C08_diff_spec_ms.

(* the difference of the master's own defaults is empty *)
Theorem C08_defaults_empty_ms : forall env canon, (forall k, canon k (Some k) = canon k None) ->
  forall m w0 d, D08S env canon m ->
  fetch env canon false m [] = Ok w0 -> fetch env canon true m [w0] = Ok d -> d = [].
Proof. exact defaults_empty_ms. Qed.
Print Assumptions C08_defaults_empty_ms.

(* merging D back: block-wise; a .multiple scope contributes its template copy and, per partial instance,
   the instance restored from it (reqS, QRS k x rb = reqS k (fst x) (snd x) rb) *)
Theorem C08_restore_ms : forall env canon, (forall k, canon k (Some k) = canon k None) ->
  forall m srcs w d r, D08S env canon m -> partial_texts_ok env canon m -> restored_texts_ok env canon m ->
  srcs_have_dollar srcs = false ->
  fetch env canon false m srcs = Ok w -> fetch env canon true m [w] = Ok d -> fetch env canon false m [d] = Ok r ->
  exists xs rbs, w = List.concat (map fst xs) /\ d = List.concat (map snd xs) /\ r = List.concat rbs /\
                 Bl2 (QRS env canon) (entries m) xs rbs.
Proof. exact restore_ms. Qed.
Print Assumptions C08_restore_ms.

(* the difference of a difference-restored W is D again *)
Theorem C08_diff_of_restored_ms : forall env canon, (forall k, canon k (Some k) = canon k None) ->
  forall m srcs w d r d2, D08S env canon m -> partial_texts_ok env canon m -> restored_texts_ok env canon m ->
  srcs_have_dollar srcs = false ->
  fetch env canon false m srcs = Ok w -> fetch env canon true m [w] = Ok d -> fetch env canon false m [d] = Ok r ->
  fetch env canon true m [r] = Ok d2 -> d2 = d.
Proof. exact diff_of_restored_ms. Qed.
Print Assumptions C08_diff_of_restored_ms.

(* the hypothesis of C08_diff_spec_ms cannot be dropped: oracle ex_canon (values without names), master
   s .multiple { a = 1  b = 2 }, source  s { a = 3 }  s { b = 3 }: W = template + two instances, the partial
   instances s { a = 3 } and s { b = 3 } have the same text "3", D keeps one, R holds one instance *)
Theorem C08_partial_texts_needed : exists w d r,
  fetch ex_env ex_canon false mc_master [mc_source] = Ok w /\ fetch ex_env ex_canon true mc_master [w] = Ok d /\
  fetch ex_env ex_canon false mc_master [d] = Ok r /\
  map (fun o => vjoin_sp (flat_words o)) w = [s_ "1 2"; s_ "3 2"; s_ "1 3"] /\
  map (fun o => vjoin_sp (flat_words o)) d = [s_ "3"] /\
  map (fun o => vjoin_sp (flat_words o)) r = [s_ "1 2"; s_ "1 3"].
Proof. exact mc_partial_texts_collide. Qed.
Print Assumptions C08_partial_texts_needed.

(* non-vacuity: master  x = 0   s .multiple { a = 1 },  source  s { a = 2 }  s { a = 1 }  (the second instance
   equals the template), oracle ncanon (prints names): in D08S, the oracle hypotheses hold, the four runs
   return; D is the one instance s { a = 2 }, the restored parameters are W itself *)
Example C08_domain_ms_satisfiable :
  (forall k, ncanon k (Some k) = ncanon k None) /\ D08S ex_env ncanon ms_master /\
  partial_texts_ok ex_env ncanon ms_master /\ restored_texts_ok ex_env ncanon ms_master /\
  srcs_have_dollar [ms_source] = false /\
  fetch ex_env ncanon false ms_master [ms_source] = Ok ms_w /\
  fetch ex_env ncanon true ms_master [ms_w] = Ok ms_d /\
  fetch ex_env ncanon false ms_master [ms_d] = Ok ms_w /\
  fetch ex_env ncanon true ms_master [ms_w] = Ok ms_d.
Proof. exact (conj ncanon_self (conj ms_D08S (conj ms_partial_ok (conj ms_restored_ok (conj eq_refl ms_runs))))). Qed.

(* the cycle on a two-leaf .multiple scope (runs only; oracle ncanon):  x = 0   s .multiple { a = 1  b = 2 },
   source  s { a = 3 }  s { a = 1 }  s { b = 5 }  s { a = 3 }:  D holds the partial instances, R = W, D2 = D *)
Example C08_two_leaf_cycle : exists w d,
  fetch ex_env ncanon false m2_master [m2_source] = Ok w /\ fetch ex_env ncanon true m2_master [w] = Ok d /\
  fetch ex_env ncanon false m2_master [d] = Ok w /\ fetch ex_env ncanon true m2_master [w] = Ok d /\
  map ntext w = [s_ "x=0;"; s_ "s{a=1;b=2;}"; s_ "s{a=1;b=5;}"; s_ "s{a=3;b=2;}"] /\
  map ntext d = [s_ "s{b=5;}"; s_ "s{a=3;}"].
Proof. exact m2_runs. Qed.

(* ---------------------------------------------------------------- undefined $variables stay textual *)
(* The clause "undefined $variables stay textual" of fetch_diff: the text written for an unresolved
   reference (Vars.diff_text, given the first character of what follows) names the same variable when
   the difference is read again.
   var_name_ok v: the scanner accepts v between "$(" and ")"; plain_char: neither "$" nor a backslash;
   head_matches fc rest: fc = Some c and rest starts with c, or fc = None and rest ends a bare name
   at once (empty, "." or a non-continuation character first); fc = hd_error rest does. *)
Theorem C08_textual_variable_resumes : forall w v fc fv have acc rest,
  var_name_ok v = true -> head_matches fc rest ->
  frags w (MLit fv) have acc (diff_text v fc ++ rest)
  = frags w (MLit []) true (FVar v :: flush_lit fv acc) rest.
Proof. exact diff_text_resumes. Qed.
Print Assumptions C08_textual_variable_resumes.

(* a literal follows *)
Theorem C08_textual_variable_rereads : forall w v lit,
  var_name_ok v = true -> forallb plain_char lit = true ->
  frags w (MLit []) false [] (diff_text v (hd_error lit) ++ lit)
  = Ok (true, FVar v :: match lit with [] => [] | _ => [FLit lit] end).
Proof. exact diff_text_rereads. Qed.
Print Assumptions C08_textual_variable_rereads.

(* another textual reference follows: its "$" ends the name *)
Theorem C08_textual_variable_rereads_before_variable : forall w v fv have acc rest,
  var_name_ok v = true ->
  frags w (MLit fv) have acc (diff_text v (Some "$"%char) ++ "$"%char :: rest)
  = frags w MDollar true (FVar v :: flush_lit fv acc) rest.
Proof. exact diff_text_rereads_before_variable. Qed.
Print Assumptions C08_textual_variable_rereads_before_variable.

(* the text resolve_word computes (Vars.dtext, via following_char): in front of whatever the later
   fragments of the word contribute - literals, values of resolved references, textual references *)
Theorem C08_textual_variable_rereads_in_word : forall env rec chain stop w nx rs vs w' v fv have acc,
  var_name_ok v = true ->
  mapM_tl (frag_result env rec true chain stop w true) nx = Ok rs ->
  mapM result_value rs = Ok vs ->
  frags w' (MLit fv) have acc (dtext env rec true chain stop w v nx ++ List.concat vs)
  = frags w' (MLit []) true (FVar v :: flush_lit fv acc) (List.concat vs).
Proof. exact dtext_rereads. Qed.
Print Assumptions C08_textual_variable_rereads_in_word.

(* a whole word whose references stay textual (text_of, right to left: literals as they are, a
   reference as diff_text writes it in front of the text that follows; wf_frs: accepted names, plain
   non-empty literals, no two literals in a row) *)
Theorem C08_textual_word_rereads : forall w frs,
  wf_frs false frs = true ->
  frags w (MLit []) false [] (text_of frs) = Ok (existsb frag_is_var frs, frs).
Proof. exact textual_word_rereads. Qed.
Print Assumptions C08_textual_word_rereads.

(* the defect that was repaired (C08-diff-variable-adjacent): the bare form "$name" written before
   identifier characters reads as one longer name ("$DIR" + "_old") *)
Theorem C08_textual_variable_bare_form_refuted : exists w v lit,
  var_name_ok v = true /\ forallb plain_char lit = true /\
  frags w (MLit []) false [] (("$"%char :: v) ++ lit) <> Ok (true, [FVar v; FLit lit]) /\
  frags w (MLit []) false [] (("$"%char :: v) ++ lit) = Ok (true, [FVar (v ++ lit)]).
Proof. exact bare_form_misreads. Qed.
Print Assumptions C08_textual_variable_bare_form_refuted.

Example C08_textual_variable_forms :
  var_name_ok (s_ "DIR") = true /\ var_name_ok (s_ "a.b") = true /\ var_name_ok (s_ ".a") = true /\
  diff_text (s_ "DIR") (hd_error (s_ "_old")) = s_ "$(DIR)" /\
  diff_text (s_ "DIR") (hd_error (s_ "/old")) = s_ "$DIR" /\
  diff_text (s_ "DIR") (hd_error (s_ ".old")) = s_ "$DIR" /\
  diff_text (s_ "DIR") None = s_ "$DIR" /\
  diff_text (s_ "a.b") None = s_ "$(a.b)" /\
  diff_text (s_ "v") (hd_error (s_ "abc")) ++ s_ "abc" = s_ "$(v)abc" /\
  wf_frs false [FLit (s_ "x/"); FVar (s_ "DIR"); FLit (s_ "_old"); FVar (s_ "a.b"); FVar (s_ "c")] = true /\
  text_of [FLit (s_ "x/"); FVar (s_ "DIR"); FLit (s_ "_old"); FVar (s_ "a.b"); FVar (s_ "c")]
  = s_ "x/$(DIR)_old$(a.b)$c".
Proof. exact diff_text_forms. Qed.

(* u = abc defined, v not: the word $v$u is written "$(v)abc"; the hypotheses of
   C08_textual_variable_rereads_in_word hold for the fragment after $v *)
Example C08_textual_variable_in_word_example :
  resolve_word (fun _ => None) ex_rec true [[ex_u_def]] 2 (mkword (s_ "$v$u") QN 2)
  = Ok [mkword (s_ "$(v)abc") Q2 0] /\
  mapM_tl (frag_result (fun _ => None) ex_rec true [[ex_u_def]] 2 (mkword (s_ "$v$u") QN 2) true)
          [FVar (s_ "u")] = Ok [RWord (mkword (s_ "abc") Q2 0)] /\
  mapM result_value [RWord (mkword (s_ "abc") Q2 0)] = Ok [s_ "abc"] /\
  dtext (fun _ => None) ex_rec true [[ex_u_def]] 2 (mkword (s_ "$v$u") QN 2) (s_ "v") [FVar (s_ "u")]
  = s_ "$(v)".
Proof. exact dtext_residual_shape. Qed.

(* ---------------------------------------------------------------- outside the domain: refutation *)
(* F7c (canon table recorded from the library): master  d = 1  d = 2  (.type=int .multiple=True),
   source  d = 3  d = 2.  W holds the values [3, 2]; the difference only [3] (the master provides 2);
   merged back the result holds [2, 3]: the order of the instances is not reproduced. *)
Theorem C08_refuted_master_provided_instance : exists env canon m srcs w d r,
  fetch env canon false m srcs = Ok w /\ fetch env canon true m [w] = Ok d /\ fetch env canon false m [d] = Ok r /\
  values w = [[s_ "3"]; [s_ "2"]] /\ values d = [[s_ "3"]] /\ values r = [[s_ "2"]; [s_ "3"]].
Proof.
  destruct f7c_restore_reorders as [w [d [r H]]]. exists ex_env, f7c_canon, f7c_m, [f7c_src], w, d, r. exact H.
Qed.
Print Assumptions C08_refuted_master_provided_instance.

(* ---------------------------------------------------------------- non-vacuity *)
(* a master with a .multiple definition and a scope, its canon (which satisfies H_self), a source:
   in D08; the four runs return, and the restored parameters are W itself *)
Example C08_domain_satisfiable :
  (forall k, ex_canon k (Some k) = ex_canon k None) /\ D08 ex_env ex_canon ex8_master /\
  srcs_have_dollar [ex8_source] = false /\
  fetch ex_env ex_canon false ex8_master [ex8_source] = Ok ex8_w /\
  fetch ex_env ex_canon true ex8_master [ex8_w] = Ok ex8_d /\
  fetch ex_env ex_canon false ex8_master [ex8_d] = Ok ex8_w /\
  fetch ex_env ex_canon true ex8_master [ex8_w] = Ok ex8_d.
Proof. exact (conj ex_canon_self (conj ex8_D08 (conj eq_refl ex8_runs))). Qed.
