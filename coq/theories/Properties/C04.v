(* C04 - a fetch result has exactly the master's parameter structure.
   Model: Model/Fetch.v (fetch = master.fetch(sources=...), diff = false unless stated).
   Every theorem holds for EVERY environment oracle [env] and EVERY canon oracle [canon]
   (canon M s = M.extract_format(source=s).as_str(), modelled elsewhere).
   Definitions used in the statements: shape_ok, shape_block, entries, tmpl_flag, wf_master
   (Proofs/FetchShape.v, FetchBasics.v), strip_objs (Proofs/FetchDisabled.v), srcs_ordered, parsed
   (Proofs/FetchDisabledVars.v). *)
From Coq Require Import List Ascii String Bool Arith ZArith.
From Phil Require Import Base Tree Vars Choice Parser Fetch FetchBasics FetchShape FetchDisabled FetchDisabledVars FetchTrack FetchExamples.
Import ListNotations.

(* Whatever the sources, a result that is returned has the master's shape: one block per entry
   of master_active_objects, in master order, each object with the master's header (name, ids,
   line) and attribute list (type included), recursively for scopes; a multiple entry gives its
   template (is_template by the optional rule: tmpl_flag) followed by instances; nothing else.
   No hypothesis on the master is needed: a master with an alias, an empty name or a duplicate
   non-multiple definition makes the model return an error, not Ok. *)
Theorem C04_shape : forall env canon m srcs r,
  fetch env canon false m srcs = Ok r -> shape_ok m r.
Proof. exact fetch_shape. Qed.
Print Assumptions C04_shape.

(* the same for the call with track_unused_definitions=True *)
Theorem C04_shape_tracked : forall env canon marks0 m srcs r u,
  fetch_track_marks env canon false marks0 m srcs = Ok (r, u) -> shape_ok m r.
Proof. exact fetch_track_shape. Qed.
Print Assumptions C04_shape_tracked.

(* for a well-formed master (unique sibling names among the active objects) the entries are all
   the active objects, each once, in master order: "every active parameter exactly once" *)
Theorem C04_entries_of_wf_master : forall l, uniq_names l -> entries l = filter mactive l.
Proof. exact entries_uniq. Qed.
Print Assumptions C04_entries_of_wf_master.

(* no object of a result carries a name, kind or attribute list that an ACTIVE master object does
   not declare, and none is disabled *)
Theorem C04_nothing_undeclared : forall env canon m srcs r o,
  fetch env canon false m srcs = Ok r -> In o r ->
  exists k, In k m /\ odis (ohdr k) = false /\
            oname (ohdr o) = oname (ohdr k) /\ oattrs o = oattrs k /\ is_def o = is_def k /\ odis (ohdr o) = false.
Proof. exact result_objects_from_active_master. Qed.
Print Assumptions C04_nothing_undeclared.

(* disabled source objects are ignored entirely (any diff flag).  For sources without "$" the lexical
   context plays no part and nothing is assumed of the sources ... *)
Theorem C04_disabled_sources_ignored : forall env canon diff m srcs,
  srcs_have_dollar srcs = false ->
  fetch env canon diff m srcs = fetch env canon diff m (map strip_objs srcs).
Proof. exact disabled_sources_ignored. Qed.
Print Assumptions C04_disabled_sources_ignored.

(* ... and with "$" the clause rests on variable lookup skipping disabled objects (Vars.scan /
   live_cand, since the repair of F10): a lookup in the stripped chain finds the stripped object
   (lexical_get_strip), so a definition resolves to the same words (resolve_def_strip).  One thing is
   needed of the sources: a disabled object still ENDS the first loop of lexical_get (the stop_id
   test comes before the is_disabled test), so every object must carry a primary id and sibling
   ids must never decrease (srcs_ordered) - then whatever follows the disabled object ends the loop
   as well.  Every parsed document is like that (parse_list_ok, from ParserShape): *)
Theorem C04_disabled_sources_ignored_any : forall env canon diff m srcs,
  Forall parsed srcs ->
  fetch env canon diff m srcs = fetch env canon diff m (map strip_objs srcs).
Proof. exact fetch_strip_parsed. Qed.
Print Assumptions C04_disabled_sources_ignored_any.

(* the same for any source trees with ids in document order, parsed or not *)
Theorem C04_disabled_sources_ignored_ordered : forall env canon diff m srcs,
  srcs_ordered srcs = true ->
  fetch env canon diff m srcs = fetch env canon diff m (map strip_objs srcs).
Proof. exact fetch_strip. Qed.
Print Assumptions C04_disabled_sources_ignored_ordered.

(* parsed documents are ordered *)
Theorem C04_parsed_sources_ordered : forall srcs, Forall parsed srcs -> srcs_ordered srcs = true.
Proof. exact parsed_ordered. Qed.
Print Assumptions C04_parsed_sources_ordered.

(* the two facts about variable lookup the clause rests on: lookup and resolution commute with the
   removal of the disabled objects (smap strips the object found and its chain) *)
Theorem C04_lookup_skips_disabled : forall fuel stop chain path up, stop <> 0 -> chain_ok chain ->
  lexical_get fuel stop (map strip_objs chain) path up = smap (lexical_get fuel stop chain path up).
Proof. exact lexical_get_strip. Qed.
Print Assumptions C04_lookup_skips_disabled.
Theorem C04_resolution_skips_disabled : forall env fuel diff chain d, oid d <> 0 -> chain_ok chain ->
  resolve_def env fuel diff (map strip_objs chain) (strip_obj d) = resolve_def env fuel diff chain d.
Proof. exact resolve_def_strip. Qed.
Print Assumptions C04_resolution_skips_disabled.

(* without the order the clause fails with "$" (a hand-built tree, not a parsed one: a = 1 (id 1);
   !x = 0 (id 5); a = 2 (id 2); b = $a (id 3) - the disabled x hides the second a from b) *)
Theorem C04_disabled_sources_ignored_unordered_refuted :
  srcs_ordered [unord_source] = false /\
  fetch ex_env ex_canon false unord_master [unord_source]
  <> fetch ex_env ex_canon false unord_master (map strip_objs [unord_source]).
Proof. exact strip_needs_order. Qed.
Print Assumptions C04_disabled_sources_ignored_unordered_refuted.

(* more generally the result depends on "$"-free sources only through their view (the active
   objects, recursively, in order): not on how they are split into source documents, not on
   positions, not on lexical contexts *)
Theorem C04_sources_view : forall env canon diff m srcs srcs',
  srcs_have_dollar srcs = false -> srcs_have_dollar srcs' = false ->
  flat_map strip_objs srcs = flat_map strip_objs srcs' ->
  fetch env canon diff m srcs = fetch env canon diff m srcs'.
Proof. exact fetch_view. Qed.
Print Assumptions C04_sources_view.

(* with "$" the split into documents matters (a lexical chain never leaves its document): the
   result depends on ordered sources only through their stripped documents *)
Theorem C04_sources_view_any : forall env canon diff m srcs srcs',
  srcs_ordered srcs = true -> srcs_ordered srcs' = true ->
  map strip_objs srcs = map strip_objs srcs' ->
  fetch env canon diff m srcs = fetch env canon diff m srcs'.
Proof. exact fetch_view_vars. Qed.
Print Assumptions C04_sources_view_any.

(* a disabled master object never appears in a result: the result has the shape of the master
   without it (and by C06 the source definitions naming it are reported as unused) *)
Theorem C04_disabled_master_never_set : forall env canon m1 d m2 srcs r,
  odis (ohdr d) = true ->
  fetch env canon false (m1 ++ d :: m2) srcs = Ok r -> shape_ok (m1 ++ m2) r.
Proof. exact disabled_master_never_set. Qed.
Print Assumptions C04_disabled_master_never_set.

(* the matching of source objects is Vars' get_without_substitution (positions forgotten) *)
Theorem C04_matching_is_gws : forall o p chain path, map forget (gwsp p chain path o) = gws_obj chain path o.
Proof. exact gwsp_gws. Qed.
Print Assumptions C04_matching_is_gws.

(* ---------------------------------------------------------------- non-vacuity *)
(* a well-formed master with a multiple scope and a disabled definition, one source: the run ends in Ok *)
Example C04_shape_satisfiable :
  wf_master ex_master /\ fetch ex_env ex_canon false ex_master [ex_source] = Ok ex_result /\
  srcs_have_dollar [ex_source] = false.
Proof. exact (conj ex_wf (conj ex_fetch ex_no_dollar)). Qed.
(* a disabled definition supplies no $variable: with or without it the run ends the same way *)
Example C04_disabled_variable_source_ignored :
  fetch ex_env ex_canon false f10_master [f10_source] = UErr k_undefined (s_ "y") 2 /\
  fetch ex_env ex_canon false f10_master (map strip_objs [f10_source]) = UErr k_undefined (s_ "y") 2.
Proof. exact (conj f10_with_disabled f10_without_disabled). Qed.
(* a parsed source with "$", a disabled definition of the variable in two scopes and a disabled
   scope: with or without them b = $a reads the active a = 1 *)
Example C04_disabled_sources_ignored_any_satisfiable :
  parsed pv_source /\ srcs_have_dollar [pv_source] = true /\
  fetch ex_env ex_canon false pv_master [pv_source]
  = Ok [ Scp (dh "t" false 1 1) [Def (dh "b" false 2 1) [mkword (s_ "1") QN 1] []] [] ] /\
  fetch ex_env ex_canon false pv_master (map strip_objs [pv_source])
  = Ok [ Scp (dh "t" false 1 1) [Def (dh "b" false 2 1) [mkword (s_ "1") QN 1] []] [] ].
Proof. exact (conj pv_parsed pv_run). Qed.
