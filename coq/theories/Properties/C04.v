(* C04 - a fetch result has exactly the master's parameter structure.
   Model: Model/Fetch.v (fetch = master.fetch(sources=...), diff = false unless stated).
   Every theorem holds for EVERY environment oracle [env] and EVERY canon oracle [canon]
   (canon M s = M.extract_format(source=s).as_str(), modelled elsewhere).
   Definitions used in the statements: shape_ok, shape_block, entries, tmpl_flag, wf_master
   (Proofs/FetchShape.v, FetchBasics.v), strip_objs (Proofs/FetchDisabled.v). *)
From Coq Require Import List Ascii String Bool Arith ZArith.
From Phil Require Import Base Tree Vars Choice Fetch FetchBasics FetchShape FetchDisabled FetchTrack FetchExamples.
Import ListNotations.

(* Whatever the sources, a result that is returned has the master's shape: one block per entry
   of master_active_objects, in master order, each object with the master's header (name, ids,
   line) and attribute list (type included), recursively for scopes; a multiple entry gives its
   template (is_template by the optional rule: tmpl_flag) followed by instances; nothing else.
   No hypothesis on the master is needed: a master with an alias, an empty name or a duplicate
   non-multiple definition makes the model return an error, not Ok. *)
Theorem C04_shape : forall env canon m srcs r,
  fetch env canon false m srcs = Ok r -> shape_ok m r.
Proof. exact fetch_shape. Qed.
Print Assumptions C04_shape.

(* the same for the call with track_unused_definitions=True *)
Theorem C04_shape_tracked : forall env canon marks0 m srcs r u,
  fetch_track_marks env canon false marks0 m srcs = Ok (r, u) -> shape_ok m r.
Proof. exact fetch_track_shape. Qed.
Print Assumptions C04_shape_tracked.

(* for a well-formed master (unique sibling names among the active objects) the entries are all
   the active objects, each once, in master order: "every active parameter exactly once" *)
Theorem C04_entries_of_wf_master : forall l, uniq_names l -> entries l = filter mactive l.
Proof. exact entries_uniq. Qed.
Print Assumptions C04_entries_of_wf_master.

(* no object of a result carries a name, kind or attribute list that an ACTIVE master object does
   not declare, and none is disabled *)
Theorem C04_nothing_undeclared : forall env canon m srcs r o,
  fetch env canon false m srcs = Ok r -> In o r ->
  exists k, In k m /\ odis (ohdr k) = false /\
            oname (ohdr o) = oname (ohdr k) /\ oattrs o = oattrs k /\ is_def o = is_def k /\ odis (ohdr o) = false.
Proof. exact result_objects_from_active_master. Qed.
Print Assumptions C04_nothing_undeclared.

(* disabled source objects are ignored entirely (any diff flag).  Proved for sources without "$":
   there the lexical context plays no part.  With "$" the clause additionally rests on variable
   lookup skipping disabled objects (Vars.scan, since the repair of F10); that case is not proved
   here - it is compared on every run (stream fetch_shape, clause srcdis, incl. "$" sources). *)
Theorem C04_disabled_sources_ignored : forall env canon diff m srcs,
  srcs_have_dollar srcs = false ->
  fetch env canon diff m srcs = fetch env canon diff m (map strip_objs srcs).
Proof. exact disabled_sources_ignored. Qed.
Print Assumptions C04_disabled_sources_ignored.

(* more generally the result depends on "$"-free sources only through their view (the active
   objects, recursively, in order): not on how they are split into source documents, not on
   positions, not on lexical contexts *)
Theorem C04_sources_view : forall env canon diff m srcs srcs',
  srcs_have_dollar srcs = false -> srcs_have_dollar srcs' = false ->
  flat_map strip_objs srcs = flat_map strip_objs srcs' ->
  fetch env canon diff m srcs = fetch env canon diff m srcs'.
Proof. exact fetch_view. Qed.
Print Assumptions C04_sources_view.

(* a disabled master object never appears in a result: the result has the shape of the master
   without it (and by C06 the source definitions naming it are reported as unused) *)
Theorem C04_disabled_master_never_set : forall env canon m1 d m2 srcs r,
  odis (ohdr d) = true ->
  fetch env canon false (m1 ++ d :: m2) srcs = Ok r -> shape_ok (m1 ++ m2) r.
Proof. exact disabled_master_never_set. Qed.
Print Assumptions C04_disabled_master_never_set.

(* the matching of source objects is Vars' get_without_substitution (positions forgotten) *)
Theorem C04_matching_is_gws : forall o p chain path, map forget (gwsp p chain path o) = gws_obj chain path o.
Proof. exact gwsp_gws. Qed.
Print Assumptions C04_matching_is_gws.

(* ---------------------------------------------------------------- non-vacuity *)
(* a well-formed master with a multiple scope and a disabled definition, one source: the run ends in Ok *)
Example C04_shape_satisfiable :
  wf_master ex_master /\ fetch ex_env ex_canon false ex_master [ex_source] = Ok ex_result /\
  srcs_have_dollar [ex_source] = false.
Proof. exact (conj ex_wf (conj ex_fetch ex_no_dollar)). Qed.
(* a disabled definition supplies no $variable: with or without it the run ends the same way *)
Example C04_disabled_variable_source_ignored :
  fetch ex_env ex_canon false f10_master [f10_source] = UErr k_undefined (s_ "y") 2 /\
  fetch ex_env ex_canon false f10_master (map strip_objs [f10_source]) = UErr k_undefined (s_ "y") 2.
Proof. exact (conj f10_with_disabled f10_without_disabled). Qed.
