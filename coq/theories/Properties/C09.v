(* C09 - Python values written to PHIL and read back are unchanged.
   Only property theorems here: each closed by [exact] of a lemma of Proofs/Extract*.v and followed by
   Print Assumptions; Examples show that hypotheses are satisfiable.
   Model functions (the ones the correspondence stream executes through EntryExtract.v):
     ty_as_words / ty_from_words   converter.as_words / from_words on PyVal.pyval   (ConvText.v)
     format_obj / extract_obj       scope.format / scope.extract, definition.format / extract   (Extract.v)
   roundtrip pe ex t opt mw v  :=  exists ws, ty_as_words t opt mw v = Ok ws /\ ty_from_words pe ex t opt ws = Ok v
   (pe = eval oracle, ex = os.path.expanduser oracle, opt = master.optional, mw = master.words). *)
From Coq Require Import List Ascii String Bool Arith ZArith.
From Phil Require Import Base Tokenizer Tree PyVal ConvText Extract.
From Phil Require Import ExtractInt ExtractText ExtractNumLift ExtractChoiceRT ExtractScope ExtractScopeM ExtractTop.
From Phil Require Conv Choice Parser ConvProofs.
Import ListNotations.
Local Open Scope char_scope.

(* ------------------------------------------------------------------ text types *)
Theorem C09_str : forall pe ex opt mw s, roundtrip pe ex TyStr opt mw (VStr s).
Proof. exact rt_str. Qed.
Print Assumptions C09_str.

Theorem C09_key : forall pe ex opt mw s, roundtrip pe ex TyKey opt mw (VStr s).
Proof. exact rt_key. Qed.
Print Assumptions C09_key.

(* path: under the hypothesis that expanduser neither changes nor refuses a text that does not start with a tilde *)
Theorem C09_path : forall pe ex opt mw s,
  expanduser_spec ex -> prefixb ["~"] s = false -> roundtrip pe ex TyPath opt mw (VStr s).
Proof. exact rt_path. Qed.
Print Assumptions C09_path.

(* F8: a path starting with a tilde is expanded on extraction *)
Theorem C09_refuted_path_tilde : forall pe ex opt mw, ex ["~"] <> Some ["~"] ->
  exists ws, ty_as_words TyPath opt mw (VStr ["~"]) = Ok ws /\ ty_from_words pe ex TyPath opt ws <> Ok (VStr ["~"]).
Proof. exact path_tilde_refuted. Qed.
Print Assumptions C09_refuted_path_tilde.

Theorem C09_words : forall pe ex opt mw ws,
  Parser.is_plain_none ws = false -> Parser.is_plain_auto ws = false -> roundtrip pe ex TyWords opt mw (VWords ws).
Proof. exact rt_words. Qed.
Print Assumptions C09_words.

(* strings: every list of strings (an item spelled None / Auto is written quoted; repaired in 7891807, formerly F8).
   Definitions without .type use the same two functions (C09_leaf_untyped). *)
Theorem C09_strings : forall pe ex opt mw l, roundtrip pe ex TyStrings opt mw (VList (map VStr l)).
Proof. exact rt_strings. Qed.
Print Assumptions C09_strings.

Theorem C09_leaf_untyped : forall pe ex h ws a l,
  get_attr (s_ "type") a = ANone -> pdom pe ex (Def h ws a) (VList (map VStr l)).
Proof. exact leaf_untyped. Qed.
Print Assumptions C09_leaf_untyped.

(* qstr: exactly the texts that are the canonical spelling of their own tokens ... *)
Theorem C09_qstr : forall pe ex opt mw s ws,
  tokenize_value_literal s = Ok ws -> Parser.join_sp (map str_of_word ws) = s ->
  Parser.is_plain_none ws = false -> Parser.is_plain_auto ws = false ->
  roundtrip pe ex TyQstr opt mw (VStr s).
Proof. exact rt_qstr. Qed.
Print Assumptions C09_qstr.
(* ... among them every quoted rendering of any string (by C03) ... *)
Theorem C09_qstr_quoted : forall pe ex opt mw q s, q <> QN -> roundtrip pe ex TyQstr opt mw (VStr (quote_str q s)).
Proof. exact rt_qstr_quoted. Qed.
Print Assumptions C09_qstr_quoted.
(* ... but not every text: runs of blanks collapse *)
Theorem C09_refuted_qstr_blanks : forall pe ex opt mw,
  exists s ws, ty_as_words TyQstr opt mw (VStr s) = Ok ws
               /\ ty_from_words pe ex TyQstr opt ws = Ok (VStr (s_ "a b")) /\ s <> s_ "a b".
Proof. exact qstr_blanks_refuted. Qed.
Print Assumptions C09_refuted_qstr_blanks.

(* a text that os.path.expanduser refuses (oracle answer None: ValueError, e.g. a NUL byte after the tilde) is written as
   it is and refused on extraction with the user error PathRefused (repaired in 65aa99d) *)
Theorem C09_path_refusal_is_user_error : forall pe ex opt mw s, ex s = None ->
  ty_as_words TyPath opt mw (VStr s) = Ok [qw s] /\ ty_from_words pe ex TyPath opt [qw s] = UErr (s_ "PathRefused") s 0.
Proof. exact (fun pe ex opt mw s H => conj eq_refl (path_refusal_is_user_error pe ex opt s H)). Qed.
Print Assumptions C09_path_refusal_is_user_error.

(* ------------------------------------------------------------------ bool, int, ints *)
Theorem C09_bool : forall pe ex opt mw b, roundtrip pe ex TyBool opt mw (VNum (Conv.NBool b)).
Proof. exact rt_bool. Qed.
Print Assumptions C09_bool.

(* "%d" % z read by int(): exact for every integer below CPython's 4300-digit limit *)
Theorem C09_int_text : forall z, (Z.abs z < B4300)%Z -> Conv.py_int_of_str (str_of_Z z) = Some z.
Proof. exact int_of_str_of_Z. Qed.
Print Assumptions C09_int_text.

(* whatever int.as_words writes for an integer (it accepts only integers within the bounds: C09_refuses_scalar_bounds; below the 4300-digit limit, beyond which the
   converter writes hex(z) and reading goes through the eval oracle) reads back as that integer *)
Theorem C09_int : forall pe ex opt mw lo hi an z ws, (Z.abs z < B4300)%Z ->
  ty_as_words (TyInt lo hi an) opt mw (VNum (Conv.NInt z)) = Ok ws ->
  ty_from_words pe ex (TyInt lo hi an) opt ws = Ok (VNum (Conv.NInt z)).
Proof. exact rt_int. Qed.
Print Assumptions C09_int.

(* whatever ints.as_words accepts (a list of integers, None, Auto - except the single-item lists [None] / [Auto])
   reads back as that list *)
Theorem C09_ints : forall pe ex opt mw smin smax lo hi ne ae items ws,
  Forall int_value items -> Forall small_value items -> items <> [VNone] -> items <> [VAuto] ->
  ty_as_words (TyInts smin smax lo hi ne ae) opt mw (VList items) = Ok ws ->
  ty_from_words pe ex (TyInts smin smax lo hi ne ae) opt ws = Ok (VList items).
Proof. exact rt_ints. Qed.
Print Assumptions C09_ints.

(* same family as F8: the one-item list [None] reads back as None *)
Theorem C09_refuted_single_none_element : forall pe ex opt mw,
  exists ws, ty_as_words (TyInts None None None None true true) opt mw (VList [VNone]) = Ok ws
             /\ ty_from_words pe ex (TyInts None None None None true true) opt ws = Ok VNone.
Proof. exact single_none_element_refuted. Qed.
Print Assumptions C09_refuted_single_none_element.

(* ------------------------------------------------------------------ choices *)
Theorem C09_choice : forall pe ex opt mw s,
  wf_alts mw -> In s (anames mw) -> roundtrip pe ex (TyChoice false) opt mw (VStr s).
Proof. exact rt_choice. Qed.
Print Assumptions C09_choice.

Theorem C09_choice_none : forall pe ex opt mw,
  wf_alts mw -> Choice.mandatory opt = false -> roundtrip pe ex (TyChoice false) opt mw VNone.
Proof. exact rt_choice_none. Qed.
Print Assumptions C09_choice_none.

(* a selection in master order comes back as it is ... *)
Theorem C09_multi_choice : forall pe ex opt mw p, wf_alts mw ->
  let l := filter p (anames mw) in
  (l = [] -> Choice.mandatory opt = false) -> roundtrip pe ex (TyChoice true) opt mw (VList (map VStr l)).
Proof. exact rt_multi_choice. Qed.
Print Assumptions C09_multi_choice.
(* ... any selection comes back as the selected names in master order *)
Theorem C09_multi_choice_any_order : forall pe ex opt mw l, wf_alts mw -> (forall x, In x l -> In x (anames mw)) ->
  let r := filter (fun k => mems k l) (anames mw) in
  (r = [] -> Choice.mandatory opt = false) ->
  exists ws, ty_as_words (TyChoice true) opt mw (VList (map VStr l)) = Ok ws
             /\ ty_from_words pe ex (TyChoice true) opt ws = Ok (VList (map VStr r)).
Proof. exact rt_multi_choice_any. Qed.
Print Assumptions C09_multi_choice_any_order.

(* ------------------------------------------------------------------ None and Auto *)
Theorem C09_none : forall pe ex opt mw t, allows_none t = true -> roundtrip pe ex t opt mw VNone.
Proof. exact rt_none. Qed.
Print Assumptions C09_none.
Theorem C09_auto : forall pe ex opt mw t, allows_auto t = true -> roundtrip pe ex t opt mw VAuto.
Proof. exact rt_auto. Qed.
Print Assumptions C09_auto.

(* ------------------------------------------------------------------ refusals *)
(* ints: what as_words accepts lies within the declared size and value bounds, None / Auto items only if allowed *)
Theorem C09_refuses_out_of_domain : forall opt mw smin smax lo hi ne ae items ws,
  Forall int_value items ->
  ty_as_words (TyInts smin smax lo hi ne ae) opt mw (VList items) = Ok ws ->
  ConvProofs.size_ok smin smax (length items)
  /\ Forall (fun x => match x with
                      | VNum (Conv.NInt z) => zbounds lo hi z
                      | VNone => ne = true
                      | VAuto => ae = true
                      | _ => False end) items.
Proof. exact ints_accepts_only_domain. Qed.
Print Assumptions C09_refuses_out_of_domain.

Theorem C09_refuses_none : forall opt mw lo hi,
  ty_as_words (TyInt lo hi false) opt mw VNone = UErr (s_ "CannotBeNone") [] 0.
Proof. exact int_refuses_none. Qed.
Print Assumptions C09_refuses_none.

Theorem C09_refuses_choice : forall opt mw,
  (forall s, ~ In s (anames mw) -> ty_as_words (TyChoice false) opt mw (VStr s) = UErr (s_ "InvalidChoice") [] 0)
  /\ (Choice.mandatory opt = true -> ty_as_words (TyChoice false) opt mw VNone = UErr (s_ "InvalidChoice") [] 0)
  /\ (forall l x, NoDup (anames mw) -> In x l -> ~ In x (anames mw) ->
        ty_as_words (TyChoice true) opt mw (VList (map VStr l)) = UErr (s_ "InvalidChoice") [] 0).
Proof. exact choice_refusals. Qed.
Print Assumptions C09_refuses_choice.

(* scalar int (repaired in b77ba3d, formerly the scalar-bounds defect): as_words writes a number only if it lies within
   value_min / value_max, and it does write every in-bounds integer *)
Theorem C09_refuses_scalar_bounds : forall opt mw lo hi an z ws,
  ty_as_words (TyInt lo hi an) opt mw (VNum (Conv.NInt z)) = Ok ws -> zbounds lo hi z.
Proof. exact int_accepts_only_bounds. Qed.
Print Assumptions C09_refuses_scalar_bounds.

Theorem C09_accepts_in_bounds : forall opt mw lo hi an z, zbounds lo hi z ->
  ty_as_words (TyInt lo hi an) opt mw (VNum (Conv.NInt z))
  = Ok [uw (if Conv.too_many_digits z then Conv.py_hex z else str_of_Z z)].
Proof. exact int_accepts_in_bounds. Qed.
Print Assumptions C09_accepts_in_bounds.

(* the former witness: int(value_min=0, value_max=3).format(99) is refused *)
Theorem C09_scalar_bounds_witness_refused : forall opt mw,
  ty_as_words (TyInt (Some 0%Z) (Some 3%Z) true) opt mw (VNum (Conv.NInt 99)) = UErr (s_ "AboveMax") [] 0.
Proof. exact scalar_bounds_refused. Qed.
Print Assumptions C09_scalar_bounds_witness_refused.

(* ------------------------------------------------------------------ scope level, masters without .multiple *)
(* wf_nm m: active sibling names distinct, without dot, no attribute of scope_extract; nothing .multiple.
   pdom m p: p has exactly one field per active object of m, in master order, and every leaf value survives its own
   converter (the theorems above discharge that per type: leaf_of_roundtrip).
   Then formatting p against m and extracting the result returns p. *)
Theorem C09_scope_nomultiple : forall pe ex m p, wf_nm m -> pdom pe ex m p ->
  exists t, format_obj m p = Ok t /\ extract_obj pe ex t = Ok p
            /\ ohdr t = with_tmpl (ohdr m) 0 /\ oattrs t = oattrs m.
Proof. exact scope_roundtrip_nomult. Qed.
Print Assumptions C09_scope_nomultiple.

(* ------------------------------------------------------------------ scope level, masters with .multiple *)
(* wf_m m: as wf_nm, .multiple definitions and scopes allowed at any depth.
   pdom_m m p: one field per active object in master order; the field of a .multiple object is a scope_extract_list
   carrying the object's .optional, whose elements lie in the object's own domain and respect the append rule of
   __phil_set__ (no None in the list of an .optional = True object).  An empty list is written as a visible template
   and read back as an empty list; instances of a multiple scope are preceded by the hidden template. *)
Theorem C09_scope : forall pe ex m p, wf_m m -> pdom_m pe ex m p ->
  exists t, format_obj m p = Ok t /\ extract_obj pe ex t = Ok p
            /\ ohdr t = with_tmpl (ohdr m) 0 /\ oattrs t = oattrs m.
Proof. exact scope_roundtrip_multi. Qed.
Print Assumptions C09_scope.

Theorem C09_leaf_m : forall pe ex h ws t opt a v,
  get_attr (s_ "type") a = AType t -> get_attr (s_ "optional") a = opt ->
  roundtrip pe ex t opt ws v -> pdom_m pe ex (Def h ws a) v.
Proof. exact leaf_of_roundtrip_m. Qed.
Print Assumptions C09_leaf_m.

Theorem C09_leaf : forall pe ex h ws t opt a v,
  get_attr (s_ "type") a = AType t -> get_attr (s_ "optional") a = opt ->
  roundtrip pe ex t opt ws v -> pdom pe ex (Def h ws a) v.
Proof. exact leaf_of_roundtrip. Qed.
Print Assumptions C09_leaf.

(* ------------------------------------------------------------------ non-vacuity *)
Definition ex_master : obj :=
  Scp (plain_hdr []) [
    Def (plain_hdr (s_ "a")) [uw (s_ "1")] [(s_ "type", AType (TyInt (Some 0%Z) (Some 9%Z) true))];
    Scp (plain_hdr (s_ "s")) [
      Def (plain_hdr (s_ "b")) [qw (s_ "x")] [(s_ "type", AType TyStr)];
      Def (mkhdr (s_ "c") true 0 false 0 0) [uw (s_ "2")] [];
      Def (plain_hdr (s_ "d")) [uw (s_ "*p"); uw (s_ "q")] [(s_ "type", AType (TyChoice true))]] []] [].
Definition ex_value : pyval :=
  VScope (Ext [] [(s_ "a", VNum (Conv.NInt 7));
                  (s_ "s", VScope (Ext (s_ "s") [(s_ "b", VStr (s_ "q""r")); (s_ "d", VList [VStr (s_ "q")])]))]).
Example C09_scope_example : wf_nm ex_master /\ pdom (fun _ => None) (fun s => Some s) ex_master ex_value.
Proof.
  split.
  - vm_compute.
    assert (N2 : forall a b : str, a <> b -> NoDup [a; b]).
    { intros a b H. constructor; [intros [X|[]]; congruence|constructor; [intros []|constructor]]. }
    split; [apply N2; discriminate|].
    split; [intros _; repeat split|].
    split; [|exact I]. intros _. split; [reflexivity|]. split; [split; reflexivity|].
    split; [apply N2; discriminate|].
    split; [intros _; repeat split|]. split; [intro H; discriminate H|]. split; [intros _; repeat split|exact I].
  - unfold ex_master, ex_value. cbn [pdom active negb odis ohdr plain_hdr kname oname].
    assert (L : forall m v t, format_obj m v = Ok t -> extract_obj (fun _ => None) (fun s => Some s) t = Ok v ->
                exists t, format_obj m v = Ok t /\ extract_obj (fun _ => None) (fun s => Some s) t = Ok v) by eauto.
    eexists. split; [reflexivity|]. split; [reflexivity|].
    split; [eapply L; [vm_compute; reflexivity|vm_compute; reflexivity]|].
    split; [reflexivity|]. split; [|reflexivity].
    eexists. split; [reflexivity|]. split; [reflexivity|].
    split; [eapply L; [vm_compute; reflexivity|vm_compute; reflexivity]|].
    split; [reflexivity|]. split; [eapply L; [vm_compute; reflexivity|vm_compute; reflexivity]|]. reflexivity.
Qed.
Definition ex_master_m : obj :=
  Scp (plain_hdr []) [
    Def (plain_hdr (s_ "a")) [uw (s_ "1")] [(s_ "type", AType (TyInt None None true)); (s_ "multiple", ABool true)];
    Scp (plain_hdr (s_ "s")) [
      Def (plain_hdr (s_ "b")) [qw (s_ "x")] [(s_ "type", AType TyStr)]] [(s_ "multiple", ABool true); (s_ "optional", ABool true)];
    Def (plain_hdr (s_ "c")) [uw (s_ "k")] [(s_ "type", AType TyKey); (s_ "multiple", ABool true)]] [].
Definition ex_value_m : pyval :=
  VScope (Ext [] [(s_ "a", VScopeList ANone [VNum (Conv.NInt 3); VNone; VNum (Conv.NInt (-4))]);
                  (s_ "s", VScopeList (ABool true) [VScope (Ext (s_ "s") [(s_ "b", VStr (s_ "p"))]);
                                                    VScope (Ext (s_ "s") [(s_ "b", VStr (s_ "q"))])]);
                  (s_ "c", VScopeList ANone [])]).
Example C09_scope_multi_example : wf_m ex_master_m /\ pdom_m (fun _ => None) (fun s => Some s) ex_master_m ex_value_m.
Proof.
  assert (L : forall m v t, format_obj m v = Ok t -> extract_obj (fun _ => None) (fun s => Some s) t = Ok v ->
              exists t, format_obj m v = Ok t /\ extract_obj (fun _ => None) (fun s => Some s) t = Ok v) by eauto.
  split.
  - vm_compute. split.
    + repeat constructor; cbn [In]; intuition discriminate.
    + repeat split; try (intros _); repeat split; try reflexivity. repeat constructor; cbn [In]; intuition discriminate.
  - unfold ex_master_m, ex_value_m. cbn [pdom_m active negb odis ohdr plain_hdr kname oname].
    eexists. split; [reflexivity|]. split; [reflexivity|]. split.
    { change (omultiple (Def (plain_hdr (s_ "a")) [uw (s_ "1")]
                [(s_ "type", AType (TyInt None None true)); (s_ "multiple", ABool true)])) with true. cbv iota.
      eexists. split; [reflexivity|]. repeat split; try (eapply L; [vm_compute; reflexivity|vm_compute; reflexivity]). }
    split; [reflexivity|]. split.
    { match goal with |- if omultiple ?k then _ else _ => change (omultiple k) with true end. cbv iota.
      eexists. split; [reflexivity|].
      split; [split; [|reflexivity]|split; [split; [|reflexivity]|exact I]];
        (eexists; split; [reflexivity|]; split; [reflexivity|]; split;
         [eapply L; [vm_compute; reflexivity|vm_compute; reflexivity]|reflexivity]). }
    split; [reflexivity|]. split; [|reflexivity].
    match goal with |- if omultiple ?k then _ else _ => change (omultiple k) with true end. cbv iota.
    eexists. split; [reflexivity|exact I].
Qed.
Example C09_int_example : (Z.abs (-12345678901234567890) < B4300)%Z /\ zbounds (Some 0%Z) None 5%Z.
Proof. split; [apply small_lt_B4300; apply Z.ltb_lt; vm_compute; reflexivity|]. split; intros b E; inversion E; subst; apply Z.leb_le; reflexivity. Qed.
Example C09_choice_example : wf_alts [uw (s_ "*a"); uw (s_ "b")] /\ In (s_ "b") (anames [uw (s_ "*a"); uw (s_ "b")]).
Proof.
  split; [split|right; left; reflexivity].
  - repeat constructor; cbn; intuition discriminate.
  - repeat constructor; try reflexivity; discriminate.
Qed.
