(* C13 - Includes behave as textual inlining; every include cycle is detected.
   This file holds only the property theorems; each is closed by [exact] of a lemma proved in
   Proofs/IncludeProofs.v and followed by Print Assumptions.

   Model (Model/Include.v): [includes isc fs cwd fuel stack file] mirrors
   parse(file_name=file, process_includes=True, include_stack=stack) + scope.process_includes;
   [includes_file] / [includes_string] are the two ways in (root = file / root = string) with the
   fuel the executable model uses (twice the number of table entries + 1: a file can be on
   the stack as "/x" and as "//x").  [fs] (files + parser), [cwd]
   and [isc] ("include scope") are oracles; the theorems hold for every value of them.
   Specification (Proofs/IncludeSpec.v): [Expands isc fs cwd chk stack file t] - replace every
   active "include file" line by the expansion of the named file, recursively, relative names
   resolved against the directory of the including file; chk = false: no cycle test at all
   (the specification proper), chk = true: derivations in which no file is re-entered while it is
   being expanded.  Include graph: [edge], [chain], [reach], [cyclic_from], [acyclic_from].

   The text-level clause ("the same tree as parsing the textually inlined text"; Proofs/ParserCompose.v,
   Proofs/IncludeText.v).  The parser is compositional at object boundaries (C13_parse_app): if a parses,
   ends with a newline, holds no #phil directive and does not end in a continuation backslash, and the
   first token of b cannot continue a's last value ([value_stops b]: e.g. b starts with a name; a quoted
   word at the start of b WOULD continue it - boundary Example), then parse (a ++ b) is parse a followed
   by parse b up to ids and line numbers ([erase_obj]: everything else, all attributes included, is
   kept).  Hence replacing one include line by the file's text and replacing the include object by the
   file's tree commute (C13_include_line_inline), and for files given as a list of segments (plain
   text piece / top-level include line) the tree the model of parse(process_includes=True) returns is
   the parse of the recursively inlined text, any depth of nesting between files, diamonds allowed
   (C13_includes_text_toplevel_partial: include lines at top level of each file).  Include lines INSIDE
   scopes at any nesting depth (Proofs/IncludeTextScopes.v): files as segment TREES (plain piece /
   include line / scope with a body of segments); C13_scope_parse - the parse of "name {" body "}" is the
   scope holding the parse of the body -, and C13_includes_text_scopes_partial: the include-processed tree
   is the parse of the inlined text; a disabled scope is left alone (as the code does).  _partial: a scope
   that holds an active include is laid out as header line / body / closing-brace line, has no
   attributes on its header and an undotted name; an include line occupies a whole line; 'include scope'
   is not covered (checked on the implementation by the oracle of the correspondence stream:
   harness/streams/c13.py builds the inlined text by textual substitution and compares parse(inlined)
   with the include-processed tree). *)
From Coq Require Import List Ascii String ZArith.
From Phil Require Import Base Tokenizer Tree Parser Include IncludeSpec IncludeProofs IncludeExamples
  ShowErase ParserCompose IncludeText.
From Phil Require IncludeTextScopes.
Import ListNotations.

(* whatever the model returns is an expansion in the sense of the specification - for every
   fuel and stack, not only at the entry point *)
Theorem C13_sound : forall isc fs cwd fuel stack file t,
  includes isc fs cwd fuel stack file = Ok t ->
  Expands isc fs cwd true stack file t /\ Expands isc fs cwd false stack file t.
Proof. exact includes_sound_spec. Qed.
Print Assumptions C13_sound.

(* every expansion with an acyclic derivation is what the entry point returns *)
Theorem C13_complete : forall isc fs cwd file t,
  Expands isc fs cwd true [] file t -> includes_file isc fs cwd file = Ok t.
Proof. exact includes_complete_entry. Qed.
Print Assumptions C13_complete.

(* when the include graph reachable from the root has no cycle (diamonds allowed) the model
   returns exactly the inlining without any cycle test *)
Theorem C13_inlining_when_acyclic : forall isc fs cwd file t,
  acyclic_from fs cwd (nrm cwd file) ->
  (includes_file isc fs cwd file = Ok t <-> Expands isc fs cwd false [] file t).
Proof. exact acyclic_inlining. Qed.
Print Assumptions C13_inlining_when_acyclic.

(* a cycle reachable from the root is never swallowed; if moreover every reachable file exists,
   parses and has well-formed include lines, the outcome is the IncludeCycle error and its
   text names a genuine chain of include edges from the root whose last element repeats *)
Theorem C13_cycle_detected : forall isc fs cwd file,
  cyclic_from fs cwd (nrm cwd file) ->
  (forall t, includes_file isc fs cwd file <> Ok t) /\
  ((forall n, reach fs cwd (nrm cwd file) n -> clean isc fs n) ->
   exists tok, includes_file isc fs cwd file = UErr k_cycle tok 0
               /\ genuine_cycle_report fs cwd [nrm cwd file] tok).
Proof. exact cycle_detected. Qed.
Print Assumptions C13_cycle_detected.

(* any IncludeCycle error, on any file system: the reported chain is genuine *)
Theorem C13_cycle_report_genuine : forall isc fs cwd file tok ln,
  includes_file isc fs cwd file = UErr k_cycle tok ln ->
  ln = 0 /\ genuine_cycle_report fs cwd [nrm cwd file] tok.
Proof. exact cycle_report_genuine. Qed.
Print Assumptions C13_cycle_report_genuine.

Theorem C13_no_false_cycle : forall isc fs cwd file tok ln,
  acyclic_from fs cwd (nrm cwd file) -> includes_file isc fs cwd file <> UErr k_cycle tok ln.
Proof. exact no_false_cycle_entry. Qed.
Print Assumptions C13_no_false_cycle.

(* the fuel of the entry points is never exhausted, for every (finite) file table *)
Theorem C13_terminates : forall isc fs cwd,
  (forall file, includes_file isc fs cwd file <> Crash c_fuel) /\
  (forall objs, includes_string isc fs cwd objs <> Crash c_fuel).
Proof. exact terminates_entry. Qed.
Print Assumptions C13_terminates.

(* the current directory plays no role once the root name is absolute, and a relative include
   name is looked up in the directory of the including file *)
Theorem C13_relative_to_includer : forall isc fs cwd1 cwd2,
  (forall file, isabs file = true -> includes_file isc fs cwd1 file = includes_file isc fs cwd2 file) /\
  (forall n x, isabs n = true ->
     nrm cwd1 (resolve (Some (dirname n)) x)
     = normpath (normpath (if isabs x then x else join (dirname n) x))).
Proof. exact relative_to_includer. Qed.
Print Assumptions C13_relative_to_includer.

(* non-vacuity *)
Example C13_example_diamond :
  acyclic_from fs_dia cwd_x (nrm cwd_x pa) /\
  includes_file isc0 fs_dia cwd_x pa =
  Ok [dfn "x" "1"; dfn "b" "2"; dfn "c" "3"; scp "s" [dfn "b" "2"; dfn "c" "3"; dfn "y" "2"]].
Proof. exact (conj ex_dia_acyclic ex_dia_result). Qed.

Example C13_example_cycle :
  cyclic_from fs_cyc cwd_x (nrm cwd_x pa) /\
  (forall n, reach fs_cyc cwd_x (nrm cwd_x pa) n -> clean isc0 fs_cyc n) /\
  includes_file isc0 fs_cyc cwd_x pa =
  UErr k_cycle (s_ "/r/a.phil, /r/sub/b.phil, /r/sub/deep/c.phil, /r/a.phil") 0.
Proof. exact (conj ex_cyc_cyclic (conj ex_cyc_clean ex_cyc_result)). Qed.

Example C13_example_relative_root :
  includes_file isc0 fs_dia (s_ "/r/sub") (s_ "../a.phil") = includes_file isc0 fs_dia cwd_x pa.
Proof. exact ex_rel_root. Qed.

Example C13_example_double_slash :
  includes_file isc0 fs_ds cwd_x pa =
  UErr k_cycle (s_ "/r/a.phil, //r/sub/b.phil, //r/a.phil, //r/sub/b.phil") 0.
Proof. exact ex_dslash. Qed.

(* ---------- the text-level clause *)
(* the parser is compositional at object boundaries *)
Theorem C13_parse_app : forall o a b la lb,
  parse o a = Ok la -> ends_nl a = true -> occurs intro a = false -> lnb a <> Some bs ->
  value_stops b -> parse o b = Ok lb ->
  exists l, parse o (a ++ b) = Ok l /\ map erase_obj l = map erase_obj (la ++ lb).
Proof. exact parse_app. Qed.
Print Assumptions C13_parse_app.

(* an error of the second part is the error of the whole (attribute errors excepted: an attribute
   at the start of b attaches to the last definition of a) *)
Theorem C13_parse_app_error : forall o a b la kd t ln,
  parse o a = Ok la -> ends_nl a = true -> occurs intro a = false -> lnb a <> Some bs ->
  value_stops b -> parse o b = UErr kd t ln -> kd <> k_uda ->
  exists ln', parse o (a ++ b) = UErr kd t ln'.
Proof. exact parse_app_err. Qed.
Print Assumptions C13_parse_app_error.

(* one include line: inlining the text and splicing the tree commute *)
Theorem C13_include_line_inline : forall o pre name content post lpre lc lpost,
  parse o pre = Ok lpre -> ends_nl pre = true -> occurs intro pre = false -> lnb pre <> Some bs ->
  plain_name name = true ->
  parse o content = Ok lc -> ends_nl content = true -> occurs intro content = false ->
  lnb content <> Some bs -> value_stops content ->
  parse o post = Ok lpost -> value_stops post ->
  (exists l, parse o (pre ++ content ++ post) = Ok l
             /\ map erase_obj l = map erase_obj (lpre ++ lc ++ lpost))
  /\ (exists l, parse o (pre ++ incl_line name ++ post) = Ok l
                /\ map erase_obj l = map erase_obj (lpre ++ [incl_obj name 0 0] ++ lpost)).
Proof. exact include_line_inline. Qed.
Print Assumptions C13_include_line_inline.

(* whole files, any depth: the include-processed tree is the parse of the inlined text *)
Theorem C13_includes_text_toplevel_partial : forall o isc tt cwd, good_table o tt ->
  forall file ps, FlatF tt cwd [] file ps ->
  exists t l, includes_file isc (fs_of o tt) cwd file = Ok t
              /\ parse o (List.concat ps) = Ok l /\ map erase_obj l = map erase_obj t.
Proof. exact includes_text_toplevel_partial. Qed.
Print Assumptions C13_includes_text_toplevel_partial.

(* non-vacuity: three files (a includes sub/b and c; b includes ../c), attributes, quoted words, a
   disabled definition; and the boundary of the relation *)
Example C13_includes_text_example : exists t l,
  includes_file isc0 (fs_of [] ex_tt) ex_cwd ex_pa = Ok t
  /\ parse [] ex_inlined = Ok l /\ map erase_obj l = map erase_obj t.
Proof. exact ex_includes_text. Qed.
Example C13_table_is_good : good_table [] ex_tt.
Proof. exact ex_good. Qed.
Example C13_scope_include_not_covered :
  forallb noinc (ok_list (parse [] (s_ "s {
  include file c.phil
}
"))) = false.
Proof. exact ex_scope_include_not_covered. Qed.

(* ---------- include lines inside scopes (Proofs/IncludeTextScopes.v; its names are qualified: it
   re-uses the names seg / FlatF / good_table / fs_of of IncludeText for the segment-tree versions) *)
Theorem C13_scope_parse : forall o ind dis n body lb,
  TreeRoundtrip.blank ind -> TreeRoundtrip.name_ok n = true -> body = [] \/ complete body -> parse o body = Ok lb ->
  exists kids, parse o (IncludeTextScopes.scope_text ind dis n body) = Ok [Scp (mkhdr n dis 0%Z false 1 1) kids []]
               /\ map erase_obj kids = map erase_obj lb.
Proof. exact IncludeTextScopes.scope_parse. Qed.
Print Assumptions C13_scope_parse.

Theorem C13_includes_text_scopes_partial : forall o isc tt cwd, IncludeTextScopes.good_table o tt ->
  forall file out, IncludeTextScopes.FlatF tt cwd [] file out ->
  exists t l, includes_file isc (IncludeTextScopes.fs_of o tt) cwd file = Ok t
              /\ parse o (IncludeTextScopes.text_of out) = Ok l /\ map erase_obj l = map erase_obj t.
Proof. exact IncludeTextScopes.includes_text_scopes_partial. Qed.
Print Assumptions C13_includes_text_scopes_partial.

Example C13_includes_text_scopes_example : IncludeTextScopes.good_table [] IncludeTextScopes.ex_tt.
Proof. exact IncludeTextScopes.ex_good. Qed.
