(* C13 - Includes behave as textual inlining; every include cycle is detected.
   This file holds only the property theorems; each is closed by [exact] of a lemma proved in
   Proofs/IncludeProofs.v and followed by Print Assumptions.

   Model (Model/Include.v): [includes isc fs cwd fuel stack file] mirrors
   parse(file_name=file, process_includes=True, include_stack=stack) + scope.process_includes;
   [includes_file] / [includes_string] are the two ways in (root = file / root = string) with the
   fuel the executable model uses (twice the number of table entries + 1: a file can be on
   the stack as "/x" and as "//x").  [fs] (files + parser), [cwd]
   and [isc] ("include scope") are oracles; the theorems hold for every value of them.
   Specification (Proofs/IncludeSpec.v): [Expands isc fs cwd chk stack file t] - replace every
   active "include file" line by the expansion of the named file, recursively, relative names
   resolved against the directory of the including file; chk = false: no cycle test at all
   (the specification proper), chk = true: derivations in which no file is re-entered while it is
   being expanded.  Include graph: [edge], [chain], [reach], [cyclic_from], [acyclic_from].

   NOT proved here: the text-level clause of the property ("the same tree as parsing the
   textually inlined text").  It needs compositionality of the parser at object boundaries,
   which belongs to the parser model.  That clause is checked on the implementation by the
   oracle of the correspondence stream (harness/streams/c13.py builds the inlined text by
   textual substitution and compares parse(inlined) with the include-processed tree). *)
From Coq Require Import List Ascii String.
From Phil Require Import Base Tree Include IncludeSpec IncludeProofs IncludeExamples.
Import ListNotations.

(* whatever the model returns is an expansion in the sense of the specification - for every
   fuel and stack, not only at the entry point *)
Theorem C13_sound : forall isc fs cwd fuel stack file t,
  includes isc fs cwd fuel stack file = Ok t ->
  Expands isc fs cwd true stack file t /\ Expands isc fs cwd false stack file t.
Proof. exact includes_sound_spec. Qed.
Print Assumptions C13_sound.

(* every expansion with an acyclic derivation is what the entry point returns *)
Theorem C13_complete : forall isc fs cwd file t,
  Expands isc fs cwd true [] file t -> includes_file isc fs cwd file = Ok t.
Proof. exact includes_complete_entry. Qed.
Print Assumptions C13_complete.

(* when the include graph reachable from the root has no cycle (diamonds allowed) the model
   returns exactly the inlining without any cycle test *)
Theorem C13_inlining_when_acyclic : forall isc fs cwd file t,
  acyclic_from fs cwd (nrm cwd file) ->
  (includes_file isc fs cwd file = Ok t <-> Expands isc fs cwd false [] file t).
Proof. exact acyclic_inlining. Qed.
Print Assumptions C13_inlining_when_acyclic.

(* a cycle reachable from the root is never swallowed; if moreover every reachable file exists,
   parses and has well-formed include lines, the outcome is the IncludeCycle error and its
   text names a genuine chain of include edges from the root whose last element repeats *)
Theorem C13_cycle_detected : forall isc fs cwd file,
  cyclic_from fs cwd (nrm cwd file) ->
  (forall t, includes_file isc fs cwd file <> Ok t) /\
  ((forall n, reach fs cwd (nrm cwd file) n -> clean isc fs n) ->
   exists tok, includes_file isc fs cwd file = UErr k_cycle tok 0
               /\ genuine_cycle_report fs cwd [nrm cwd file] tok).
Proof. exact cycle_detected. Qed.
Print Assumptions C13_cycle_detected.

(* any IncludeCycle error, on any file system: the reported chain is genuine *)
Theorem C13_cycle_report_genuine : forall isc fs cwd file tok ln,
  includes_file isc fs cwd file = UErr k_cycle tok ln ->
  ln = 0 /\ genuine_cycle_report fs cwd [nrm cwd file] tok.
Proof. exact cycle_report_genuine. Qed.
Print Assumptions C13_cycle_report_genuine.

Theorem C13_no_false_cycle : forall isc fs cwd file tok ln,
  acyclic_from fs cwd (nrm cwd file) -> includes_file isc fs cwd file <> UErr k_cycle tok ln.
Proof. exact no_false_cycle_entry. Qed.
Print Assumptions C13_no_false_cycle.

(* the fuel of the entry points is never exhausted, for every (finite) file table *)
Theorem C13_terminates : forall isc fs cwd,
  (forall file, includes_file isc fs cwd file <> Crash c_fuel) /\
  (forall objs, includes_string isc fs cwd objs <> Crash c_fuel).
Proof. exact terminates_entry. Qed.
Print Assumptions C13_terminates.

(* the current directory plays no role once the root name is absolute, and a relative include
   name is looked up in the directory of the including file *)
Theorem C13_relative_to_includer : forall isc fs cwd1 cwd2,
  (forall file, isabs file = true -> includes_file isc fs cwd1 file = includes_file isc fs cwd2 file) /\
  (forall n x, isabs n = true ->
     nrm cwd1 (resolve (Some (dirname n)) x)
     = normpath (normpath (if isabs x then x else join (dirname n) x))).
Proof. exact relative_to_includer. Qed.
Print Assumptions C13_relative_to_includer.

(* non-vacuity *)
Example C13_example_diamond :
  acyclic_from fs_dia cwd_x (nrm cwd_x pa) /\
  includes_file isc0 fs_dia cwd_x pa =
  Ok [dfn "x" "1"; dfn "b" "2"; dfn "c" "3"; scp "s" [dfn "b" "2"; dfn "c" "3"; dfn "y" "2"]].
Proof. exact (conj ex_dia_acyclic ex_dia_result). Qed.

Example C13_example_cycle :
  cyclic_from fs_cyc cwd_x (nrm cwd_x pa) /\
  (forall n, reach fs_cyc cwd_x (nrm cwd_x pa) n -> clean isc0 fs_cyc n) /\
  includes_file isc0 fs_cyc cwd_x pa =
  UErr k_cycle (s_ "/r/a.phil, /r/sub/b.phil, /r/sub/deep/c.phil, /r/a.phil") 0.
Proof. exact (conj ex_cyc_cyclic (conj ex_cyc_clean ex_cyc_result)). Qed.

Example C13_example_relative_root :
  includes_file isc0 fs_dia (s_ "/r/sub") (s_ "../a.phil") = includes_file isc0 fs_dia cwd_x pa.
Proof. exact ex_rel_root. Qed.

Example C13_example_double_slash :
  includes_file isc0 fs_ds cwd_x pa =
  UErr k_cycle (s_ "/r/a.phil, //r/sub/b.phil, //r/a.phil, //r/sub/b.phil") 0.
Proof. exact ex_dslash. Qed.
