(* C17 - Operations are pure: inputs unchanged, results repeatable, copies faithful.    PARTIAL.
   Purity is a statement about mutation and object identity; values of the Coq model are immutable, so
   the model cannot exhibit a violation and purity of the model is not a theorem worth stating.
   What is proved here: the printed form (the property's notion of "observably the same") is a function
   of the structural tree alone - primary ids and line numbers, the only header fields in which an
   object and its deepcopy / pickle / re-parsed copy may differ, never reach the text, at any level,
   width or prefix.  Hence a copy that preserves structure prints identically.
   Also proved: the ONLY field the implementation writes on pre-existing objects during fetch - the scratch
   mark tmp of source definitions - cannot influence any later fetch: whatever marks earlier calls left
   behind, a (tracked or untracked) fetch returns the same tree and the same unused list
   (C17_stale_tmp_marks_cannot_influence_fetch, C17_tracking_does_not_change_the_result).
   What ties the property to the code: the C17 stream's write monitor (only the scratch mark 'tmp'
   may be written on pre-existing objects), snapshots of every long-lived object after every call of
   random call histories, repeated calls compared, identity checks on copies. *)
From Coq Require Import List Ascii String ZArith.
From Phil Require Import Base Tokenizer Tree Parser Show ShowProofs ShowErase Vars Choice Fetch FetchBasics FetchTrack.
Import ListNotations.

Theorem C17_print_depends_on_structure_only_partial : forall l l' prefix expert level width,
  map erase_obj l = map erase_obj l' ->
  show_objs l prefix expert level width = show_objs l' prefix expert level width.
Proof. exact same_structure_same_text. Qed.
Print Assumptions C17_print_depends_on_structure_only_partial.

Theorem C17_print_ignores_ids_and_lines_partial : forall l prefix expert level width,
  show_objs (map erase_obj l) prefix expert level width = show_objs l prefix expert level width.
Proof. exact show_objs_erase. Qed.
Print Assumptions C17_print_ignores_ids_and_lines_partial.

Theorem C17_stale_tmp_marks_cannot_influence_fetch : forall env canon diff marks0 marks0' m srcs,
  fetch_track_marks env canon diff marks0 m srcs = fetch_track_marks env canon diff marks0' m srcs.
Proof. exact stale_marks_irrelevant. Qed.
Print Assumptions C17_stale_tmp_marks_cannot_influence_fetch.

Theorem C17_tracking_does_not_change_the_result : forall env canon diff marks0 m srcs,
  rmap fst (fetch_track_marks env canon diff marks0 m srcs) = fetch env canon diff m srcs.
Proof. exact track_result_unchanged. Qed.
Print Assumptions C17_tracking_does_not_change_the_result.

Example C17_example :
  match parse [] (s_ "a = 1
s { b = 'x' }"), parse [] (s_ "


a = 1
s {
  b = 'x' }") with
  | Ok l, Ok l' => andb (negb (match l, l' with o :: _, o' :: _ => Nat.eqb (oline (ohdr o)) (oline (ohdr o')) | _, _ => true end))
                        (match as_str l [] None 3 None, as_str l' [] None 3 None with
                         | Ok t, Ok t' => eqs t t' | _, _ => false end)
  | _, _ => false end = true.
Proof. vm_compute. reflexivity. Qed.
