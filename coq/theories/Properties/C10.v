(* C10 - Extraction never yields a value outside the parameter's declared type.
   The model is Model/Conv.v (from_words of bool / int / float / ints / floats converters with all
   constructor arguments); eval is the oracle [pyeval], universally quantified in every theorem.
   This file holds only the property theorems; each is closed by [exact] of a lemma proved in
   Proofs/Conv*.v and followed by Print Assumptions. *)
From Coq Require Import List Ascii String Bool ZArith.
From Phil Require Import Base Conv EntryConv ConvProofs ConvSpell ConvList.
Import ListNotations.
Local Open Scope char_scope.

(* ---------------------------------------------------------------- result domains *)

(* in_bounds lo hi n  :=  (value_min = Some b -> b <= n) /\ (value_max = Some b -> n <= b)  in the exact order
   of Python numbers; a comparison involving NaN is false, so neither a NaN value nor a NaN bound passes.

   int: None only if allow_none, Auto, or an integer (a Python int, or the bool that eval returned:
   bool is a subclass of int and int_from_number hands it back unchanged) within the bounds *)
Theorem C10_int_domain : forall pyeval c ws v,
  from_words pyeval (CInt c) ws = Ok v ->
  (v = PNone /\ allow_none c = true) \/ v = PAuto \/
  exists n, v = PNum n /\ intlike n /\ in_bounds (vmin c) (vmax c) n.
Proof. exact int_domain. Qed.
Print Assumptions C10_int_domain.

(* float: a float (finite, -0.0, inf, nan) with value_min <= n <= value_max *)
Theorem C10_float_domain : forall pyeval c ws v,
  from_words pyeval (CFloat c) ws = Ok v ->
  (v = PNone /\ allow_none c = true) \/ v = PAuto \/
  exists n, v = PNum n /\ floatlike n /\ in_bounds (vmin c) (vmax c) n.
Proof. exact float_domain. Qed.
Print Assumptions C10_float_domain.

Theorem C10_bool_domain : forall pyeval ws v,
  from_words pyeval CBool ws = Ok v -> v = PNone \/ v = PAuto \/ exists b, v = PNum (NBool b).
Proof. exact bool_domain. Qed.
Print Assumptions C10_bool_domain.

(* lists: length within size_min/size_max; every element an integer in bounds, or None/Auto when enabled *)
Theorem C10_ints_domain : forall pyeval c ws v,
  from_words pyeval (CInts c) ws = Ok v ->
  v = PNone \/ v = PAuto \/
  exists l, v = PList l /\ size_ok (smin c) (smax c) (length l) /\ Forall (elem_ok true c) l.
Proof. exact ints_domain. Qed.
Print Assumptions C10_ints_domain.

Theorem C10_floats_domain : forall pyeval c ws v,
  from_words pyeval (CFloats c) ws = Ok v ->
  v = PNone \/ v = PAuto \/
  exists l, v = PList l /\ size_ok (smin c) (smax c) (length l) /\ Forall (elem_ok false c) l.
Proof. exact floats_domain. Qed.
Print Assumptions C10_floats_domain.

(* an int parameter never yields a float: no non-integral value, no inf, no nan *)
Theorem C10_int_never_nonintegral : forall pyeval c ws n,
  from_words pyeval (CInt c) ws = Ok (PNum n) -> ~ floatlike n.
Proof. exact int_never_float. Qed.
Print Assumptions C10_int_never_nonintegral.

Theorem C10_ints_never_nonintegral : forall pyeval c ws l n,
  from_words pyeval (CInts c) ws = Ok (PList l) -> In (PNum n) l -> ~ floatlike n.
Proof. exact ints_never_float. Qed.
Print Assumptions C10_ints_never_nonintegral.

(* when a float is accepted for an int, the int is exactly its value *)
Theorem C10_int_value_exact : forall m e ws n,
  int_from_number (VNum (NFlt m e)) ws = Ok n -> exists z, n = NInt z /\ fin_cmp z 0 m e = Eq.
Proof. exact int_from_number_exact. Qed.
Print Assumptions C10_int_value_exact.

(* with value_min or value_max declared, the result is never NaN (former finding F6-nan, repaired) *)
Theorem C10_float_bounded_never_nan : forall pyeval c ws,
  vmin c <> None \/ vmax c <> None -> from_words pyeval (CFloat c) ws <> Ok (PNum NNaN).
Proof. exact float_bounded_never_nan. Qed.
Print Assumptions C10_float_bounded_never_nan.

Theorem C10_floats_bounded_never_nan : forall pyeval c ws l,
  lvmin c <> None \/ lvmax c <> None -> from_words pyeval (CFloats c) ws = Ok (PList l) -> ~ In (PNum NNaN) l.
Proof. exact floats_bounded_never_nan. Qed.
Print Assumptions C10_floats_bounded_never_nan.

(* in general: being within declared bounds excludes NaN on either side *)
Theorem C10_bounds_exclude_nan : forall lo hi n,
  in_bounds lo hi n -> (lo <> None \/ hi <> None -> n <> NNaN) /\ lo <> Some NNaN /\ hi <> Some NNaN.
Proof. exact (fun lo hi n H => conj (in_bounds_not_nan lo hi n H) (in_bounds_bound_not_nan lo hi n H)). Qed.
Print Assumptions C10_bounds_exclude_nan.

(* the order is total away from NaN, and <= excludes the converse < *)
Theorem C10_order_total : forall a b,
  num_lt a b = false -> a <> NNaN -> b <> NNaN -> num_le b a = true.
Proof. exact num_lt_false_le. Qed.
Print Assumptions C10_order_total.

Theorem C10_order_le_not_gt : forall a b, num_le a b = true -> num_lt b a = false.
Proof. exact num_le_lt_excl. Qed.
Print Assumptions C10_order_le_not_gt.

(* ---------------------------------------------------------------- accepted spellings *)

(* true/yes/on/1 and false/no/off/0 in any case (the hypothesis is on the lower-cased text),
   quoted or not, on any line *)
Theorem C10_spell_bool_true : forall w,
  mems (lowers (wv w)) trues = true -> bool_from_words [w] = Ok (PNum (NBool true)).
Proof. exact bool_true_spellings. Qed.
Print Assumptions C10_spell_bool_true.

Theorem C10_spell_bool_false : forall w,
  mems (lowers (wv w)) falses = true -> bool_from_words [w] = Ok (PNum (NBool false)).
Proof. exact bool_false_spellings. Qed.
Print Assumptions C10_spell_bool_false.

(* None / Auto in any case *)
Theorem C10_spell_none_scalar : forall pyeval isint c w,
  isq w = false -> lowers (wv w) = none_s ->
  number_conv_from_words pyeval isint c [w] = if allow_none c then Ok PNone else UErr (s_ "CannotBeNone") [] 0.
Proof. exact none_spelling_scalar. Qed.
Print Assumptions C10_spell_none_scalar.

Theorem C10_spell_auto_scalar : forall pyeval isint c w,
  isq w = false -> lowers (wv w) = auto_s -> number_conv_from_words pyeval isint c [w] = Ok PAuto.
Proof. exact auto_spelling_scalar. Qed.
Print Assumptions C10_spell_auto_scalar.

Theorem C10_spell_none_list : forall pyeval isint c w,
  isq w = false -> lowers (wv w) = none_s -> numbers_conv_from_words pyeval isint c [w] = Ok PNone.
Proof. exact none_spelling_list. Qed.
Print Assumptions C10_spell_none_list.

Theorem C10_spell_auto_list : forall pyeval isint c w,
  isq w = false -> lowers (wv w) = auto_s -> numbers_conv_from_words pyeval isint c [w] = Ok PAuto.
Proof. exact auto_spelling_list. Qed.
Print Assumptions C10_spell_auto_list.

(* integer-valued expressions are accepted for int: 4/2 (eval gives 2.0 = 1*2^1), 1e3 (= 125*2^3) *)
Theorem C10_spell_4_over_2 : forall pyeval an,
  pyeval (s_ "4/2") = Some (ENum (NFlt 1 1)) ->
  from_words pyeval (CInt (mknconv None None an)) [uw (s_ "4/2")] = Ok (PNum (NInt 2)).
Proof. exact spelling_4_over_2. Qed.
Print Assumptions C10_spell_4_over_2.

Theorem C10_spell_1e3 : forall pyeval an,
  pyeval (s_ "1e3") = Some (ENum (NFlt 125 3)) ->
  from_words pyeval (CInt (mknconv None None an)) [uw (s_ "1e3")] = Ok (PNum (NInt 1000)).
Proof. exact spelling_1e3. Qed.
Print Assumptions C10_spell_1e3.

(* and a non-integral one is refused *)
Theorem C10_spell_nonintegral_refused : forall pyeval an m e,
  pyeval (s_ "1/3") = Some (ENum (NFlt m e)) -> flt_integral m e = None ->
  from_words pyeval (CInt (mknconv None None an)) [uw (s_ "1/3")] = UErr (s_ "NotInteger") [] 0.
Proof. exact spelling_1_over_3_refused. Qed.
Print Assumptions C10_spell_nonintegral_refused.

(* list syntax: one enclosing pair of ( ) or [ ] around the whole text is immaterial *)
Theorem C10_list_brackets : forall pyeval ws o c s,
  is_pair o c -> numbers_of_text pyeval ws (o :: s ++ [c]) = numbers_of_text pyeval ws (strip s).
Proof. exact numbers_of_text_wrap. Qed.
Print Assumptions C10_list_brackets.

(* commas and semicolons are interchangeable (any map that moves separators among themselves) *)
Theorem C10_list_separators : forall pyeval ws g s,
  sep_preserving g -> numbers_of_text pyeval ws (map g s) = numbers_of_text pyeval ws s.
Proof. exact numbers_of_text_sep. Qed.
Print Assumptions C10_list_separators.

(* the bracket-stripping loop is modelled with fuel: any fuel above the length gives the same text,
   and at that text the loop's exit condition holds (it was not cut short) *)
Theorem C10_brackets_fuel : forall f1 f2 s,
  length s < f1 -> length s < f2 -> unbracket f1 s = unbracket f2 s.
Proof. exact unbracket_fuel. Qed.
Print Assumptions C10_brackets_fuel.

Theorem C10_brackets_loop_exit : forall f s, length s < f -> step (unbracket f s) = None.
Proof. exact unbracket_normal. Qed.
Print Assumptions C10_brackets_loop_exit.

(* ---------------------------------------------------------------- non-vacuity *)
Definition ex_oracle : str -> option evr :=
  lookup_ev [(s_ "4/2", ENum (NFlt 1 1)); (s_ "1e3", ENum (NFlt 125 3)); (s_ "2.5", ENum (NFlt 5 (-1)));
             (s_ "inf", ENum (NInf false)); (s_ "sin", EOther); (s_ "1+", ERaise); (s_ "(True)", ENum (NBool true))].
Definition ex_int := CInt (mknconv (Some (NInt 0)) (Some (NFlt 5 (-1))) false).          (* int(value_min=0, value_max=2.5, allow_none=False) *)
Definition ex_ints := CInts (mklconv (Some 2%Z) (Some 3%Z) (Some (NInt 0)) None true false).  (* ints(size_min=2, size_max=3, value_min=0, allow_none_elements=True) *)
Definition w1 (s:string) : list word := [mkword (s_ s) QN 1].

Example C10_ex_int_ok : from_words ex_oracle ex_int (w1 "4/2") = Ok (PNum (NInt 2)).
Proof. vm_compute. reflexivity. Qed.
Example C10_ex_int_above : from_words ex_oracle ex_int (w1 "1e3") = UErr (s_ "AboveMax") [] 1.
Proof. vm_compute. reflexivity. Qed.
Example C10_ex_int_float : from_words ex_oracle ex_int (w1 "2.5") = UErr (s_ "NotInteger") [] 1.
Proof. vm_compute. reflexivity. Qed.
Example C10_ex_int_none : from_words ex_oracle ex_int (w1 "NoNe") = UErr (s_ "CannotBeNone") [] 0.
Proof. vm_compute. reflexivity. Qed.
Example C10_ex_int_bool : from_words ex_oracle ex_int (w1 "(True)") = Ok (PNum (NBool true)).
Proof. vm_compute. reflexivity. Qed.
Example C10_ex_int_inf : from_words ex_oracle ex_int (w1 "inf") = UErr (s_ "NotInteger") [] 1.
Proof. vm_compute. reflexivity. Qed.
(* nan with a bound is refused: BelowMin when value_min is set, else AboveMax; accepted without bounds *)
Definition nan_oracle : str -> option evr := lookup_ev [(s_ "nan", ENum NNaN); (s_ "10**400", ENum (NInt (10 ^ 400)))].
Example C10_ex_nan_min :
  from_words nan_oracle (CFloat (mknconv (Some (NInt 0)) (Some (NInt 3)) true)) (w1 "nan") = UErr (s_ "BelowMin") [] 1.
Proof. vm_compute. reflexivity. Qed.
Example C10_ex_nan_max :
  from_words nan_oracle (CFloat (mknconv None (Some (NInt 3)) true)) (w1 "nan") = UErr (s_ "AboveMax") [] 1.
Proof. vm_compute. reflexivity. Qed.
Example C10_ex_nan_free :
  from_words nan_oracle (CFloat (mknconv None None true)) (w1 "nan") = Ok (PNum NNaN).
Proof. vm_compute. reflexivity. Qed.
Example C10_ex_nan_elem :
  from_words nan_oracle (CFloats (mklconv (Some 2%Z) (Some 2%Z) (Some (NInt 0)) None false false)) (w1 "1 nan")
  = UErr (s_ "BelowMin") [] 1.
Proof. vm_compute. reflexivity. Qed.
Example C10_ex_nan_bound :
  from_words nan_oracle (CFloat (mknconv (Some NNaN) None true)) (w1 "1") = UErr (s_ "BelowMin") [] 1.
Proof. vm_compute. reflexivity. Qed.
(* bound-violation messages no longer fail to format (repaired: hex() beyond the digit limit, str() for inf/nan) *)
Definition big_oracle : str -> option evr :=
  lookup_ev [(s_ "10**4300", ENum (NInt (10 ^ 4300))); (s_ "-10**4300", ENum (NInt (- 10 ^ 4300)))].
Example C10_ex_huge_above :
  from_words big_oracle (CInt (mknconv None (Some (NInt 3)) true)) (w1 "10**4300") = UErr (s_ "AboveMax") [] 1.
Proof. vm_compute. reflexivity. Qed.
Example C10_ex_huge_below_elem :
  from_words big_oracle (CInts (mklconv None None (Some (NInt 0)) None false false)) (w1 "1 -10**4300") = UErr (s_ "BelowMin") [] 1.
Proof. vm_compute. reflexivity. Qed.
Example C10_ex_inf_bound :
  from_words big_oracle (CInt (mknconv (Some (NInf false)) None true)) (w1 "3") = UErr (s_ "BelowMin") [] 1.
Proof. vm_compute. reflexivity. Qed.
Example C10_ex_huge_float_bound :
  from_words big_oracle (CFloat (mknconv (Some (NInt (10 ^ 400))) None true)) (w1 "1") = UErr (s_ "BelowMin") [] 1
  /\ from_words big_oracle (CFloat (mknconv (Some (NInt (10 ^ 4300))) None true)) (w1 "1") = UErr (s_ "BelowMin") [] 1.
Proof. vm_compute. split; reflexivity. Qed.
Example C10_ex_value_as_str :
  fmt_d (NInt 255) = Ok (s_ "255") /\ py_hex (-255) = s_ "-0xff" /\ py_hex 0 = s_ "0x0" /\
  fmt_d (NInf true) = Ok (s_ "-inf") /\ fmt_d NNaN = Ok (s_ "nan") /\ fmt_d (NBool true) = Ok (s_ "1").
Proof. vm_compute. repeat split; reflexivity. Qed.
Example C10_ex_huge_float :
  from_words nan_oracle (CFloat (mknconv None None true)) (w1 "10**400") = UErr (s_ "NotFloat") [] 1.
Proof. vm_compute. reflexivity. Qed.
Example C10_ex_int_junk : from_words ex_oracle ex_int (w1 "sin") = UErr (s_ "NotInteger") [] 1.
Proof. vm_compute. reflexivity. Qed.
Example C10_ex_ints_ok :
  from_words ex_oracle ex_ints (w1 "[1, 4/2;none]") = Ok (PList [PNum (NInt 1); PNum (NInt 2); PNone]).
Proof. vm_compute. reflexivity. Qed.
Example C10_ex_ints_seps :
  from_words ex_oracle ex_ints (w1 "(1;4/2 , none)") = from_words ex_oracle ex_ints (w1 "1 4/2 none").
Proof. vm_compute. reflexivity. Qed.
Example C10_ex_ints_short : from_words ex_oracle ex_ints (w1 "[1]") = UErr (s_ "NotEnough") [] 1.
Proof. vm_compute. reflexivity. Qed.
Example C10_ex_ints_long : from_words ex_oracle ex_ints (w1 "1 2 3 4") = UErr (s_ "TooMany") [] 1.
Proof. vm_compute. reflexivity. Qed.
Example C10_ex_ints_auto : from_words ex_oracle ex_ints (w1 "1 auto") = UErr (s_ "ElementAuto") [] 1.
Proof. vm_compute. reflexivity. Qed.
Example C10_ex_ints_below : from_words ex_oracle ex_ints (w1 "1 -1") = UErr (s_ "BelowMin") [] 1.
Proof. vm_compute. reflexivity. Qed.
Example C10_ex_bool_anycase : from_words ex_oracle CBool (w1 "YeS") = Ok (PNum (NBool true))
                              /\ from_words ex_oracle CBool (w1 "oFF") = Ok (PNum (NBool false))
                              /\ from_words ex_oracle CBool (w1 "2") = UErr (s_ "NotBool") (s_ "2") 1.
Proof. vm_compute. repeat split; reflexivity. Qed.
Example C10_ex_sep_maps : sep_preserving comma_to_semicolon /\ sep_preserving semicolon_to_comma /\ is_pair "(" ")" /\ is_pair "[" "]".
Proof. exact (conj comma_to_semicolon_ok (conj semicolon_to_comma_ok (conj pair_paren pair_brack))). Qed.
