(* C01 - Printing a PHIL tree and re-parsing the text reproduces the tree.   PARTIAL.
   Proved here, for every string / word list / width / following text:
   - the printer's rendering of every quoted word is read back exactly in value context (C03);
   - the VALUE WORDS of a definition survive print -> parse at every print width: for every word list in
     words_ok (unquoted words lexically safe and not a lone backslash or hash; an unquoted word does not
     directly follow a quoted word that contains a newline - such lists never come out of the parser)
     the text produced by the printer's show_words (wrapped with trailing backslashes where the width
     demands it, never after a multi-line word) is read by collect_assigned_words as exactly those words
     (texts and quote styles; each word's line is the line it is printed on), leaving the position at
     which the structure tokenizer continues with the following text;
   - a whole definition `name = words` (identifier name, dotted or not, not disabled, no attributes
     printed) parses back to exactly that definition, at every width, also when followed by further text
     (cobj level);
   - the parser never yields a lone unquoted backslash as a value word, so words_ok loses nothing there;
   - WHOLE TREES at attributes level 0, any print width (Proofs/TreeRoundtrip.v): for every tree in dtree_ok
     (the shape scope.adopt builds: identifier names, dotted-name prefix scopes with one child, value words in
     words_ok, no deprecated/template/include objects) the printed text parses, and the re-parsed tree has the
     same names, nesting, order, disabled marks, merge flags, word texts and quote styles (and empty attribute
     lists); printing the re-parsed tree gives byte-identical text (C01_tree_level0, C01_text_fixpoint_level0);
   - attributes level 3 for trees whose attributes are the bool / int ones (C01_tree_level3_partial), and levels 3 and 2
     for string-valued attributes that are not re-flowed (C01_tree_level3_strings, C01_tree_level2_strings).
   - DEPRECATED definitions (.deprecated holding a non-empty string, as the parser stores it; domain stree_ok_d,
     Proofs/ShowReparseDeprecated.v): the level-3 text, with its '# WARNING: deprecated parameter' comment lines,
     parses back to the whole tree including the deprecated definitions and their .deprecated value
     (C01_tree_level3_deprecated); the level-2 text parses to the tree without its deprecated definitions
     (C01_tree_level2_hides_deprecated).  A bool True in .deprecated (no PHIL text parses to it) is read back as
     the string "True" (ShowReparseDeprecated.deprecated_bool_differs); with that normalisation (norm_dep) the
     round trip holds for bool-valued .deprecated too (C01_tree_level3_deprecated_bool).
   - DOTTED NAMES at level 3 (domain sdtree_ok = the dtree_ok shape with the attribute conditions of stree_ok_d; a
     prefix scope carries no attribute): the level-3 text parses back to the whole tree (C01_tree_level3_dotted);
     without deprecated definitions (domain ldtree_ok) at every level >= 1, the re-parsed tree carrying the
     attributes visible at the level (C01_tree_levels_dotted, C01_tree_level2_dotted).
   - EVERY PARSED DOCUMENT without deprecated definitions and include lines lies in dtree_ok, hence for every
     such text: parse, print at level 0 (any width), parse again gives the same tree (C01_parsed_trees_in_domain,
     C01_parse_print_parse_level0) - the property's own quantifier "for every PHIL text that parses".
   Decided by correspondence + oracle only (every run): re-flowed (wrapped) string attributes, .type,
   .call, dotted names together with deprecated definitions at level 2. *)
From Coq Require Import List Ascii String ZArith.
From Phil Require Import Base Tokenizer Tree Parser Show QuoteProofs WordsRoundtrip ShowErase TreeRoundtrip ParserShape ShowReparse ShowReparseAttrs ShowReparseDeprecated.
Import ListNotations.

Theorem C01_quoted_word_roundtrip : forall q s rest line,
  q <> QN ->
  (is_triple q = false -> s = [] -> prefixb [qchar q] rest = false) ->
  nw s1 false (str_of_word (mkword s q 0) ++ rest) line = TWord (mkword s q line) rest (line + count_nl s)
  /\ nw s0 false (str_of_word (mkword s q 0) ++ rest) line = TWord (mkword s q line) rest (line + count_nl s).
Proof. exact value_context_quoted. Qed.
Print Assumptions C01_quoted_word_roundtrip.

Theorem C01_value_words_roundtrip_partial : forall ws cur indent width rest txt line lead fuel,
  forallb isspace indent = true -> count_nl indent = 0 -> ws <> [] -> words_ok ws = true ->
  wline lead = line -> weq lead [bs] = false ->
  show_words ws cur indent width ++ rest = cur ++ txt ->
  value_ends rest (S (endw ws cur indent width line)) ->
  length txt < fuel ->
  exists s', caw fuel txt line false lead [] lead
               = Ok (relw ws cur indent width line, s', endw ws cur indent width line)
             /\ (s' = nl :: rest \/ s' = [] /\ forallb isspace rest = true)
             /\ nw s0 false s' (endw ws cur indent width line) = nw s0 false rest (S (endw ws cur indent width line)).
Proof. exact caw_show_words. Qed.
Print Assumptions C01_value_words_roundtrip_partial.

Theorem C01_value_words_texts_and_quotes_kept : forall ws cur indent width line,
  map noline (relw ws cur indent width line) = map noline ws.
Proof. exact caw_show_words_values. Qed.
Print Assumptions C01_value_words_texts_and_quotes_kept.

Theorem C01_definition_roundtrip_partial : forall o n ws indent width,
  is_ident n = true -> eqs n include_w = false -> name_reserved_def n = false -> prefix_reserved n = false ->
  forallb isspace indent = true -> count_nl indent = 0 -> ws <> [] -> words_ok ws = true ->
  parse o (show_words ws (n ++ s_ " =") indent width)
  = Ok [adopt (Def (mkhdr n false 0 false 1 1) (relw ws (n ++ s_ " =") indent width 1) [])].
Proof. exact parse_show_def_words. Qed.
Print Assumptions C01_definition_roundtrip_partial.

Theorem C01_parser_never_yields_backslash_word : forall fuel s line hc last lead ws s' l',
  caw fuel s line hc last [] lead = Ok (ws, s', l') -> Forall not_bs_word ws.
Proof. exact caw_never_yields_backslash_word. Qed.
Print Assumptions C01_parser_never_yields_backslash_word.

Theorem C01_tree_level0 : forall o l w text,
  forallb (dtree_ok []) l = true ->
  as_str l [] None 0 w = Ok text ->
  exists l', parse o text = Ok l' /\ map erase_obj l' = map erase_all l.
Proof. exact parse_as_str_level0_dotted. Qed.
Print Assumptions C01_tree_level0.

Theorem C01_text_fixpoint_level0 : forall o l w text,
  forallb (dtree_ok []) l = true ->
  as_str l [] None 0 w = Ok text ->
  exists l', parse o text = Ok l'
    /\ map erase_obj l' = map erase_all l
    /\ as_str l' [] None 0 w = Ok text
    /\ forall p2 w2, as_str l' p2 None 0 w2 = as_str l p2 None 0 w2.
Proof. exact print_parse_print_level0_dotted. Qed.
Print Assumptions C01_text_fixpoint_level0.

Theorem C01_tree_level3_partial : forall o l w text,
  forallb atree_ok l = true ->
  as_str l [] None 3 w = Ok text ->
  exists l', parse o text = Ok l' /\ map erase_obj l' = map erase3 l.
Proof. exact parse_as_str_level3. Qed.
Print Assumptions C01_tree_level3_partial.

(* attributes levels 3 and 2 with string-valued attributes (.help .caption .short_caption .style .alias holding any
   characters - blanks, quotes, backslashes, newlines) that fit on their printed line, i.e. are not re-flowed
   (stree_ok, Proofs/ShowReparseAttrs.v; it contains atree_ok): the re-parsed tree has the same names, nesting,
   order, disabled marks, words and the same value for every attribute.  Level 2 gives the same tree as level 3
   (no deprecated definition in the domain).  Re-flowed (wrapped) texts are compared up to whitespace by the stream. *)
Theorem C01_tree_level3_strings : forall o l w text,
  forallb (stree_ok (width_of w) []) l = true ->
  as_str l [] None 3 w = Ok text ->
  exists l', parse o text = Ok l' /\ map erase_obj l' = map erase3 l.
Proof. exact parse_as_str_level3_strings. Qed.
Print Assumptions C01_tree_level3_strings.

Theorem C01_tree_level2_strings : forall o l w text,
  forallb (stree_ok (width_of w) []) l = true ->
  as_str l [] None 2 w = Ok text ->
  exists l', parse o text = Ok l' /\ map erase_obj l' = map erase3 l.
Proof. exact parse_as_str_level2_strings. Qed.
Print Assumptions C01_tree_level2_strings.

Theorem C01_tree_level3_deprecated : forall o l w text,
  forallb (stree_ok_d (width_of w) []) l = true ->
  as_str l [] None 3 w = Ok text ->
  exists l', parse o text = Ok l' /\ map erase_obj l' = map erase3 l.
Proof. exact parse_as_str_level3_deprecated. Qed.
Print Assumptions C01_tree_level3_deprecated.

Theorem C01_tree_level2_hides_deprecated : forall o l w text,
  forallb (stree_ok_d (width_of w) []) l = true ->
  as_str l [] None 2 w = Ok text ->
  exists l', parse o text = Ok l' /\ map erase_obj l' = map erase3 (drop_deprecated l).
Proof. exact parse_as_str_level2_hides_deprecated. Qed.
Print Assumptions C01_tree_level2_hides_deprecated.

(* .deprecated holding a bool (a tree built by a program): the text stands for the tree in which the bool True has
   become the string "True" and False is unset (norm_dep) *)
Theorem C01_tree_level3_deprecated_bool : forall o l w text,
  forallb (stree_ok_b (width_of w) []) l = true ->
  as_str l [] None 3 w = Ok text ->
  exists l', parse o text = Ok l' /\ map erase_obj l' = map erase3 (map norm_dep l).
Proof. exact parse_as_str_level3_deprecated_bool. Qed.
Print Assumptions C01_tree_level3_deprecated_bool.

(* dotted names (the prefix-scope shape scope.adopt builds) at level 3, with string-valued attributes and
   deprecated definitions; the dot-free domain stree_ok_d is contained in it *)
Theorem C01_tree_level3_dotted : forall o l w text,
  forallb (sdtree_ok (width_of w) [] []) l = true ->
  as_str l [] None 3 w = Ok text ->
  exists l', parse o text = Ok l' /\ map erase_obj l' = map erase3 l.
Proof. exact parse_as_str_level3_dotted. Qed.
Print Assumptions C01_tree_level3_dotted.

Theorem C01_level3_dotted_domain_contains_dotfree : forall w o p, stree_ok_d w p o = true -> sdtree_ok w [] p o = true.
Proof. exact stree_ok_d_sdtree_ok. Qed.
Print Assumptions C01_level3_dotted_domain_contains_dotfree.

(* dotted names at every attributes level >= 1 (no deprecated definitions): the re-parsed tree carries the
   attributes visible at the level; at level 2 these are all the set ones (erase3) *)
Theorem C01_tree_levels_dotted : forall lvl o l w text, (0 <? lvl)%Z = true ->
  forallb (ldtree_ok (width_of w) [] []) l = true ->
  as_str l [] None lvl w = Ok text ->
  exists l', parse o text = Ok l' /\ map erase_obj l' = map (eraseL lvl) l.
Proof. exact parse_as_str_levels_dotted. Qed.
Print Assumptions C01_tree_levels_dotted.

Theorem C01_tree_level2_dotted : forall o l w text,
  forallb (ldtree_ok (width_of w) [] []) l = true ->
  as_str l [] None 2 w = Ok text ->
  exists l', parse o text = Ok l' /\ map erase_obj l' = map erase3 l.
Proof. exact parse_as_str_level2_dotted. Qed.
Print Assumptions C01_tree_level2_dotted.

(* the simpler brace-only domain is contained in dtree_ok *)
Theorem C01_domain_contains_plain_trees : forall o, tree_ok o = true -> dtree_ok [] o = true.
Proof. exact tree_ok_dtree_ok. Qed.
Print Assumptions C01_domain_contains_plain_trees.

Theorem C01_parsed_trees_in_domain : forall o s l,
  parse o s = Ok l -> no_deprecated_or_include l = true -> forallb (dtree_ok []) l = true.
Proof. exact parse_lands_in_dtree_ok. Qed.
Print Assumptions C01_parsed_trees_in_domain.

Theorem C01_parse_print_parse_level0 : forall o o' s l w,
  parse o s = Ok l -> no_deprecated_or_include l = true ->
  exists text l', as_str l [] None 0 w = Ok text /\ parse o' text = Ok l'
                  /\ map erase_obj l' = map erase_all l.
Proof. exact parse_print_parse_level0. Qed.
Print Assumptions C01_parse_print_parse_level0.

Theorem C01_parsed_value_words_in_domain : forall o s l, parse o s = Ok l -> forallb defs_words_ok l = true.
Proof. exact parse_words_ok. Qed.
Print Assumptions C01_parsed_value_words_in_domain.
