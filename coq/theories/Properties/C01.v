(* C01 - Printing a PHIL tree and re-parsing the text reproduces the tree.   PARTIAL.
   Proved here, for every string / word list / width / following text:
   - the printer's rendering of every quoted word is read back exactly in value context (C03);
   - the VALUE WORDS of a definition survive print -> parse at every print width: for every word list in
     words_ok (unquoted words lexically safe and not a lone backslash or hash; an unquoted word does not
     directly follow a quoted word that contains a newline - such lists never come out of the parser)
     the text produced by the printer's show_words (wrapped with trailing backslashes where the width
     demands it, never after a multi-line word) is read by collect_assigned_words as exactly those words
     (texts and quote styles; each word's line is the line it is printed on), leaving the position at
     which the structure tokenizer continues with the following text;
   - a whole definition `name = words` (identifier name, dotted or not, not disabled, no attributes
     printed) parses back to exactly that definition, at every width, also when followed by further text
     (cobj level);
   - the parser never yields a lone unquoted backslash as a value word, so words_ok loses nothing there.
   Decided by correspondence + oracle only (every run): attributes (levels 2/3, wrapped help text, types),
   disabled marks, scopes and nesting, levels' views, byte-identical second print. *)
From Coq Require Import List Ascii String ZArith.
From Phil Require Import Base Tokenizer Tree Parser Show QuoteProofs WordsRoundtrip.
Import ListNotations.

Theorem C01_quoted_word_roundtrip : forall q s rest line,
  q <> QN ->
  (is_triple q = false -> s = [] -> prefixb [qchar q] rest = false) ->
  nw s1 false (str_of_word (mkword s q 0) ++ rest) line = TWord (mkword s q line) rest (line + count_nl s)
  /\ nw s0 false (str_of_word (mkword s q 0) ++ rest) line = TWord (mkword s q line) rest (line + count_nl s).
Proof. exact value_context_quoted. Qed.
Print Assumptions C01_quoted_word_roundtrip.

Theorem C01_value_words_roundtrip_partial : forall ws cur indent width rest txt line lead fuel,
  forallb isspace indent = true -> count_nl indent = 0 -> ws <> [] -> words_ok ws = true ->
  wline lead = line -> weq lead [bs] = false ->
  show_words ws cur indent width ++ rest = cur ++ txt ->
  value_ends rest (S (endw ws cur indent width line)) ->
  length txt < fuel ->
  exists s', caw fuel txt line false lead [] lead
               = Ok (relw ws cur indent width line, s', endw ws cur indent width line)
             /\ (s' = nl :: rest \/ s' = [] /\ forallb isspace rest = true)
             /\ nw s0 false s' (endw ws cur indent width line) = nw s0 false rest (S (endw ws cur indent width line)).
Proof. exact caw_show_words. Qed.
Print Assumptions C01_value_words_roundtrip_partial.

Theorem C01_value_words_texts_and_quotes_kept : forall ws cur indent width line,
  map noline (relw ws cur indent width line) = map noline ws.
Proof. exact caw_show_words_values. Qed.
Print Assumptions C01_value_words_texts_and_quotes_kept.

Theorem C01_definition_roundtrip_partial : forall o n ws indent width,
  is_ident n = true -> eqs n include_w = false -> name_reserved_def n = false -> prefix_reserved n = false ->
  forallb isspace indent = true -> count_nl indent = 0 -> ws <> [] -> words_ok ws = true ->
  parse o (show_words ws (n ++ s_ " =") indent width)
  = Ok [adopt (Def (mkhdr n false 0 false 1 1) (relw ws (n ++ s_ " =") indent width 1) [])].
Proof. exact parse_show_def_words. Qed.
Print Assumptions C01_definition_roundtrip_partial.

Theorem C01_parser_never_yields_backslash_word : forall fuel s line hc last lead ws s' l',
  caw fuel s line hc last [] lead = Ok (ws, s', l') -> Forall not_bs_word ws.
Proof. exact caw_never_yields_backslash_word. Qed.
Print Assumptions C01_parser_never_yields_backslash_word.
