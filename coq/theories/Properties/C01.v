(* C01 - Printing a PHIL tree and re-parsing the text reproduces the tree.   PARTIAL.
   Proved here, for every string / word list / width / following text:
   - the printer's rendering of every quoted word is read back exactly in value context (C03);
   - the VALUE WORDS of a definition survive print -> parse at every print width: for every word list in
     words_ok (unquoted words lexically safe and not a lone backslash or hash; an unquoted word does not
     directly follow a quoted word that contains a newline - such lists never come out of the parser)
     the text produced by the printer's show_words (wrapped with trailing backslashes where the width
     demands it, never after a multi-line word) is read by collect_assigned_words as exactly those words
     (texts and quote styles; each word's line is the line it is printed on), leaving the position at
     which the structure tokenizer continues with the following text;
   - a whole definition `name = words` (identifier name, dotted or not, not disabled, no attributes
     printed) parses back to exactly that definition, at every width, also when followed by further text
     (cobj level);
   - the parser never yields a lone unquoted backslash as a value word, so words_ok loses nothing there;
   - WHOLE TREES at attributes level 0, any print width (Proofs/TreeRoundtrip.v): for every tree in dtree_ok
     (the shape scope.adopt builds: identifier names, dotted-name prefix scopes with one child, value words in
     words_ok, no deprecated/template/include objects) the printed text parses, and the re-parsed tree has the
     same names, nesting, order, disabled marks, merge flags, word texts and quote styles (and empty attribute
     lists); printing the re-parsed tree gives byte-identical text (C01_tree_level0, C01_text_fixpoint_level0);
   - attributes level 3 for trees whose attributes are the bool / int ones (C01_tree_level3_partial), and levels 3 and 2
     for string-valued attributes that are not re-flowed (C01_tree_level3_strings, C01_tree_level2_strings).
   - EVERY PARSED DOCUMENT without deprecated definitions and include lines lies in dtree_ok, hence for every
     such text: parse, print at level 0 (any width), parse again gives the same tree (C01_parsed_trees_in_domain,
     C01_parse_print_parse_level0) - the property's own quantifier "for every PHIL text that parses".
   Decided by correspondence + oracle only (every run): re-flowed (wrapped) string attributes, .type,
   .call, levels 1/2 views, deprecated definitions, dotted names at level 3. *)
From Coq Require Import List Ascii String ZArith.
From Phil Require Import Base Tokenizer Tree Parser Show QuoteProofs WordsRoundtrip ShowErase TreeRoundtrip ParserShape ShowReparse ShowReparseAttrs.
Import ListNotations.

Theorem C01_quoted_word_roundtrip : forall q s rest line,
  q <> QN ->
  (is_triple q = false -> s = [] -> prefixb [qchar q] rest = false) ->
  nw s1 false (str_of_word (mkword s q 0) ++ rest) line = TWord (mkword s q line) rest (line + count_nl s)
  /\ nw s0 false (str_of_word (mkword s q 0) ++ rest) line = TWord (mkword s q line) rest (line + count_nl s).
Proof. exact value_context_quoted. Qed.
Print Assumptions C01_quoted_word_roundtrip.

Theorem C01_value_words_roundtrip_partial : forall ws cur indent width rest txt line lead fuel,
  forallb isspace indent = true -> count_nl indent = 0 -> ws <> [] -> words_ok ws = true ->
  wline lead = line -> weq lead [bs] = false ->
  show_words ws cur indent width ++ rest = cur ++ txt ->
  value_ends rest (S (endw ws cur indent width line)) ->
  length txt < fuel ->
  exists s', caw fuel txt line false lead [] lead
               = Ok (relw ws cur indent width line, s', endw ws cur indent width line)
             /\ (s' = nl :: rest \/ s' = [] /\ forallb isspace rest = true)
             /\ nw s0 false s' (endw ws cur indent width line) = nw s0 false rest (S (endw ws cur indent width line)).
Proof. exact caw_show_words. Qed.
Print Assumptions C01_value_words_roundtrip_partial.

Theorem C01_value_words_texts_and_quotes_kept : forall ws cur indent width line,
  map noline (relw ws cur indent width line) = map noline ws.
Proof. exact caw_show_words_values. Qed.
Print Assumptions C01_value_words_texts_and_quotes_kept.

Theorem C01_definition_roundtrip_partial : forall o n ws indent width,
  is_ident n = true -> eqs n include_w = false -> name_reserved_def n = false -> prefix_reserved n = false ->
  forallb isspace indent = true -> count_nl indent = 0 -> ws <> [] -> words_ok ws = true ->
  parse o (show_words ws (n ++ s_ " =") indent width)
  = Ok [adopt (Def (mkhdr n false 0 false 1 1) (relw ws (n ++ s_ " =") indent width 1) [])].
Proof. exact parse_show_def_words. Qed.
Print Assumptions C01_definition_roundtrip_partial.

Theorem C01_parser_never_yields_backslash_word : forall fuel s line hc last lead ws s' l',
  caw fuel s line hc last [] lead = Ok (ws, s', l') -> Forall not_bs_word ws.
Proof. exact caw_never_yields_backslash_word. Qed.
Print Assumptions C01_parser_never_yields_backslash_word.

Theorem C01_tree_level0 : forall o l w text,
  forallb (dtree_ok []) l = true ->
  as_str l [] None 0 w = Ok text ->
  exists l', parse o text = Ok l' /\ map erase_obj l' = map erase_all l.
Proof. exact parse_as_str_level0_dotted. Qed.
Print Assumptions C01_tree_level0.

Theorem C01_text_fixpoint_level0 : forall o l w text,
  forallb (dtree_ok []) l = true ->
  as_str l [] None 0 w = Ok text ->
  exists l', parse o text = Ok l'
    /\ map erase_obj l' = map erase_all l
    /\ as_str l' [] None 0 w = Ok text
    /\ forall p2 w2, as_str l' p2 None 0 w2 = as_str l p2 None 0 w2.
Proof. exact print_parse_print_level0_dotted. Qed.
Print Assumptions C01_text_fixpoint_level0.

Theorem C01_tree_level3_partial : forall o l w text,
  forallb atree_ok l = true ->
  as_str l [] None 3 w = Ok text ->
  exists l', parse o text = Ok l' /\ map erase_obj l' = map erase3 l.
Proof. exact parse_as_str_level3. Qed.
Print Assumptions C01_tree_level3_partial.

(* attributes levels 3 and 2 with string-valued attributes (.help .caption .short_caption .style .alias holding any
   characters - blanks, quotes, backslashes, newlines) that fit on their printed line, i.e. are not re-flowed
   (stree_ok, Proofs/ShowReparseAttrs.v; it contains atree_ok): the re-parsed tree has the same names, nesting,
   order, disabled marks, words and the same value for every attribute.  Level 2 gives the same tree as level 3
   (no deprecated definition in the domain).  Re-flowed (wrapped) texts are compared up to whitespace by the stream. *)
Theorem C01_tree_level3_strings : forall o l w text,
  forallb (stree_ok (width_of w) []) l = true ->
  as_str l [] None 3 w = Ok text ->
  exists l', parse o text = Ok l' /\ map erase_obj l' = map erase3 l.
Proof. exact parse_as_str_level3_strings. Qed.
Print Assumptions C01_tree_level3_strings.

Theorem C01_tree_level2_strings : forall o l w text,
  forallb (stree_ok (width_of w) []) l = true ->
  as_str l [] None 2 w = Ok text ->
  exists l', parse o text = Ok l' /\ map erase_obj l' = map erase3 l.
Proof. exact parse_as_str_level2_strings. Qed.
Print Assumptions C01_tree_level2_strings.

(* the simpler brace-only domain is contained in dtree_ok *)
Theorem C01_domain_contains_plain_trees : forall o, tree_ok o = true -> dtree_ok [] o = true.
Proof. exact tree_ok_dtree_ok. Qed.
Print Assumptions C01_domain_contains_plain_trees.

Theorem C01_parsed_trees_in_domain : forall o s l,
  parse o s = Ok l -> no_deprecated_or_include l = true -> forallb (dtree_ok []) l = true.
Proof. exact parse_lands_in_dtree_ok. Qed.
Print Assumptions C01_parsed_trees_in_domain.

Theorem C01_parse_print_parse_level0 : forall o o' s l w,
  parse o s = Ok l -> no_deprecated_or_include l = true ->
  exists text l', as_str l [] None 0 w = Ok text /\ parse o' text = Ok l'
                  /\ map erase_obj l' = map erase_all l.
Proof. exact parse_print_parse_level0. Qed.
Print Assumptions C01_parse_print_parse_level0.

Theorem C01_parsed_value_words_in_domain : forall o s l, parse o s = Ok l -> forallb defs_words_ok l = true.
Proof. exact parse_words_ok. Qed.
Print Assumptions C01_parsed_value_words_in_domain.
