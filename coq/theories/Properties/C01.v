(* C01 - Printing a PHIL tree and re-parsing the text reproduces the tree.   PARTIAL.
   Proved here: the printer's rendering of every quoted word is read back exactly by the tokenizer in
   value context, whatever follows (from C03).  The tree-level round trip (names, nesting, order, '!',
   words, attributes at levels 3 / 2 / 0, any width, byte-identical second print) is decided on every
   run by executing parse -> print -> parse -> print in freephil and in the extracted model and by the
   oracle comparing the two trees. *)
From Coq Require Import List Ascii String.
From Phil Require Import Base Tokenizer QuoteProofs.
Import ListNotations.

Theorem C01_quoted_word_roundtrip_partial : forall q s rest line,
  q <> QN ->
  (is_triple q = false -> s = [] -> prefixb [qchar q] rest = false) ->
  nw s1 false (str_of_word (mkword s q 0) ++ rest) line = TWord (mkword s q line) rest (line + count_nl s).
Proof. intros q s rest line Hq Ho. apply (proj1 (value_context_quoted q s rest line Hq Ho)). Qed.
Print Assumptions C01_quoted_word_roundtrip_partial.
