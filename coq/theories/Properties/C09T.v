(* C09 - Python values written to PHIL and read back are unchanged.
   Only property theorems here: each closed by [exact] of a lemma of Proofs/Extract*.v and followed by
   Print Assumptions; Examples show that hypotheses are satisfiable.
   Model functions (the ones the correspondence stream executes through EntryExtract.v):
     ty_as_words / ty_from_words   converter.as_words / from_words on PyVal.pyval   (ConvText.v)
     format_obj / extract_obj       scope.format / scope.extract, definition.format / extract   (Extract.v)
   roundtrip pe ex t opt mw v  :=  exists ws, ty_as_words t opt mw v = Ok ws /\ ty_from_words pe ex t opt ws = Ok v
   (pe = eval oracle, ex = os.path.expanduser oracle, opt = master.optional, mw = master.words). *)
From Coq Require Import List Ascii String Bool Arith ZArith.
From Phil Require Import Base Tokenizer Tree PyVal ConvText Extract.
From Phil Require Import ExtractInt ExtractText ExtractNumLift ExtractChoiceRT ExtractScope ExtractTop.
From Phil Require Conv Choice Parser ConvProofs.
Import ListNotations.
Local Open Scope char_scope.

(* ------------------------------------------------------------------ non-vacuity *)
Definition ex_master : obj :=
  Scp (plain_hdr []) [
    Def (plain_hdr (s_ "a")) [uw (s_ "1")] [(s_ "type", AType (TyInt (Some 0%Z) (Some 9%Z) true))];
    Scp (plain_hdr (s_ "s")) [
      Def (plain_hdr (s_ "b")) [qw (s_ "x")] [(s_ "type", AType TyStr)];
      Def (mkhdr (s_ "c") true 0 false 0 0) [uw (s_ "2")] [];
      Def (plain_hdr (s_ "d")) [uw (s_ "*p"); uw (s_ "q")] [(s_ "type", AType (TyChoice true))]] []] [].
Definition ex_value : pyval :=
  VScope (Ext [] [(s_ "a", VNum (Conv.NInt 7));
                  (s_ "s", VScope (Ext (s_ "s") [(s_ "b", VStr (s_ "q""r")); (s_ "d", VList [VStr (s_ "q")])]))]).
Example C09_scope_example : wf_nm ex_master /\ pdom (fun _ => None) (fun s => s) ex_master ex_value.
Proof.
  split.
  - vm_compute. repeat split; intros; try reflexivity; repeat constructor; cbn; intuition discriminate.
  - vm_compute. eexists. split; [reflexivity|]. repeat split; try (eexists; split; reflexivity).
    eexists. split; [reflexivity|]. repeat split; eexists; split; reflexivity.
Qed.
Example C09_int_example : (Z.abs (-12345678901234567890) < B4300)%Z /\ zbounds (Some 0%Z) None 5%Z.
Proof. split; [apply Z.ltb_lt; vm_compute; reflexivity|]. split; intros b E; inversion E; subst; apply Z.leb_le; reflexivity. Qed.
Example C09_choice_example : wf_alts [uw (s_ "*a"); uw (s_ "b")] /\ In (s_ "b") (anames [uw (s_ "*a"); uw (s_ "b")]).
Proof.
  split; [split|right; left; reflexivity].
  - repeat constructor; cbn; intuition discriminate.
  - repeat constructor; try reflexivity; discriminate.
Qed.
