(* C15 - Reported source lines are the lines where things actually are.
   Theorems over the tokenizer + parser model, for every input text and every oracle table:
   - every token carries the line of its first character whatever precedes it (blank lines, comments,
     multi-line quoted words, continuations) and positions advance by exactly the newlines consumed;
   - the '#phil __OFF__' region scanner keeps the line counter consistent for regions of any content;
   - every scope and definition of a parsed tree reports the line of the word that named it, every value
     word its own line (dotted-name prefix scopes carry no line, and the id of their only child): parse_lines_ok;
   - every error cites the line of the token it names (or the last line for a missing closing quote, or
     no line, or a line handed through from an oracle answer): parse_error_cites / _token_line / _line_ok.
   Unused-definition reports and value-conversion errors are covered by C06's and C10's streams; the
   source label is not varied.  The correspondence stream compares every line number freephil reports
   with the model's on renderings whose generator records the true line of every token. *)
From Coq Require Import List Ascii String.
From Phil Require Import Base Tokenizer Tree Parser LexProofs ParserLines.
Import ListNotations.

Theorem C15_word_line : forall σ ic s line w r l',
  nw σ ic s line = TWord w r l' ->
  exists pre body, s = pre ++ body ++ r /\ wline w = line + count_nl pre
                   /\ l' = line + count_nl (pre ++ body) /\ word_src w body.
Proof. exact nw_lines_src. Qed.
Print Assumptions C15_word_line.

Theorem C15_missing_quote_line : forall σ ic s line l,
  nw σ ic s line = TErrQuote l -> l = line + count_nl s.
Proof. exact nw_err_line. Qed.
Print Assumptions C15_missing_quote_line.

Theorem C15_off_region_scanner_counts_lines : forall inp fuel s line r l' fu,
  pos_ok inp s line -> sfs fuel s line = (r, l', fu) -> pos_ok inp r l'.
Proof. exact sfs_pos. Qed.
Print Assumptions C15_off_region_scanner_counts_lines.

Theorem C15_object_and_word_lines : forall o inp objs,
  parse o inp = Ok objs -> Forall (obj_lines_ok inp) objs.
Proof. exact parse_lines_ok. Qed.
Print Assumptions C15_object_and_word_lines.

Theorem C15_error_cites_its_token : forall o inp kind tok l,
  parse o inp = UErr kind tok l -> err_ok o inp kind tok l.
Proof. exact parse_error_cites. Qed.
Print Assumptions C15_error_cites_its_token.

Theorem C15_syntax_error_token_line : forall o inp kind tok l,
  parse o inp = UErr kind tok l -> In kind direct_kinds ->
  (exists key, In (key, UErr kind tok l) o)
  \/ exists w, word_placed inp w /\ wline w = l /\ suffix tok (str_of_word w).
Proof. exact parse_error_token_line. Qed.
Print Assumptions C15_syntax_error_token_line.

Theorem C15_error_line_within_text : forall o inp kind tok l,
  oracle_lines_ok inp o -> parse o inp = UErr kind tok l -> l = 0 \/ l <= 1 + count_nl inp.
Proof. exact parse_error_line_ok. Qed.
Print Assumptions C15_error_line_within_text.

(* non-vacuity *)
Example C15_example :
  tokenize s0 (s_ "a # c
= 'x
y'

b") = Ok [mkword (s_ "a") QN 1; mkword (s_ "=") QN 2; mkword (s_ "x
y") Q1 2; mkword (s_ "b") QN 5].
Proof. vm_compute. reflexivity. Qed.
