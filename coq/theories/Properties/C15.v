(* C15 - Reported source lines are the lines where things actually are.
   Proved here (token level, all inputs): every word the tokenizer returns carries the line on which
   its first character stands, whatever precedes it (blank lines, comments, multi-line quoted words,
   continuations), the position handed on has advanced by exactly the newlines consumed, and a
   missing-closing-quote error cites the last line of the input.  The parser copies these numbers
   into scopes/definitions (lead word) and error messages; that copying, the '#phil __OFF__' scanner
   and the unused-definition reports are tied to the code by the correspondence stream with line
   numbers kept (PARTIAL: no parser-level line theorem yet). *)
From Coq Require Import List Ascii String.
From Phil Require Import Base Tokenizer LexProofs.
Import ListNotations.

Theorem C15_word_line_partial : forall σ ic s line w r l',
  nw σ ic s line = TWord w r l' ->
  exists pre body, s = pre ++ body ++ r
                   /\ wline w = line + count_nl pre
                   /\ l' = line + count_nl (pre ++ body)
                   /\ body <> [].
Proof. exact nw_lines. Qed.
Print Assumptions C15_word_line_partial.

Theorem C15_missing_quote_line : forall σ ic s line l,
  nw σ ic s line = TErrQuote l -> l = line + count_nl s.
Proof. exact nw_err_line. Qed.
Print Assumptions C15_missing_quote_line.

(* non-vacuity: third word of a text with a comment, a blank line and a multi-line quoted word *)
Example C15_example :
  tokenize s0 (s_ "a # c
= 'x
y'

b") = Ok [mkword (s_ "a") QN 1; mkword (s_ "=") QN 2; mkword (s_ "x
y") Q1 2; mkword (s_ "b") QN 5].
Proof. vm_compute. reflexivity. Qed.
