(* C03 - Quoting any string and tokenizing it back returns exactly that string.
   This file holds only the property theorems; each is closed by [exact] of a lemma
   proved in Proofs/ and followed by Print Assumptions. *)
From Coq Require Import List Ascii String ZArith.
From Phil Require Import Base Tokenizer Tree Parser QuoteProofs TreeRoundtrip.
Import ListNotations.

(* stand-alone value literal: exactly one word, text and quote style preserved *)
Theorem C03_value_literal : forall q s,
  q <> QN -> tokenize_value_literal (quote_str q s) = Ok [mkword s q 1].
Proof. exact value_literal_quoted. Qed.
Print Assumptions C03_value_literal.

(* inside a document (value context s1 and structure context s0), whatever follows:
   the tokenizer returns that one word, leaves exactly [rest], and advances the line
   counter by the number of newlines of the string. *)
Theorem C03_in_context : forall q s rest line,
  q <> QN ->
  (is_triple q = false -> s = [] -> prefixb [qchar q] rest = false) ->
  nw s1 false (quote_str q s ++ rest) line = TWord (mkword s q line) rest (line + count_nl s)
  /\ nw s0 false (quote_str q s ++ rest) line = TWord (mkword s q line) rest (line + count_nl s).
Proof. exact value_context_quoted. Qed.
Print Assumptions C03_in_context.

(* as the value of a definition that is followed by a further definition (parser level): exactly one word,
   the following definition intact and reported on the right line *)
Theorem C03_in_document : forall o q s, q <> QN ->
  parse o (s_ "a = " ++ quote_str q s ++ nl :: s_ "b = 1")
  = Ok [Def (mkhdr (s_ "a") false 0%Z false 1 1) [mkword s q 1] [];
        Def (mkhdr (s_ "b") false 0%Z false 2 (2 + count_nl s)) [mkword (s_ "1") QN (2 + count_nl s)] []].
Proof. exact in_document. Qed.
Print Assumptions C03_in_document.

(* any settings record whose comment characters exclude the quote character *)
Theorem C03_any_settings : forall σ q s rest line,
  q <> QN -> mem (qchar q) (comment σ) = false ->
  (is_triple q = false -> s = [] -> prefixb [qchar q] rest = false) ->
  nw σ false (quote_str q s ++ rest) line = TWord (mkword s q line) rest (line + count_nl s).
Proof. exact nw_quoted. Qed.
Print Assumptions C03_any_settings.

(* the printer's rendering of a word is quote_str *)
Theorem C03_printer : forall s q, str_of_word (mkword s q 0) = quote_str q s.
Proof. exact str_of_word_is_quote_str. Qed.
Print Assumptions C03_printer.

(* non-vacuity: a string mixing every delicate character *)
Example C03_example :
  tokenize_value_literal (quote_str Q3d (s_ "a\""'
$#{};= \\")) = Ok [mkword (s_ "a\""'
$#{};= \\") Q3d 1].
Proof. vm_compute. reflexivity. Qed.
