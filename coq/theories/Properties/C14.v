(* C14 - A command-line argument sets the intended parameter or is refused.
   This file holds only the property theorems; each is closed by [exact] of a lemma proved in
   Proofs/CmdLine*.v and followed by Print Assumptions.  All statements are about the
   functions of Model/CmdLine.v that the correspondence streams execute (pyfind, startswith,
   endswith, get_path_score, all_definitions, decide_for, process_arg_paths, prep_arg,
   process_args).  Vocabulary (defined in Proofs/CmdLineProofs.v, CmdLineChoice.v):
     is_sub s t      s is a contiguous sublist of t           ends t s / starts t p   suffix / prefix
     home_dot h s t  h = Some h' and t = h' ++ "." ++ s        inside h t   h = Some h' and t starts with h' ++ "."
     score_class     the nine declarative match classes        beats        the preference order of the property text
     scores h s ts   map (get_path_score h s) ts
     is_max l m      m occurs in l and bounds it               shared l m   m occurs at two positions
     competitor sc lv m j e   position j holds the score m and the expert level e
     lowest_shared sc lv m    the lowest level among the competitors is held by two of them
     dedupe [] locs  the locators with later occurrences of an already seen path dropped
   Not covered here (see harness/streams/c14.py): parsing of the argument text, re-rendering of the
   value under the chosen path and its re-parse, scope.fetch. *)
From Coq Require Import List Ascii String ZArith.
From Phil Require Import Base Tree CmdLine CmdLineProofs CmdLineChoice CmdLineArgs.
Import ListNotations.
Local Open Scope Z_scope.

(* ---- Python string primitives: list-level specifications *)
Theorem C14_find_absent : forall t s, pyfind t s = -1 <-> ~ is_sub s t.
Proof. exact pyfind_absent. Qed.
Print Assumptions C14_find_absent.

Theorem C14_find_first : forall t s n, pyfind t s = Z.of_nat n <->
  exists p q, t = p ++ s ++ q /\ length p = n /\ forall p' q', t = p' ++ s ++ q' -> (n <= length p')%nat.
Proof. exact pyfind_first. Qed.
Print Assumptions C14_find_first.

Theorem C14_startswith_spec : forall t p, startswith t p = true <-> starts t p.
Proof. exact startswith_spec. Qed.
Print Assumptions C14_startswith_spec.

Theorem C14_endswith_spec : forall t s, endswith t s = true <-> ends t s.
Proof. exact endswith_spec. Qed.
Print Assumptions C14_endswith_spec.

(* ---- get_path_score = the declarative classification:
   8 iff equal; 7 iff target = home.source; 6 / 5 inside the home scope and ending with ".source" /
   with source; 2 inside home, interior; 4 / 3 / 1 likewise outside; 0 iff not a substring *)
Theorem C14_score_spec : forall home s t k, get_path_score home s t = k <-> score_class home s t k.
Proof. exact score_spec. Qed.
Print Assumptions C14_score_spec.

Theorem C14_score_zero : forall home s t, get_path_score home s t = 0 <-> ~ is_sub s t.
Proof. exact score_0. Qed.
Print Assumptions C14_score_zero.

Theorem C14_score_eight : forall home s t, get_path_score home s t = 8 <-> t = s.
Proof. exact score_8. Qed.
Print Assumptions C14_score_eight.

(* ---- the numeric order of the classes is exactly the preference relation of the property text *)
Theorem C14_order : forall home s t1 t2,
  beats home s t1 t2 <-> get_path_score home s t2 < get_path_score home s t1.
Proof. exact order_spec. Qed.
Print Assumptions C14_order.

(* ---- a name equal to a full path always addresses that parameter: for ANY master (a path may
   occur several times among its definitions), the target list being the de-duplicated paths *)
Theorem C14_full_path_wins : forall home master locs s,
  all_definitions master = Ok locs -> In s (map lpath locs) ->
  exists i, nth_error (map lpath (dedupe [] locs)) i = Some s /\
            decide_for home (map lpath (dedupe [] locs)) (map recursive_expert_level (dedupe [] locs)) s
              = Ok (Chosen i s false) /\
            process_arg_paths home master [s] = ([], EOk [(i, s)]).
Proof. exact full_path_addresses. Qed.
Print Assumptions C14_full_path_wins.

(* the same on any duplicate-free target list *)
Theorem C14_full_path_wins_list : forall home targets levels s,
  In s targets -> NoDup targets ->
  exists i, nth_error targets i = Some s /\ decide_for home targets levels s = Ok (Chosen i s false).
Proof. exact full_path_wins. Qed.
Print Assumptions C14_full_path_wins_list.

(* ---- C14_choice_spec, in five parts *)
(* refused as unknown iff nothing matches (in particular when the master has no parameter at all) *)
Theorem C14_choice_unknown : forall home targets levels s,
  decide_for home targets levels s = Ok Unknown <->
  forall t, In t targets -> get_path_score home s t = 0.
Proof. exact decide_for_unknown. Qed.
Print Assumptions C14_choice_unknown.

(* chosen silently iff it matches and every other target scores strictly less *)
Theorem C14_choice_unique : forall home targets levels s i t,
  decide_for home targets levels s = Ok (Chosen i t false) <->
  nth_error targets i = Some t /\ 0 < get_path_score home s t /\
  forall j t', nth_error targets j = Some t' -> j <> i ->
               get_path_score home s t' < get_path_score home s t.
Proof. exact decide_for_plain. Qed.
Print Assumptions C14_choice_unique.

(* chosen with a warning iff the best score is shared and this target alone has the lowest expert level
   among the targets holding the best score ("a strictly lower expert level alone may break the tie") *)
Theorem C14_choice_tiebreak : forall home targets levels s i t,
  length levels = length targets ->
  (decide_for home targets levels s = Ok (Chosen i t true) <->
   nth_error targets i = Some t /\
   exists m e, is_max (scores home s targets) m /\ 0 < m /\ shared (scores home s targets) m /\
     get_path_score home s t = m /\ nth_error levels i = Some e /\
     forall j t' e', j <> i -> nth_error targets j = Some t' -> get_path_score home s t' = m ->
                     nth_error levels j = Some e' -> e < e').
Proof. exact decide_for_warn. Qed.
Print Assumptions C14_choice_tiebreak.

(* refused as ambiguous iff the best score is shared and the lowest level among its holders is shared too;
   the list is exactly the targets with the best score, in target order, and has more than one element *)
Theorem C14_choice_ambiguous : forall home targets levels s c,
  length levels = length targets ->
  (decide_for home targets levels s = Ok (Ambiguous c) <->
   exists m, is_max (scores home s targets) m /\ 0 < m /\ shared (scores home s targets) m /\
             lowest_shared (scores home s targets) levels m /\
             c = filter (fun t => get_path_score home s t =? m) targets /\ (1 < length c)%nat).
Proof. exact decide_for_ambiguous. Qed.
Print Assumptions C14_choice_ambiguous.

Theorem C14_competitor_spec : forall home s targets levels m j e,
  competitor (scores home s targets) levels m j e <->
  exists t, nth_error targets j = Some t /\ get_path_score home s t = m /\ nth_error levels j = Some e.
Proof. exact competitor_scores. Qed.
Print Assumptions C14_competitor_spec.

(* whatever is chosen, silently or with a warning, is a best match: no other parameter matches better *)
Theorem C14_chosen_is_best : forall home targets levels s i t w,
  length levels = length targets ->
  decide_for home targets levels s = Ok (Chosen i t w) ->
  nth_error targets i = Some t /\ 0 < get_path_score home s t /\
  forall t', In t' targets -> get_path_score home s t' <= get_path_score home s t.
Proof. exact chosen_is_best. Qed.
Print Assumptions C14_chosen_is_best.

(* there is no fifth outcome, whatever the target list (empty included) *)
Theorem C14_choice_total : forall home targets levels s,
  length levels = length targets ->
  exists d, decide_for home targets levels s = Ok d.
Proof. exact decide_for_total. Qed.
Print Assumptions C14_choice_total.

(* ---- one argument with several definitions: every one is decided in order, the first refusal ends it *)
Theorem C14_sources_in_order : forall home targets levels srcs warned acc w l,
  process_sources home targets levels srcs warned acc = (w, EOk l) ->
  exists ds, l = acc ++ ds /\
    Forall2 (fun src d => exists warn, decide_for home targets levels src = Ok (Chosen (fst d) (snd d) warn)) srcs ds.
Proof. exact process_sources_ok. Qed.
Print Assumptions C14_sources_in_order.

(* ---- all_definitions lists exactly the dotted paths of the active definitions of the master ... *)
Theorem C14_targets_spec : forall h ks a locs p,
  all_definitions (Scp h ks a) = Ok locs ->
  (In p (map lpath locs) <-> exists k, In k ks /\ odis (ohdr k) = false /\ contributes k p).
Proof. exact targets_spec. Qed.
Print Assumptions C14_targets_spec.

(* ... and the command-line targets are those paths, each once *)
Theorem C14_target_locators_spec : forall h ks a tl,
  target_locators (Scp h ks a) = Ok tl ->
  NoDup (map lpath tl) /\
  forall p, In p (map lpath tl) <-> exists k, In k ks /\ odis (ohdr k) = false /\ contributes k p.
Proof. exact target_locators_spec. Qed.
Print Assumptions C14_target_locators_spec.

(* the locator kept for a path is its first occurrence (its expert level is the one that counts) *)
Theorem C14_first_occurrence_kept : forall pre x post seen,
  ~ In (lpath x) seen -> ~ In (lpath x) (map lpath pre) -> In x (dedupe seen (pre ++ x :: post)).
Proof. exact dedupe_first. Qed.
Print Assumptions C14_first_occurrence_kept.

(* ---- process_args: per-argument actions in order (map), blanks dropped (filter) *)
Theorem C14_args_structure : forall (A : Type) isfile (pa : str -> res A) collect args,
  process_args isfile pa collect args =
  do items <- sequence (map (handle isfile pa collect) args); Ok (lefts items, rights items).
Proof. exact @process_args_structure. Qed.
Print Assumptions C14_args_structure.

Theorem C14_args_in_order : forall (A : Type) isfile (pa : str -> res A) collect args ps rem,
  collect = false ->
  process_args isfile pa collect args = Ok (ps, rem) ->
  rem = [] /\ Forall2 (fun t p => pa t = Ok p) (flat_map (text_of isfile) args) ps /\
  Forall (fun arg => match prep_arg isfile arg with PSkip | PFlag _ | PDef _ => True | _ => False end) args.
Proof. exact @process_args_in_order. Qed.
Print Assumptions C14_args_in_order.

(* "--x" becomes "x = True", "--x=3" becomes "x=3" *)
Theorem C14_flag_argument : forall isfile w,
  forallb isspace (s_ "--" ++ w) = false ->
  prep_arg isfile (s_ "--" ++ w) = PFlag (if in_dec ascii_dec eq_char w then w else w ++ s_ " = True").
Proof. exact prep_flag. Qed.
Print Assumptions C14_flag_argument.

(* ---- a master without any active definition refuses every argument as unknown (the code's
   max(scores, default=0); before the repair this was a ValueError) *)
Theorem C14_empty_master_unknown : forall home master s r,
  all_definitions master = Ok [] ->
  process_arg_paths home master (s :: r) = ([], EUnknown s).
Proof. exact empty_master_unknown. Qed.
Print Assumptions C14_empty_master_unknown.

(* ---- the witnesses of the two repaired defects, as positive statements *)
(* formerly F13: the path m occurs twice in the master; it is one target and the full path sets it *)
Theorem C14_duplicate_path_addressed :
  (exists locs, all_definitions dup_master = Ok locs /\ map lpath locs = [s_ "m"; s_ "m"]) /\
  (exists tl, target_locators dup_master = Ok tl /\ map lpath tl = [s_ "m"]) /\
  process_arg_paths None dup_master [s_ "m"] = ([], EOk [(0%nat, s_ "m")]).
Proof. exact dup_master_full_path. Qed.
Print Assumptions C14_duplicate_path_addressed.

(* formerly F20: expert levels 100 or more apart: the worse match z.ab does not compete; x.b / y.b tie *)
Theorem C14_outsider_refused :
  get_path_score None (s_ "b") (s_ "x.b") = 4 /\ get_path_score None (s_ "b") (s_ "y.b") = 4 /\
  get_path_score None (s_ "b") (s_ "z.ab") = 3 /\
  process_arg_paths None outsider_master [s_ "b"] = ([], EAmbiguous (s_ "b") [s_ "x.b"; s_ "y.b"]).
Proof. exact outsider_refused. Qed.
Print Assumptions C14_outsider_refused.

(* ---- non-vacuity *)
Example C14_example_scores :
  map (get_path_score (Some (s_ "s")) (s_ "a"))
      [s_ "a"; s_ "s.a"; s_ "s.b.a"; s_ "s.ba"; s_ "t.a"; s_ "t.ba"; s_ "s.ab"; s_ "t.ab"; s_ "t.b"]
  = [8; 7; 6; 5; 4; 3; 2; 1; 0].
Proof. vm_compute. reflexivity. Qed.

Example C14_example_beats : beats (Some (s_ "s")) (s_ "a") (s_ "s.ba") (s_ "t.a").
Proof. apply C14_order. vm_compute. reflexivity. Qed.

Example C14_example_full_path :
  decide_for None [s_ "a.b"; s_ "b"; s_ "x.a.b"] [0; 0; 0] (s_ "b") = Ok (Chosen 1 (s_ "b") false).
Proof. vm_compute. reflexivity. Qed.

Example C14_example_tiebreak :
  decide_for None [s_ "x.a"; s_ "y.a"; s_ "z.ab"] [2; 1; 0] (s_ "a") = Ok (Chosen 1 (s_ "y.a") true)
  /\ decide_for None [s_ "x.a"; s_ "y.a"; s_ "z.ab"] [1; 1; 0] (s_ "a") = Ok (Ambiguous [s_ "x.a"; s_ "y.a"])
  /\ decide_for None [s_ "x.a"; s_ "y.a"; s_ "z.ab"] [1; 1; 0] (s_ "c") = Ok Unknown.
Proof. vm_compute. auto. Qed.

Example C14_example_empty_master :
  all_definitions empty_master = Ok [] /\
  process_arg_paths None empty_master [s_ "a"] = ([], EUnknown (s_ "a")).
Proof. exact empty_master_example. Qed.

Example C14_example_args :
  process_args (fun _ => false) (fun t => Ok t) false
    [s_ "--x"; s_ "  "; s_ "a=1"; s_ "--y=3"] = Ok ([s_ "x = True"; s_ "a=1"; s_ "y=3"], []).
Proof. vm_compute. reflexivity. Qed.
