(* C04: the result of a fetch (diff = false) has exactly the master's structure.
   shape_ok is the declarative description; fetch_shape proves it of Fetch.fetch for every
   environment and every canon oracle. *)
From Coq Require Import List Ascii String Bool Arith ZArith Lia.
From Phil Require Import Base Tree Vars Choice Fetch FetchBasics.
Import ListNotations.
Local Open Scope char_scope.

(* is_template of the template copy of a multiple entry:
   0 if .optional is set and false; else 1 if there is no instance, -1 if there are instances *)
Definition tmpl_flag (k:obj) (insts:list obj) : Z :=
  if mandatory (ooptional k) then 0%Z else match insts with [] => 1%Z | _ => (-1)%Z end.

(* the value of a deprecated (non-choice) definition is shown only if its strings differ from the
   master's: "deprecated definitions appear only if a source gave a different value" *)
Definition is_choice_ty (a:attrs) : bool :=
  match get_attr (s_ "type") a with AType (TyChoice _) => true | _ => false end.
Definition dep_ok (h:hdr) (mws:list word) (a:attrs) (w:list word) : Prop :=
  odeprecated (Def h mws a) = true -> is_choice_ty a = false ->
  sval_eqb (strings_from_words w) (strings_from_words mws) = false.

(* shape_block k b : b is what the master entry k may contribute to a result.
   Every result object carries k's header (name, not disabled, merge flag, primary id, where line)
   with is_template 0 and k's attribute list, unchanged; only words / child objects vary. *)
Inductive shape_block : obj -> list obj -> Prop :=
  (* non-multiple definition, no source: the master definition itself *)
  | SB_def_master : forall h ws a,
      omultiple (Def h ws a) = false -> odeprecated (Def h ws a) = false ->
      shape_block (Def h ws a) [Def h ws a]
  (* non-multiple definition with a value: exactly one definition, the master's header and attributes *)
  | SB_def_value : forall h ws a ws',
      omultiple (Def h ws a) = false -> dep_ok h ws a ws' ->
      shape_block (Def h ws a) [Def (with_tmpl h 0) ws' a]
  (* the documented omission: a deprecated definition nobody changed *)
  | SB_def_deprecated : forall h ws a,
      omultiple (Def h ws a) = false -> odeprecated (Def h ws a) = true ->
      shape_block (Def h ws a) []
  (* non-multiple scope: exactly one scope with the master's header and attributes, recursively *)
  | SB_scope : forall h ks a os,
      omultiple (Scp h ks a) = false -> shape_objs ks os ->
      shape_block (Scp h ks a) [Scp (with_tmpl h 0) os a]
  (* multiple entry: the template (the master occurrence with its is_template flag set by the
     optional rule) followed by the instances *)
  | SB_multiple : forall k insts,
      omultiple k = true -> shape_insts k insts ->
      shape_block k (set_hdr k (with_tmpl (ohdr k) (tmpl_flag k insts)) :: insts)
with shape_insts : obj -> list obj -> Prop :=
  | SI_nil : forall k, shape_insts k []
  | SI_def : forall h ws a ws' r,
      dep_ok h ws a ws' ->
      shape_insts (Def h ws a) r -> shape_insts (Def h ws a) (Def (with_tmpl h 0) ws' a :: r)
  | SI_scope : forall h ks a os r,
      shape_objs ks os -> shape_insts (Scp h ks a) r ->
      shape_insts (Scp h ks a) (Scp (with_tmpl h 0) os a :: r)
(* the objects of a result scope against the objects of the master scope: one block per entry of
   master_active_objects, in that order, and nothing else *)
with shape_objs : list obj -> list obj -> Prop :=
  | SO : forall ks r, shape_blocks (entries ks) r -> shape_objs ks r
with shape_blocks : list obj -> list obj -> Prop :=
  | SBs_nil : shape_blocks [] []
  | SBs_cons : forall k b ks r, shape_block k b -> shape_blocks ks r -> shape_blocks (k :: ks) (b ++ r).

Definition shape_ok (m r:list obj) : Prop := shape_objs m r.

(* an instance of the (multiple) master entry k *)
Definition is_inst (k c:obj) : Prop :=
  match k with
  | Def h mws a => exists w, c = dcopy h a w /\ dep_ok h mws a w
  | Scp h ks a => exists os, c = scopy h a os /\ shape_objs ks os
  end.

Lemma insts_of : forall k l, (forall c, In c l -> is_inst k c) -> shape_insts k l.
Proof.
  intros k l. induction l as [|c r IH]; intros H; [constructor|].
  assert (Hc : is_inst k c) by (apply H; left; reflexivity).
  assert (Hr : shape_insts k r) by (apply IH; intros x Hx; apply H; right; exact Hx).
  destruct k as [h ws a|h ks a]; cbn in Hc.
  - destruct Hc as [w [E Hd]]. subst. apply SI_def; assumption.
  - destruct Hc as [os [E Hs]]. subst. apply SI_scope; assumption.
Qed.

(* ------------------------------------------------------------------ the tables of the multiple branch *)
Lemma pget_pset_same : forall k v d, pget k (pset k v d) = Some v.
Proof.
  intros k v d. induction d as [|[k' v'] r IH]; cbn.
  - rewrite f_eqs_refl. reflexivity.
  - destruct (eqs k' k) eqn:E; cbn; rewrite E; [reflexivity|exact IH].
Qed.
Lemma pget_pset_other : forall k k' v d, k' <> k -> pget k' (pset k v d) = pget k' d.
Proof.
  intros k k' v d Hn. induction d as [|[k0 v0] r IH]; cbn.
  - destruct (eqs k k') eqn:E; [apply f_eqs_eq in E; congruence|reflexivity].
  - destruct (eqs k0 k) eqn:E; cbn.
    + apply f_eqs_eq in E. subst k0. destruct (eqs k k') eqn:E'; [apply f_eqs_eq in E'; congruence|reflexivity].
    + destruct (eqs k0 k'); [reflexivity|exact IH].
Qed.
Lemma length_pset : forall k v d,
  length (pset k v d) = match pget k d with Some _ => length d | None => S (length d) end.
Proof.
  intros k v d. induction d as [|[k0 v0] r IH]; cbn; [reflexivity|].
  destruct (eqs k0 k); cbn; [reflexivity|]. rewrite IH. destruct (pget k r); reflexivity.
Qed.

Lemma somes_app : forall a b, somes (a ++ b) = somes a ++ somes b.
Proof. induction a as [|[o|] a IH]; intros b; cbn; [reflexivity|rewrite IH; reflexivity|apply IH]. Qed.
Lemma In_somes : forall l c, In c (somes l) <-> In (Some c) l.
Proof.
  induction l as [|[o|] l IH]; intros c; cbn; [tauto| |].
  - rewrite IH. split; intros [H|H]; auto; left; congruence.
  - rewrite IH. split; [auto|intros [H|H]; [discriminate|exact H]].
Qed.
Lemma set_none_len : forall l i c, nth_error l i = Some (Some c) ->
  S (length (somes (set_none i l))) = length (somes l).
Proof.
  induction l as [|x l IH]; intros i c H; [destruct i; discriminate|].
  destruct i as [|i]; cbn in H.
  - injection H as E. subst x. reflexivity.
  - destruct x as [o|]; cbn; [f_equal|]; eapply IH; exact H.
Qed.
Lemma set_none_other : forall l i j, i <> j -> nth_error (set_none i l) j = nth_error l j.
Proof.
  induction l as [|x l IH]; intros i j H; [destruct i; reflexivity|].
  destruct i as [|i]; destruct j as [|j]; cbn; try reflexivity; [congruence|].
  apply IH. congruence.
Qed.
Lemma set_none_In : forall l i c, In (Some c) (set_none i l) -> In (Some c) l.
Proof.
  induction l as [|x l IH]; intros i c H; [destruct i; exact H|].
  destruct i as [|i]; cbn in H.
  - destruct H as [H|H]; [discriminate|right; exact H].
  - destruct H as [H|H]; [left; exact H|right; eapply IH; exact H].
Qed.
Lemma set_none_length : forall l i, length (set_none i l) = length l.
Proof. induction l as [|x l IH]; intros [|i]; cbn; try reflexivity. f_equal. apply IH. Qed.

Section Shape.
  Variable env : str -> option str.
  Variable canon : obj -> option obj -> res str.

  (* -------------------------------------------------------------- definitions *)
  Lemma def_fetch_value_shape : forall dm h mws a s o,
    def_fetch_value env dm h mws a s = Ok (Some o) -> exists w, o = dcopy h a w /\ dep_ok h mws a w.
  Proof.
    intros dm h mws a s o H. unfold def_fetch_value in H.
    destruct (lobj s); [|discriminate]. bind_inv H as rws Hrws.
    destruct (odeprecated (Def h mws a) && sval_eqb (strings_from_words rws) (strings_from_words mws)) eqn:Edep; [discriminate|].
    assert (Hd : dep_ok h mws a rws).
    { intros Hdep _. rewrite Hdep in Edep. exact Edep. }
    destruct (get_attr (s_ "type") a) as [| | | | |t] eqn:Et; try (injection H as E; subst; eexists; split; [reflexivity|exact Hd]).
    destruct t; try (injection H as E; subst; eexists; split; [reflexivity|exact Hd]).
    - bind_inv H as cw Hcw. injection H as E. subst. eexists; split; [reflexivity|]. intros _ Hc.
      unfold is_choice_ty in Hc. rewrite Et in Hc. discriminate Hc.
    - destruct (prefixb (s_ "float") printed || prefixb (s_ "int") printed); [|discriminate].
      injection H as E. subst. eexists; split; [reflexivity|exact Hd].
  Qed.

  Definition opt_copy (h:hdr) (mws:list word) (a:attrs) (x:option obj) : Prop :=
    match x with None => True | Some o => exists w, o = dcopy h a w /\ dep_ok h mws a w end.

  Lemma def_fetch_shape : forall h mws a s x,
    def_fetch env canon false h mws a s = Ok x -> opt_copy h mws a x.
  Proof.
    intros h mws a s x H. unfold def_fetch in H. destruct x as [o|]; [|exact I].
    eapply def_fetch_value_shape. exact H.
  Qed.

  Lemma def_loop_shape : forall h mws a ms last x,
    opt_copy h mws a last -> def_loop env canon false h mws a ms last = Ok x -> opt_copy h mws a x.
  Proof.
    intros h mws a ms. induction ms as [|s r IH]; intros last x Hl H; cbn in H.
    - injection H as E. subst. exact Hl.
    - bind_inv H as y Hy. eapply IH; [|exact H]. eapply def_fetch_shape. exact Hy.
  Qed.

  (* -------------------------------------------------------------- one candidate *)
  Lemma cand_fetch_inst : forall k rec s c u,
    (forall comb oc, rec comb = Ok oc -> shape_objs (okids k) (fst oc)) ->
    cand_fetch env canon false k rec s = Ok (Some c, u) -> is_inst k c.
  Proof.
    intros k rec s c u Hrec H. destruct k as [h mws a|h ks a]; cbn [cand_fetch] in H.
    - bind_inv H as y Hy. injection H as E1 E2. subst. apply def_fetch_shape in Hy. exact Hy.
    - bind_inv H as comb Hcomb. bind_inv H as oc Hoc. injection H as E1 E2. subst. cbn. eexists. split; [reflexivity|].
      apply (Hrec _ _ Hoc).
  Qed.

  (* -------------------------------------------------------------- the double loop *)
  Record minv (k:obj) (pd:pdict) (robjs:list (option obj)) : Prop := {
    mi_idx : forall key v, pget key pd = Some v ->
               exists i c, v = Some i /\ nth_error robjs i = Some (Some c);
    mi_inj : forall k1 k2 i, pget k1 pd = Some (Some i) -> pget k2 pd = Some (Some i) -> k1 = k2;
    mi_len : length (somes robjs) = length pd;
    mi_inst : forall c, In (Some c) robjs -> is_inst k c }.

  Lemma minv_nil : forall k, minv k [] [].
  Proof.
    intros k. constructor; cbn; intros; try discriminate; try reflexivity. destruct H.
  Qed.

  Lemma minv_step : forall k pd robjs cs c,
    minv k pd robjs -> is_inst k c -> pget cs pd <> Some None ->
    minv k (pset cs (Some (length (match pget cs pd with Some (Some i) => set_none i robjs | _ => robjs end))) pd)
           ((match pget cs pd with Some (Some i) => set_none i robjs | _ => robjs end) ++ [Some c]).
  Proof.
    intros k pd robjs cs c [Hidx Hinj Hlen Hinst] Hc Hnn.
    destruct (pget cs pd) as [[i|]|] eqn:Eg; [| congruence |].
    - (* the text was seen before: its old instance is dropped *)
      destruct (Hidx _ _ Eg) as [i' [c0 [Ei Hn]]]. injection Ei as Ei. subst i'.
      constructor.
      + intros key v Hg. destruct (list_eq_dec ascii_dec key cs) as [E|E].
        * subst key. rewrite pget_pset_same in Hg. injection Hg as Hv. subst v.
          exists (length (set_none i robjs)), c. split; [reflexivity|].
          rewrite nth_error_app2 by lia. rewrite Nat.sub_diag. reflexivity.
        * rewrite pget_pset_other in Hg by exact E.
          destruct (Hidx _ _ Hg) as [j [cj [Ev Hj]]]. exists j, cj. split; [exact Ev|].
          assert (j <> i). { intros Eji. subst j v. apply E. eapply Hinj; eassumption. }
          rewrite nth_error_app1.
          -- rewrite set_none_other by congruence. exact Hj.
          -- rewrite set_none_length. apply nth_error_Some. congruence.
      + intros k1 k2 j H1 H2.
        destruct (list_eq_dec ascii_dec k1 cs) as [E1|E1]; destruct (list_eq_dec ascii_dec k2 cs) as [E2|E2]; subst; try reflexivity.
        * rewrite pget_pset_same in H1. injection H1 as Ej. rewrite pget_pset_other in H2 by exact E2.
          destruct (Hidx _ _ H2) as [j' [cj [Ev Hj]]]. injection Ev as Ev. subst j'.
          assert (j < length robjs) by (apply nth_error_Some; congruence).
          rewrite set_none_length in Ej. lia.
        * rewrite pget_pset_same in H2. injection H2 as Ej. rewrite pget_pset_other in H1 by exact E1.
          destruct (Hidx _ _ H1) as [j' [cj [Ev Hj]]]. injection Ev as Ev. subst j'.
          assert (j < length robjs) by (apply nth_error_Some; congruence).
          rewrite set_none_length in Ej. lia.
        * rewrite pget_pset_other in H1 by exact E1. rewrite pget_pset_other in H2 by exact E2.
          eapply Hinj; eassumption.
      + rewrite somes_app, app_length. cbn. rewrite length_pset, Eg.
        pose proof (set_none_len _ _ _ Hn). lia.
      + intros x Hx. apply in_app_or in Hx. destruct Hx as [Hx|[Hx|[]]].
        * apply Hinst. eapply set_none_In. exact Hx.
        * injection Hx as E. subst. exact Hc.
    - (* a new text *)
      constructor.
      + intros key v Hg. destruct (list_eq_dec ascii_dec key cs) as [E|E].
        * subst key. rewrite pget_pset_same in Hg. injection Hg as Hv. subst v.
          exists (length robjs), c. split; [reflexivity|].
          rewrite nth_error_app2 by lia. rewrite Nat.sub_diag. reflexivity.
        * rewrite pget_pset_other in Hg by exact E.
          destruct (Hidx _ _ Hg) as [j [cj [Ev Hj]]]. exists j, cj. split; [exact Ev|].
          rewrite nth_error_app1; [exact Hj|]. apply nth_error_Some. congruence.
      + intros k1 k2 j H1 H2.
        destruct (list_eq_dec ascii_dec k1 cs) as [E1|E1]; destruct (list_eq_dec ascii_dec k2 cs) as [E2|E2]; subst; try reflexivity.
        * rewrite pget_pset_same in H1. injection H1 as Ej. rewrite pget_pset_other in H2 by exact E2.
          destruct (Hidx _ _ H2) as [j' [cj [Ev Hj]]]. injection Ev as Ev. subst j'.
          assert (j < length robjs) by (apply nth_error_Some; congruence). lia.
        * rewrite pget_pset_same in H2. injection H2 as Ej. rewrite pget_pset_other in H1 by exact E1.
          destruct (Hidx _ _ H1) as [j' [cj [Ev Hj]]]. injection Ev as Ev. subst j'.
          assert (j < length robjs) by (apply nth_error_Some; congruence). lia.
        * rewrite pget_pset_other in H1 by exact E1. rewrite pget_pset_other in H2 by exact E2.
          eapply Hinj; eassumption.
      + rewrite somes_app, app_length. cbn. rewrite length_pset, Eg. lia.
      + intros x Hx. apply in_app_or in Hx. destruct Hx as [Hx|[Hx|[]]].
        * apply Hinst. exact Hx.
        * injection Hx as E. subst. exact Hc.
  Qed.

  Lemma mult_loop_inv : forall k rec mas cands pd robjs used st,
    (forall comb oc, rec comb = Ok oc -> shape_objs (okids k) (fst oc)) ->
    canon k None = Ok mas ->
    minv k pd robjs ->
    mult_loop env canon false k rec mas cands pd robjs used = Ok st ->
    minv k (fst (fst st)) (snd (fst st)).
  Proof.
    intros k rec mas cands. induction cands as [|[fm s] r IH]; intros pd robjs used st Hrec Hmas Hinv H.
    - cbn in H. injection H as E. subst. exact Hinv.
    - cbn [mult_loop] in H. bind_inv H as cc Hcc. destruct cc as [cand u]. cbn [fst snd] in H.
      unfold diff_skip in H. cbn [andb] in H. bind_inv H as cs Hcs.
      destruct (eqs cs mas) eqn:Em; [eapply IH; eassumption|].
      destruct cand as [c|].
      2:{ rewrite Hmas in Hcs. injection Hcs as E. subst cs. rewrite f_eqs_refl in Em. discriminate. }
      assert (Hc : is_inst k c) by (eapply cand_fetch_inst; eassumption).
      destruct (pget cs pd) as [[i|]|] eqn:Eg.
      + eapply IH; [exact Hrec|exact Hmas| |exact H].
        pose proof (minv_step k pd robjs cs c Hinv Hc) as M. rewrite Eg in M. apply M. discriminate.
      + eapply IH; eassumption.
      + eapply IH; [exact Hrec|exact Hmas| |exact H].
        pose proof (minv_step k pd robjs cs c Hinv Hc) as M. rewrite Eg in M. apply M. discriminate.
  Qed.

  (* -------------------------------------------------------------- one master object *)
  Lemma fetch_one_shape : forall allks chain i k rec srcs o,
    (forall comb oc, rec comb = Ok oc -> shape_objs (okids k) (fst oc)) ->
    fetch_one env canon false allks chain i k rec srcs = Ok o -> shape_block k (fst o).
  Proof.
    intros allks chain i k rec srcs o Hrec H. unfold fetch_one in H.
    destruct (get_attr (s_ "alias") (oattrs k)); try discriminate.
    destruct (oname (ohdr k)) as [|c0 nm] eqn:En; [discriminate|].
    destruct (omultiple k) eqn:Em; cbn [negb] in H.
    - (* multiple *)
      bind_inv H as mas Hmas. bind_inv H as st Hst. destruct st as [[pd robjs] used]. injection H as E. subst o. cbn [fst app].
      pose proof (mult_loop_inv _ _ _ _ _ _ _ _ Hrec Hmas (minv_nil k) Hst) as [Hidx Hinj Hlen Hinst].
      cbn [fst snd] in *.
      replace (template_of k pd) with (set_hdr k (with_tmpl (ohdr k) (tmpl_flag k (somes robjs)))).
      + apply SB_multiple; [exact Em|]. apply insts_of. intros c Hc. apply Hinst. apply In_somes. exact Hc.
      + unfold template_of, tmpl_flag. destruct (mandatory (ooptional k)); [reflexivity|].
        destruct pd; destruct (somes robjs); cbn in Hlen; try discriminate; reflexivity.
    - (* not multiple *)
      destruct k as [h mws a|h ks a].
      + bind_inv H as ro Hro. pose proof (def_loop_shape h mws a _ None ro I Hro) as Hs.
        destruct ro as [x|].
        * injection H as E. subst o. destruct Hs as [w [Ew Hd]]. subst x. cbn [fst]. apply SB_def_value; assumption.
        * cbn [negb andb] in H. destruct (odeprecated (Def h mws a)) eqn:Ed; cbn [negb] in H; injection H as E; subst o; cbn [fst].
          -- apply SB_def_deprecated; assumption.
          -- apply SB_def_master; assumption.
      + bind_inv H as comb Hcomb. bind_inv H as oc Hoc. cbn [andb] in H. injection H as E. subst o. cbn [fst].
        apply SB_scope; [exact Em|]. apply (Hrec _ _ Hoc).
  Qed.

  (* -------------------------------------------------------------- the loop over the master's entries *)
  Lemma mloop_shape : forall body l,
    (forall i k o, In k l -> body i k = Ok o -> shape_block k (fst o)) ->
    forall seen i o, mloop body seen i l = Ok o -> shape_blocks (entries_from seen l) (fst o).
  Proof.
    intros body l. induction l as [|k r IH]; intros Hb seen i o H.
    - cbn in H. injection H as E. subst. constructor.
    - cbn [mloop] in H. cbn [entries_from].
      assert (Hr : forall i k o, In k r -> body i k = Ok o -> shape_block k (fst o))
        by (intros; eapply Hb; [right; eassumption|eassumption]).
      destruct (mao_step seen k) as [| |seen'].
      + eapply IH; eassumption.
      + discriminate.
      + bind_inv H as x Hx. bind_inv H as y Hy. injection H as E. subst o. cbn [fst].
        apply SBs_cons.
        * eapply Hb; [left; reflexivity|exact Hx].
        * eapply IH; eassumption.
  Qed.

  Lemma fetch_scope_shape : forall M mchain srcs o,
    fetch_scope env canon false M mchain srcs = Ok o -> shape_objs (okids M) (fst o).
  Proof.
    induction M as [h ws a|h ks a IH] using obj_ind2; intros mchain srcs o H.
    - cbn in H. discriminate.
    - cbn [fetch_scope] in H. cbn [okids]. apply SO. unfold entries.
      eapply mloop_shape; [|exact H].
      intros i k o' Hin Hf. eapply fetch_one_shape; [|exact Hf].
      intros comb oc Hoc. rewrite Forall_forall in IH. eapply IH; eassumption.
  Qed.

  (* C04_shape *)
  Theorem fetch_shape : forall m srcs r,
    fetch env canon false m srcs = Ok r -> shape_ok m r.
  Proof.
    intros m srcs r H. unfold fetch in H. bind_inv H as oc Hoc. injection H as E. subst r.
    unfold fetch_root in Hoc. apply fetch_scope_shape in Hoc. exact Hoc.
  Qed.

  (* the same for the tracked call *)
  Theorem fetch_track_shape : forall marks0 m srcs r u,
    fetch_track_marks env canon false marks0 m srcs = Ok (r, u) -> shape_ok m r.
  Proof.
    intros marks0 m srcs r u H. unfold fetch_track_marks in H. bind_inv H as oc Hoc. injection H as E _. subst r.
    unfold fetch_root in Hoc. apply fetch_scope_shape in Hoc. exact Hoc.
  Qed.
End Shape.

(* ------------------------------------------------------------------ well-formed masters: unique sibling names *)
Definition mactive (k:obj) : bool := negb (odis (ohdr k)).
(* the active objects of one scope carry pairwise different names *)
Definition uniq_names (l:list obj) : Prop := NoDup (map (fun k => oname (ohdr k)) (filter mactive l)).
(* ... in the master scope and, recursively, in every active scope below it *)
Fixpoint wf_obj (o:obj) : Prop :=
  match o with
  | Def _ _ _ => True
  | Scp _ ks _ =>
      uniq_names ks /\
      (fix go (l:list obj) : Prop :=
         match l with [] => True | k :: r => (odis (ohdr k) = false -> wf_obj k) /\ go r end) ks
  end.
Definition wf_master (m:list obj) : Prop := wf_obj (root_scope m).

Lemma seen_get_app_none : forall n a b, seen_get n a = None -> seen_get n (a ++ b) = seen_get n b.
Proof.
  intros n a b. induction a as [|o r IH]; intros H; [reflexivity|].
  cbn in *. destruct (eqs (oname (ohdr o)) n); [discriminate|]. apply IH. exact H.
Qed.

(* with unique sibling names every active object is an entry, exactly once, in master order *)
Lemma entries_uniq_from : forall l seen,
  (forall k, In k l -> odis (ohdr k) = false -> seen_get (oname (ohdr k)) seen = None) ->
  uniq_names l -> entries_from seen l = filter mactive l.
Proof.
  induction l as [|k r IH]; intros seen Hs Hu; [reflexivity|].
  cbn [entries_from filter]. unfold mao_step, mactive at 1. unfold uniq_names in Hu. cbn [filter] in Hu. unfold mactive at 1 in Hu.
  destruct (odis (ohdr k)) eqn:Ed; cbn [negb] in *.
  - apply IH; [intros; apply Hs; [right; assumption|assumption]|exact Hu].
  - rewrite (Hs k (or_introl eq_refl) Ed). f_equal.
    cbn [map] in Hu. inversion Hu as [|x l' Hnin Hnd]; subst.
    apply IH; [|exact Hnd].
    intros k' Hk' Hd'. rewrite seen_get_app_none by (apply Hs; [right; assumption|assumption]).
    cbn. destruct (eqs (oname (ohdr k)) (oname (ohdr k'))) eqn:E; [|reflexivity].
    apply f_eqs_eq in E. exfalso. apply Hnin. rewrite E. apply in_map_iff. exists k'. split; [reflexivity|].
    apply filter_In. split; [exact Hk'|]. unfold mactive. rewrite Hd'. reflexivity.
Qed.

Lemma entries_uniq : forall l, uniq_names l -> entries l = filter mactive l.
Proof. intros l H. apply entries_uniq_from; [reflexivity|exact H]. Qed.

(* a disabled master object is no entry: the admissible shapes are those of the master without it *)
Lemma entries_disabled : forall m1 d m2 seen, odis (ohdr d) = true ->
  entries_from seen (m1 ++ d :: m2) = entries_from seen (m1 ++ m2).
Proof.
  induction m1 as [|k r IH]; intros d m2 seen Hd.
  - cbn [app entries_from]. unfold mao_step. rewrite Hd. reflexivity.
  - cbn [app entries_from]. destruct (mao_step seen k); [apply IH; exact Hd|reflexivity|f_equal; apply IH; exact Hd].
Qed.

Theorem disabled_master_never_set : forall env canon m1 d m2 srcs r,
  odis (ohdr d) = true ->
  fetch env canon false (m1 ++ d :: m2) srcs = Ok r -> shape_ok (m1 ++ m2) r.
Proof.
  intros env canon m1 d m2 srcs r Hd H. apply fetch_shape in H. inversion H as [ks r0 Hb]; subst.
  apply SO. unfold entries in *. rewrite entries_disabled in Hb by exact Hd. exact Hb.
Qed.

(* every object of a result carries the name, kind and attributes of an ACTIVE master object *)
Lemma shape_block_origin : forall k b o, shape_block k b -> In o b ->
  oname (ohdr o) = oname (ohdr k) /\ oattrs o = oattrs k /\ is_def o = is_def k /\ odis (ohdr o) = odis (ohdr k).
Proof.
  intros k b o H Ho. destruct H as [h ws a Hm Hd|h ws a ws' Hm|h ws a Hm Hd|h ks a os Hm Hs|k insts Hm Hi].
  - destruct Ho as [E|[]]. subst. auto.
  - destruct Ho as [E|[]]. subst. auto.
  - destruct Ho.
  - destruct Ho as [E|[]]. subst. auto.
  - destruct Ho as [E|Ho].
    + subst. destruct k; cbn; auto.
    + clear Hm. induction Hi as [k|h ws a ws' r Hd Hr IH|h ks a os r Hs Hr IH]; [destruct Ho| |];
        (destruct Ho as [E|Ho]; [subst; cbn; auto|apply IH; exact Ho]).
Qed.

Theorem result_objects_from_active_master : forall env canon m srcs r o,
  fetch env canon false m srcs = Ok r -> In o r ->
  exists k, In k m /\ odis (ohdr k) = false /\
            oname (ohdr o) = oname (ohdr k) /\ oattrs o = oattrs k /\ is_def o = is_def k /\ odis (ohdr o) = false.
Proof.
  intros env canon m srcs r o H Ho. apply fetch_shape in H. inversion H as [ks r0 Hb]; subst.
  unfold entries in Hb. remember (entries_from [] m) as es eqn:Ees.
  assert (Hes : forall k, In k es -> odis (ohdr k) = false /\ In k m).
  { intros k Hk. subst es. eapply entries_active. exact Hk. }
  clear Ees H. induction Hb as [|k b ks r Hk Hr IH]; [destruct Ho|].
  apply in_app_or in Ho. destruct Ho as [Ho|Ho].
  - destruct (Hes k (or_introl eq_refl)) as [Hd Hin].
    destruct (shape_block_origin _ _ _ Hk Ho) as [A [B [C D]]].
    exists k. rewrite D. auto 7.
  - apply IH; [exact Ho|]. intros k' Hk'. apply Hes. right. exact Hk'.
Qed.
