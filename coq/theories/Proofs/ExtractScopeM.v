(* C09 at scope level, masters WITH .multiple definitions and scopes (nested too):
   extract (format m p) = p for every p in the domain of m.  Same structure as ExtractScope.v; a
   .multiple object contributes a scope_extract_list whose elements are in the object's own domain. *)
From Coq Require Import List Ascii String Bool Arith ZArith Lia.
From Phil Require Import Base Tokenizer Tree PyVal ConvText Extract ExtractGuard ExtractScope.
From Phil Require Conv Parser.
Import ListNotations.
Local Open Scope char_scope.

(* active sibling names distinct and usable as attribute names; .multiple allowed *)
Fixpoint wf_m (m:obj) : Prop :=
  match m with
  | Def _ _ _ => True
  | Scp h ks a =>
      NoDup (map kname (filter active ks)) /\
      (fix go (l:list obj) : Prop :=
         match l with
         | [] => True
         | k :: r => (active k = true -> good_name (kname k) /\ wf_m k) /\ go r
         end) ks
  end.
Lemma wf_m_kids h ks a : wf_m (Scp h ks a) ->
  NoDup (map kname (filter active ks)) /\ Forall (fun k => active k = true -> good_name (kname k) /\ wf_m k) ks.
Proof.
  cbn [wf_m]. intros [N G]. split; [exact N|]. clear N. induction ks as [|k r IH]; [constructor|].
  destruct G as [G1 G2]. constructor; [exact G1|apply IH; exact G2].
Qed.

(* the append rule of __phil_set__ for a .multiple object: None is dropped when .optional is True *)
Definition keep (k:obj) (y:pyval) : Prop := not_none y || negb (is_true (ooptional k)) = true.

Section ScopeM.
  Variable pe : str -> option Conv.evr.
  Variable ex : str -> option str.

  Fixpoint pdom_m (m:obj) (v:pyval) : Prop :=
    match m with
    | Def h ws a => exists t, format_obj (Def h ws a) v = Ok t /\ extract_obj pe ex t = Ok v
    | Scp h ks a =>
        exists fs, v = VScope (Ext (oname h) fs) /\
          (fix go (l:list obj) (fs:fields_t) : Prop :=
             match l with
             | [] => fs = []
             | k :: r =>
                 if active k then
                   match fs with
                   | (key, x) :: fr =>
                       key = kname k /\
                       (if omultiple k then
                          exists l, x = VScopeList (ooptional k) l /\
                            (fix all (l:list pyval) : Prop :=
                               match l with [] => True | y :: r => (pdom_m k y /\ keep k y) /\ all r end) l
                        else pdom_m k x) /\
                       go r fr
                   | [] => False
                   end
                 else go r fs
             end) ks fs
    end.

  (* one formatted instance of the master object k *)
  Definition inst (k:obj) (y:pyval) (t:obj) : Prop :=
    format_obj k y = Ok t /\ extract_obj pe ex t = Ok y /\ ohdr t = with_tmpl (ohdr k) 0 /\ oattrs t = oattrs k /\ keep k y.
  Definition block (k:obj) (l:list pyval) (tl:list obj) : list obj :=
    match l with
    | [] => [copy_tmpl k 1]
    | _ => (if is_def k then [] else [copy_tmpl k (-1)]) ++ tl
    end.

  Inductive relm : list obj -> fields_t -> list obj -> Prop :=
    | relm_nil : relm [] [] []
    | relm_skip k r fs ts : active k = false -> relm r fs ts -> relm (k :: r) fs ts
    | relm_cons k r x fs t ts :
        active k = true -> omultiple k = false -> good_name (kname k) ->
        format_obj k x = Ok t -> extract_obj pe ex t = Ok x ->
        ohdr t = with_tmpl (ohdr k) 0 -> oattrs t = oattrs k ->
        relm r fs ts -> relm (k :: r) ((kname k, x) :: fs) (t :: ts)
    | relm_multi k r l tl fs ts :
        active k = true -> omultiple k = true -> good_name (kname k) ->
        Forall2 (inst k) l tl ->
        relm r fs ts -> relm (k :: r) ((kname k, VScopeList (ooptional k) l) :: fs) (block k l tl ++ ts).

  Lemma relm_keys ks fs ts : relm ks fs ts -> fkeys fs = map kname (filter active ks).
  Proof.
    induction 1 as [|k r fs ts A _ I1|k r x fs t ts A M G F E Hh Ha _ I1|k r l tl fs ts A M G Fl _ I1].
    - reflexivity.
    - cbn [filter]. rewrite A. assumption.
    - cbn [filter]. rewrite A. cbn [map fkeys fst]. unfold fkeys in *. rewrite I1. reflexivity.
    - cbn [filter]. rewrite A. cbn [map fkeys fst]. unfold fkeys in *. rewrite I1. reflexivity.
  Qed.

  (* ---------- assoc helpers *)
  Lemma aget_aset_same {A} k (v:A) l : aget k (aset k v l) = Some v.
  Proof.
    induction l as [|[k' v'] l IH]; cbn [aset aget]; [rewrite eqs_refl'; reflexivity|].
    destruct (eqs k' k) eqn:E; cbn [aget]; rewrite E; [reflexivity|exact IH].
  Qed.
  Lemma aget_aset_other {A} k k' (v:A) l : k' <> k -> aget k (aset k' v l) = aget k l.
  Proof.
    intro N. induction l as [|[k2 v2] l IH]; cbn [aset aget].
    - rewrite (eqs_neq' k' k N). reflexivity.
    - destruct (eqs k2 k') eqn:E; cbn [aget].
      + apply eqs_eq' in E. subst k2. rewrite (eqs_neq' k' k N). reflexivity.
      + rewrite IH. reflexivity.
  Qed.
  Lemma map_res_forall2 {A B} (f:A -> res B) (P:A -> B -> Prop) l tl :
    (forall a b, P a b -> f a = Ok b) -> Forall2 P l tl -> Conv.map_res f l = Ok tl.
  Proof.
    intros H F. induction F as [|a b l tl Hab _ IH]; [reflexivity|]. cbn [Conv.map_res]. rewrite (H a b Hab). cbn [bind].
    rewrite IH. reflexivity.
  Qed.

  (* ---------- scope.format *)
  Lemma fmt_loop_relm n fs_all : forall ks fs ts, relm ks fs ts ->
    forall seen done acc,
      (forall k, In k (fkeys fs) -> aget k seen = None /\ aget k done = None) ->
      NoDup (fkeys fs) ->
      (forall k x, In (k, x) fs -> fget k fs_all = Some x) ->
      fmt_loop (VScope (Ext n fs_all)) ks seen done acc = Ok (rev acc ++ ts).
  Proof.
    induction 1 as [|k r fs ts A _ IH|k r x fs t ts A M G F E Hh Ha _ IH|k r l tl fs ts A M G Fl _ IH];
      intros seen done acc S N L.
    - cbn [fmt_loop]. rewrite app_nil_r. reflexivity.
    - cbn [fmt_loop]. unfold active in A. apply negb_false_iff in A. rewrite A. apply IH; assumption.
    - cbn [fmt_loop]. unfold active in A. apply negb_true_iff in A. rewrite A.
      fold (kname k). destruct (S (kname k)) as [S1 S2]; [cbn [fkeys map fst In]; auto|]. rewrite S1.
      cbn [mao_step]. rewrite M. cbn [andb]. cbn [iter_items bind format_items format_item].
      destruct G as [G1 G2]. fold (kname k). rewrite G1. unfold getattr.
      rewrite (L (kname k) x) by (left; reflexivity). rewrite M. cbn [negb]. rewrite F. cbn [bind fst snd].
      inversion N as [|? ? Nk Nr]; subst.
      rewrite (IH (seen ++ [(kname k, false)]) done (t :: acc)).
      + cbn [rev]. rewrite <- app_assoc. reflexivity.
      + intros k' Hk'. destruct (S k') as [T1 T2]; [cbn [fkeys map fst In]; right; exact Hk'|]. split; [|exact T2].
        rewrite aget_app_none by exact T1.
        cbn [aget]. rewrite eqs_neq'; [reflexivity|]. intro X. subst. apply Nk. exact Hk'.
      + exact Nr.
      + intros k' x' Hin. apply L. right. exact Hin.
    - cbn [fmt_loop]. unfold active in A. apply negb_true_iff in A. rewrite A.
      fold (kname k). destruct (S (kname k)) as [S1 S2]; [cbn [fkeys map fst In]; auto|]. rewrite S1.
      cbn [mao_step]. rewrite M. cbn [andb]. rewrite S2. rewrite andb_false_r.
      cbn [iter_items bind format_items format_item].
      destruct G as [G1 G2]. fold (kname k). rewrite G1. unfold getattr.
      rewrite (L (kname k) (VScopeList (ooptional k) l)) by (left; reflexivity). rewrite M. cbn [negb multi_items bind].
      inversion N as [|? ? Nk Nr]; subst.
      assert (Rest : forall done' acc', (forall k', In k' (fkeys fs) -> aget k' done' = aget k' done) ->
                 fmt_loop (VScope (Ext n fs_all)) r (seen ++ [(kname k, true)]) done' acc' = Ok (rev acc' ++ ts)).
      { intros done' acc' Hd. apply IH; [|exact Nr|intros k' x' Hin; apply L; right; exact Hin].
        intros k' Hk'. destruct (S k') as [T1 T2]; [cbn [fkeys map fst In]; right; exact Hk'|]. split.
        - rewrite aget_app_none by exact T1. cbn [aget]. rewrite eqs_neq'; [reflexivity|]. intro X. subst. apply Nk. exact Hk'.
        - rewrite Hd by exact Hk'. exact T2. }
      assert (Ne : forall k', In k' (fkeys fs) -> kname k <> k') by (intros k' Hk' X; subst; contradiction).
      destruct l as [|y l'].
      + (* empty list: the visible template *)
        inversion Fl; subst. cbn [block bind fst snd app]. rewrite Rest.
        * cbn [rev]. rewrite <- app_assoc. reflexivity.
        * intros k' Hk'. destruct (is_def k); cbn [negb]; [reflexivity|]. apply aget_aset_other. apply Ne. exact Hk'.
      + rewrite (map_res_forall2 (format_obj k) (inst k) (y :: l') tl) by (try exact Fl; intros a b [Hf _]; exact Hf).
        cbn [bind block]. destruct (is_def k) eqn:D; cbn [negb].
        * (* .multiple definition: no template *)
          rewrite S2. cbn [bind fst snd app]. rewrite Rest; [|intros; reflexivity].
          rewrite rev_app_distr, rev_involutive, <- app_assoc. reflexivity.
        * rewrite aget_aset_same. cbn [bind fst snd app]. rewrite Rest.
          -- rewrite rev_app_distr, rev_involutive. cbn [rev]. rewrite <- !app_assoc. reflexivity.
          -- intros k' Hk'. rewrite !aget_aset_other by (apply Ne; exact Hk'). reflexivity.
  Qed.

  (* ---------- scope.extract *)
  Lemma fget_last acc name x : ~ In name (fkeys acc) -> fget name (acc ++ [(name, x)]) = Some x.
  Proof.
    intro N. induction acc as [|[k v] acc IH]; cbn [app fget]; [rewrite eqs_refl'; reflexivity|].
    rewrite eqs_neq'; [apply IH|]; intro X; apply N; cbn [fkeys map fst In]; [right; exact X|left; exact X].
  Qed.
  Lemma fset_last acc name x y : ~ In name (fkeys acc) -> fset name y (acc ++ [(name, x)]) = acc ++ [(name, y)].
  Proof.
    intro N. induction acc as [|[k v] acc IH]; cbn [app fset]; [rewrite eqs_refl'; reflexivity|].
    rewrite eqs_neq'; [rewrite IH; [reflexivity|]|]; intro X; apply N; cbn [fkeys map fst In]; [right; exact X|left; exact X].
  Qed.

  Lemma copy_tmpl_hdr k t : ohdr (copy_tmpl k t) = with_tmpl (ohdr k) t.
  Proof. destruct k; reflexivity. Qed.
  Lemma copy_tmpl_attrs k t : oattrs (copy_tmpl k t) = oattrs k.
  Proof. destruct k; reflexivity. Qed.

  Lemma attrs_same k t : oattrs t = oattrs k -> ooptional t = ooptional k /\ omultiple t = omultiple k.
  Proof. intro H. unfold ooptional, omultiple, attr_true. rewrite H. split; reflexivity. Qed.

  (* one instance t of the .multiple object k appended to the list that already exists *)
  Lemma ext_step k y t acc pre rest :
    active k = true -> good_name (kname k) -> omultiple k = true -> inst k y t -> ~ In (kname k) (fkeys acc) ->
    ext_loop pe ex (t :: rest) (acc ++ [(kname k, VScopeList (ooptional k) pre)])
    = ext_loop pe ex rest (acc ++ [(kname k, VScopeList (ooptional k) (pre ++ [y]))]).
  Proof.
    intros A [G1 G2] M [F [E [Hh [Ha Kp]]]] N. destruct (attrs_same k t Ha) as [Ho Hm].
    unfold active in A. apply negb_true_iff in A.
    cbn [ext_loop]. rewrite Hh. cbn [otmpl with_tmpl odis oname]. cbn [Z.ltb Z.compare]. rewrite A. cbn [orb].
    rewrite E. cbn [bind]. rewrite Ho, Hm, M. fold (kname k).
    unfold phil_set. rewrite G1. unfold getattr. rewrite (fget_last _ _ _ N). cbn [negb].
    unfold keep in Kp. rewrite Kp. rewrite (fset_last _ _ _ _ N). cbn [bind]. reflexivity.
  Qed.
  Lemma ext_block k rest : active k = true -> good_name (kname k) -> omultiple k = true ->
    forall l tl, Forall2 (inst k) l tl ->
    forall acc pre, ~ In (kname k) (fkeys acc) ->
      ext_loop pe ex (tl ++ rest) (acc ++ [(kname k, VScopeList (ooptional k) pre)])
      = ext_loop pe ex rest (acc ++ [(kname k, VScopeList (ooptional k) (pre ++ l))]).
  Proof.
    intros A G M. induction 1 as [|y t l tl Hi _ IH]; intros acc pre N.
    - rewrite app_nil_r. reflexivity.
    - cbn [app]. rewrite (ext_step k y t acc pre (tl ++ rest) A G M Hi N). rewrite IH by exact N.
      rewrite <- app_assoc. reflexivity.
  Qed.
  (* the first instance creates the list *)
  Lemma ext_first k y t acc rest :
    active k = true -> good_name (kname k) -> omultiple k = true -> inst k y t -> ~ In (kname k) (fkeys acc) ->
    ext_loop pe ex (t :: rest) acc = ext_loop pe ex rest (acc ++ [(kname k, VScopeList (ooptional k) [y])]).
  Proof.
    intros A [G1 G2] M [F [E [Hh [Ha Kp]]]] N. destruct (attrs_same k t Ha) as [Ho Hm].
    unfold active in A. apply negb_true_iff in A.
    cbn [ext_loop]. rewrite Hh. cbn [otmpl with_tmpl odis oname]. cbn [Z.ltb Z.compare]. rewrite A. cbn [orb].
    rewrite E. cbn [bind]. rewrite Ho, Hm, M. fold (kname k).
    unfold phil_set. rewrite G1. unfold getattr. rewrite (fget_none_keys _ _ N), G2. cbn [negb].
    unfold keep in Kp. rewrite Kp. rewrite (fset_fresh _ _ _ (fget_none_keys _ _ N)).
    rewrite (fset_last _ _ _ _ N). cbn [bind app]. reflexivity.
  Qed.
  (* the visible template of an empty list creates the empty list; the hidden template is skipped *)
  Lemma ext_tmpl_pos k acc rest :
    good_name (kname k) -> omultiple k = true -> ~ In (kname k) (fkeys acc) ->
    ext_loop pe ex (copy_tmpl k 1 :: rest) acc = ext_loop pe ex rest (acc ++ [(kname k, VScopeList (ooptional k) [])]).
  Proof.
    intros [G1 G2] M N. destruct (attrs_same k (copy_tmpl k 1) (copy_tmpl_attrs k 1)) as [Ho Hm].
    cbn [ext_loop]. rewrite copy_tmpl_hdr. cbn [otmpl with_tmpl odis oname]. cbn [Z.ltb Z.compare]. rewrite orb_true_r.
    cbn [bind]. rewrite Ho, Hm, M. fold (kname k).
    unfold phil_set. rewrite G1. unfold getattr. rewrite (fget_none_keys _ _ N), G2. cbn [negb].
    rewrite (fset_fresh _ _ _ (fget_none_keys _ _ N)). cbn [bind]. reflexivity.
  Qed.
  Lemma ext_tmpl_neg k acc rest : ext_loop pe ex (copy_tmpl k (-1) :: rest) acc = ext_loop pe ex rest acc.
  Proof. cbn [ext_loop]. rewrite copy_tmpl_hdr. reflexivity. Qed.

  Lemma ext_loop_relm : forall ks fs ts, relm ks fs ts ->
    forall acc, NoDup (fkeys fs) -> (forall k, In k (fkeys fs) -> ~ In k (fkeys acc)) ->
    ext_loop pe ex ts acc = Ok (acc ++ fs).
  Proof.
    induction 1 as [|k r fs ts A _ IH|k r x fs t ts A M G F E Hh Ha _ IH|k r l tl fs ts A M G Fl _ IH]; intros acc N D.
    - cbn [ext_loop]. rewrite app_nil_r. reflexivity.
    - apply IH; assumption.
    - cbn [ext_loop]. rewrite Hh. cbn [otmpl with_tmpl odis oname]. cbn [Z.ltb Z.compare orb].
      unfold active in A. apply negb_true_iff in A. rewrite A. cbn [orb]. rewrite E. cbn [bind].
      destruct (attrs_same k t Ha) as [Ho Hm]. rewrite Hm, M. fold (kname k).
      rewrite phil_set_fresh; [|exact G|apply fget_none_keys; apply D; cbn [fkeys map fst In]; auto].
      cbn [bind]. inversion N as [|? ? Nk Nr]; subst. rewrite IH.
      + rewrite <- app_assoc. reflexivity.
      + exact Nr.
      + intros k' Hk' Hin. unfold fkeys in Hin. rewrite map_app in Hin. apply in_app_or in Hin. destruct Hin as [Hin|Hin].
        * apply (D k'); [cbn [fkeys map fst In]; right; exact Hk'|exact Hin].
        * cbn in Hin. destruct Hin as [<-|[]]. apply Nk. exact Hk'.
    - inversion N as [|? ? Nk Nr]; subst.
      assert (Nacc : ~ In (kname k) (fkeys acc)) by (apply D; cbn [fkeys map fst In]; auto).
      assert (Tail : forall x, ext_loop pe ex ts (acc ++ [(kname k, x)]) = Ok ((acc ++ [(kname k, x)]) ++ fs)).
      { intro x. apply IH; [exact Nr|]. intros k' Hk' Hin. unfold fkeys in Hin. rewrite map_app in Hin.
        apply in_app_or in Hin. destruct Hin as [Hin|Hin].
        - apply (D k'); [cbn [fkeys map fst In]; right; exact Hk'|exact Hin].
        - cbn in Hin. destruct Hin as [<-|[]]. apply Nk. exact Hk'. }
      destruct Fl as [|y t l tl Hi Fl].
      + cbn [block app]. rewrite (ext_tmpl_pos k acc ts G M Nacc). rewrite Tail, <- app_assoc. reflexivity.
      + cbn [block]. assert (Core : ext_loop pe ex ((t :: tl) ++ ts) acc = Ok (acc ++ (kname k, VScopeList (ooptional k) (y :: l)) :: fs)).
        { cbn [app]. rewrite (ext_first k y t acc (tl ++ ts) A G M Hi Nacc).
          rewrite (ext_block k ts A G M l tl Fl acc [y] Nacc). cbn [app]. rewrite Tail, <- app_assoc. reflexivity. }
        destruct (is_def k); cbn [app].
        * exact Core.
        * rewrite ext_tmpl_neg. exact Core.
  Qed.

  (* ---------- the theorem *)
  Theorem scope_roundtrip_multi : forall m v, wf_m m -> pdom_m m v ->
    exists t, format_obj m v = Ok t /\ extract_obj pe ex t = Ok v
              /\ ohdr t = with_tmpl (ohdr m) 0 /\ oattrs t = oattrs m.
  Proof.
    induction m as [h ws a|h ks a IH] using obj_ind2; intros v W D.
    - destruct D as [t [F E]]. exists t. repeat split; try assumption;
        cbn [format_obj] in F; destruct (def_as_words h a ws v); try discriminate; cbn [bind] in F; inversion F; reflexivity.
    - destruct D as [fs [-> D]]. destruct (wf_m_kids _ _ _ W) as [N G].
      assert (R : exists ts, relm ks fs ts).
      { clear N W. revert fs D. induction ks as [|k r IHr]; intros fs D.
        - subst. exists []. constructor.
        - inversion IH as [|? ? Ik Ir]; subst. inversion G as [|? ? Gk Gr]; subst.
          destruct (active k) eqn:A.
          + destruct fs as [|[key x] fr]; [contradiction|]. destruct D as [-> [Dk Dr]].
            destruct (Gk eq_refl) as [Gn Wk]. destruct (IHr Ir Gr fr Dr) as [ts Rr].
            destruct (omultiple k) eqn:M.
            * destruct Dk as [l [-> Dl]].
              assert (T : exists tl, Forall2 (inst k) l tl).
              { clear - Ik Wk Dl. induction l as [|y l IHl]; [exists []; constructor|].
                destruct Dl as [[Dy Ky] Dl]. destruct (IHl Dl) as [tl Ftl].
                destruct (Ik y Wk Dy) as [t [F [E [Hh Ha]]]]. exists (t :: tl). constructor; [|exact Ftl].
                repeat split; assumption. }
              destruct T as [tl Ftl]. exists (block k l tl ++ ts). apply relm_multi; assumption.
            * destruct (Ik x Wk Dk) as [t [F [E [Hh Ha]]]]. exists (t :: ts). apply relm_cons; assumption.
          + destruct (IHr Ir Gr fs D) as [ts Rr]. exists ts. apply relm_skip; assumption. }
      destruct R as [ts R]. pose proof (relm_keys _ _ _ R) as K1. rewrite <- K1 in N.
      exists (Scp (with_tmpl h 0) ts a). split; [|split; [|split; reflexivity]].
      + rewrite format_scp. rewrite (fmt_loop_relm (oname h) fs ks fs ts R [] [] []); [reflexivity| |exact N|].
        * intros; split; reflexivity.
        * intros k x Hin. apply in_nodup_fget; assumption.
      + rewrite extract_scp. rewrite (ext_loop_relm ks fs ts R []); [reflexivity|exact N|]. intros k _ [].
  Qed.
End ScopeM.
