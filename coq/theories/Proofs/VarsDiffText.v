(* The text that diff mode writes for an unresolved variable (Vars.diff_text) re-reads, by the
   scanner of variable_substitution_proxy (Vars.frags), as the same variable reference - for every
   name the scanner accepts and every text that follows it.

     diff_text_resumes      the general step: after the written text the scanner is in the outer
                            loop with the reference appended and have_variables set
     diff_text_rereads      reference + following literal
     diff_text_rereads_any  whatever text follows, the form chosen from its first character
     diff_text_rereads_before_variable   reference + following "$"
     dtext_rereads          the same for the text resolve_word computes (Vars.dtext): in front of
                            the values of the later fragments of the word
     textual_word_rereads   a whole word all of whose references stay textual
     bare_form_misreads     the form written before the repair ("$name" always): "$DIR" + "_old" *)
From Coq Require Import List Ascii String Bool Arith Lia.
From Phil Require Import Base Tree Vars.
Import ListNotations.
Local Open Scope char_scope.

(* ------------------------------------------------------------------ vocabulary *)
(* "offs" of the "$(...)" branch of the scanner *)
Definition paren_offs (v:str) : nat :=
  match v with d :: _ => if Ascii.eqb d "." then 1 else 0 | [] => 0 end.
(* a name the scanner accepts between "$(" and ")" *)
Definition var_name_ok (v:str) : bool := var_ident (drop (paren_offs v) v).
(* a character of a plain literal: neither "$" nor a backslash *)
Definition plain_char (c:ascii) : bool := negb (Ascii.eqb c "$") && negb (Ascii.eqb c bs).
(* the text after a bare "$name" ends the name at once: nothing, "." or a non-continuation *)
Definition bare_safe (rest:str) : bool :=
  match rest with [] => true | c :: _ => Ascii.eqb c "." || negb (vid_cont c) end.
(* [rest] begins the way the character [fc] handed to diff_text says; fc = hd_error rest does *)
Definition head_matches (fc:option ascii) (rest:str) : Prop :=
  match fc with
  | Some c => exists r, rest = c :: r
  | None => bare_safe rest = true
  end.

Lemma hd_error_matches : forall rest, head_matches (hd_error rest) rest.
Proof. intros [|c r]; cbn; [reflexivity|]. exists r. reflexivity. Qed.

(* ------------------------------------------------------------------ characters *)
Lemma vid_start_cont : forall c, vid_start c = true -> vid_cont c = true.
Proof. intros c H. unfold vid_cont. rewrite H. reflexivity. Qed.

Lemma vid_cont_not_rparen : forall c, vid_cont c = true -> Ascii.eqb c ")" = false.
Proof.
  intros c H. destruct (Ascii.eqb_spec c ")") as [E|E]; [|reflexivity].
  subst c. vm_compute in H. discriminate.
Qed.

Lemma vid_start_not_lparen : forall c, vid_start c = true -> Ascii.eqb c "(" = false.
Proof.
  intros c H. destruct (Ascii.eqb_spec c "(") as [E|E]; [|reflexivity].
  subst c. vm_compute in H. discriminate.
Qed.

Lemma var_ident_chars : forall s, var_ident s = true -> vident_chars s = true.
Proof.
  intros s H. unfold var_ident, var_ident_step in H.
  apply andb_prop in H. exact (proj1 H).
Qed.

Lemma forallb_cont_not_rparen : forall r,
  forallb vid_cont r = true -> forallb (fun c => negb (Ascii.eqb c ")")) r = true.
Proof.
  induction r as [|c r IH]; intro H; [reflexivity|].
  cbn [forallb] in *. apply andb_prop in H. destruct H as [Hc Hr].
  rewrite (vid_cont_not_rparen c Hc), (IH Hr). reflexivity.
Qed.

Lemma vident_chars_not_rparen : forall s,
  vident_chars s = true -> forallb (fun c => negb (Ascii.eqb c ")")) s = true.
Proof.
  intros [|c r] H; [reflexivity|].
  unfold vident_chars in H. apply andb_prop in H. destruct H as [Hc Hr].
  cbn [forallb]. rewrite (vid_cont_not_rparen c (vid_start_cont c Hc)).
  rewrite (forallb_cont_not_rparen r Hr). reflexivity.
Qed.

Lemma name_ok_not_rparen : forall v,
  var_name_ok v = true -> forallb (fun c => negb (Ascii.eqb c ")")) v = true.
Proof.
  intros [|d r] H; [reflexivity|].
  unfold var_name_ok, paren_offs in H.
  destruct (Ascii.eqb_spec d ".") as [E|E].
  - subst d. cbn [drop] in H. cbn [forallb].
    rewrite (vident_chars_not_rparen r (var_ident_chars r H)). reflexivity.
  - cbn [drop] in H. exact (vident_chars_not_rparen (d :: r) (var_ident_chars _ H)).
Qed.

(* ------------------------------------------------------------------ the scanner, mode by mode *)
Section Scan.
  Variable w : word.

  (* inside "$(": characters other than ")" accumulate *)
  Lemma paren_scan : forall r fv have acc rest,
    forallb (fun c => negb (Ascii.eqb c ")")) r = true ->
    frags w (MParen fv) have acc (r ++ ")" :: rest)
    = frags w (MParen (fv ++ r)) have acc (")" :: rest).
  Proof.
    induction r as [|c r IH]; intros fv have acc rest H.
    - rewrite app_nil_r. reflexivity.
    - cbn [forallb] in H. apply andb_prop in H. destruct H as [Hc Hr].
      apply negb_true_iff in Hc.
      change ((c :: r) ++ ")" :: rest) with (c :: (r ++ ")" :: rest)).
      cbn [frags]. rewrite Hc. rewrite (IH (fv ++ [c]) have acc rest Hr).
      rewrite <- app_assoc. reflexivity.
  Qed.

  (* ")" closes an accepted name *)
  Lemma paren_close : forall v have acc rest,
    var_name_ok v = true ->
    frags w (MParen v) have acc (")" :: rest) = frags w (MLit []) have (FVar v :: acc) rest.
  Proof.
    intros v have acc rest H. unfold var_name_ok, paren_offs in H.
    cbn [frags]. rewrite Ascii.eqb_refl. rewrite H. reflexivity.
  Qed.

  (* the outer loop at "$" *)
  Lemma lit_dollar : forall fv have acc r,
    frags w (MLit fv) have acc ("$" :: r) = frags w MDollar true (flush_lit fv acc) r.
  Proof. intros. cbn [frags]. rewrite Ascii.eqb_refl. reflexivity. Qed.

  Lemma paren_form : forall v fv have acc rest,
    var_name_ok v = true ->
    frags w (MLit fv) have acc ("$" :: "(" :: v ++ ")" :: rest)
    = frags w (MLit []) true (FVar v :: flush_lit fv acc) rest.
  Proof.
    intros v fv have acc rest H. rewrite lit_dollar.
    cbn [frags]. rewrite Ascii.eqb_refl.
    rewrite (paren_scan v [] true _ rest (name_ok_not_rparen v H)).
    cbn [app]. apply paren_close. exact H.
  Qed.

  (* inside "$name": continuation characters other than "." accumulate *)
  Lemma bare_scan : forall r fv have acc rest,
    forallb (fun c => vid_cont c && negb (Ascii.eqb c ".")) r = true ->
    frags w (MBare fv) have acc (r ++ rest) = frags w (MBare (fv ++ r)) have acc rest.
  Proof.
    induction r as [|c r IH]; intros fv have acc rest H.
    - rewrite app_nil_r. reflexivity.
    - cbn [forallb] in H. apply andb_prop in H. destruct H as [Hc Hr].
      apply andb_prop in Hc. destruct Hc as [Hc Hd]. apply negb_true_iff in Hd.
      change ((c :: r) ++ rest) with (c :: (r ++ rest)).
      cbn [frags]. rewrite Hd, Hc. cbn [orb negb].
      rewrite (IH (fv ++ [c]) have acc rest Hr). rewrite <- app_assoc. reflexivity.
  Qed.

  (* the name ends where nothing, "." or a non-continuation character follows *)
  Lemma bare_close : forall fv have acc rest,
    bare_safe rest = true ->
    frags w (MBare fv) have acc rest = frags w (MLit []) have (FVar fv :: acc) rest.
  Proof.
    intros fv have acc [|c r] H.
    - reflexivity.
    - unfold bare_safe in H. cbn [frags]. rewrite H. reflexivity.
  Qed.

  Lemma dotfree_cont : forall r,
    forallb vid_cont r = true -> existsb (Ascii.eqb ".") r = false ->
    forallb (fun c => vid_cont c && negb (Ascii.eqb c ".")) r = true.
  Proof.
    induction r as [|c r IH]; intros H D; [reflexivity|].
    cbn [forallb existsb] in *. apply andb_prop in H. destruct H as [Hc Hr].
    apply orb_false_elim in D. destruct D as [Dc Dr].
    rewrite Ascii.eqb_sym in Dc. rewrite Hc, Dc, (IH Hr Dr). reflexivity.
  Qed.

  Lemma bare_form : forall v fv have acc rest,
    var_name_ok v = true -> existsb (Ascii.eqb ".") v = false -> bare_safe rest = true ->
    frags w (MLit fv) have acc ("$" :: v ++ rest)
    = frags w (MLit []) true (FVar v :: flush_lit fv acc) rest.
  Proof.
    intros [|c r] fv have acc rest H D S.
    - vm_compute in H. discriminate.
    - cbn [existsb] in D. apply orb_false_elim in D. destruct D as [Dc Dr].
      rewrite Ascii.eqb_sym in Dc.
      unfold var_name_ok, paren_offs in H. rewrite Dc in H. cbn [drop] in H.
      apply var_ident_chars in H. unfold vident_chars in H.
      apply andb_prop in H. destruct H as [Hc Hr].
      rewrite lit_dollar.
      change ((c :: r) ++ rest) with (c :: (r ++ rest)).
      cbn [frags]. rewrite (vid_start_not_lparen c Hc), Hc. cbn [negb].
      rewrite (bare_scan r [c] true _ rest (dotfree_cont r Hr Dr)).
      cbn [app]. apply bare_close. exact S.
  Qed.

  (* a plain literal accumulates in the outer loop *)
  Lemma lit_scan : forall lit fv have acc rest,
    forallb plain_char lit = true ->
    frags w (MLit fv) have acc (lit ++ rest) = frags w (MLit (fv ++ lit)) have acc rest.
  Proof.
    induction lit as [|c r IH]; intros fv have acc rest H.
    - rewrite app_nil_r. reflexivity.
    - cbn [forallb] in H. apply andb_prop in H. destruct H as [Hc Hr].
      unfold plain_char in Hc. apply andb_prop in Hc. destruct Hc as [H1 H2].
      apply negb_true_iff in H2.
      change ((c :: r) ++ rest) with (c :: (r ++ rest)).
      cbn [frags]. rewrite H1, H2.
      rewrite (IH (fv ++ [c]) have acc rest Hr). rewrite <- app_assoc. reflexivity.
  Qed.

  (* -------------------------------------------------------------- diff_text *)
  (* the general step: wherever the outer loop stands (pending literal fv), the written text
     flushes the literal, appends the reference and leaves the scanner in the outer loop *)
  Theorem diff_text_resumes_w : forall v fc fv have acc rest,
    var_name_ok v = true -> head_matches fc rest ->
    frags w (MLit fv) have acc (diff_text v fc ++ rest)
    = frags w (MLit []) true (FVar v :: flush_lit fv acc) rest.
  Proof.
    intros v fc fv have acc rest H M.
    assert (P : frags w (MLit fv) have acc (("$" :: "(" :: v ++ [")"]) ++ rest)
                = frags w (MLit []) true (FVar v :: flush_lit fv acc) rest).
    { cbn [app]. rewrite <- app_assoc. cbn [app]. apply paren_form. exact H. }
    assert (B : existsb (Ascii.eqb ".") v = false -> bare_safe rest = true ->
                frags w (MLit fv) have acc (("$" :: v) ++ rest)
                = frags w (MLit []) true (FVar v :: flush_lit fv acc) rest).
    { intros D S. cbn [app]. apply bare_form; assumption. }
    unfold diff_text.
    destruct (existsb (Ascii.eqb ".") v) eqn:D; [exact P|].
    cbn [orb].
    destruct fc as [c|]; cbn [head_matches] in M.
    - destruct M as [r M]. subst rest.
      destruct (negb (Ascii.eqb c ".") && vid_cont c) eqn:E; [exact P|].
      apply B; [reflexivity|]. unfold bare_safe.
      destruct (Ascii.eqb c "."); [reflexivity|].
      cbn [negb andb] in E. rewrite E. reflexivity.
    - apply B; [reflexivity|exact M].
  Qed.

  (* whatever text follows: the form is chosen from its first character *)
  Theorem diff_text_rereads_any_w : forall v fv have acc rest,
    var_name_ok v = true ->
    frags w (MLit fv) have acc (diff_text v (hd_error rest) ++ rest)
    = frags w (MLit []) true (FVar v :: flush_lit fv acc) rest.
  Proof. intros. apply diff_text_resumes_w; [assumption|apply hd_error_matches]. Qed.

  (* (1) the reference and the literal after it *)
  Theorem diff_text_rereads_w : forall v lit,
    var_name_ok v = true -> forallb plain_char lit = true ->
    frags w (MLit []) false [] (diff_text v (hd_error lit) ++ lit)
    = Ok (true, FVar v :: match lit with [] => [] | _ => [FLit lit] end).
  Proof.
    intros v lit H L.
    rewrite diff_text_rereads_any_w; [| exact H].
    rewrite <- (app_nil_r lit) at 1. rewrite (lit_scan lit [] true _ [] L).
    destruct lit; reflexivity.
  Qed.

  (* (3) the reference and a "$" after it: the next reference starts *)
  Theorem diff_text_rereads_before_variable_w : forall v fv have acc rest,
    var_name_ok v = true ->
    frags w (MLit fv) have acc (diff_text v (Some "$") ++ "$" :: rest)
    = frags w MDollar true (FVar v :: flush_lit fv acc) rest.
  Proof.
    intros v fv have acc rest H.
    pose proof (diff_text_rereads_any_w v fv have acc ("$" :: rest) H) as E.
    cbn [hd_error] in E. rewrite E. apply lit_dollar.
  Qed.

  (* -------------------------------------------------------------- a whole textual word *)
  (* the text of a word whose references stay textual, computed right to left: a reference is
     written in the form its following text asks for.  (A literal piece stands for whatever text
     lies between two textual references: literal fragments and the values of resolved ones.) *)
  Fixpoint text_of (frs:list fragment) : str :=
    match frs with
    | [] => []
    | FLit l :: r => l ++ text_of r
    | FVar v :: r => let t := text_of r in diff_text v (hd_error t) ++ t
    end.

  Definition nilb (s:str) : bool := match s with [] => true | _ => false end.

  (* fragment lists as the scanner produces them, with plain literals: accepted names, literals
     non-empty, never two literals in a row; [prev] = a literal precedes *)
  Fixpoint wf_frs (prev:bool) (frs:list fragment) : bool :=
    match frs with
    | [] => true
    | FLit l :: r => negb prev && negb (nilb l) && forallb plain_char l && wf_frs true r
    | FVar v :: r => var_name_ok v && wf_frs false r
    end.

  Theorem textual_word_scan : forall frs fv have acc,
    wf_frs (negb (nilb fv)) frs = true ->
    frags w (MLit fv) have acc (text_of frs)
    = Ok (have || existsb frag_is_var frs, rev (flush_lit fv acc) ++ frs).
  Proof.
    induction frs as [|[l|v] r IH]; intros fv have acc H.
    - cbn [text_of frags existsb]. rewrite orb_false_r, app_nil_r. reflexivity.
    - cbn [wf_frs] in H.
      apply andb_prop in H. destruct H as [H Hr].
      apply andb_prop in H. destruct H as [H Hl].
      apply andb_prop in H. destruct H as [Hp Hn].
      destruct fv as [|x fv]; [|discriminate]. clear Hp.
      cbn [text_of]. rewrite (lit_scan l [] have acc (text_of r) Hl). cbn [app].
      destruct l as [|c l]; [discriminate|].
      rewrite (IH (c :: l) have acc Hr).
      cbn [existsb frag_is_var orb flush_lit rev].
      rewrite <- app_assoc. reflexivity.
    - cbn [wf_frs] in H. apply andb_prop in H. destruct H as [Hv Hr].
      cbn [text_of]. cbv zeta.
      rewrite (diff_text_rereads_any_w v fv have acc (text_of r) Hv).
      rewrite (IH [] true _ Hr).
      cbn [existsb frag_is_var orb flush_lit rev]. rewrite orb_true_r.
      rewrite <- app_assoc. reflexivity.
  Qed.

  Theorem textual_word_rereads_w : forall frs,
    wf_frs false frs = true ->
    frags w (MLit []) false [] (text_of frs) = Ok (existsb frag_is_var frs, frs).
  Proof. intros frs H. exact (textual_word_scan frs [] false [] H). Qed.
End Scan.

Lemma diff_text_head : forall v fc, exists t, diff_text v fc = "$" :: t.
Proof. intros v fc. unfold diff_text. destruct (_ || _); eexists; reflexivity. Qed.

(* ------------------------------------------------------------------ the statements *)
Theorem diff_text_resumes : forall w v fc fv have acc rest,
  var_name_ok v = true -> head_matches fc rest ->
  frags w (MLit fv) have acc (diff_text v fc ++ rest)
  = frags w (MLit []) true (FVar v :: flush_lit fv acc) rest.
Proof. exact diff_text_resumes_w. Qed.

Theorem diff_text_rereads_any : forall w v fv have acc rest,
  var_name_ok v = true ->
  frags w (MLit fv) have acc (diff_text v (hd_error rest) ++ rest)
  = frags w (MLit []) true (FVar v :: flush_lit fv acc) rest.
Proof. exact diff_text_rereads_any_w. Qed.

Theorem diff_text_rereads : forall w v lit,
  var_name_ok v = true -> forallb plain_char lit = true ->
  frags w (MLit []) false [] (diff_text v (hd_error lit) ++ lit)
  = Ok (true, FVar v :: match lit with [] => [] | _ => [FLit lit] end).
Proof. exact diff_text_rereads_w. Qed.

Theorem diff_text_rereads_before_variable : forall w v fv have acc rest,
  var_name_ok v = true ->
  frags w (MLit fv) have acc (diff_text v (Some "$") ++ "$" :: rest)
  = frags w MDollar true (FVar v :: flush_lit fv acc) rest.
Proof. exact diff_text_rereads_before_variable_w. Qed.

(* two references in a row *)
Corollary diff_text_rereads_two_variables : forall w v u,
  var_name_ok v = true -> var_name_ok u = true ->
  frags w (MLit []) false [] (diff_text v (Some "$") ++ diff_text u None)
  = Ok (true, [FVar v; FVar u]).
Proof.
  intros w v u Hv Hu.
  assert (W : wf_frs false [FVar v; FVar u] = true).
  { cbn [wf_frs]. rewrite Hv, Hu. reflexivity. }
  pose proof (textual_word_rereads_w w [FVar v; FVar u] W) as T.
  cbn [text_of] in T. cbv zeta in T. rewrite app_nil_r in T. cbn [hd_error] in T.
  destruct (diff_text_head u None) as [t E]. rewrite E in T at 1. cbn [hd_error] in T.
  exact T.
Qed.

Theorem textual_word_rereads : forall w frs,
  wf_frs false frs = true ->
  frags w (MLit []) false [] (text_of frs) = Ok (existsb frag_is_var frs, frs).
Proof. exact textual_word_rereads_w. Qed.

(* ------------------------------------------------------------------ the text resolve_word computes *)
Section Link.
  Variable env : str -> option str.
  Variable rec : ctx -> obj -> res (list word).

  (* the textual form handed to lookup_var matters only where it is returned *)
  Lemma lookup_var_dt : forall diff chain stop w u dt1 dt2,
    lookup_var env rec diff chain stop w u dt1 = lookup_var env rec diff chain stop w u dt2 \/
    (lookup_var env rec diff chain stop w u dt1 = Ok [mkword dt1 Q2 0] /\
     lookup_var env rec diff chain stop w u dt2 = Ok [mkword dt2 Q2 0]).
  Proof.
    intros. unfold lookup_var.
    destruct (match chain with [] => Ok None | _ => lexical_get (S (length u)) stop chain u true end)
      as [src| |]; cbn [bind]; [|left; reflexivity|left; reflexivity].
    destruct (match src with
              | None => Ok None
              | Some (o, ch) => if negb (is_def o) then UErr k_not_a_def u (wline w)
                                else do ws <- rec ch o; Ok (Some ws)
              end) as [[ws|]| |]; cbn [bind]; try (left; reflexivity).
    destruct diff; [right; split; reflexivity | left; reflexivity].
  Qed.

  (* following_char is the first character of what the later fragments contribute: where every
     later fragment has a result (force_string, as always when a fragment follows), it is the
     head of the joined result values *)
  Theorem following_char_spec : forall diff chain stop w nx rs vs,
    mapM_tl (frag_result env rec diff chain stop w true) nx = Ok rs ->
    mapM result_value rs = Ok vs ->
    following_char env rec diff chain stop w nx = hd_error (List.concat vs).
  Proof.
    induction nx as [|[l|u] r IH]; intros rs vs H V.
    - cbn in H. injection H as <-. cbn in V. injection V as <-. reflexivity.
    - cbn [mapM_tl frag_result bind] in H.
      destruct (mapM_tl (frag_result env rec diff chain stop w true) r) as [bs| |] eqn:E;
        cbn [bind] in H; try discriminate.
      injection H as <-. cbn [mapM result_value bind wv] in V.
      destruct (mapM result_value bs) as [vs'| |] eqn:E2; cbn [bind] in V; try discriminate.
      injection V as <-. cbn [List.concat].
      destruct l as [|c l]; cbn [following_char app hd_error]; [|reflexivity].
      exact (IH bs vs' eq_refl E2).
    - cbn [mapM_tl frag_result] in H.
      destruct (lookup_var env rec diff chain stop w u (dtext env rec diff chain stop w u r))
        as [vws| |] eqn:L; cbn [bind negb] in H; try discriminate.
      destruct (mapM_tl (frag_result env rec diff chain stop w true) r) as [bs| |] eqn:E;
        cbn [bind] in H; try discriminate.
      injection H as <-. cbn [mapM result_value bind wv] in V.
      destruct (mapM result_value bs) as [vs'| |] eqn:E2; cbn [bind] in V; try discriminate.
      injection V as <-. cbn [List.concat following_char].
      destruct (lookup_var_dt diff chain stop w u ["$"] (dtext env rec diff chain stop w u r))
        as [Q|[Q1 Q2]].
      + rewrite Q, L.
        destruct (vjoin_sp (map wv vws)) as [|c t]; cbn [app hd_error]; [|reflexivity].
        exact (IH bs vs' eq_refl E2).
      + rewrite Q1. rewrite L in Q2. injection Q2 as ->.
        cbn [map wv vjoin_sp]. unfold dtext.
        destruct (diff_text_head u (if diff then following_char env rec diff chain stop w r else None))
          as [t T].
        rewrite T. reflexivity.
  Qed.

  (* what resolve_word writes in diff mode for the unresolved reference v in front of the later
     fragments nx re-reads as that reference, whatever the later fragments contribute *)
  Theorem dtext_rereads_w : forall chain stop w nx rs vs w' v fv have acc,
    var_name_ok v = true ->
    mapM_tl (frag_result env rec true chain stop w true) nx = Ok rs ->
    mapM result_value rs = Ok vs ->
    frags w' (MLit fv) have acc (dtext env rec true chain stop w v nx ++ List.concat vs)
    = frags w' (MLit []) true (FVar v :: flush_lit fv acc) (List.concat vs).
  Proof.
    intros chain stop w nx rs vs w' v fv have acc Hv H V. unfold dtext.
    rewrite (following_char_spec true chain stop w nx rs vs H V).
    apply diff_text_rereads_any. exact Hv.
  Qed.
End Link.

Theorem dtext_rereads : forall env rec chain stop w nx rs vs w' v fv have acc,
  var_name_ok v = true ->
  mapM_tl (frag_result env rec true chain stop w true) nx = Ok rs ->
  mapM result_value rs = Ok vs ->
  frags w' (MLit fv) have acc (dtext env rec true chain stop w v nx ++ List.concat vs)
  = frags w' (MLit []) true (FVar v :: flush_lit fv acc) (List.concat vs).
Proof. exact dtext_rereads_w. Qed.

(* (2) what was repaired: the bare form before identifier characters reads as another name *)
Theorem bare_form_misreads : exists w v lit,
  var_name_ok v = true /\ forallb plain_char lit = true /\
  frags w (MLit []) false [] (("$" :: v) ++ lit) <> Ok (true, [FVar v; FLit lit]) /\
  frags w (MLit []) false [] (("$" :: v) ++ lit) = Ok (true, [FVar (v ++ lit)]).
Proof.
  exists (mkword (s_ "$DIR_old") QN 1), (s_ "DIR"), (s_ "_old").
  split; [vm_compute; reflexivity|].
  split; [vm_compute; reflexivity|].
  split; [vm_compute; discriminate|vm_compute; reflexivity].
Qed.

(* the hypotheses are satisfiable, in both forms and with a leading "." *)
Example diff_text_forms :
  var_name_ok (s_ "DIR") = true /\ var_name_ok (s_ "a.b") = true /\ var_name_ok (s_ ".a") = true /\
  diff_text (s_ "DIR") (hd_error (s_ "_old")) = s_ "$(DIR)" /\
  diff_text (s_ "DIR") (hd_error (s_ "/old")) = s_ "$DIR" /\
  diff_text (s_ "DIR") (hd_error (s_ ".old")) = s_ "$DIR" /\
  diff_text (s_ "DIR") None = s_ "$DIR" /\
  diff_text (s_ "a.b") None = s_ "$(a.b)" /\
  (* formerly residual: v in front of a text starting with "a", e.g. the value of a resolved $u *)
  diff_text (s_ "v") (hd_error (s_ "abc")) ++ s_ "abc" = s_ "$(v)abc" /\
  wf_frs false [FLit (s_ "x/"); FVar (s_ "DIR"); FLit (s_ "_old"); FVar (s_ "a.b"); FVar (s_ "c")] = true /\
  text_of [FLit (s_ "x/"); FVar (s_ "DIR"); FLit (s_ "_old"); FVar (s_ "a.b"); FVar (s_ "c")]
  = s_ "x/$(DIR)_old$(a.b)$c".
Proof. vm_compute. repeat split; reflexivity. Qed.

(* the formerly residual shape through resolve_word itself: u = abc is defined, v is not; the word
   $v$u of a later definition is written "$(v)abc" in diff mode, and the hypotheses of
   dtext_rereads hold for the fragment after $v *)
Definition ex_u_def : obj := Def (with_name (mkhdr [] false BinNums.Z0 false 1 1) (s_ "u")) [mkword (s_ "abc") QN 1] [].
Definition ex_rec : ctx -> obj -> res (list word) := fun _ o => Ok (owords o).
Example dtext_residual_shape :
  resolve_word (fun _ => None) ex_rec true [[ex_u_def]] 2 (mkword (s_ "$v$u") QN 2)
  = Ok [mkword (s_ "$(v)abc") Q2 0] /\
  mapM_tl (frag_result (fun _ => None) ex_rec true [[ex_u_def]] 2 (mkword (s_ "$v$u") QN 2) true)
          [FVar (s_ "u")] = Ok [RWord (mkword (s_ "abc") Q2 0)] /\
  mapM result_value [RWord (mkword (s_ "abc") Q2 0)] = Ok [s_ "abc"] /\
  dtext (fun _ => None) ex_rec true [[ex_u_def]] 2 (mkword (s_ "$v$u") QN 2) (s_ "v") [FVar (s_ "u")]
  = s_ "$(v)".
Proof. vm_compute. repeat split; reflexivity. Qed.
