(* Proofs about the converter model (Model/Conv.v): result domains of from_words (C10). *)
From Coq Require Import List Ascii String Bool Arith ZArith Lia.
From Phil Require Import Base Conv.
Import ListNotations.
Local Open Scope char_scope.

(* ---------------------------------------------------------------- domain predicates *)
Definition intlike (n:num) : Prop := match n with NInt _ | NBool _ => True | _ => False end.
Definition floatlike (n:num) : Prop :=
  match n with NFlt _ _ | NNegZero | NInf _ | NNaN => True | _ => False end.
Definition numlike (isint:bool) (n:num) : Prop := if isint then intlike n else floatlike n.

(* value_min <= n <= value_max in the exact order (false whenever a NaN is involved) *)
Definition in_bounds (lo hi:option num) (n:num) : Prop :=
  (forall b, lo = Some b -> num_le b n = true) /\ (forall b, hi = Some b -> num_le n b = true).
Definition size_ok (lo hi:option Z) (k:nat) : Prop :=
  (forall m, lo = Some m -> (m <= Z.of_nat k)%Z) /\ (forall m, hi = Some m -> (Z.of_nat k <= m)%Z).
Definition elem_ok (isint:bool) (c:lconv) (v:pyv) : Prop :=
  (v = PNone /\ none_el c = true) \/ (v = PAuto /\ auto_el c = true) \/
  exists n, v = PNum n /\ numlike isint n /\ in_bounds (lvmin c) (lvmax c) n.

(* ---------------------------------------------------------------- the order *)
Lemma fin_cmp_antisym m1 e1 m2 e2 : fin_cmp m2 e2 m1 e1 = CompOpp (fin_cmp m1 e1 m2 e2).
Proof. unfold fin_cmp. rewrite (Z.min_comm e2 e1). apply Z.compare_antisym. Qed.

Lemma xr_lt_false_le a b : xr_lt a b = false -> a <> XNan -> b <> XNan -> xr_le b a = true.
Proof.
  destruct a as [m1 e1| | |], b as [m2 e2| | |]; cbn; intros H Ha Hb; try reflexivity; try discriminate; try congruence.
  rewrite (fin_cmp_antisym m1 e1 m2 e2). destruct (fin_cmp m1 e1 m2 e2); cbn in *; congruence.
Qed.

Lemma xr_of_nan n : xr_of n = XNan -> n = NNaN.
Proof. destruct n as [z|m e| |[]| |b]; cbn; intros H; try discriminate; reflexivity. Qed.

Lemma num_eq_nan_dec n : {n = NNaN} + {n <> NNaN}.
Proof. destruct n; try (right; discriminate). left; reflexivity. Qed.

Lemma num_lt_false_le a b : num_lt a b = false -> a <> NNaN -> b <> NNaN -> num_le b a = true.
Proof.
  unfold num_lt, num_le; intros H Ha Hb. apply xr_lt_false_le; auto.
  - intro E; apply Ha, xr_of_nan, E.
  - intro E; apply Hb, xr_of_nan, E.
Qed.

Lemma num_lt_nan_l b : num_lt NNaN b = false.
Proof. reflexivity. Qed.
Lemma num_lt_nan_r a : num_lt a NNaN = false.
Proof. unfold num_lt. destruct (xr_of a); reflexivity. Qed.

Lemma num_le_lt_excl a b : num_le a b = true -> num_lt b a = false.
Proof.
  unfold num_le, num_lt. destruct (xr_of a) as [m1 e1| | |], (xr_of b) as [m2 e2| | |]; cbn; try congruence; try reflexivity.
  rewrite (fin_cmp_antisym m1 e1 m2 e2). destruct (fin_cmp m1 e1 m2 e2); cbn; congruence.
Qed.

(* ---------------------------------------------------------------- results *)
Lemma bind_ok {A B} (r:res A) (f:A -> res B) v :
  bind r f = Ok v -> exists a, r = Ok a /\ f a = Ok v.
Proof. destruct r; cbn; intros H; try discriminate. eauto. Qed.

Lemma err_at_not_ok {A} ws k t (v:A) : err_at ws k t <> Ok v.
Proof. destruct ws; cbn; discriminate. Qed.
Lemma err_at_opt_not_ok {A} ows k t (v:A) : err_at_opt ows k t <> Ok v.
Proof. destruct ows; cbn; [apply err_at_not_ok | discriminate]. Qed.

Lemma map_res_ok {A B} (f:A -> res B) l vs :
  map_res f l = Ok vs -> Forall2 (fun a b => f a = Ok b) l vs.
Proof.
  revert vs; induction l as [|a l IH]; cbn; intros vs H.
  - injection H as <-. constructor.
  - apply bind_ok in H as (b & Hb & H). apply bind_ok in H as (bs & Hbs & H).
    injection H as <-. constructor; auto.
Qed.

Lemma bound_err_not_ok isint k v b ows u : bound_err isint k v b ows <> Ok u.
Proof.
  unfold bound_err. intro H. apply bind_ok in H as (? & _ & H). apply bind_ok in H as (? & _ & H).
  revert H. apply err_at_opt_not_ok.
Qed.

Lemma check_value_bounds isint lo hi v ows u :
  check_value isint lo hi v ows = Ok u -> in_bounds lo hi v.
Proof.
  unfold check_value. intro H. apply bind_ok in H as (? & H1 & H2). split; intros b ->.
  - revert H1. destruct (num_le b v); cbn [negb]; intro H1; [reflexivity | exfalso; revert H1; apply bound_err_not_ok].
  - revert H2. destruct (num_le v b); cbn [negb]; intro H2; [reflexivity | exfalso; revert H2; apply bound_err_not_ok].
Qed.

Lemma num_le_nan_l b : num_le NNaN b = false.
Proof. reflexivity. Qed.
Lemma num_le_nan_r a : num_le a NNaN = false.
Proof. unfold num_le. destruct (xr_of a); reflexivity. Qed.

(* with a bound declared, a value within bounds is not NaN *)
Lemma in_bounds_not_nan lo hi n : in_bounds lo hi n -> lo <> None \/ hi <> None -> n <> NNaN.
Proof.
  intros [Hlo Hhi] [N|N] ->.
  - destruct lo as [b|]; [|congruence]. specialize (Hlo b eq_refl). rewrite num_le_nan_r in Hlo. discriminate.
  - destruct hi as [b|]; [|congruence]. specialize (Hhi b eq_refl). rewrite num_le_nan_l in Hhi. discriminate.
Qed.
(* and no bound is NaN *)
Lemma in_bounds_bound_not_nan lo hi n : in_bounds lo hi n -> lo <> Some NNaN /\ hi <> Some NNaN.
Proof.
  intros [Hlo Hhi]. split; intros E.
  - specialize (Hlo _ E). rewrite num_le_nan_l in Hlo. discriminate.
  - specialize (Hhi _ E). rewrite num_le_nan_r in Hhi. discriminate.
Qed.

Lemma check_size_ok lo hi size ows u :
  check_size lo hi size ows = Ok u ->
  (forall m, lo = Some m -> (m <= size)%Z) /\ (forall m, hi = Some m -> (size <= m)%Z).
Proof.
  unfold check_size. intro H. apply bind_ok in H as (? & H1 & H2). split; intros m ->.
  - revert H2. destruct (Z.ltb_spec size m); intro H2; [exfalso; revert H2; apply err_at_opt_not_ok | lia].
  - revert H1. destruct (Z.ltb_spec m size); intro H1; [exfalso; revert H1; apply err_at_opt_not_ok | lia].
Qed.

(* ---------------------------------------------------------------- classification of numbers *)
Lemma norm_flt_is_flt m e : exists m' e', norm_flt m e = NFlt m' e'.
Proof. destruct m as [|p|p]; cbn; [eauto | destruct (pos_tz p); eauto | destruct (pos_tz p); eauto]. Qed.

Lemma float_of_Z_floatlike z n : float_of_Z z = Ok n -> floatlike n.
Proof.
  unfold float_of_Z. destruct (z =? 0)%Z; [intro H; injection H as <-; exact I|].
  destruct (_ <=? 53)%Z.
  - intro H; injection H as <-. destruct (norm_flt_is_flt z 0) as (m & e & ->). exact I.
  - match goal with |- (if ?c then _ else _) = _ -> _ => destruct c end; [discriminate|].
    intro H; injection H as <-.
    match goal with |- floatlike (norm_flt ?a ?b) => destruct (norm_flt_is_flt a b) as (m & e & ->) end. exact I.
Qed.

Lemma int_from_number_intlike x ws n : int_from_number x ws = Ok n -> intlike n.
Proof.
  destruct x as [| |[z|m e| |neg| |b]|]; cbn; intro H; try (exfalso; revert H; apply err_at_not_ok).
  - injection H as <-; exact I.
  - destruct (flt_integral m e); [injection H as <-; exact I | exfalso; revert H; apply err_at_not_ok].
  - injection H as <-; exact I.
  - injection H as <-; exact I.
Qed.

Lemma float_from_number_floatlike x ws n : float_from_number x ws = Ok n -> floatlike n.
Proof.
  destruct x as [| |[z|m e| |neg| |b]|]; cbn; intro H; try (exfalso; revert H; apply err_at_not_ok).
  - destruct (float_of_Z z) eqn:E; try (exfalso; revert H; apply err_at_not_ok).
    injection H as <-. eapply float_of_Z_floatlike; eassumption.
  - injection H as <-; exact I.
  - injection H as <-; exact I.
  - injection H as <-; exact I.
  - injection H as <-; exact I.
  - injection H as <-. destruct (norm_flt_is_flt (b2z b) 0) as (m & e & ->). exact I.
Qed.

Lemma x_from_number_numlike isint x ws n : x_from_number isint x ws = Ok n -> numlike isint n.
Proof.
  destruct isint; cbn; [apply int_from_number_intlike | apply float_from_number_floatlike].
Qed.

Lemma intlike_not_nan n : intlike n -> n <> NNaN.
Proof. destruct n; cbn; intros H; try contradiction; discriminate. Qed.

(* ---------------------------------------------------------------- from_words: scalar types *)
Section Domains.
  Variable pyeval : str -> option evr.

  Lemma x_from_words_numlike isint ws n :
    x_from_words pyeval isint ws = Ok (SVNum n) -> numlike isint n.
  Proof.
    unfold x_from_words. intro H. apply bind_ok in H as (r & _ & H).
    destruct r as [| |k|]; try discriminate.
    - apply bind_ok in H as (n' & Hn & H). injection H as <-. eapply x_from_number_numlike; eassumption.
    - apply bind_ok in H as (n' & Hn & H). injection H as <-. eapply x_from_number_numlike; eassumption.
  Qed.

  Lemma number_conv_domain isint c ws v :
    number_conv_from_words pyeval isint c ws = Ok v ->
    (v = PNone /\ allow_none c = true) \/ v = PAuto \/
    exists n, v = PNum n /\ numlike isint n /\ in_bounds (vmin c) (vmax c) n.
  Proof.
    unfold number_conv_from_words. intro H. apply bind_ok in H as (r & Hr & H).
    destruct r as [| |n].
    - destruct (allow_none c); [injection H as <-; left; auto | discriminate].
    - injection H as <-; right; left; reflexivity.
    - apply bind_ok in H as (u & Hc & H). injection H as <-. right; right. exists n. split; [reflexivity|]. split.
      + eapply x_from_words_numlike; eassumption.
      + eapply check_value_bounds; eassumption.
  Qed.

  Lemma int_domain c ws v :
    from_words pyeval (CInt c) ws = Ok v ->
    (v = PNone /\ allow_none c = true) \/ v = PAuto \/
    exists n, v = PNum n /\ intlike n /\ in_bounds (vmin c) (vmax c) n.
  Proof. cbn [from_words]. apply number_conv_domain. Qed.

  Lemma float_domain c ws v :
    from_words pyeval (CFloat c) ws = Ok v ->
    (v = PNone /\ allow_none c = true) \/ v = PAuto \/
    exists n, v = PNum n /\ floatlike n /\ in_bounds (vmin c) (vmax c) n.
  Proof. cbn [from_words]. apply number_conv_domain. Qed.

  Lemma bool_domain ws v :
    from_words pyeval CBool ws = Ok v -> v = PNone \/ v = PAuto \/ exists b, v = PNum (NBool b).
  Proof.
    cbn [from_words]. unfold bool_from_words. destruct (str_from_words ws).
    - intro H; injection H as <-; auto.
    - intro H; injection H as <-; auto.
    - destruct (mems _ falses); [intro H; injection H as <-; eauto|].
      destruct (mems _ trues); [intro H; injection H as <-; eauto|].
      destruct ws; discriminate.
  Qed.

  (* ---------------------------------------------------------------- list types *)
  Lemma conv_elem_ok isint c ws x v : conv_elem isint c ws x = Ok v -> elem_ok isint c v.
  Proof.
    assert (G : forall x', (do n <- x_from_number isint x' ws;
                            do _ <- check_value isint (lvmin c) (lvmax c) n (Some ws); Ok (PNum n)) = Ok v ->
                           elem_ok isint c v).
    { intros x' H. apply bind_ok in H as (n & Hn & H). apply bind_ok in H as (u & Hc & H). injection H as <-.
      right; right. exists n. split; [reflexivity|]. split.
      - eapply x_from_number_numlike; eassumption.
      - eapply check_value_bounds; eassumption. }
    unfold conv_elem. destruct x as [| |n|].
    - destruct (none_el c) eqn:E; intro H; [injection H as <-; left; auto | exfalso; revert H; apply err_at_not_ok].
    - destruct (auto_el c) eqn:E; intro H; [injection H as <-; right; left; auto | exfalso; revert H; apply err_at_not_ok].
    - apply G.
    - apply G.
  Qed.

  Lemma numbers_conv_domain isint c ws v :
    numbers_conv_from_words pyeval isint c ws = Ok v ->
    v = PNone \/ v = PAuto \/
    exists l, v = PList l /\ size_ok (smin c) (smax c) (length l) /\ Forall (elem_ok isint c) l.
  Proof.
    unfold numbers_conv_from_words. intro H. apply bind_ok in H as (r & Hr & H).
    destruct r as [| |l].
    - injection H as <-; auto.
    - injection H as <-; auto.
    - apply bind_ok in H as (u & Hs & H). apply bind_ok in H as (vs & Hm & H). injection H as <-.
      right; right. exists vs. split; [reflexivity|].
      apply map_res_ok in Hm. apply check_size_ok in Hs.
      assert (length l = length vs) as El by (clear -Hm; induction Hm; cbn; congruence).
      split.
      + rewrite <- El. exact Hs.
      + clear -Hm. induction Hm; constructor; auto. eapply conv_elem_ok; eassumption.
  Qed.

  Lemma ints_domain c ws v :
    from_words pyeval (CInts c) ws = Ok v ->
    v = PNone \/ v = PAuto \/
    exists l, v = PList l /\ size_ok (smin c) (smax c) (length l) /\ Forall (elem_ok true c) l.
  Proof. cbn [from_words]. apply numbers_conv_domain. Qed.

  Lemma floats_domain c ws v :
    from_words pyeval (CFloats c) ws = Ok v ->
    v = PNone \/ v = PAuto \/
    exists l, v = PList l /\ size_ok (smin c) (smax c) (length l) /\ Forall (elem_ok false c) l.
  Proof. cbn [from_words]. apply numbers_conv_domain. Qed.

  (* a float parameter with a bound never yields NaN *)
  Lemma float_bounded_never_nan c ws :
    vmin c <> None \/ vmax c <> None -> from_words pyeval (CFloat c) ws <> Ok (PNum NNaN).
  Proof.
    intros B H. apply float_domain in H as [[H _]|[H|(n & E & _ & Hb)]]; try discriminate.
    injection E as <-. exact (in_bounds_not_nan _ _ _ Hb B eq_refl).
  Qed.
  Lemma floats_bounded_never_nan c ws l :
    lvmin c <> None \/ lvmax c <> None -> from_words pyeval (CFloats c) ws = Ok (PList l) -> ~ In (PNum NNaN) l.
  Proof.
    intros B H Hin. apply floats_domain in H as [H|[H|(l' & E & _ & Hall)]]; try discriminate.
    injection E as <-. rewrite Forall_forall in Hall. specialize (Hall _ Hin).
    destruct Hall as [[E _]|[[E _]|(n' & E & _ & Hb)]]; try discriminate.
    injection E as <-. exact (in_bounds_not_nan _ _ _ Hb B eq_refl).
  Qed.

  (* an int-typed parameter never yields a float of any kind *)
  Lemma int_never_float c ws n :
    from_words pyeval (CInt c) ws = Ok (PNum n) -> ~ floatlike n.
  Proof.
    intro H. apply int_domain in H as [[H _]|[H|(n' & E & Hn & _)]]; try discriminate.
    injection E as <-. destruct n; cbn in *; tauto.
  Qed.

  Lemma ints_never_float c ws l n :
    from_words pyeval (CInts c) ws = Ok (PList l) -> In (PNum n) l -> ~ floatlike n.
  Proof.
    intros H Hin. apply ints_domain in H as [H|[H|(l' & E & _ & Hall)]]; try discriminate.
    injection E as <-. rewrite Forall_forall in Hall. specialize (Hall _ Hin).
    destruct Hall as [[E _]|[[E _]|(n' & E & Hn & _)]]; try discriminate.
    injection E as <-. destruct n; cbn in *; tauto.
  Qed.
End Domains.
