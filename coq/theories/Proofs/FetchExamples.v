(* Concrete runs of the fetch model: non-vacuity of the C04 / C06 theorems and the witnesses of
   the stated exceptions.  Everything here is closed and decided by vm_compute. *)
From Coq Require Import List Ascii String Bool Arith ZArith Lia.
From Phil Require Import Base Tree Vars Choice Fetch FetchBasics FetchShape FetchTrack FetchDisabled.
Import ListNotations.
Local Open Scope char_scope.

Definition w_ (v:String.string) (line:nat) : word := mkword (s_ v) QN line.
Definition dh (n:String.string) (dis:bool) (pid line:nat) : hdr := mkhdr (s_ n) dis 0 false pid line.

(* a canon oracle for the examples: the words of the rendered object, joined by blanks *)
Fixpoint flat_words (o:obj) : list str :=
  match o with
  | Def _ ws _ => map wv ws
  | Scp _ ks _ => (fix go (l:list obj) : list str :=
                     match l with [] => [] | k :: r => flat_words k ++ go r end) ks
  end.
Definition ex_canon (M:obj) (s:option obj) : res str :=
  Ok (vjoin_sp (flat_words (match s with Some o => o | None => M end))).
Definition ex_env (_:str) : option str := None.

(* master:   a = 1                          sources:  a = 2
             s .multiple = True { b = x }             s { b = y }
             !d = 0                                   s { b = x }
                                                      zz = 1   d = 7 *)
Definition ex_master : list obj :=
  [ Def (dh "a" false 1 1) [w_ "1" 1] [];
    Scp (dh "s" false 2 2) [Def (dh "b" false 3 3) [w_ "x" 3] []] [(s_ "multiple", ABool true)];
    Def (dh "d" true 4 5) [w_ "0" 5] [] ].
Definition ex_source : list obj :=
  [ Def (dh "a" false 1 1) [w_ "2" 1] [];
    Scp (dh "s" false 2 2) [Def (dh "b" false 3 2) [w_ "y" 2] []] [];
    Scp (dh "s" false 4 3) [Def (dh "b" false 5 3) [w_ "x" 3] []] [];
    Def (dh "zz" false 6 4) [w_ "1" 4] [];
    Def (dh "d" false 7 5) [w_ "7" 5] [] ].

Definition ex_result : list obj :=
  [ Def (dh "a" false 1 1) [w_ "2" 1] [];
    Scp (mkhdr (s_ "s") false (-1) false 2 2) [Def (dh "b" false 3 3) [w_ "x" 3] []] [(s_ "multiple", ABool true)];
    Scp (dh "s" false 2 2) [Def (dh "b" false 3 3) [w_ "y" 2] []] [(s_ "multiple", ABool true)] ].

Lemma ex_fetch : fetch ex_env ex_canon false ex_master [ex_source] = Ok ex_result.
Proof. vm_compute. reflexivity. Qed.

(* the unknown definition zz and the definition d that only a DISABLED master parameter names
   are reported; the template-equal instance s { b = x } is consumed, not reported *)
Lemma ex_fetch_track :
  fetch_track ex_env ex_canon false ex_master [ex_source] = Ok (ex_result, [(s_ "zz", 4); (s_ "d", 5)]).
Proof. vm_compute. reflexivity. Qed.

Lemma ex_wf : wf_master ex_master.
Proof.
  unfold wf_master, root_scope, ex_master. cbn [wf_obj]. split.
  - unfold uniq_names. cbn. constructor; [intros [H|[]]; discriminate H|]. constructor; [intros []|constructor].
  - split; [intros _; exact I|]. split.
    + intros _. split; [unfold uniq_names; cbn; constructor; [intros []|constructor]|].
      split; [intros _; exact I|exact I].
    + split; [intros H; discriminate H|exact I].
Qed.

Lemma ex_no_dollar : srcs_have_dollar [ex_source] = false.
Proof. reflexivity. Qed.

(* ------------------------------------------------------------------ a disabled definition supplies no variable *)
(* master:  a = 1        source:  !y = 5       (lexical_get skips disabled objects since the repair of F10:
                                  a = $y        with or without the disabled line the variable is undefined) *)
Definition f10_master : list obj := [ Def (dh "a" false 1 1) [w_ "1" 1] [] ].
Definition f10_source : list obj :=
  [ Def (dh "y" true 1 1) [w_ "5" 1] [];
    Def (dh "a" false 2 2) [w_ "$y" 2] [] ].

Lemma f10_with_disabled :
  fetch ex_env ex_canon false f10_master [f10_source] = UErr k_undefined (s_ "y") 2.
Proof. vm_compute. reflexivity. Qed.
Lemma f10_without_disabled :
  fetch ex_env ex_canon false f10_master (map strip_objs [f10_source]) = UErr k_undefined (s_ "y") 2.
Proof. vm_compute. reflexivity. Qed.

(* ------------------------------------------------------------------ C06: a definition used only as a variable *)
(* master:  a = 1        source:  y = 5        y names no master parameter, yet it is not reported:
                                  a = $y       resolving a marks y as consumed *)
Definition f10b_source : list obj :=
  [ Def (dh "y" false 1 1) [w_ "5" 1] [];
    Def (dh "a" false 2 2) [w_ "$y" 2] [] ].

Lemma f10b_reported : fetch_track ex_env ex_canon false f10_master [f10b_source]
                      = Ok ([Def (dh "a" false 1 1) [w_ "5" 1] []], []).
Proof. vm_compute. reflexivity. Qed.
Lemma f10b_specified : unused_spec f10_master [f10b_source] = [(s_ "y", 1)].
Proof. vm_compute. reflexivity. Qed.

Lemma f10b_refutes :
  exists env canon m srcs r u,
    fetch_track env canon false m srcs = Ok (r, u) /\ u <> unused_spec m srcs.
Proof.
  exists ex_env, ex_canon, f10_master, [f10b_source]. eexists. eexists. split; [exact f10b_reported|].
  rewrite f10b_specified. discriminate.
Qed.
