(* Proofs about the string primitives and get_path_score of Model/CmdLine.v:
   list-level specifications of find / startswith / endswith, the declarative score
   classes, and the order of the classes. *)
From Coq Require Import List Ascii String Bool Arith ZArith Lia.
From Phil Require Import Base Tree CmdLine.
Import ListNotations.
Local Open Scope Z_scope.

(* ---------- declarative vocabulary *)
Definition is_sub (s t : str) : Prop := exists p q, t = p ++ s ++ q.      (* contiguous sublist *)
Definition ends (t s : str) : Prop := exists p, t = p ++ s.
Definition starts (t p : str) : Prop := exists q, t = p ++ q.
Definition home_dot (home : option str) (s t : str) : Prop :=
  exists h, home = Some h /\ t = h ++ dot :: s.
Definition inside (home : option str) (t : str) : Prop :=
  exists h, home = Some h /\ starts t (h ++ [dot]).

(* ---------- reflection of the boolean primitives *)
Lemma eqs_spec : forall a b, eqs a b = true <-> a = b.
Proof.
  induction a as [|x a IH]; destruct b as [|y b]; cbn; split; intro H; try reflexivity; try discriminate.
  - apply andb_true_iff in H. destruct H as [H1 H2]. apply Ascii.eqb_eq in H1. apply IH in H2. congruence.
  - inversion H; subst. rewrite Ascii.eqb_refl. cbn. apply IH. reflexivity.
Qed.

Lemma prefixb_spec : forall p s, prefixb p s = true <-> starts s p.
Proof.
  unfold starts. induction p as [|x p IH]; intros s; cbn.
  - split; [intros _; exists s; reflexivity | reflexivity].
  - destruct s as [|y s].
    + split; [discriminate | intros [q H]; discriminate].
    + rewrite andb_true_iff, Ascii.eqb_eq, IH. split.
      * intros [-> [q ->]]. exists q. reflexivity.
      * intros [q H]. inversion H; subst. split; [reflexivity | exists q; reflexivity].
Qed.

Lemma startswith_spec : forall t p, startswith t p = true <-> starts t p.
Proof. intros. apply prefixb_spec. Qed.

Lemma drop_app_length : forall (p s : str), drop (length p) (p ++ s) = s.
Proof. induction p; intros; cbn; [destruct s; reflexivity | apply IHp]. Qed.

Lemma drop_split : forall n (t : str), (n <= length t)%nat -> exists p, t = p ++ drop n t /\ length p = n.
Proof.
  induction n as [|n IH]; intros t H.
  - exists []. split; [destruct t; reflexivity | reflexivity].
  - destruct t as [|c t]; cbn in H; [lia|].
    destruct (IH t) as [p [Hp Hl]]; [lia|]. exists (c :: p). cbn. split; [f_equal; exact Hp | lia].
Qed.

Lemma endswith_spec : forall t s, endswith t s = true <-> ends t s.
Proof.
  intros t s. unfold endswith, ends.
  destruct (Nat.ltb_spec (length t) (length s)) as [Hlt|Hge].
  - split; [discriminate|]. intros [p ->]. rewrite app_length in Hlt. lia.
  - rewrite eqs_spec. split.
    + intro H. destruct (drop_split (length t - length s) t) as [p [Hp _]]; [lia|].
      exists p. rewrite H in Hp. exact Hp.
    + intros [p ->]. rewrite app_length.
      replace (length p + length s - length s)%nat with (length p) by lia. apply drop_app_length.
Qed.

(* t.find(s): -1 exactly when s is not a contiguous sublist of t; otherwise the length of the
   shortest prefix before an occurrence (first occurrence). *)
Lemma ffrom_spec : forall s t i,
  (ffrom s t i = -1 /\ ~ is_sub s t) \/
  (exists p q, ffrom s t i = i + Z.of_nat (length p) /\ t = p ++ s ++ q /\
               forall p' q', t = p' ++ s ++ q' -> (length p <= length p')%nat).
Proof.
  intros s t. induction t as [|c r IH]; intros i; cbn [ffrom].
  - destruct (prefixb s []) eqn:E.
    + right. apply prefixb_spec in E. destruct E as [q E]. exists [], q. cbn. split; [lia|].
      split; [exact E | intros; lia].
    + left. split; [reflexivity|]. intros [p [q H]].
      assert (s = []) as ->.
      { destruct p; cbn in H; [destruct s; [reflexivity|discriminate] | discriminate]. }
      discriminate.
  - destruct (prefixb s (c :: r)) eqn:E.
    + right. apply prefixb_spec in E. destruct E as [q E]. exists [], q. cbn. split; [lia|].
      split; [exact E | intros; lia].
    + destruct (IH (i + 1)) as [[H1 H2] | [p [q [H1 [H2 H3]]]]].
      * left. split; [exact H1|]. intros [p [q H]]. destruct p as [|d p]; cbn in H.
        -- assert (prefixb s (c :: r) = true) as X by (apply prefixb_spec; exists q; exact H). congruence.
        -- inversion H; subst. apply H2. exists p, q. reflexivity.
      * right. exists (c :: p), q. split; [rewrite H1; cbn [length]; lia|].
        split; [cbn; f_equal; exact H2|]. intros p' q' H. destruct p' as [|d p']; cbn in H.
        -- assert (prefixb s (c :: r) = true) as X by (apply prefixb_spec; exists q'; exact H). congruence.
        -- inversion H; subst d. specialize (H3 p' q' H5). cbn. lia.
Qed.

Theorem pyfind_absent : forall t s, pyfind t s = -1 <-> ~ is_sub s t.
Proof.
  intros t s. unfold pyfind. destruct (ffrom_spec s t 0) as [[H1 H2] | [p [q [H1 [H2 _]]]]].
  - tauto.
  - split; [lia|]. intro H. exfalso. apply H. exists p, q. exact H2.
Qed.

Theorem pyfind_first : forall t s n, pyfind t s = Z.of_nat n <->
  exists p q, t = p ++ s ++ q /\ length p = n /\ forall p' q', t = p' ++ s ++ q' -> (n <= length p')%nat.
Proof.
  intros t s n. unfold pyfind. destruct (ffrom_spec s t 0) as [[H1 H2] | [p [q [H1 [H2 H3]]]]].
  - split; [lia|]. intros [p [q [H _]]]. exfalso. apply H2. exists p, q. exact H.
  - split.
    + intro H. exists p, q. split; [exact H2|]. split; [lia|]. intros. assert (length p = n) as <- by lia. eauto.
    + intros [p' [q' [Ha [Hb Hc]]]]. specialize (H3 _ _ Ha). specialize (Hc _ _ H2). lia.
Qed.

Lemma pyfind_range : forall t s, pyfind t s = -1 \/ 0 <= pyfind t s.
Proof.
  intros. unfold pyfind. destruct (ffrom_spec s t 0) as [[H _] | [p [q [H _]]]]; [left; exact H | right; lia].
Qed.

Lemma find_neg_spec : forall t s, (pyfind t s <? 0) = true <-> ~ is_sub s t.
Proof.
  intros. rewrite <- pyfind_absent. rewrite Z.ltb_lt. destruct (pyfind_range t s); lia.
Qed.

Lemma eq_test_spec : forall t s,
  (pyfind t s =? 0) && (length s =? length t)%nat = true <-> t = s.
Proof.
  intros t s. rewrite andb_true_iff, Z.eqb_eq, Nat.eqb_eq. split.
  - intros [H1 H2]. apply (pyfind_first t s 0) in H1. destruct H1 as [p [q [Ha [Hb _]]]].
    destruct p; [|discriminate]. cbn in Ha. subst t. rewrite app_length in H2.
    destruct q; [apply app_nil_r | cbn in H2; lia].
  - intros ->. split; [|reflexivity]. apply (pyfind_first s s 0). exists [], []. cbn.
    split; [symmetry; apply app_nil_r|]. split; [reflexivity | intros; lia].
Qed.

Lemma not_true : forall b (P : Prop), (b = true <-> P) -> b = false -> ~ P.
Proof. intros b P H E HP. apply H in HP. congruence. Qed.

(* ---------- implications between the atoms *)
Lemma eq_sub : forall (s t : str), t = s -> is_sub s t.
Proof. intros s t ->. exists [], []. cbn. symmetry. apply app_nil_r. Qed.
Lemma eq_ends : forall (s t : str), t = s -> ends t s.
Proof. intros s t ->. exists []. reflexivity. Qed.
Lemma ends_sub : forall s t, ends t s -> is_sub s t.
Proof. intros s t [p ->]. exists p, []. rewrite app_nil_r. reflexivity. Qed.
Lemma ends_dot_ends : forall s t, ends t (dot :: s) -> ends t s.
Proof. intros s t [p ->]. exists (p ++ [dot]). rewrite <- app_assoc. reflexivity. Qed.
Lemma home_dot_inside : forall home s t, home_dot home s t -> inside home t.
Proof. intros home s t [h [-> ->]]. exists h. split; [reflexivity|]. exists s. rewrite <- app_assoc. reflexivity. Qed.
Lemma home_dot_ends : forall home s t, home_dot home s t -> ends t (dot :: s).
Proof. intros home s t [h [_ ->]]. exists h. reflexivity. Qed.
Lemma home_dot_neq : forall home s t, home_dot home s t -> t <> s.
Proof.
  intros home s t [h [_ ->]] E. apply (f_equal (@length ascii)) in E.
  rewrite app_length in E. cbn in E. lia.
Qed.
Lemma ends_dot_neq : forall s t, ends t (dot :: s) -> t <> s.
Proof.
  intros s t [p ->] E. apply (f_equal (@length ascii)) in E. rewrite app_length in E. cbn in E. lia.
Qed.

(* ---------- the score classes *)
Inductive score_class (home : option str) (s t : str) : Z -> Prop :=
  | SC8 : t = s -> score_class home s t 8
  | SC7 : t <> s -> home_dot home s t -> score_class home s t 7
  | SC6 : t <> s -> ~ home_dot home s t -> inside home t -> ends t (dot :: s) -> score_class home s t 6
  | SC5 : t <> s -> ~ home_dot home s t -> inside home t -> ~ ends t (dot :: s) -> ends t s ->
          score_class home s t 5
  | SC4 : t <> s -> ~ inside home t -> ends t (dot :: s) -> score_class home s t 4
  | SC3 : t <> s -> ~ inside home t -> ~ ends t (dot :: s) -> ends t s -> score_class home s t 3
  | SC2 : t <> s -> inside home t -> ~ ends t s -> is_sub s t -> score_class home s t 2
  | SC1 : t <> s -> ~ inside home t -> ~ ends t s -> is_sub s t -> score_class home s t 1
  | SC0 : ~ is_sub s t -> score_class home s t 0.

Lemma score_sound : forall home s t, score_class home s t (get_path_score home s t).
Proof.
  intros home s t. unfold get_path_score.
  destruct (pyfind t s <? 0) eqn:Eneg.
  { apply SC0. apply find_neg_spec. exact Eneg. }
  assert (Hsub : is_sub s t).
  { destruct (pyfind_range t s) as [H|H].
    - rewrite H in Eneg. discriminate.
    - apply Z.ltb_ge in Eneg. destruct (ffrom_spec s t 0) as [[H1 _] | [p [q [_ [H2 _]]]]].
      + unfold pyfind in H. lia.
      + exists p, q. exact H2. }
  destruct ((pyfind t s =? 0) && (length s =? length t)%nat) eqn:Eeq.
  { apply SC8. apply eq_test_spec. exact Eeq. }
  pose proof (not_true _ _ (eq_test_spec t s) Eeq) as Hne.
  assert (Htail : forall home', ~ inside home' t ->
            score_class home' s t (if endswith t (dot :: s) then 4 else if endswith t s then 3 else 1)).
  { intros home' Hni.
    destruct (endswith t (dot :: s)) eqn:Ew.
    { apply SC4; [exact Hne | exact Hni | apply endswith_spec; exact Ew]. }
    pose proof (not_true _ _ (endswith_spec t (dot :: s)) Ew) as Hnw.
    destruct (endswith t s) eqn:Et.
    { apply SC3; [exact Hne | exact Hni | exact Hnw | apply endswith_spec; exact Et]. }
    pose proof (not_true _ _ (endswith_spec t s) Et) as Hnt.
    apply SC1; assumption. }
  unfold home_block. destruct home as [h|].
  2:{ apply Htail. intros [h [E _]]. discriminate. }
  destruct (eqs (h ++ dot :: s) t) eqn:Eh.
  { apply SC7; [exact Hne|]. exists h. split; [reflexivity|]. symmetry. apply eqs_spec. exact Eh. }
  assert (Hnh : ~ home_dot (Some h) s t).
  { intros [h' [E1 E2]]. inversion E1; subst h'. symmetry in E2. apply eqs_spec in E2. congruence. }
  destruct (startswith t (h ++ [dot])) eqn:Es.
  2:{ apply Htail. intros [h' [E1 E2]]. inversion E1; subst h'. apply startswith_spec in E2. congruence. }
  assert (Hin : inside (Some h) t).
  { exists h. split; [reflexivity|]. apply startswith_spec. exact Es. }
  destruct (endswith t (dot :: s)) eqn:Ew.
  { apply SC6; [exact Hne | exact Hnh | exact Hin | apply endswith_spec; exact Ew]. }
  pose proof (not_true _ _ (endswith_spec t (dot :: s)) Ew) as Hnw.
  destruct (endswith t s) eqn:Et.
  { apply SC5; [exact Hne | exact Hnh | exact Hin | exact Hnw | apply endswith_spec; exact Et]. }
  pose proof (not_true _ _ (endswith_spec t s) Et) as Hnt.
  apply SC2; assumption.
Qed.

Ltac atom_facts home s t :=
  pose proof (@eq_sub s t); pose proof (@eq_ends s t); pose proof (@ends_sub s t);
  pose proof (@ends_dot_ends s t); pose proof (@home_dot_inside home s t);
  pose proof (@home_dot_ends home s t); pose proof (@home_dot_neq home s t);
  pose proof (@ends_dot_neq s t).

Lemma score_class_det : forall home s t k k',
  score_class home s t k -> score_class home s t k' -> k = k'.
Proof.
  intros home s t k k' H1 H2. atom_facts home s t.
  inversion H1; inversion H2; try reflexivity; exfalso; tauto.
Qed.

Theorem score_spec : forall home s t k, get_path_score home s t = k <-> score_class home s t k.
Proof.
  intros. split.
  - intros <-. apply score_sound.
  - intro H. eapply score_class_det; [apply score_sound | exact H].
Qed.

Lemma score_range : forall home s t, 0 <= get_path_score home s t <= 8.
Proof. intros. pose proof (score_sound home s t) as H. inversion H; lia. Qed.

Lemma score_8 : forall home s t, get_path_score home s t = 8 <-> t = s.
Proof.
  intros. rewrite score_spec. split.
  - intro H. inversion H. assumption.
  - apply SC8.
Qed.

Lemma score_0 : forall home s t, get_path_score home s t = 0 <-> ~ is_sub s t.
Proof.
  intros. rewrite score_spec. split.
  - intro H. inversion H. assumption.
  - apply SC0.
Qed.

Lemma score_lt_8 : forall home s t, t <> s -> get_path_score home s t < 8.
Proof.
  intros home s t H. pose proof (score_range home s t). pose proof (score_8 home s t).
  destruct (Z.eq_dec (get_path_score home s t) 8); [tauto | lia].
Qed.

(* ---------- the preference order of the property text *)
Inductive beats (home : option str) (s : str) : str -> str -> Prop :=
  (* a name equal to the full path beats everything else *)
  | B_full : forall t1 t2, t1 = s -> t2 <> s -> beats home s t1 t2
  (* home-scope-dot-name beats any other path that is not the name itself *)
  | B_home_dot : forall t1 t2, home_dot home s t1 -> t2 <> s -> ~ home_dot home s t2 -> beats home s t1 t2
  (* a trailing match beats an interior one (and a non-match) *)
  | B_trailing : forall t1 t2, ends t1 s -> ~ ends t2 s -> beats home s t1 t2
  (* any match beats a non-match *)
  | B_match : forall t1 t2, is_sub s t1 -> ~ is_sub s t2 -> beats home s t1 t2
  (* within trailing matches: inside the home scope beats outside *)
  | B_inside_trailing : forall t1 t2, t1 <> s -> t2 <> s -> ends t1 s -> ends t2 s ->
      inside home t1 -> ~ inside home t2 -> beats home s t1 t2
  (* within interior matches: inside the home scope beats outside *)
  | B_inside_interior : forall t1 t2, is_sub s t1 -> is_sub s t2 -> ~ ends t1 s -> ~ ends t2 s ->
      inside home t1 -> ~ inside home t2 -> beats home s t1 t2
  (* within trailing matches on the same side of the home scope: whole dotted components beat partial *)
  | B_whole : forall t1 t2, t1 <> s -> t2 <> s -> ~ home_dot home s t1 -> ~ home_dot home s t2 ->
      ends t1 (dot :: s) -> ends t2 s -> ~ ends t2 (dot :: s) ->
      (inside home t1 <-> inside home t2) -> beats home s t1 t2.

Theorem beats_score : forall home s t1 t2,
  beats home s t1 t2 -> get_path_score home s t2 < get_path_score home s t1.
Proof.
  intros home s t1 t2 B.
  pose proof (score_sound home s t1) as C1. pose proof (score_sound home s t2) as C2.
  atom_facts home s t1. atom_facts home s t2.
  destruct B; inversion C1; inversion C2; try lia; exfalso; tauto.
Qed.

(* the order is strict and total on classes: equal classes are exactly the ties *)
Lemma same_class_same_score : forall home s t1 t2 k,
  score_class home s t1 k -> score_class home s t2 k ->
  get_path_score home s t1 = get_path_score home s t2.
Proof. intros home s t1 t2 k H1 H2. apply score_spec in H1. apply score_spec in H2. congruence. Qed.

(* conversely every strict score difference is one of the stated preferences: the numeric
   order of the classes is exactly the preference relation *)
Theorem score_beats : forall home s t1 t2,
  get_path_score home s t2 < get_path_score home s t1 -> beats home s t1 t2.
Proof.
  intros home s t1 t2 L.
  pose proof (score_sound home s t1) as C1. pose proof (score_sound home s t2) as C2.
  atom_facts home s t1. atom_facts home s t2.
  remember (get_path_score home s t1) as k1 eqn:E1. remember (get_path_score home s t2) as k2 eqn:E2.
  clear E1 E2.
  inversion C1; inversion C2; subst k1 k2; try lia;
  first [ solve [apply B_full; tauto]
        | solve [apply B_home_dot; tauto]
        | solve [apply B_trailing; tauto]
        | solve [apply B_match; tauto]
        | solve [apply B_inside_trailing; tauto]
        | solve [apply B_inside_interior; tauto]
        | solve [apply B_whole; tauto] ].
Qed.

Theorem order_spec : forall home s t1 t2,
  beats home s t1 t2 <-> get_path_score home s t2 < get_path_score home s t1.
Proof. intros. split; [apply beats_score | apply score_beats]. Qed.
