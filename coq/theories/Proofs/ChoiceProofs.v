(* Proofs about Model/Choice.v, part 1: string primitives, the flags dict, the declarative
   reading of the source ([plus_form], [requested]) and the loops of choice_converters.fetch. *)
From Coq Require Import List Ascii String Bool Arith ZArith Lia.
From Phil Require Import Base Tree Choice.
Import ListNotations.
Local Open Scope char_scope.

(* ---------- strings *)
Lemma eqs_true_iff : forall a b, eqs a b = true <-> a = b.
Proof.
  induction a as [|x a IH]; destruct b as [|y b]; cbn; split; intro H; try reflexivity; try discriminate.
  - apply andb_true_iff in H. destruct H as [H1 H2]. apply Ascii.eqb_eq in H1. apply IH in H2. congruence.
  - inversion H; subst. rewrite Ascii.eqb_refl. cbn. apply IH. reflexivity.
Qed.
Lemma eqs_refl : forall a, eqs a a = true.
Proof. intro a. apply eqs_true_iff. reflexivity. Qed.
Lemma eqs_false_iff : forall a b, eqs a b = false <-> a <> b.
Proof.
  intros a b. split; intro H.
  - intro E. apply eqs_true_iff in E. congruence.
  - destruct (eqs a b) eqn:E; [apply eqs_true_iff in E; contradiction | reflexivity].
Qed.
Lemma eqs_sym : forall a b, eqs a b = eqs b a.
Proof.
  intros a b. destruct (eqs a b) eqn:E.
  - apply eqs_true_iff in E. subst. symmetry. apply eqs_refl.
  - symmetry. apply eqs_false_iff. apply eqs_false_iff in E. congruence.
Qed.
Ltac eqs_case a b :=
  let E := fresh "E" in
  destruct (eqs a b) eqn:E; [apply eqs_true_iff in E | apply eqs_false_iff in E].

Lemma mems_In : forall x l, mems x l = true <-> In x l.
Proof.
  intros x l. unfold mems. rewrite existsb_exists. split.
  - intros [y [H1 H2]]. apply eqs_true_iff in H2. subst. exact H1.
  - intro H. exists x. split; [exact H | apply eqs_refl].
Qed.

Lemma lower_idem : forall c, lower (lower c) = lower c.
Proof. intros [[] [] [] [] [] [] [] []]; vm_compute; reflexivity. Qed.
Lemma lowers_idem : forall s, lowers (lowers s) = lowers s.
Proof. induction s as [|c s IH]; cbn; [reflexivity | rewrite lower_idem; unfold lowers in IH; rewrite IH; reflexivity]. Qed.

Lemma find_char_mem : forall c s, (0 <=? find_char c s)%Z = mem c s.
Proof.
  intros c. induction s as [|x s IH]; cbn; [reflexivity|].
  rewrite Ascii.eqb_sym. destruct (Ascii.eqb c x); cbn; [reflexivity|].
  rewrite <- IH. destruct (find_char c s <? 0)%Z eqn:E.
  - apply Z.ltb_lt in E. symmetry. apply Z.leb_gt. exact E.
  - apply Z.ltb_ge in E. transitivity true; [apply Z.leb_le; lia | symmetry; apply Z.leb_le; lia].
Qed.

Definition blank (s:str) : bool := forallb isspace s.
Lemma lstrip_nil : forall s, lstrip s = [] <-> blank s = true.
Proof.
  induction s as [|c s IH]; cbn; [tauto|].
  destruct (isspace c); cbn; [exact IH | split; discriminate].
Qed.
Lemma lstrip_blank_false : forall s, blank s = false -> exists c r, lstrip s = c :: r /\ isspace c = false.
Proof.
  induction s as [|c s IH]; cbn; [discriminate|].
  destruct (isspace c) eqn:E; cbn; intro H; [exact (IH H) | exists c, s; split; [reflexivity | exact E]].
Qed.
Lemma blank_app : forall a b, blank (a ++ b) = blank a && blank b.
Proof. intros. unfold blank. apply forallb_app. Qed.
Lemma strip_len0 : forall s, (length (strip s) =? 0)%nat = blank s.
Proof.
  intro s. unfold strip, rstrip. destruct (blank s) eqn:B.
  - apply lstrip_nil in B. rewrite B. reflexivity.
  - destruct (lstrip_blank_false s B) as [c [r [H1 H2]]]. rewrite H1.
    assert (B2 : blank (rev (c :: r)) = false).
    { cbn [rev]. rewrite blank_app. cbn. rewrite H2. rewrite andb_false_r. reflexivity. }
    destruct (lstrip_blank_false _ B2) as [c' [r' [H3 _]]]. rewrite H3.
    rewrite rev_length. reflexivity.
Qed.

(* ---------- the flags dict behaves as a finite map *)
Lemma fget_fset : forall fl k k' v, fget k (fset k' v fl) = if eqs k' k then Some v else fget k fl.
Proof.
  induction fl as [|[k0 v0] fl IH]; intros k k' v; cbn.
  - reflexivity.
  - eqs_case k0 k'.
    + subst k0. cbn. destruct (eqs k' k); reflexivity.
    + cbn. eqs_case k0 k.
      * subst k0. eqs_case k' k; [congruence | reflexivity].
      * apply IH.
Qed.
Lemma fhas_fset : forall fl k k' v, fhas k (fset k' v fl) = eqs k' k || fhas k fl.
Proof. intros. unfold fhas. rewrite fget_fset. destruct (eqs k' k); reflexivity. Qed.

(* ---------- names *)
Definition key (w:word) : str := lowers (unstar (wv w)).
Definition keys (m:list word) : list str := map key m.
(* master word with its selection star set to b *)
Definition restar (b:bool) (w:word) : word :=
  mkword (if b then star :: unstar (wv w) else unstar (wv w)) (wq w) (wline w).

Lemma key_lowered : forall w, lowers (key w) = key w.
Proof. intro w. apply lowers_idem. Qed.

Lemma mems_cons : forall k a l, mems k (a :: l) = eqs k a || mems k l.
Proof. reflexivity. Qed.
Lemma fget_init : forall m fl k,
  fget k (init_flags m fl) = if mems k (keys m) then Some false else fget k fl.
Proof.
  induction m as [|w m IH]; intros fl k; [reflexivity|].
  cbn [init_flags]. rewrite IH. fold (key w). unfold keys. cbn [map]. fold (keys m). rewrite mems_cons.
  destruct (mems k (keys m)) eqn:M.
  - rewrite orb_true_r. reflexivity.
  - rewrite orb_false_r. rewrite fget_fset. rewrite (eqs_sym k). reflexivity.
Qed.
Lemma fhas_init : forall m k, fhas k (init_flags m []) = mems k (keys m).
Proof. intros. unfold fhas. rewrite fget_init. destruct (mems k (keys m)); reflexivity. Qed.

Lemma rebuild_spec : forall (sel:str -> bool) m fl,
  (forall w, In w m -> fget (key w) fl = Some (sel (key w))) ->
  rebuild m fl = FOk (map (fun w => restar (sel (key w)) w) m).
Proof.
  intros sel. induction m as [|w m IH]; intros fl H; cbn; [reflexivity|].
  fold (key w). rewrite (H w (or_introl eq_refl)).
  rewrite (IH fl) by (intros w' Hw'; apply H; right; exact Hw'). reflexivity.
Qed.
Lemma rebuild_ext : forall m fl1 fl2,
  (forall w, In w m -> fget (key w) fl1 = fget (key w) fl2) -> rebuild m fl1 = rebuild m fl2.
Proof.
  induction m as [|w m IH]; intros fl1 fl2 H; cbn; [reflexivity|].
  fold (key w). rewrite (H w (or_introl eq_refl)).
  rewrite (IH fl1 fl2) by (intros w' Hw'; apply H; right; exact Hw'). reflexivity.
Qed.

(* ---------- the declarative reading of the source *)
(* the "+" form: every word bare and un-starred, a "+" somewhere, and after the first "+" of the
   glued text no piece is blank *)
Definition qs (w:word) : bool := isq w || starts_star (wv w).
Definition plus_form0 (src:list word) : bool :=
  negb (existsb qs src) && existsb (fun w => mem plus (wv w)) src
  && forallb (fun v => negb (blank v)) (tl (split_on plus (List.concat (map wv src)))).
(* the master's alternatives: its words' values with the selection star removed (original case) *)
Definition alts_of (m:list word) : list str := map (fun w => unstar (wv w)) m.
(* the source is the complete list of the master's alternatives, no star, same case, same order
   (what format writes when nothing is selected) *)
Definition full_list (m src:list word) : bool := names_eqb (map wv src) (alts_of m).
(* the "+" form relative to a master: the complete list is never read as a+b *)
Definition plus_form (m src:list word) : bool := negb (full_list m src) && plus_form0 src.

Lemma names_eqb_true_iff : forall a b, names_eqb a b = true <-> a = b.
Proof.
  induction a as [|x a IH]; destruct b as [|y b]; cbn; split; intro H; try reflexivity; try discriminate.
  - apply andb_true_iff in H. destruct H as [H1 H2]. apply eqs_true_iff in H1. apply IH in H2. congruence.
  - inversion H; subst. rewrite eqs_refl. cbn. apply IH. reflexivity.
Qed.
Lemma names_eqb_refl : forall a, names_eqb a a = true.
Proof. intro a. apply names_eqb_true_iff. reflexivity. Qed.
Lemma full_list_true_iff : forall m src, full_list m src = true <-> map wv src = alts_of m.
Proof. intros. unfold full_list. apply names_eqb_true_iff. Qed.
Lemma plus_form_full : forall m src, full_list m src = true -> plus_form m src = false.
Proof. intros m src H. unfold plus_form. rewrite H. reflexivity. Qed.
Lemma plus_form_not_full : forall m src, full_list m src = false -> plus_form m src = plus_form0 src.
Proof. intros m src H. unfold plus_form. rewrite H. reflexivity. Qed.
Lemma plus_form_true_inv : forall m src,
  plus_form m src = true -> full_list m src = false /\ plus_form0 src = true.
Proof.
  intros m src H. unfold plus_form in H. apply andb_true_iff in H. destruct H as [H1 H2].
  apply negb_true_iff in H1. split; assumption.
Qed.
Lemma plus_form0_false : forall m src, plus_form0 src = false -> plus_form m src = false.
Proof. intros m src H. unfold plus_form. rewrite H. apply andb_false_r. Qed.

Lemma detect_spec : forall ws hp,
  detect ws hp = (existsb qs ws,
                  snd (detect ws hp)) /\
  (existsb qs ws = false -> snd (detect ws hp) = hp || existsb (fun w => mem plus (wv w)) ws).
Proof.
  induction ws as [|w ws IH]; intros hp; cbn.
  - split; [reflexivity | intros _; rewrite orb_false_r; reflexivity].
  - fold (qs w). destruct (qs w) eqn:Q; cbn.
    + split; [reflexivity | discriminate].
    + rewrite find_char_mem. destruct (IH (if mem plus (wv w) then true else hp)) as [H1 H2].
      split; [rewrite H1 at 1; reflexivity|].
      intro H. rewrite (H2 H). destruct (mem plus (wv w)); cbn; [rewrite orb_true_r|]; reflexivity.
Qed.
Lemma all_nonblank_spec : forall vals, all_nonblank vals = forallb (fun v => negb (blank v)) vals.
Proof.
  induction vals as [|v r IH]; cbn; [reflexivity|].
  rewrite strip_len0. destruct (blank v); cbn; [reflexivity | exact IH].
Qed.
Lemma process_plus_spec : forall m src, process_plus (map (fun w => unstar (wv w)) m) src = plus_form m src.
Proof.
  intros m src. unfold process_plus, plus_form, plus_form0, full_list, alts_of, join_empty.
  destruct (detect_spec src false) as [H1 H2]. rewrite H1.
  destruct (existsb qs src) eqn:Q; cbn; [rewrite andb_false_r; reflexivity|].
  rewrite (H2 eq_refl). cbn.
  destruct (names_eqb (map wv src) (map (fun w => unstar (wv w)) m)); cbn; [reflexivity|].
  destruct (existsb (fun w => mem plus (wv w)) src); cbn; [apply all_nonblank_spec | reflexivity].
Qed.

(* last word of the source naming k (case-insensitively, star removed) *)
Fixpoint last_match (k:str) (src:list word) : option word :=
  match src with
  | [] => None
  | w :: r => match last_match k r with
              | Some x => Some x
              | None => if eqs (key w) k then Some w else None
              end
  end.
(* the names joined with "+" (empty pieces dropped), with the line of their word *)
Definition nonempty (v:str) : bool := negb (null v).
Definition plus_pieces (src:list word) : list (str * nat) :=
  flat_map (fun w => map (fun v => (v, wline w)) (filter nonempty (split_on plus (wv w)))) src.
Definition plus_names (src:list word) : list str := map fst (plus_pieces src).

(* does the source ask for the alternative whose lower-cased name is k ?  (source not plain Auto;
   m is the master, which decides whether the source is the complete list) *)
Definition requested (mand:bool) (m src:list word) (k:str) : bool :=
  if negb mand && is_plain_none src then false
  else if plus_form m src then mems k (map lowers (plus_names src))
  else match last_match k src with
       | Some w => starts_star (wv w) || (length src =? 1)%nat
       | None => false
       end.

(* ---------- the normal loop *)
Definition flagged (sg:bool) (w:word) : bool := starts_star (wv w) || sg.
Lemma flag_is_flagged : forall sg w, (if starts_star (wv w) then true else sg) = flagged sg w.
Proof. intros. unfold flagged. destruct (starts_star (wv w)); reflexivity. Qed.

Lemma normal_step : forall sg ign w r fl,
  normal_loop sg ign (w :: r) fl =
    if negb (fhas (key w) fl) then
      (if flagged sg w && negb ign then LBad (unstar (wv w)) (wline w) else normal_loop sg ign r fl)
    else normal_loop sg ign r (fset (key w) (flagged sg w) fl).
Proof. intros. cbn [normal_loop]. rewrite flag_is_flagged. reflexivity. Qed.

Lemma normal_app : forall sg ign pre post fl,
  normal_loop sg ign (pre ++ post) fl =
    match normal_loop sg ign pre fl with LOk fl' => normal_loop sg ign post fl' | bad => bad end.
Proof.
  intros sg ign. induction pre as [|w pre IH]; intros post fl; [reflexivity|].
  rewrite <- app_comm_cons. rewrite !normal_step.
  destruct (negb (fhas (key w) fl)); [destruct (flagged sg w && negb ign); [reflexivity | apply IH] | apply IH].
Qed.

(* assigning to a key that is present does not change the key set *)
Lemma fhas_fset_present : forall fl k0 v k, fhas k0 fl = true -> fhas k (fset k0 v fl) = fhas k fl.
Proof.
  intros fl k0 v k H. rewrite fhas_fset. eqs_case k0 k; [subst k; rewrite H; reflexivity | reflexivity].
Qed.

(* the key set is the master's throughout *)
Lemma normal_keys : forall sg ign ws fl fl',
  normal_loop sg ign ws fl = LOk fl' -> forall k, fhas k fl' = fhas k fl.
Proof.
  intros sg ign. induction ws as [|w ws IH]; intros fl fl' H k.
  - cbn in H. inversion H; subst. reflexivity.
  - rewrite normal_step in H. destruct (fhas (key w) fl) eqn:Hk; cbn [negb] in H.
    + rewrite (IH _ _ H k). apply fhas_fset_present. exact Hk.
    + destruct (flagged sg w && negb ign); [discriminate | apply (IH _ _ H k)].
Qed.

(* value of a key: the last word naming it decides *)
Lemma normal_get : forall sg ign ws fl fl' k,
  fhas k fl = true -> normal_loop sg ign ws fl = LOk fl' ->
  fget k fl' = match last_match k ws with Some w => Some (flagged sg w) | None => fget k fl end.
Proof.
  intros sg ign. induction ws as [|w ws IH]; intros fl fl' k Hk H.
  - cbn in H. inversion H; subst. reflexivity.
  - rewrite normal_step in H. cbn [last_match].
    destruct (fhas (key w) fl) eqn:C; cbn [negb] in H.
    + assert (Hk' : fhas k (fset (key w) (flagged sg w) fl) = true)
        by (rewrite fhas_fset_present; assumption).
      rewrite (IH _ _ k Hk' H). destruct (last_match k ws); [reflexivity|].
      rewrite fget_fset. destruct (eqs (key w) k); reflexivity.
    + assert (N : eqs (key w) k = false).
      { apply eqs_false_iff. intro E. rewrite E in C. congruence. }
      rewrite N. destruct (flagged sg w && negb ign); [discriminate|].
      rewrite (IH _ _ k Hk H). destruct (last_match k ws); reflexivity.
Qed.

(* no error while every flagged word names a key *)
Lemma normal_pre_ok : forall sg ign ws fl,
  (forall p, In p ws -> flagged sg p = true -> fhas (key p) fl = true) ->
  exists fl', normal_loop sg ign ws fl = LOk fl'.
Proof.
  intros sg ign. induction ws as [|w ws IH]; intros fl H.
  - exists fl. reflexivity.
  - rewrite normal_step. destruct (fhas (key w) fl) eqn:Hk; cbn [negb].
    + apply IH. intros p Hp Fp. rewrite fhas_fset_present by exact Hk. apply H; [right; exact Hp | exact Fp].
    + destruct (flagged sg w) eqn:F.
      * rewrite (H w (or_introl eq_refl) F) in Hk. discriminate.
      * cbn [andb]. apply IH. intros p Hp Fp. apply H; [right; exact Hp | exact Fp].
Qed.

(* an error comes from a flagged word whose key is not a key of the table *)
Lemma normal_bad_sound : forall sg ign ws fl v l,
  normal_loop sg ign ws fl = LBad v l ->
  ign = false /\ exists pre w post, ws = pre ++ w :: post /\ v = unstar (wv w) /\ l = wline w
                  /\ flagged sg w = true /\ fhas (key w) fl = false
                  /\ (forall p, In p pre -> flagged sg p = true -> fhas (key p) fl = true).
Proof.
  intros sg ign. induction ws as [|w ws IH]; intros fl v l H.
  - cbn in H. discriminate.
  - rewrite normal_step in H. destruct (fhas (key w) fl) eqn:Hk; cbn [negb] in H.
    + destruct (IH _ _ _ H) as [E [pre [w' [post [H1 [H2 [H3 [H4 [H5 H6]]]]]]]]].
      split; [exact E|]. exists (w :: pre), w', post. subst ws.
      rewrite fhas_fset_present in H5 by exact Hk. repeat split; try assumption.
      intros p [Hp|Hp] Fp; [subst p; exact Hk|].
      rewrite <- (fhas_fset_present fl (key w) (flagged sg w) (key p) Hk). apply H6; assumption.
    + destruct (flagged sg w && negb ign) eqn:C.
      * apply andb_true_iff in C. destruct C as [C1 C2]. apply negb_true_iff in C2.
        inversion H; subst. split; [reflexivity|]. exists [], w, ws. repeat split; try assumption.
        intros p [].
      * destruct (IH _ _ _ H) as [E [pre [w' [post [H1 [H2 [H3 [H4 [H5 H6]]]]]]]]].
        split; [exact E|]. exists (w :: pre), w', post. subst ws. repeat split; try assumption.
        intros p [Hp|Hp] Fp; [|apply H6; assumption].
        subst p. rewrite Fp, E in C. discriminate.
Qed.

Lemma normal_ignore_never_bad : forall sg ws fl v l, normal_loop sg true ws fl <> LBad v l.
Proof. intros sg ws fl v l H. apply normal_bad_sound in H. destruct H as [H _]. discriminate. Qed.

(* ---------- the "+" loop, as a loop over the pieces *)
Fixpoint pieces_loop (ps:list (str * nat)) (fl:flags) : lres :=
  match ps with
  | [] => LOk fl
  | (v, l) :: r => if negb (fhas (lowers v) fl) then LBad v l else pieces_loop r (fset (lowers v) true fl)
  end.
Lemma pieces_app : forall a b fl,
  pieces_loop (a ++ b) fl = match pieces_loop a fl with LOk fl' => pieces_loop b fl' | bad => bad end.
Proof.
  induction a as [|[v l] a IH]; intros b fl; [reflexivity|].
  cbn. destruct (fhas (lowers v) fl); cbn; [apply IH | reflexivity].
Qed.
Lemma plus_values_pieces : forall vals line fl,
  plus_values vals line fl = pieces_loop (map (fun v => (v, line)) (filter nonempty vals)) fl.
Proof.
  induction vals as [|v r IH]; intros line fl; cbn; [reflexivity|].
  unfold nonempty at 1. destruct (null v); cbn; [apply IH|].
  destruct (fhas (lowers v) fl); cbn; [apply IH | reflexivity].
Qed.
Lemma plus_loop_pieces : forall ws fl, plus_loop ws fl = pieces_loop (plus_pieces ws) fl.
Proof.
  induction ws as [|w ws IH]; intros fl; [reflexivity|].
  unfold plus_pieces. cbn [plus_loop flat_map]. rewrite pieces_app. rewrite plus_values_pieces.
  destruct (pieces_loop _ fl); [apply IH | reflexivity].
Qed.

Lemma pieces_get : forall ps fl fl' k,
  pieces_loop ps fl = LOk fl' ->
  fget k fl' = if mems k (map lowers (map fst ps)) then Some true else fget k fl.
Proof.
  induction ps as [|[v l] ps IH]; intros fl fl' k H.
  - cbn in H. inversion H; subst. reflexivity.
  - cbn [pieces_loop] in H. destruct (fhas (lowers v) fl); cbn [negb] in H; [|discriminate].
    rewrite (IH _ _ k H). cbn [map fst]. rewrite mems_cons. rewrite fget_fset. rewrite (eqs_sym k).
    destruct (mems k (map lowers (map fst ps))); [rewrite orb_true_r|rewrite orb_false_r]; reflexivity.
Qed.

(* the first piece whose lower-cased name is not a key fails *)
Lemma pieces_first_bad : forall pre v l post fl,
  (forall p, In p pre -> fhas (lowers (fst p)) fl = true) -> fhas (lowers v) fl = false ->
  pieces_loop (pre ++ (v, l) :: post) fl = LBad v l.
Proof.
  induction pre as [|[p lp] pre IH]; intros v l post fl Hpre Hv.
  - cbn [app pieces_loop]. rewrite Hv. reflexivity.
  - cbn [app pieces_loop]. pose proof (Hpre (p, lp) (or_introl eq_refl)) as Hp. cbn [fst] in Hp.
    rewrite Hp. cbn [negb].
    apply IH.
    + intros q Hq. rewrite fhas_fset_present by exact Hp. apply Hpre. right. exact Hq.
    + rewrite fhas_fset_present by exact Hp. exact Hv.
Qed.
Lemma pieces_bad_sound : forall ps fl v l,
  pieces_loop ps fl = LBad v l ->
  exists pre post, ps = pre ++ (v, l) :: post /\ fhas (lowers v) fl = false
                   /\ (forall p, In p pre -> fhas (lowers (fst p)) fl = true).
Proof.
  induction ps as [|[p lp] ps IH]; intros fl v l H; cbn [pieces_loop] in H; [discriminate|].
  destruct (fhas (lowers p) fl) eqn:Hp; cbn [negb] in H.
  - destruct (IH _ _ _ H) as [pre [post [H1 [H2 H3]]]].
    exists ((p, lp) :: pre), post. subst ps. split; [reflexivity|].
    rewrite fhas_fset_present in H2 by exact Hp. split; [exact H2|].
    intros q [Hq|Hq]; [subst q; exact Hp|].
    rewrite <- (fhas_fset_present fl (lowers p) true _ Hp). apply H3. exact Hq.
  - inversion H; subst. exists [], ps. split; [reflexivity|]. split; [exact Hp|]. intros q [].
Qed.
