(* C19, clause "a prefix is prepended to every line and changes nothing else".

   A printer line is one call of [line] in the printer model (Show.v); a line may itself contain raw
   newline characters (a quoted word or an attribute value printed on one line is emitted as is), so the
   clause cannot be stated by splitting the final text at newline characters.  This file therefore gives,
   for every printer function, the list of printer lines it emits ([words_lines], [attr_lines], ...,
   [obj_lines], [objs_lines]; same branch structure as the model), proves that the model text IS the
   concatenation of these lines (render theorems, every prefix), and proves that the lines printed with
   prefix p ++ q at width w are exactly p ++ x for the lines x printed with prefix q at width w - |p|.

   Needed side condition: the prefix p contains no newline character; definition.show refuses to break
   a value line when the current line (prefix included) contains a newline; see [prefix_with_newline_differs]. *)
From Coq Require Import List Ascii String Bool Arith ZArith Lia.
From Phil Require Import Base Tokenizer Tree Parser Show ShowProofs.
Import ListNotations.
Local Open Scope char_scope.

(* ---------- vocabulary *)
Definition lift {A B} (f:A -> B) (r:res A) : res B :=
  match r with Ok a => Ok (f a) | UErr k t l => UErr k t l | Crash c => Crash c end.
(* the text made of the printer lines ls *)
Definition render (ls:list str) : str := List.concat (map line ls).
(* p in front of every printer line *)
Definition add_prefix (p:str) (ls:list str) : list str := map (app p) ls.

Lemma render_cons : forall x l, render (x :: l) = line x ++ render l.
Proof. reflexivity. Qed.
Lemma render_one : forall x, render [x] = line x.
Proof. intros. unfold render. cbn [map List.concat]. apply app_nil_r. Qed.
Lemma render_app : forall a b, render (a ++ b) = render a ++ render b.
Proof. intros. unfold render. rewrite map_app, concat_app. reflexivity. Qed.
Lemma render_cons_ne : forall x l, exists c s, render (x :: l) = c :: s.
Proof.
  intros x l. rewrite render_cons. unfold line. destruct x as [|c x]; cbn [app]; eexists; eexists; reflexivity.
Qed.

Lemma add_prefix_app : forall p a b, add_prefix p (a ++ b) = add_prefix p a ++ add_prefix p b.
Proof. intros. apply map_app. Qed.

Lemma zlen_app : forall a b, zlen (a ++ b) = (zlen a + zlen b)%Z.
Proof. intros. unfold zlen. rewrite app_length, Nat2Z.inj_add. reflexivity. Qed.
Lemma mem_app : forall c a b, mem c (a ++ b) = mem c a || mem c b.
Proof. induction a as [|d a IH]; intros; [reflexivity|]. cbn [app mem]. rewrite IH, orb_assoc. reflexivity. Qed.

Lemma gtb_shift : forall a b w, (a + b >? w - 2)%Z = (b >? w - a - 2)%Z.
Proof. intros. rewrite !Z.gtb_ltb. destruct (Z.ltb_spec (w - 2) (a + b)), (Z.ltb_spec (w - a - 2) b); try reflexivity; lia. Qed.
Lemma ltb_shift : forall a b c w, (a + b + c <? w)%Z = (b + c <? w - a)%Z.
Proof. intros. destruct (Z.ltb_spec (a + b + c) w), (Z.ltb_spec (b + c) (w - a)); try reflexivity; lia. Qed.
Lemma nat_ltb_add : forall a b c, (a + b <? a + c)%nat = (b <? c)%nat.
Proof. intros. destruct (Nat.ltb_spec (a + b) (a + c)), (Nat.ltb_spec b c); try reflexivity; lia. Qed.

Lemma bind2_lift : forall {A B} (f:A -> B) (ga:A -> A -> A) (gb:B -> B -> B),
  (forall x y, f (ga x y) = gb (f x) (f y)) -> forall r1 r2,
  (do x <- lift f r1 ; do y <- lift f r2 ; Ok (gb x y)) = lift f (do x <- r1 ; do y <- r2 ; Ok (ga x y)).
Proof.
  intros A B f ga gb H r1 r2. destruct r1; cbn [lift bind]; try reflexivity.
  destruct r2; cbn [lift bind]; try reflexivity. rewrite H. reflexivity.
Qed.

(* ---------- definition.show : the value lines *)
Fixpoint words_lines (ws:list word) (cur:str) (indent:str) (width:Z) : list str :=
  match ws with
  | [] => [cur]
  | w :: r =>
      let plus := cur ++ " " :: str_of_word w in
      if (zlen plus >? width - 2)%Z && (length indent <? length cur)%nat && negb (mem nl cur)
      then (cur ++ s_ " \") :: words_lines r (indent ++ " " :: str_of_word w) indent width
      else words_lines r plus indent width
  end.

Lemma show_words_lines : forall ws cur indent width,
  show_words ws cur indent width = render (words_lines ws cur indent width).
Proof.
  induction ws as [|x r IH]; intros; cbn [show_words words_lines]; cbv zeta.
  - symmetry. apply render_one.
  - match goal with |- context [if ?c then _ else _] => destruct c end.
    + rewrite render_cons, IH. reflexivity.
    + apply IH.
Qed.

Lemma words_lines_prefix : forall p, mem nl p = false -> forall ws cur indent width,
  words_lines ws (p ++ cur) (p ++ indent) width = add_prefix p (words_lines ws cur indent (width - zlen p)).
Proof.
  intros p Hp. induction ws as [|x r IH]; intros; cbn [words_lines]; cbv zeta.
  - reflexivity.
  - rewrite <- !app_assoc. rewrite zlen_app, !app_length, mem_app, Hp, gtb_shift, nat_ltb_add. cbn [orb].
    match goal with |- context [if ?c then _ else _] => destruct c end.
    + unfold add_prefix. cbn [map]. f_equal. apply IH.
    + apply IH.
Qed.

(* ---------- show_attributes *)
Definition attr_block_line (head indent:str) (ib:nat * str) : str :=
  let (i, b) := ib in (if (i =? 0)%nat then head else indent) ++ dq :: b ++ [dq].

Definition attr_str_lines (head indent:str) (width:Z) (value:str) : res (list str) :=
  let fits := fun (t:str) => (zlen indent + zlen t <? width)%Z in
  let value' := if negb (is_ident value) || eqs (lowers value) (s_ "none") || eqs (lowers value) (s_ "auto")
                   || negb (fits value) then quote_str Q2 value else value in
  if fits value' then Ok [head ++ value']
  else
    let inner := removelast (drop 1 value') in
    match wrap inner (width - 2 - zlen indent)%Z with
    | None => UErr (s_ "Unmodelled") (s_ "wrap") 0
    | Some blocks0 =>
        let blocks := match blocks0 with [] => [inner] | _ => blocks0 end in
        Ok (map (attr_block_line head indent) (combine (seq 0 (length blocks)) blocks))
    end.

Definition attr_lines (prefix:str) (name:str) (v:aval) (level:Z) (width:Z) : res (list str) :=
  if eqs name (s_ "deprecated") && negb (py_truthy v) then Ok [] else
  let isnone := match v with ANone => true | _ => false end in
  if (is_level1_attr name && negb isnone) || (negb isnone && (1 <? level)%Z) || (2 <? level)%Z then
    if eqs name (s_ "alias") && isnone then Ok [] else
    let head := prefix ++ s_ "  ." ++ name ++ s_ " = " in
    match v with
    | AStr value => attr_str_lines head (prefix ++ spaces (3 + length name + 3)) width value
    | _ => Ok [head ++ str_of_aval_nonstr v]
    end
  else Ok [].

Lemma show_attr_lines : forall prefix name v level width,
  show_attr prefix name v level width = lift render (attr_lines prefix name v level width).
Proof.
  intros. unfold show_attr, attr_lines.
  destruct (eqs name (s_ "deprecated") && negb (py_truthy v)); [reflexivity|]. cbv zeta.
  match goal with |- context [if ?c then _ else Ok []] => destruct c end; [|reflexivity].
  match goal with |- context [if ?c then Ok [] else _] => destruct c end; [reflexivity|].
  destruct v; try (cbn [lift]; rewrite render_one; reflexivity).
  unfold attr_str_lines. cbv zeta.
  match goal with |- context [if ?c then Ok (line _) else _] => destruct c end.
  - cbn [lift]. rewrite render_one. reflexivity.
  - match goal with |- context [wrap ?a ?b] => destruct (wrap a b) end; [|reflexivity].
    cbn [lift]. f_equal. unfold render. rewrite map_map. f_equal. apply map_ext. intros [i b]. reflexivity.
Qed.

Lemma attr_str_lines_prefix : forall p head indent width value,
  attr_str_lines (p ++ head) (p ++ indent) width value
  = lift (add_prefix p) (attr_str_lines head indent (width - zlen p) value).
Proof.
  intros. unfold attr_str_lines. cbv zeta. rewrite zlen_app, !ltb_shift.
  replace (width - 2 - (zlen p + zlen indent))%Z with (width - zlen p - 2 - zlen indent)%Z by lia.
  match goal with |- context [if ?c then Ok _ else _] => destruct c end.
  - cbn [lift add_prefix map]. rewrite <- app_assoc. reflexivity.
  - match goal with |- context [wrap ?a ?b] => destruct (wrap a b) end; [|reflexivity].
    cbn [lift]. f_equal. unfold add_prefix. rewrite map_map. apply map_ext. intros [i b].
    cbn [attr_block_line]. destruct (i =? 0)%nat; rewrite <- app_assoc; reflexivity.
Qed.

Lemma attr_lines_prefix : forall p q name v level width,
  attr_lines (p ++ q) name v level width = lift (add_prefix p) (attr_lines q name v level (width - zlen p)).
Proof.
  intros. unfold attr_lines.
  destruct (eqs name (s_ "deprecated") && negb (py_truthy v)); [reflexivity|]. cbv zeta.
  match goal with |- context [if ?c then _ else Ok []] => destruct c end; [|reflexivity].
  match goal with |- context [if ?c then Ok [] else _] => destruct c end; [reflexivity|].
  destruct v; try (cbn [lift add_prefix map]; rewrite <- !app_assoc; reflexivity).
  rewrite <- !app_assoc. apply attr_str_lines_prefix.
Qed.

Fixpoint attrs_lines (prefix:str) (names:list str) (a:attrs) (level:Z) (width:Z) : res (list str) :=
  match names with
  | [] => Ok []
  | n :: r => do x <- attr_lines prefix n (get_attr n a) level width ;
              do y <- attrs_lines prefix r a level width ; Ok (x ++ y)
  end.
Definition attributes_lines (prefix:str) (names:list str) (a:attrs) (level:Z) (width:Z) : res (list str) :=
  if (level <=? 0)%Z then Ok [] else attrs_lines prefix names a level width.

Lemma show_attrs_lines : forall prefix names a level width,
  show_attrs prefix names a level width = lift render (attrs_lines prefix names a level width).
Proof.
  induction names as [|n r IH]; intros; [reflexivity|].
  cbn [show_attrs attrs_lines]. rewrite show_attr_lines, IH. apply bind2_lift. apply render_app.
Qed.
Lemma show_attributes_lines : forall prefix names a level width,
  show_attributes prefix names a level width = lift render (attributes_lines prefix names a level width).
Proof. intros. unfold show_attributes, attributes_lines. destruct (level <=? 0)%Z; [reflexivity|]. apply show_attrs_lines. Qed.

Lemma attrs_lines_prefix : forall p q names a level width,
  attrs_lines (p ++ q) names a level width = lift (add_prefix p) (attrs_lines q names a level (width - zlen p)).
Proof.
  induction names as [|n r IH]; intros; [reflexivity|].
  cbn [attrs_lines]. rewrite attr_lines_prefix, IH. apply bind2_lift. apply add_prefix_app.
Qed.
Lemma attributes_lines_prefix : forall p q names a level width,
  attributes_lines (p ++ q) names a level width
  = lift (add_prefix p) (attributes_lines q names a level (width - zlen p)).
Proof. intros. unfold attributes_lines. destruct (level <=? 0)%Z; [reflexivity|]. apply attrs_lines_prefix. Qed.

(* ---------- definition.show *)
Definition def_lines (h:hdr) (ws:list word) (a:attrs) (merged:list str) (prefix:str)
                     (expert:option Z) (level:Z) (width:Z) : res (list str) :=
  if (otmpl h <? 0)%Z && (level <? 2)%Z then Ok [] else
  if py_truthy (get_attr (s_ "deprecated") a) && (level <? 3)%Z then Ok [] else
  do hid <- hidden_by_expert a expert ;
  if hid then Ok [] else
  let l0 := prefix ++ (if odis h then ["!"] else []) ++ join_with ["."] (merged ++ [oname h])
            ++ (if eqs (oname h) include_w then [] else s_ " =") in
  let indent := prefix ++ spaces (length l0 - length prefix) in
  let warn := if py_truthy (get_attr (s_ "deprecated") a) then [prefix ++ s_ "# WARNING: deprecated parameter"] else [] in
  do at_ <- attributes_lines prefix def_attr_names a level width ;
  Ok (warn ++ words_lines ws l0 indent width ++ at_).

Lemma show_def_lines : forall h ws a merged prefix expert level width,
  show_def h ws a merged prefix expert level width = lift render (def_lines h ws a merged prefix expert level width).
Proof.
  intros. unfold show_def, def_lines.
  destruct ((otmpl h <? 0)%Z && (level <? 2)%Z); [reflexivity|].
  destruct (py_truthy (get_attr (s_ "deprecated") a) && (level <? 3)%Z); [reflexivity|].
  destruct (hidden_by_expert a expert) as [hid| |]; cbn [bind lift]; try reflexivity.
  destruct hid; [reflexivity|]. cbv zeta.
  rewrite show_attributes_lines.
  destruct (attributes_lines prefix def_attr_names a level width); cbn [bind lift]; try reflexivity.
  f_equal. rewrite !render_app, show_words_lines.
  destruct (py_truthy (get_attr (s_ "deprecated") a)); [rewrite render_one|]; reflexivity.
Qed.

Lemma def_lines_prefix : forall p, mem nl p = false -> forall h ws a merged q expert level width,
  def_lines h ws a merged (p ++ q) expert level width
  = lift (add_prefix p) (def_lines h ws a merged q expert level (width - zlen p)).
Proof.
  intros p Hp. intros. unfold def_lines.
  destruct ((otmpl h <? 0)%Z && (level <? 2)%Z); [reflexivity|].
  destruct (py_truthy (get_attr (s_ "deprecated") a) && (level <? 3)%Z); [reflexivity|].
  destruct (hidden_by_expert a expert) as [hid| |]; cbn [bind lift]; try reflexivity.
  destruct hid; [reflexivity|]. cbv zeta.
  rewrite attributes_lines_prefix.
  destruct (attributes_lines q def_attr_names a level (width - zlen p)); cbn [bind lift]; try reflexivity.
  f_equal. rewrite !add_prefix_app.
  set (rest := (if odis h then ["!"] else []) ++ join_with ["."] (merged ++ [oname h])
               ++ (if eqs (oname h) include_w then [] else s_ " =")).
  replace (length ((p ++ q) ++ rest) - length (p ++ q))%nat with (length (q ++ rest) - length q)%nat
    by (rewrite !app_length; lia).
  rewrite <- !app_assoc. rewrite (words_lines_prefix p Hp).
  destruct (py_truthy (get_attr (s_ "deprecated") a)); reflexivity.
Qed.

(* ---------- scope.show *)
Fixpoint obj_lines (o:obj) (merged:list str) (prefix:str) (expert:option Z) (level:Z) (width:Z) {struct o}
  : res (list str) :=
  match o with
  | Def h ws a => def_lines h ws a merged prefix expert level width
  | Scp h ks a =>
    if (otmpl h <? 0)%Z && (level <? 2)%Z then Ok [] else
    do hid <- hidden_by_expert a expert ;
    if hid then Ok [] else
    let kids := fix go (l:list obj) (merged:list str) (prefix:str) : res (list str) :=
        match l with
        | [] => Ok []
        | k :: r => do x <- obj_lines k merged prefix expert level width ;
                    do y <- go r merged prefix ; Ok (x ++ y)
        end in
    match oname h with
    | [] => match merged with [] => kids ks [] prefix | _ => Crash (s_ "AssertionError") end
    | _ =>
      if first_merges ks then kids ks (merged ++ [oname h]) prefix
      else
        do at_ <- attributes_lines prefix scope_attr_names a level width ;
        let mname := join_with ["."] (merged ++ [oname h]) in
        let head := prefix ++ (if odis h then ["!"] else []) ++ mname in
        let open := match at_ with
                    | [] => [head ++ s_ " {"]
                    | _ => [head] ++ at_ ++ [prefix ++ ["{"]] end in
        do body <- kids ks [] (prefix ++ s_ "  ") ;
        Ok (open ++ body ++ [prefix ++ ["}"]])
    end
  end.

Fixpoint list_lines (l:list obj) (merged:list str) (prefix:str) (expert:option Z) (level:Z) (width:Z)
  : res (list str) :=
  match l with
  | [] => Ok []
  | k :: r => do x <- obj_lines k merged prefix expert level width ;
              do y <- list_lines r merged prefix expert level width ; Ok (x ++ y)
  end.

Definition objs_lines (l:list obj) (prefix:str) (expert:option Z) (level:Z) (width:Z) : res (list str) :=
  list_lines l [] prefix expert level width.

Definition scope_lines_body (h:hdr) (ks:list obj) (a:attrs) merged prefix expert level width : res (list str) :=
  if (otmpl h <? 0)%Z && (level <? 2)%Z then Ok [] else
  do hid <- hidden_by_expert a expert ;
  if hid then Ok [] else
  match oname h with
  | [] => match merged with [] => list_lines ks [] prefix expert level width | _ => Crash (s_ "AssertionError") end
  | _ =>
    if first_merges ks then list_lines ks (merged ++ [oname h]) prefix expert level width
    else
      do at_ <- attributes_lines prefix scope_attr_names a level width ;
      let mname := join_with ["."] (merged ++ [oname h]) in
      let head := prefix ++ (if odis h then ["!"] else []) ++ mname in
      let open := match at_ with
                  | [] => [head ++ s_ " {"]
                  | _ => [head] ++ at_ ++ [prefix ++ ["{"]] end in
      do body <- list_lines ks [] (prefix ++ s_ "  ") expert level width ;
      Ok (open ++ body ++ [prefix ++ ["}"]])
  end.

Lemma obj_lines_scp : forall h ks a merged prefix expert level width,
  obj_lines (Scp h ks a) merged prefix expert level width = scope_lines_body h ks a merged prefix expert level width.
Proof.
  intros. cbn [obj_lines]. unfold scope_lines_body.
  set (go := fix go (l:list obj) (merged:list str) (prefix:str) : res (list str) :=
        match l with
        | [] => Ok []
        | k :: r => do x <- obj_lines k merged prefix expert level width ;
                    do y <- go r merged prefix ; Ok (x ++ y)
        end).
  assert (Hgo : forall l m p, go l m p = list_lines l m p expert level width).
  { induction l as [|k r IH]; intros m p; [reflexivity|]. cbn [go list_lines]. fold go. rewrite IH. reflexivity. }
  destruct ((otmpl h <? 0)%Z && (level <? 2)%Z); [reflexivity|].
  destruct (hidden_by_expert a expert) as [hid| |]; cbn [bind]; try reflexivity.
  destruct hid; [reflexivity|].
  destruct (oname h) eqn:En.
  - destruct merged; [apply Hgo|reflexivity].
  - destruct (first_merges ks); [apply Hgo|].
    destruct (attributes_lines prefix scope_attr_names a level width); cbn [bind]; try reflexivity.
    rewrite Hgo. reflexivity.
Qed.

(* the text of the opening line(s) of a scope *)
Lemma open_render : forall head q at_,
  match render at_ with
  | [] => line (head ++ s_ " {")
  | _ => line head ++ render at_ ++ line (q ++ ["{"]) end
  = render (match at_ with
            | [] => [head ++ s_ " {"]
            | _ => [head] ++ at_ ++ [q ++ ["{"]] end).
Proof.
  intros. destruct at_ as [|x r].
  - change (render []) with (@nil ascii). cbv iota. rewrite render_one. reflexivity.
  - destruct (render_cons_ne x r) as (c & s & E). rewrite E, <- E.
    rewrite !render_app, !render_one. reflexivity.
Qed.

Lemma open_prefix : forall p head q at_,
  match add_prefix p at_ with
  | [] => [(p ++ head) ++ s_ " {"]
  | _ => [p ++ head] ++ add_prefix p at_ ++ [(p ++ q) ++ ["{"]] end
  = add_prefix p (match at_ with
                  | [] => [head ++ s_ " {"]
                  | _ => [head] ++ at_ ++ [q ++ ["{"]] end).
Proof.
  intros. destruct at_ as [|x r]; unfold add_prefix; cbn [map app]; rewrite ?map_app; cbn [map];
    rewrite <- !app_assoc; reflexivity.
Qed.

Section Fixed.
  Variables (expert:option Z) (level:Z).

  (* the model text is the concatenation of the printer lines *)
  Lemma list_render_of_forall : forall width ks,
    Forall (fun o => forall merged prefix,
              show_obj o merged prefix expert level width = lift render (obj_lines o merged prefix expert level width)) ks ->
    forall m q, show_list ks m q expert level width = lift render (list_lines ks m q expert level width).
  Proof.
    intros width ks H. induction H as [|c r Hc Hr IHr]; intros m q; [reflexivity|].
    cbn [show_list list_lines]. rewrite Hc, IHr. apply bind2_lift. apply render_app.
  Qed.

  Lemma show_obj_lines : forall width o merged prefix,
    show_obj o merged prefix expert level width = lift render (obj_lines o merged prefix expert level width).
  Proof.
    intros width o. induction o as [h ws a|h ks a IH] using obj_ind2; intros merged q.
    - cbn [show_obj obj_lines]. apply show_def_lines.
    - rewrite show_obj_scp, obj_lines_scp. unfold show_scope_body, scope_lines_body.
      pose proof (list_render_of_forall width ks IH) as Hl.
      destruct ((otmpl h <? 0)%Z && (level <? 2)%Z); [reflexivity|].
      destruct (hidden_by_expert a expert) as [hid| |]; cbn [bind lift]; try reflexivity.
      destruct hid; [reflexivity|].
      destruct (oname h) eqn:En.
      + destruct merged; [apply Hl|reflexivity].
      + destruct (first_merges ks); [apply Hl|].
        rewrite show_attributes_lines.
        destruct (attributes_lines q scope_attr_names a level width) as [at_| |]; cbn [bind lift]; try reflexivity.
        rewrite Hl.
        destruct (list_lines ks [] (q ++ s_ "  ") expert level width) as [body| |]; cbn [bind lift]; try reflexivity.
        f_equal. cbv zeta. rewrite open_render, !render_app, render_one. reflexivity.
  Qed.

  Lemma show_list_lines : forall width ks m q,
    show_list ks m q expert level width = lift render (list_lines ks m q expert level width).
  Proof.
    intros. apply list_render_of_forall. apply Forall_forall. intros o _. apply show_obj_lines.
  Qed.

  (* the prefix goes in front of every printer line and is charged to the width *)
  Variable p : str.
  Hypothesis Hp : mem nl p = false.

  Lemma list_prefix_of_forall : forall width ks,
    Forall (fun o => forall merged q,
              obj_lines o merged (p ++ q) expert level width
              = lift (add_prefix p) (obj_lines o merged q expert level (width - zlen p))) ks ->
    forall m q, list_lines ks m (p ++ q) expert level width
                = lift (add_prefix p) (list_lines ks m q expert level (width - zlen p)).
  Proof.
    intros width ks H. induction H as [|c r Hc Hr IHr]; intros m q; [reflexivity|].
    cbn [list_lines]. rewrite Hc, IHr. apply bind2_lift. apply add_prefix_app.
  Qed.

  Lemma obj_lines_prefix : forall width o merged q,
    obj_lines o merged (p ++ q) expert level width
    = lift (add_prefix p) (obj_lines o merged q expert level (width - zlen p)).
  Proof.
    intros width o. induction o as [h ws a|h ks a IH] using obj_ind2; intros merged q.
    - cbn [obj_lines]. apply def_lines_prefix. exact Hp.
    - rewrite !obj_lines_scp. unfold scope_lines_body.
      pose proof (list_prefix_of_forall width ks IH) as Hl.
      destruct ((otmpl h <? 0)%Z && (level <? 2)%Z); [reflexivity|].
      destruct (hidden_by_expert a expert) as [hid| |]; cbn [bind lift]; try reflexivity.
      destruct hid; [reflexivity|].
      destruct (oname h) eqn:En.
      + destruct merged; [apply Hl|reflexivity].
      + destruct (first_merges ks); [apply Hl|].
        rewrite attributes_lines_prefix.
        destruct (attributes_lines q scope_attr_names a level (width - zlen p)) as [at_| |]; cbn [bind lift]; try reflexivity.
        rewrite <- (app_assoc p q (s_ "  ")), Hl.
        destruct (list_lines ks [] (q ++ s_ "  ") expert level (width - zlen p)) as [body| |]; cbn [bind lift]; try reflexivity.
        f_equal. cbv zeta. rewrite !add_prefix_app.
        rewrite <- (app_assoc p q (_ ++ _)). rewrite open_prefix.
        unfold add_prefix at 3. cbn [map]. rewrite <- (app_assoc p q ["}"]). reflexivity.
  Qed.

  Lemma list_lines_prefix : forall width ks m q,
    list_lines ks m (p ++ q) expert level width
    = lift (add_prefix p) (list_lines ks m q expert level (width - zlen p)).
  Proof.
    intros. apply list_prefix_of_forall. apply Forall_forall. intros o _. apply obj_lines_prefix.
  Qed.
End Fixed.

(* ---------- main statements *)

(* (A) for every prefix, the printed text is the concatenation of the printer lines *)
Theorem show_objs_lines : forall l q e lvl w,
  show_objs l q e lvl w = lift render (objs_lines l q e lvl w).
Proof. intros. rewrite show_objs_list. apply show_list_lines. Qed.

(* (B) the printer lines with prefix p ++ q at width w are p ++ x for the lines x with prefix q at width w - |p| *)
Theorem objs_lines_prefix : forall p, mem nl p = false -> forall l q e lvl w,
  objs_lines l (p ++ q) e lvl w = lift (add_prefix p) (objs_lines l q e lvl (w - zlen p)).
Proof. intros p Hp l q e lvl w. apply list_lines_prefix. exact Hp. Qed.

(* (C) both together, on the model function: printing with prefix p at width w is printing without prefix at
   width w - |p| and putting p in front of every printer line; errors are the same *)
Theorem show_objs_prefix : forall l p e lvl w, mem nl p = false ->
  show_objs l [] e lvl (w - zlen p) = lift render (objs_lines l [] e lvl (w - zlen p))
  /\ show_objs l p e lvl w = lift (fun ls => render (add_prefix p ls)) (objs_lines l [] e lvl (w - zlen p)).
Proof.
  intros l p e lvl w Hp. split; [apply show_objs_lines|].
  rewrite show_objs_lines. rewrite <- (app_nil_r p) at 1. rewrite (objs_lines_prefix p Hp).
  destruct (objs_lines l [] e lvl (w - zlen p)); reflexivity.
Qed.

(* the same for a single object below any enclosing prefix q and dotted-name context *)
Theorem show_obj_prefix : forall o merged p q e lvl w, mem nl p = false ->
  show_obj o merged q e lvl (w - zlen p) = lift render (obj_lines o merged q e lvl (w - zlen p))
  /\ show_obj o merged (p ++ q) e lvl w
     = lift (fun ls => render (add_prefix p ls)) (obj_lines o merged q e lvl (w - zlen p)).
Proof.
  intros o merged p q e lvl w Hp. split; [apply show_obj_lines|].
  rewrite show_obj_lines, (obj_lines_prefix e lvl p Hp).
  destruct (obj_lines o merged q e lvl (w - zlen p)); reflexivity.
Qed.

(* every printer line of a prefixed print starts with the prefix *)
Corollary objs_lines_start_with_prefix : forall l p e lvl w ls, mem nl p = false ->
  objs_lines l p e lvl w = Ok ls -> Forall (fun x => exists y, x = p ++ y) ls.
Proof.
  intros l p e lvl w ls Hp H. rewrite <- (app_nil_r p) in H at 1. rewrite (objs_lines_prefix p Hp) in H.
  destruct (objs_lines l [] e lvl (w - zlen p)) as [ls0| |]; cbn [lift] in H; try discriminate H.
  injection H as <-. unfold add_prefix. apply Forall_forall. intros x Hx.
  apply in_map_iff in Hx as (y & <- & _). exists y. reflexivity.
Qed.

(* ---------- non-vacuity.  A scope with attributes, a value line that is wrapped, a quoted word and a help
   text containing a raw newline (the text after it is not a printer line: no prefix there), a help text
   that is wrapped; prefix "# " (satisfies the hypothesis), width 32 against width 30 without prefix. *)
Definition prefix_ex_tree : list obj :=
  [Scp (plain_hdr (s_ "s"))
     [Def (plain_hdr (s_ "name"))
          [uw (s_ "aaaaaaaa"); uw (s_ "bbbbbbbb"); qw ("x" :: nl :: s_ "y"); uw (s_ "cccccccc")]
          [(s_ "help", AStr (s_ "some long help text that needs wrapping here"))];
      Def (plain_hdr (s_ "t")) [uw (s_ "1")] [(s_ "help", AStr ("u" :: nl :: s_ "v"))]]
     [(s_ "help", AStr (s_ "scope help"))]].
Definition prefix_ex_text : str := s_ "# s
#   .help = ""scope help""
# {
#   name = aaaaaaaa bbbbbbbb \
#          ""x
y"" cccccccc
#     .help = ""some long help""
#             ""text that needs""
#             ""wrapping here""
#   t = 1
#     .help = ""u
v""
# }
".
Example prefix_hypothesis_satisfiable : mem nl (s_ "# ") = false.
Proof. reflexivity. Qed.
Example prefix_example_model : show_objs prefix_ex_tree (s_ "# ") None 1 32 = Ok prefix_ex_text.
Proof. vm_compute. reflexivity. Qed.
Example prefix_example_lines :
  lift (fun ls => render (add_prefix (s_ "# ") ls)) (objs_lines prefix_ex_tree [] None 1 (32 - zlen (s_ "# ")))
  = Ok prefix_ex_text.
Proof. vm_compute. reflexivity. Qed.
Example prefix_example_unprefixed :
  show_objs prefix_ex_tree [] None 1 30 = Ok (s_ "s
  .help = ""scope help""
{
  name = aaaaaaaa bbbbbbbb \
         ""x
y"" cccccccc
    .help = ""some long help""
            ""text that needs""
            ""wrapping here""
  t = 1
    .help = ""u
v""
}
").
Proof. vm_compute. reflexivity. Qed.
Example prefix_example_line_count :
  match objs_lines prefix_ex_tree [] None 1 30 with Ok ls => length ls | _ => 0%nat end = 11%nat
  /\ count_nl prefix_ex_text = 13%nat.
Proof. vm_compute. split; reflexivity. Qed.

(* the hypothesis cannot be dropped: with a prefix that contains a newline the value line is never broken
   (definition.show tests the whole current line, prefix included, for a newline) *)
Theorem prefix_with_newline_differs : exists l p e lvl w,
  mem nl p = true /\
  show_objs l p e lvl w <> lift (fun ls => render (add_prefix p ls)) (objs_lines l [] e lvl (w - zlen p)).
Proof.
  exists [Def (plain_hdr (s_ "a")) [uw (s_ "bbbb"); uw (s_ "cccc")] []], [nl], None, 0%Z, 10%Z.
  split; [reflexivity|]. vm_compute. intros H. discriminate H.
Qed.

Print Assumptions show_objs_lines.
Print Assumptions objs_lines_prefix.
Print Assumptions show_obj_prefix.
Print Assumptions objs_lines_start_with_prefix.
Print Assumptions show_objs_prefix.
