(* C07: concrete runs.  Non-vacuity of the domain D07 (the worked example of Proofs/FetchExamples.v
   is in it), and the refutations outside it.  The canon tables are the answers recorded from the
   real library for exactly these runs (harness/streams/fetch_common.CanonRecorder); everything is
   decided by vm_compute. *)
From Coq Require Import List Ascii String Bool Arith ZArith Lia.
From Phil Require Import Base Tree Vars Choice Fetch FetchBasics FetchShape FetchDisabled FetchExamples
  FetchIdemLists FetchIdemBase FetchIdem FetchIdemCopy EntryFetch EntryIdem.
Import ListNotations.
Local Open Scope char_scope.

Definition canon_neq (canon:obj -> option obj -> res str) (k c:obj) : Prop := canon k (Some c) <> canon k None.
Definition dec_objs (x:sx) : list obj := match objs_of_sx x with Some l => l | None => [] end.
Definition dec_src1 (x:sx) : list obj := match srcs_of_sx x with Some (s :: _) => s | _ => [] end.
Definition dec_canon (x:sx) : obj -> option obj -> res str :=
  canon_of (match ctable_of_sx x with Some t => t | None => [] end).

(* ------------------------------------------------------------------ the worked example is in D07 *)
Lemma ex_default_ok : forall k, In k (entries ex_master) -> omultiple k = true -> default_ok ex_env ex_canon k.
Proof.
  intros k Hk Em. vm_compute in Hk. destruct Hk as [E|[E|[]]]; subst k; [discriminate Em|].
  intros chain. eexists. eexists. split; vm_compute; reflexivity.
Qed.

Lemma ex_D07 : D07 ex_env ex_canon ex_master.
Proof.
  split; [|reflexivity]. unfold root_scope. apply wfd_scp.
  - vm_compute. constructor; [intros [H|[]]; discriminate H|]. constructor; [intros []|constructor].
  - intros k Hk. split; [|split; [|split]].
    + vm_compute in Hk. destruct Hk as [E|[E|[]]]; subst k; discriminate.
    + vm_compute in Hk. destruct Hk as [E|[E|[]]]; subst k; reflexivity.
    + apply ex_default_ok. exact Hk.
    + vm_compute in Hk. destruct Hk as [E|[E|[]]]; subst k.
      * apply wfd_def. split; [reflexivity|]. split; [reflexivity|exact I].
      * apply wfd_scp.
        -- vm_compute. constructor; [intros []|constructor].
        -- intros k Hk. vm_compute in Hk. destruct Hk as [E|[]]. subst k.
           split; [discriminate|]. split; [reflexivity|]. split; [intros H; discriminate H|].
           apply wfd_def. split; [reflexivity|]. split; [reflexivity|exact I].
Qed.

Lemma ex_refetch : fetch ex_env ex_canon false ex_master [ex_result] = Ok ex_result.
Proof. exact (refetch ex_env ex_canon ex_master [ex_source] ex_result ex_D07 ex_no_dollar ex_fetch). Qed.

(* ------------------------------------------------------------------ F7a: a non-canonical default inside nested multiples *)
(* master  s .multiple=True { d = yes  .type=bool .multiple=True }      source  s { d = no }
   W = fetch prints "s { d = no }"; fetch of W (as an object) prints "s { d = yes }  s { d = no }":
   the hidden template instance of W re-enters as a source; fetched, its inner template prints
   "d = yes" verbatim while the master's own canonical text is "d = True". *)
(* f7a: master 's\n  .multiple = True\n{\n  d = yes\n    .type = bool\n    .multiple = True\n}\n' *)
Definition f7a_master_sx : sx := SL [SL [SA (s_ "scope"); SL [SA (s_ "s"); SA (s_ "0"); SA (s_ "0"); SA (s_ "0"); SA (s_ "1"); SA (s_ "1")]; SL [SL [SA (s_ "def"); SL [SA (s_ "d"); SA (s_ "0"); SA (s_ "0"); SA (s_ "0"); SA (s_ "2"); SA (s_ "4")]; SL [SL [SA (s_ "yes"); SA (s_ "n"); SA (s_ "4")]]; SL [SL [SA (s_ "type"); SL [SA (s_ "type"); SL [SA (s_ "bool")]]]; SL [SA (s_ "multiple"); SL [SA (s_ "bool"); SA (s_ "1")]]]]]; SL [SL [SA (s_ "multiple"); SL [SA (s_ "bool"); SA (s_ "1")]]]]].
Definition f7a_src_sx : sx := SL [SL [SL [SA (s_ "scope"); SL [SA (s_ "s"); SA (s_ "0"); SA (s_ "0"); SA (s_ "0"); SA (s_ "1"); SA (s_ "1")]; SL [SL [SA (s_ "def"); SL [SA (s_ "d"); SA (s_ "0"); SA (s_ "0"); SA (s_ "0"); SA (s_ "2"); SA (s_ "1")]; SL [SL [SA (s_ "no"); SA (s_ "n"); SA (s_ "1")]]; SL []]]; SL []]]].
Definition f7a_table_sx : sx := SL [SL [SL [SA (s_ "def"); SL [SA (s_ "d"); SA (s_ "0"); SA (s_ "0"); SA (s_ "0"); SA (s_ "2"); SA (s_ "4")]; SL [SL [SA (s_ "yes"); SA (s_ "n"); SA (s_ "4")]]; SL [SL [SA (s_ "type"); SL [SA (s_ "type"); SL [SA (s_ "bool")]]]; SL [SA (s_ "multiple"); SL [SA (s_ "bool"); SA (s_ "1")]]]]; SL [SA (s_ "def"); SL [SA (s_ "d"); SA (s_ "0"); SA (s_ "0"); SA (s_ "0"); SA (s_ "2"); SA (s_ "4")]; SL [SL [SA (s_ "no"); SA (s_ "n"); SA (s_ "1")]]; SL [SL [SA (s_ "type"); SL [SA (s_ "type"); SL [SA (s_ "bool")]]]; SL [SA (s_ "multiple"); SL [SA (s_ "bool"); SA (s_ "1")]]]]; SL [SA (s_ "ok"); SA ((s_ "d = False" ++ nl :: s_ ""))]]; SL [SL [SA (s_ "def"); SL [SA (s_ "d"); SA (s_ "0"); SA (s_ "0"); SA (s_ "0"); SA (s_ "2"); SA (s_ "4")]; SL [SL [SA (s_ "yes"); SA (s_ "n"); SA (s_ "4")]]; SL [SL [SA (s_ "type"); SL [SA (s_ "type"); SL [SA (s_ "bool")]]]; SL [SA (s_ "multiple"); SL [SA (s_ "bool"); SA (s_ "1")]]]]; SL []; SL [SA (s_ "ok"); SA ((s_ "d = True" ++ nl :: s_ ""))]]; SL [SL [SA (s_ "scope"); SL [SA (s_ "s"); SA (s_ "0"); SA (s_ "0"); SA (s_ "0"); SA (s_ "1"); SA (s_ "1")]; SL [SL [SA (s_ "def"); SL [SA (s_ "d"); SA (s_ "0"); SA (s_ "0"); SA (s_ "0"); SA (s_ "2"); SA (s_ "4")]; SL [SL [SA (s_ "yes"); SA (s_ "n"); SA (s_ "4")]]; SL [SL [SA (s_ "type"); SL [SA (s_ "type"); SL [SA (s_ "bool")]]]; SL [SA (s_ "multiple"); SL [SA (s_ "bool"); SA (s_ "1")]]]]]; SL [SL [SA (s_ "multiple"); SL [SA (s_ "bool"); SA (s_ "1")]]]]; SL [SA (s_ "scope"); SL [SA (s_ "s"); SA (s_ "0"); SA (s_ "0"); SA (s_ "0"); SA (s_ "1"); SA (s_ "1")]; SL [SL [SA (s_ "def"); SL [SA (s_ "d"); SA (s_ "0"); SA (s_ "-1"); SA (s_ "0"); SA (s_ "2"); SA (s_ "4")]; SL [SL [SA (s_ "yes"); SA (s_ "n"); SA (s_ "4")]]; SL [SL [SA (s_ "type"); SL [SA (s_ "type"); SL [SA (s_ "bool")]]]; SL [SA (s_ "multiple"); SL [SA (s_ "bool"); SA (s_ "1")]]]]; SL [SA (s_ "def"); SL [SA (s_ "d"); SA (s_ "0"); SA (s_ "0"); SA (s_ "0"); SA (s_ "2"); SA (s_ "4")]; SL [SL [SA (s_ "no"); SA (s_ "n"); SA (s_ "1")]]; SL [SL [SA (s_ "type"); SL [SA (s_ "type"); SL [SA (s_ "bool")]]]; SL [SA (s_ "multiple"); SL [SA (s_ "bool"); SA (s_ "1")]]]]]; SL [SL [SA (s_ "multiple"); SL [SA (s_ "bool"); SA (s_ "1")]]]]; SL [SA (s_ "ok"); SA ((((s_ "s {" ++ nl :: s_ "  d = False") ++ nl :: s_ "}") ++ nl :: s_ ""))]]; SL [SL [SA (s_ "scope"); SL [SA (s_ "s"); SA (s_ "0"); SA (s_ "0"); SA (s_ "0"); SA (s_ "1"); SA (s_ "1")]; SL [SL [SA (s_ "def"); SL [SA (s_ "d"); SA (s_ "0"); SA (s_ "0"); SA (s_ "0"); SA (s_ "2"); SA (s_ "4")]; SL [SL [SA (s_ "yes"); SA (s_ "n"); SA (s_ "4")]]; SL [SL [SA (s_ "type"); SL [SA (s_ "type"); SL [SA (s_ "bool")]]]; SL [SA (s_ "multiple"); SL [SA (s_ "bool"); SA (s_ "1")]]]]]; SL [SL [SA (s_ "multiple"); SL [SA (s_ "bool"); SA (s_ "1")]]]]; SL []; SL [SA (s_ "ok"); SA ((((s_ "s {" ++ nl :: s_ "  d = True") ++ nl :: s_ "}") ++ nl :: s_ ""))]]; SL [SL [SA (s_ "def"); SL [SA (s_ "d"); SA (s_ "0"); SA (s_ "0"); SA (s_ "0"); SA (s_ "2"); SA (s_ "4")]; SL [SL [SA (s_ "yes"); SA (s_ "n"); SA (s_ "4")]]; SL [SL [SA (s_ "type"); SL [SA (s_ "type"); SL [SA (s_ "bool")]]]; SL [SA (s_ "multiple"); SL [SA (s_ "bool"); SA (s_ "1")]]]]; SL [SA (s_ "def"); SL [SA (s_ "d"); SA (s_ "0"); SA (s_ "0"); SA (s_ "0"); SA (s_ "2"); SA (s_ "4")]; SL [SL [SA (s_ "yes"); SA (s_ "n"); SA (s_ "4")]]; SL [SL [SA (s_ "type"); SL [SA (s_ "type"); SL [SA (s_ "bool")]]]; SL [SA (s_ "multiple"); SL [SA (s_ "bool"); SA (s_ "1")]]]]; SL [SA (s_ "ok"); SA ((s_ "d = True" ++ nl :: s_ ""))]]; SL [SL [SA (s_ "scope"); SL [SA (s_ "s"); SA (s_ "0"); SA (s_ "0"); SA (s_ "0"); SA (s_ "1"); SA (s_ "1")]; SL [SL [SA (s_ "def"); SL [SA (s_ "d"); SA (s_ "0"); SA (s_ "0"); SA (s_ "0"); SA (s_ "2"); SA (s_ "4")]; SL [SL [SA (s_ "yes"); SA (s_ "n"); SA (s_ "4")]]; SL [SL [SA (s_ "type"); SL [SA (s_ "type"); SL [SA (s_ "bool")]]]; SL [SA (s_ "multiple"); SL [SA (s_ "bool"); SA (s_ "1")]]]]]; SL [SL [SA (s_ "multiple"); SL [SA (s_ "bool"); SA (s_ "1")]]]]; SL [SA (s_ "scope"); SL [SA (s_ "s"); SA (s_ "0"); SA (s_ "0"); SA (s_ "0"); SA (s_ "1"); SA (s_ "1")]; SL [SL [SA (s_ "def"); SL [SA (s_ "d"); SA (s_ "0"); SA (s_ "1"); SA (s_ "0"); SA (s_ "2"); SA (s_ "4")]; SL [SL [SA (s_ "yes"); SA (s_ "n"); SA (s_ "4")]]; SL [SL [SA (s_ "type"); SL [SA (s_ "type"); SL [SA (s_ "bool")]]]; SL [SA (s_ "multiple"); SL [SA (s_ "bool"); SA (s_ "1")]]]]]; SL [SL [SA (s_ "multiple"); SL [SA (s_ "bool"); SA (s_ "1")]]]]; SL [SA (s_ "ok"); SA ((((s_ "s {" ++ nl :: s_ "  d = yes") ++ nl :: s_ "}") ++ nl :: s_ ""))]]].
(* step 0 prints 's {\n  d = no\n}\n' *)
(* step 1 prints 's {\n  d = yes\n}\ns {\n  d = no\n}\n' *)

Definition f7a_m : list obj := dec_objs f7a_master_sx.
Definition f7a_src : list obj := dec_src1 f7a_src_sx.
Definition f7a_canon := dec_canon f7a_table_sx.

Lemma f7a_refetch_grows : exists w w2,
  fetch ex_env f7a_canon false f7a_m [f7a_src] = Ok w /\
  fetch ex_env f7a_canon false f7a_m [w] = Ok w2 /\ length w = 2 /\ length w2 = 3.
Proof. eexists. eexists. split; [vm_compute; reflexivity|]. split; [vm_compute; reflexivity|]. split; reflexivity. Qed.

(* it is the hypothesis default_ok that fails for the entry s: its own defaults instance does not
   have the canonical text the entry reports for itself *)
Lemma f7a_default_not_ok : exists k c u, In k (entries f7a_m) /\ omultiple k = true /\
  cand_fetch ex_env f7a_canon false k (fetch_scope ex_env f7a_canon false k [f7a_m]) (mklsrc [] k []) = Ok (Some c, u) /\
  canon_neq f7a_canon k c.
Proof.
  eexists. eexists. eexists. split; [left; reflexivity|]. split; [reflexivity|]. split; [vm_compute; reflexivity|].
  vm_compute. discriminate.
Qed.

(* ------------------------------------------------------------------ F7d: a choice with a single alternative *)
(* master  u = y  .type=choice : fetch with no source gives "u = y" (nothing selected); fetched again,
   the single bare word y is read as a selection: "u = *y".  No canon call is involved. *)
Definition f7d_m : list obj :=
  [ Def (dh "u" false 1 1) [w_ "y" 1] [(s_ "type", AType (TyChoice false))] ].

Lemma f7d_refetch_selects : forall canon, exists w w2,
  fetch ex_env canon false f7d_m [] = Ok w /\ fetch ex_env canon false f7d_m [w] = Ok w2 /\ w2 <> w.
Proof.
  intros canon. eexists. eexists. split; [vm_compute; reflexivity|]. split; [vm_compute; reflexivity|]. discriminate.
Qed.
