(* C08: concrete runs.  Non-vacuity of the domain D08 and the refutation outside it (finding F7c).
   The canon table of the refutation is the one recorded from the real library for exactly these
   runs; everything is decided by vm_compute. *)
From Coq Require Import List Ascii String Bool Arith ZArith Lia.
From Phil Require Import Base Tree Vars Choice Fetch FetchBasics FetchShape FetchDisabled FetchExamples
  FetchIdemLists FetchIdemBase FetchIdem FetchIdemCopy FetchIdemExamples FetchDiffBase FetchDiff FetchDiffCycle EntryFetch.
Import ListNotations.
Local Open Scope char_scope.

(* ------------------------------------------------------------------ a master in D08 *)
(* master:  a = 1                       source:  a = 2
            d = x  .multiple = True              d = z   d = x
            t { b = y }                          t.b = y                                              *)
Definition ex8_master : list obj :=
  [ Def (dh "a" false 1 1) [w_ "1" 1] [];
    Def (dh "d" false 2 2) [w_ "x" 2] [(s_ "multiple", ABool true)];
    Scp (dh "t" false 3 3) [Def (dh "b" false 4 4) [w_ "y" 4] []] [] ].
Definition ex8_source : list obj :=
  [ Def (dh "a" false 1 1) [w_ "2" 1] [];
    Def (dh "d" false 2 2) [w_ "z" 2] [];
    Def (dh "d" false 3 3) [w_ "x" 3] [];
    Scp (dh "t" false 4 4) [Def (dh "b" false 5 4) [w_ "y" 4] []] [] ].

Lemma ex_canon_self : forall k, ex_canon k (Some k) = ex_canon k None.
Proof. reflexivity. Qed.

Lemma ex8_wf : wf_master ex8_master.
Proof.
  unfold wf_master, root_scope, ex8_master. cbn [wf_obj]. split.
  - unfold uniq_names. cbn. repeat (constructor; [cbn; intuition discriminate|]). constructor.
  - split; [intros _; exact I|]. split; [intros _; exact I|]. split; [|exact I].
    intros _. split; [unfold uniq_names; cbn; constructor; [intros []|constructor]|]. split; [intros _; exact I|exact I].
Qed.

Lemma ex8_D07 : D07 ex_env ex_canon ex8_master.
Proof.
  split; [|reflexivity]. unfold root_scope. apply wfd_scp.
  - vm_compute. repeat (constructor; [cbn; intuition discriminate|]). constructor.
  - intros k Hk. vm_compute in Hk. destruct Hk as [E|[E|[E|[]]]]; subst k.
    + split; [discriminate|]. split; [reflexivity|]. split; [intros H; discriminate H|].
      apply wfd_def. split; [reflexivity|]. split; [reflexivity|exact I].
    + split; [discriminate|]. split; [reflexivity|]. split.
      * intros _ chain. eexists. eexists. split; vm_compute; reflexivity.
      * apply wfd_def. split; [reflexivity|]. split; [reflexivity|exact I].
    + split; [discriminate|]. split; [reflexivity|]. split; [intros H; discriminate H|].
      apply wfd_scp.
      * vm_compute. constructor; [intros []|constructor].
      * intros k Hk. vm_compute in Hk. destruct Hk as [E|[]]. subst k.
        split; [discriminate|]. split; [reflexivity|]. split; [intros H; discriminate H|].
        apply wfd_def. split; [reflexivity|]. split; [reflexivity|exact I].
Qed.

Lemma ex8_nms : nms (root_scope ex8_master).
Proof.
  apply nms_scp. intros k Hk. vm_compute in Hk. destruct Hk as [E|[E|[E|[]]]]; subst k.
  - split; [intros _; reflexivity|constructor].
  - split; [intros _; reflexivity|constructor].
  - split; [intros H; discriminate H|]. apply nms_scp. intros k Hk. vm_compute in Hk. destruct Hk as [E|[]]. subst k.
    split; [intros _; reflexivity|constructor].
Qed.

Lemma ex8_D08 : D08 ex_env ex_canon ex8_master.
Proof. exact (conj ex8_D07 (conj ex8_wf ex8_nms)). Qed.

(* the working parameters, their difference, the difference merged back, differenced again *)
Definition ex8_w : list obj :=
  [ Def (dh "a" false 1 1) [w_ "2" 1] [];
    Def (mkhdr (s_ "d") false (-1) false 2 2) [w_ "x" 2] [(s_ "multiple", ABool true)];
    Def (dh "d" false 2 2) [w_ "z" 2] [(s_ "multiple", ABool true)];
    Scp (dh "t" false 3 3) [Def (dh "b" false 4 4) [w_ "y" 4] []] [] ].
Definition ex8_d : list obj :=
  [ Def (dh "a" false 1 1) [w_ "2" 1] [];
    Def (dh "d" false 2 2) [w_ "z" 2] [(s_ "multiple", ABool true)] ].

Lemma ex8_runs :
  fetch ex_env ex_canon false ex8_master [ex8_source] = Ok ex8_w /\
  fetch ex_env ex_canon true ex8_master [ex8_w] = Ok ex8_d /\
  fetch ex_env ex_canon false ex8_master [ex8_d] = Ok ex8_w /\
  fetch ex_env ex_canon true ex8_master [ex8_w] = Ok ex8_d.
Proof. repeat split; vm_compute; reflexivity. Qed.

(* ------------------------------------------------------------------ F7c: a master-provided instance repeated by the source *)
(* master  d = 1 .type=int .multiple=True   d = 2 .type=int .multiple=True      source  d = 3  d = 2
   W = [d = 3, d = 2] (the repetition moves the instance 2 behind 3); the difference drops d = 2 (the master
   provides it); merged back the master's d = 2 comes first: [d = 2, d = 3]. *)
(* f7c: master 'd = 1\n  .type = int\n  .multiple = True\nd = 2\n  .type = int\n  .multiple = True\n' *)
Definition f7c_master_sx : sx := SL [SL [SA (s_ "def"); SL [SA (s_ "d"); SA (s_ "0"); SA (s_ "0"); SA (s_ "0"); SA (s_ "1"); SA (s_ "1")]; SL [SL [SA (s_ "1"); SA (s_ "n"); SA (s_ "1")]]; SL [SL [SA (s_ "type"); SL [SA (s_ "type"); SL [SA (s_ "int"); SL []; SL []; SA (s_ "1")]]]; SL [SA (s_ "multiple"); SL [SA (s_ "bool"); SA (s_ "1")]]]]; SL [SA (s_ "def"); SL [SA (s_ "d"); SA (s_ "0"); SA (s_ "0"); SA (s_ "0"); SA (s_ "2"); SA (s_ "4")]; SL [SL [SA (s_ "2"); SA (s_ "n"); SA (s_ "4")]]; SL [SL [SA (s_ "type"); SL [SA (s_ "type"); SL [SA (s_ "int"); SL []; SL []; SA (s_ "1")]]]; SL [SA (s_ "multiple"); SL [SA (s_ "bool"); SA (s_ "1")]]]]].
Definition f7c_src_sx : sx := SL [SL [SL [SA (s_ "def"); SL [SA (s_ "d"); SA (s_ "0"); SA (s_ "0"); SA (s_ "0"); SA (s_ "1"); SA (s_ "1")]; SL [SL [SA (s_ "3"); SA (s_ "n"); SA (s_ "1")]]; SL []]; SL [SA (s_ "def"); SL [SA (s_ "d"); SA (s_ "0"); SA (s_ "0"); SA (s_ "0"); SA (s_ "2"); SA (s_ "2")]; SL [SL [SA (s_ "2"); SA (s_ "n"); SA (s_ "2")]]; SL []]]].
Definition f7c_table_sx : sx := SL [SL [SL [SA (s_ "def"); SL [SA (s_ "d"); SA (s_ "0"); SA (s_ "0"); SA (s_ "0"); SA (s_ "1"); SA (s_ "1")]; SL [SL [SA (s_ "1"); SA (s_ "n"); SA (s_ "1")]]; SL [SL [SA (s_ "type"); SL [SA (s_ "type"); SL [SA (s_ "int"); SL []; SL []; SA (s_ "1")]]]; SL [SA (s_ "multiple"); SL [SA (s_ "bool"); SA (s_ "1")]]]]; SL [SA (s_ "def"); SL [SA (s_ "d"); SA (s_ "0"); SA (s_ "0"); SA (s_ "0"); SA (s_ "1"); SA (s_ "1")]; SL [SL [SA (s_ "2"); SA (s_ "n"); SA (s_ "2")]]; SL [SL [SA (s_ "type"); SL [SA (s_ "type"); SL [SA (s_ "int"); SL []; SL []; SA (s_ "1")]]]; SL [SA (s_ "multiple"); SL [SA (s_ "bool"); SA (s_ "1")]]]]; SL [SA (s_ "ok"); SA ((s_ "d = 2" ++ nl :: s_ ""))]]; SL [SL [SA (s_ "def"); SL [SA (s_ "d"); SA (s_ "0"); SA (s_ "0"); SA (s_ "0"); SA (s_ "1"); SA (s_ "1")]; SL [SL [SA (s_ "1"); SA (s_ "n"); SA (s_ "1")]]; SL [SL [SA (s_ "type"); SL [SA (s_ "type"); SL [SA (s_ "int"); SL []; SL []; SA (s_ "1")]]]; SL [SA (s_ "multiple"); SL [SA (s_ "bool"); SA (s_ "1")]]]]; SL [SA (s_ "def"); SL [SA (s_ "d"); SA (s_ "0"); SA (s_ "0"); SA (s_ "0"); SA (s_ "1"); SA (s_ "1")]; SL [SL [SA (s_ "2"); SA (s_ "n"); SA (s_ "4")]]; SL [SL [SA (s_ "type"); SL [SA (s_ "type"); SL [SA (s_ "int"); SL []; SL []; SA (s_ "1")]]]; SL [SA (s_ "multiple"); SL [SA (s_ "bool"); SA (s_ "1")]]]]; SL [SA (s_ "ok"); SA ((s_ "d = 2" ++ nl :: s_ ""))]]; SL [SL [SA (s_ "def"); SL [SA (s_ "d"); SA (s_ "0"); SA (s_ "0"); SA (s_ "0"); SA (s_ "1"); SA (s_ "1")]; SL [SL [SA (s_ "1"); SA (s_ "n"); SA (s_ "1")]]; SL [SL [SA (s_ "type"); SL [SA (s_ "type"); SL [SA (s_ "int"); SL []; SL []; SA (s_ "1")]]]; SL [SA (s_ "multiple"); SL [SA (s_ "bool"); SA (s_ "1")]]]]; SL [SA (s_ "def"); SL [SA (s_ "d"); SA (s_ "0"); SA (s_ "0"); SA (s_ "0"); SA (s_ "1"); SA (s_ "1")]; SL [SL [SA (s_ "3"); SA (s_ "n"); SA (s_ "1")]]; SL [SL [SA (s_ "type"); SL [SA (s_ "type"); SL [SA (s_ "int"); SL []; SL []; SA (s_ "1")]]]; SL [SA (s_ "multiple"); SL [SA (s_ "bool"); SA (s_ "1")]]]]; SL [SA (s_ "ok"); SA ((s_ "d = 3" ++ nl :: s_ ""))]]; SL [SL [SA (s_ "def"); SL [SA (s_ "d"); SA (s_ "0"); SA (s_ "0"); SA (s_ "0"); SA (s_ "1"); SA (s_ "1")]; SL [SL [SA (s_ "1"); SA (s_ "n"); SA (s_ "1")]]; SL [SL [SA (s_ "type"); SL [SA (s_ "type"); SL [SA (s_ "int"); SL []; SL []; SA (s_ "1")]]]; SL [SA (s_ "multiple"); SL [SA (s_ "bool"); SA (s_ "1")]]]]; SL []; SL [SA (s_ "ok"); SA ((s_ "d = 1" ++ nl :: s_ ""))]]; SL [SL [SA (s_ "def"); SL [SA (s_ "d"); SA (s_ "0"); SA (s_ "0"); SA (s_ "0"); SA (s_ "1"); SA (s_ "1")]; SL [SL [SA (s_ "1"); SA (s_ "n"); SA (s_ "1")]]; SL [SL [SA (s_ "type"); SL [SA (s_ "type"); SL [SA (s_ "int"); SL []; SL []; SA (s_ "1")]]]; SL [SA (s_ "multiple"); SL [SA (s_ "bool"); SA (s_ "1")]]]]; SL [SA (s_ "def"); SL [SA (s_ "d"); SA (s_ "0"); SA (s_ "0"); SA (s_ "0"); SA (s_ "1"); SA (s_ "1")]; SL [SL [SA (s_ "1"); SA (s_ "n"); SA (s_ "1")]]; SL [SL [SA (s_ "type"); SL [SA (s_ "type"); SL [SA (s_ "int"); SL []; SL []; SA (s_ "1")]]]; SL [SA (s_ "multiple"); SL [SA (s_ "bool"); SA (s_ "1")]]]]; SL [SA (s_ "ok"); SA ((s_ "d = 1" ++ nl :: s_ ""))]]].
(* step 0 prints 'd = 3\nd = 2\n' *)
(* step 1 prints 'd = 3\n' *)
(* step 2 prints 'd = 2\nd = 3\n' *)

Definition f7c_m : list obj := dec_objs f7c_master_sx.
Definition f7c_src : list obj := dec_src1 f7c_src_sx.
Definition f7c_canon := dec_canon f7c_table_sx.

Definition values (l:list obj) : list (list str) := map (fun o => map wv (owords o)) (filter (fun o => (otmpl (ohdr o) =? 0)%Z) l).

Lemma f7c_restore_reorders : exists w d r,
  fetch ex_env f7c_canon false f7c_m [f7c_src] = Ok w /\
  fetch ex_env f7c_canon true f7c_m [w] = Ok d /\
  fetch ex_env f7c_canon false f7c_m [d] = Ok r /\
  values w = [s_ "3" :: nil; s_ "2" :: nil] /\ values d = [s_ "3" :: nil] /\ values r = [s_ "2" :: nil; s_ "3" :: nil].
Proof.
  eexists. eexists. eexists. split; [vm_compute; reflexivity|]. split; [vm_compute; reflexivity|]. split; [vm_compute; reflexivity|].
  repeat split; vm_compute; reflexivity.
Qed.
