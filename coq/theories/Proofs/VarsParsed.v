(* C12 for parsed documents: the document-order hypotheses of Proofs/VarsOrder.v are discharged by
   the parser theorems of Proofs/ParserShape.v (parse_doc_ordered, parse_lead_ids), so the
   "backwards only" statements hold for everything [parse] returns without a side condition -
   dotted names included: their implicit prefix scopes carry the id of the object they lead to
   (/repo 2398dd1) and are cut off by lexical_get like every other later object. *)
From Coq Require Import List Arith Lia.
From Phil Require Import Base Tree Vars VarsProofs VarsOrder Parser ParserShape.
Import ListNotations.

Lemma parsed_terminates : forall o s t env diff id,
  parse o s = Ok t -> resolve_id env diff t id <> Crash c_fuel.
Proof. intros o s t env diff id H. apply resolve_id_terminates. exact (parse_doc_ordered o s t H). Qed.

(* two parsed documents that agree up to and including id n *)
Lemma parsed_backward_only : forall o s s' t t' env diff n,
  parse o s = Ok t -> parse o s' = Ok t' ->
  trunc_objs (S n) t = trunc_objs (S n) t' ->
  resolve_id env diff t n = resolve_id env diff t' n.
Proof.
  intros o s s' t t' env diff n H H' Hag.
  apply resolve_id_backward_only; [exact (parse_doc_ordered o s t H)|exact (parse_doc_ordered o s' t' H')|exact Hag].
Qed.

(* a parsed document that continues another one: nothing of the continuation matters for an object of
   the first part (no condition on what the continuation contains) *)
Lemma parsed_appended : forall o s s' t later env diff n,
  parse o s = Ok t -> parse o s' = Ok (t ++ later) ->
  In n (pre_ids_l t) ->
  resolve_id env diff (t ++ later) n = resolve_id env diff t n.
Proof.
  intros o s s' t later env diff n H H' Hn.
  destruct (parse_lead_ids o s' _ H') as [m Hm].
  apply (resolve_id_appended_consecutive env diff t later n m);
    [exact (parse_doc_ordered o s t H)|exact (parse_doc_ordered o s' _ H')|exact Hm|exact Hn].
Qed.

(* every object of a parsed document stops the scan of every reference made before it: nothing a
   parsed document contains is exempt from the document-order cut-off *)
Lemma parsed_objects_all_stop : forall o s t x, parse o s = Ok t -> In x (pre_ids_l t) -> x <> 0.
Proof. exact parse_all_have_ids. Qed.

(* the part of a parsed document a lookup with stop_id n can reach holds exactly the ids below n *)
Lemma parsed_truncation_exact : forall o s t n id,
  parse o s = Ok t ->
  (In id (pre_ids_l (trunc_objs n t)) <-> In id (pre_ids_l t) /\ id < n).
Proof.
  intros o s t n id H. apply trunc_ids_exact.
  - pose proof (parse_doc_ordered o s t H) as Hd. unfold doc_ordered in Hd.
    apply Bool.andb_true_iff in Hd. apply Hd.
  - intros H0. exact (parse_all_have_ids o s t 0 H H0 eq_refl).
Qed.
