(* C16 for the fetch model: which internal errors (Crash) master.fetch can end in, and that none
   occurs on well-formed input.
   Every call returns: Fetch.fetch_scope is a structural recursion on the master (no fuel); the
   only fuel in its cone is Vars' (lexical_get, resolve_def), and the fuel their entry points pass
   is shown sufficient under the hypotheses below (OutOfFuel is one of the excluded outcomes).

   fetch_crash_kinds (no hypothesis): a Crash of fetch / fetch_track is
     - a Crash answered by the canon oracle (extract_format + as_str), or
     - "AssertionError": a choice-typed master definition whose words are the plain None / Auto
       (choice_converters.fetch asserts the master lists alternatives), or
     - "TypeError" / "OutOfFuel": variable resolution on a document whose definitions lack
       primary ids (lexical_get compares ids; None >= int).
   Never: KeyError (the choice flags dict), IndexError / TypeError / AttributeError of
   variable_substitution_proxy.get_new_words, AttributeError of scope.fetch on a definition.

   fetch_total: with canon_ok (the oracle never crashes), master_ok (ids everywhere, choice
   masters list alternatives) and srcs_ok (ids everywhere) the outcome is Ok or UErr. *)
From Coq Require Import List Ascii String Bool Arith ZArith Lia.
From Phil Require Import Base Tree Vars Choice Fetch FetchBasics VarsProofs.
Import ListNotations.
Local Open Scope char_scope.

Definition ok_res {A} (r:res A) : Prop := match r with Crash _ => False | _ => True end.
(* a Crash, if any, is one of P *)
Definition cres {A} (P:str -> Prop) (r:res A) : Prop := match r with Crash c => P c | _ => True end.

Lemma cres_bind : forall A B (P:str -> Prop) (r:res A) (f:A -> res B),
  cres P r -> (forall a, r = Ok a -> cres P (f a)) -> cres P (bind r f).
Proof. intros A B P r f Hr Hf. destruct r; cbn in *; auto. Qed.
Lemma cres_weaken : forall A (P Q:str -> Prop) (r:res A), (forall c, P c -> Q c) -> cres P r -> cres Q r.
Proof. intros A P Q r H Hr. destruct r; cbn in *; auto. Qed.
Lemma cres_false_ok : forall A (r:res A), cres (fun _ => False) r <-> ok_res r.
Proof. intros A r. destruct r; cbn; tauto. Qed.

Definition c_assert : str := s_ "AssertionError".

(* ------------------------------------------------------------------ choice_converters.fetch *)
Lemma fhas_fset_keep : forall fl k k' v, fhas k fl = true -> fhas k (fset k' v fl) = true.
Proof.
  intros fl k k' v. unfold fhas. induction fl as [|[k0 v0] r IH]; cbn; [discriminate|].
  destruct (eqs k0 k') eqn:E; cbn.
  - destruct (eqs k0 k); [reflexivity|]. intros H. exact H.
  - destruct (eqs k0 k); [reflexivity|]. exact IH.
Qed.
Lemma fhas_fset_new : forall fl k v, fhas k (fset k v fl) = true.
Proof.
  intros fl k v. unfold fhas. induction fl as [|[k0 v0] r IH]; cbn.
  - rewrite f_eqs_refl. reflexivity.
  - destruct (eqs k0 k) eqn:E; cbn; rewrite E; [reflexivity|exact IH].
Qed.

Definition mkey (w:word) : str := lowers (unstar (wv w)).
Definition covers (m:list word) (fl:flags) : Prop := forall w, In w m -> fhas (mkey w) fl = true.

Lemma init_flags_keep : forall m fl k, fhas k fl = true -> fhas k (init_flags m fl) = true.
Proof.
  induction m as [|w r IH]; intros fl k H; [exact H|]. cbn [init_flags]. apply IH. apply fhas_fset_keep. exact H.
Qed.
Lemma init_flags_covers : forall m fl, covers m (init_flags m fl).
Proof.
  induction m as [|w r IH]; intros fl x Hx; [destruct Hx|]. cbn [init_flags]. destruct Hx as [E|Hx].
  - subst x. apply init_flags_keep. apply fhas_fset_new.
  - apply IH. exact Hx.
Qed.

Lemma plus_values_keep : forall vals line fl fl', plus_values vals line fl = LOk fl' ->
  forall k, fhas k fl = true -> fhas k fl' = true.
Proof.
  induction vals as [|v r IH]; intros line fl fl' H k Hk; cbn in H.
  - injection H as E. subst. exact Hk.
  - destruct (null v); [eapply IH; eassumption|].
    destruct (negb (fhas (lowers v) fl)); [discriminate|].
    eapply IH; [exact H|]. apply fhas_fset_keep. exact Hk.
Qed.
Lemma plus_loop_keep : forall ws fl fl', plus_loop ws fl = LOk fl' ->
  forall k, fhas k fl = true -> fhas k fl' = true.
Proof.
  induction ws as [|w r IH]; intros fl fl' H k Hk; cbn in H.
  - injection H as E. subst. exact Hk.
  - destruct (plus_values (split_on plus (wv w)) (wline w) fl) as [fl1|v l] eqn:E; [|discriminate].
    eapply IH; [exact H|]. eapply plus_values_keep; eassumption.
Qed.
Lemma normal_loop_keep : forall single ign ws fl fl', normal_loop single ign ws fl = LOk fl' ->
  forall k, fhas k fl = true -> fhas k fl' = true.
Proof.
  intros single ign ws. induction ws as [|w r IH]; intros fl fl' H k Hk; cbn in H.
  - injection H as E. subst. exact Hk.
  - destruct (negb (fhas (lowers (unstar (wv w))) fl)).
    + destruct ((if starts_star (wv w) then true else single) && negb ign); [discriminate|]. eapply IH; eassumption.
    + eapply IH; [exact H|]. apply fhas_fset_keep. exact Hk.
Qed.

Lemma rebuild_no_crash : forall m fl c, covers m fl -> rebuild m fl <> FCrash c.
Proof.
  induction m as [|w r IH]; intros fl c Hc H; cbn in H; [discriminate|].
  assert (Hw : fhas (mkey w) fl = true) by (apply Hc; left; reflexivity).
  unfold fhas, mkey in Hw. destruct (fget (lowers (unstar (wv w))) fl); [|discriminate].
  destruct (rebuild r fl) eqn:E; try discriminate.
  injection H as E'. subst. eapply IH; [|exact E]. intros x Hx. apply Hc. right. exact Hx.
Qed.

(* the only Crash of choice fetch is the assertion on the master *)
Lemma choice_fetch_crash : forall opt m src ign c,
  choice_fetch opt m src ign = Crash c ->
  c = c_assert /\ (is_plain_none m = true \/ is_plain_auto m = true).
Proof.
  intros opt m src ign c H. unfold choice_fetch, choice_fetch_x in H.
  destruct (is_plain_none m); [cbn in H; injection H as E; subst; auto|].
  destruct (is_plain_auto m); [cbn in H; injection H as E; subst; auto|].
  destruct (is_plain_auto src); [discriminate|].
  exfalso.
  set (fl0 := init_flags m []) in H.
  assert (C0 : covers m fl0) by apply init_flags_covers.
  destruct (mandatory opt || negb (is_plain_none src)).
  - destruct (process_plus (map (fun w => unstar (wv w)) m) src).
    + destruct (plus_loop src fl0) as [fl|v l] eqn:E; [|discriminate].
      destruct (rebuild m fl) eqn:R; try discriminate. eapply rebuild_no_crash; [|exact R].
      intros w Hw. eapply plus_loop_keep; [exact E|apply C0; exact Hw].
    + destruct (normal_loop (length src =? 1)%nat ign src fl0) as [fl|v l] eqn:E; [|discriminate].
      destruct (rebuild m fl) eqn:R; try discriminate. eapply rebuild_no_crash; [|exact R].
      intros w Hw. eapply normal_loop_keep; [exact E|apply C0; exact Hw].
  - destruct (rebuild m fl0) eqn:R; try discriminate. eapply rebuild_no_crash; [exact C0|exact R].
Qed.

(* ------------------------------------------------------------------ variable resolution *)
Lemma mapM_cres : forall A B (P:str -> Prop) (f:A -> res B) l,
  (forall a, In a l -> cres P (f a)) -> cres P (mapM f l).
Proof.
  intros A B P f l. induction l as [|a r IH]; intros H; [exact I|].
  cbn [mapM]. apply cres_bind; [apply H; left; reflexivity|]. intros b _.
  apply cres_bind; [apply IH; intros; apply H; right; assumption|]. intros; exact I.
Qed.

Lemma mapM_tl_cres : forall A B (P:str -> Prop) (f:A -> list A -> res B) l,
  (forall a nx, cres P (f a nx)) -> cres P (mapM_tl f l).
Proof.
  intros A B P f l H. induction l as [|a r IH]; [exact I|].
  cbn [mapM_tl]. apply cres_bind; [apply H|]. intros b _.
  apply cres_bind; [exact IH|]. intros; exact I.
Qed.

Definition is_rword (r:fresult) : Prop := match r with RWord _ => True | RWords _ => False end.

Lemma frag_result_forced : forall env rec diff chain stop w frs rs,
  mapM_tl (frag_result env rec diff chain stop w true) frs = Ok rs -> Forall is_rword rs.
Proof.
  intros env rec diff chain stop w frs. induction frs as [|f r IH]; intros rs H; cbn in H.
  - injection H as E. subst. constructor.
  - bind_inv H as b Hb. bind_inv H as bs Hbs. injection H as E. subst. constructor; [|apply IH; exact Hbs].
    destruct f as [v|v]; cbn in Hb.
    + injection Hb as E. subst. exact I.
    + bind_inv Hb as vws Hv. cbn in Hb. injection Hb as E. subst. exact I.
Qed.

Lemma mapM_result_value_ok : forall rs, Forall is_rword rs -> exists vs, mapM result_value rs = Ok vs.
Proof.
  induction rs as [|r rs IH]; intros H; [eexists; reflexivity|].
  inversion H as [|x l Hx Hl]; subst. destruct r as [x|ws]; [|destruct Hx].
  destruct (IH Hl) as [vs E]. cbn. rewrite E. eexists; reflexivity.
Qed.

(* get_new_words never fails on what the fragment loop hands it *)
Lemma get_new_words_ok : forall env rec diff chain stop w force have frs rs,
  fragments_of_word w = Ok (force, have, frs) ->
  mapM_tl (frag_result env rec diff chain stop w force) frs = Ok rs ->
  ok_res (get_new_words w force have rs).
Proof.
  intros env rec diff chain stop w force have frs rs Hf Hm.
  destruct (fragments_ok _ _ _ _ Hf) as [Hhave Hforce].
  unfold get_new_words. destruct have; [|exact I]. cbn [negb]. destruct force; cbn [negb].
  - destruct (mapM_result_value_ok rs (frag_result_forced _ _ _ _ _ _ _ _ Hm)) as [vs E]. rewrite E. exact I.
  - symmetry in Hforce. apply orb_false_iff in Hforce. destruct Hforce as [_ Hlen].
    destruct (existsb_single_var frs (eq_sym Hhave) Hlen) as [v Hv]. subst frs.
    cbn in Hm. bind_inv Hm as b Hb. bind_inv Hb as vws Hv. cbn in Hb. injection Hb as E. subst b.
    cbn in Hm. injection Hm as E. subst rs. exact I.
Qed.

Definition vars_crash (c:str) : Prop := c = c_type \/ c = c_fuel.

Section ResolveAny.
  Variable env : str -> option str.

  (* resolve_word given what the recursive resolution and the lookup can crash with *)
  Lemma resolve_word_cres : forall (P:str -> Prop) rec diff chain stop w,
    (forall v dt, cres P (lookup_var env rec diff chain stop w v dt)) ->
    cres P (resolve_word env rec diff chain stop w).
  Proof.
    intros P rec diff chain stop w Hl. unfold resolve_word.
    destruct (quote_eqb (wq w) Q1); [exact I|].
    destruct (fragments_of_word w) as [[[force have] frs]| |c] eqn:Ef; cbn [bind]; [|exact I|destruct (fragments_no_crash _ _ Ef)].
    apply cres_bind.
    - apply mapM_tl_cres. intros [v|v] nx; cbn [frag_result]; [exact I|].
      apply cres_bind; [apply Hl|]. intros; destruct (negb force); exact I.
    - intros rs Hrs. pose proof (get_new_words_ok _ _ _ _ _ _ _ _ _ _ Ef Hrs) as G.
      destruct (get_new_words w force have rs); cbn in *; auto. destruct G.
  Qed.

  Lemma resolve_words_cres : forall (P:str -> Prop) rec diff chain stop ws,
    (forall w v dt, cres P (lookup_var env rec diff chain stop w v dt)) ->
    cres P (resolve_words env rec diff chain stop ws).
  Proof.
    intros P rec diff chain stop ws Hl. induction ws as [|w r IH]; [exact I|].
    cbn [resolve_words]. apply cres_bind; [apply resolve_word_cres; apply Hl|]. intros a _.
    apply cres_bind; [exact IH|]. intros; exact I.
  Qed.

  (* without any hypothesis: TypeError or OutOfFuel at most *)
  Lemma resolve_def_kinds : forall f diff chain d, cres vars_crash (resolve_def env f diff chain d).
  Proof.
    induction f as [|f IH]; intros diff chain d; [cbn; right; reflexivity|].
    cbn [resolve_def]. apply resolve_words_cres. intros w v dt. unfold lookup_var.
    apply cres_bind.
    - destruct chain as [|c0 cr]; [exact I|].
      pose proof (lexical_get_post (S (length v)) (oid d) (c0 :: cr) v true) as L.
      destruct (lexical_get (S (length v)) (oid d) (c0 :: cr) v true) as [[[o ch]|]| |c]; cbn in *; auto.
    - intros src _. apply cres_bind.
      + destruct src as [[o ch]|]; [|exact I]. destruct (negb (is_def o)); [exact I|].
        apply cres_bind; [apply IH|]. intros; exact I.
      + intros [ws|] _; [exact I|]. destruct (if diff then Some dt else env v); exact I.
  Qed.
End ResolveAny.

(* lexical_get never compares with a missing stop id when the stop id is there *)
Lemma scan_ok : forall stop path l, stop <> 0 -> ok_res (scan stop path l).
Proof.
  intros stop path l Hs. induction l as [|o r IH]; cbn [scan]; [exact I|].
  apply Nat.eqb_neq in Hs. rewrite Hs, andb_false_r.
  destruct (stops stop o); [exact I|]. destruct (scan stop path r); cbn in *; auto.
Qed.
Definition notype {A} (r:res A) : Prop := r <> Crash c_type.
Lemma try_cands_notype : forall rec chain path l,
  (forall c p, notype (rec c p)) -> notype (try_cands rec chain path l).
Proof.
  intros rec chain path l Hr. induction l as [|o rest IH]; cbn [try_cands]; [discriminate|].
  destruct (eqs (onm o) path); [discriminate|].
  pose proof (Hr (okids o :: chain) (drop (length (onm o) + 1) path)) as H.
  destruct (rec (okids o :: chain) (drop (length (onm o) + 1) path)) as [[y|]| |c]; cbn; try discriminate; [exact IH|exact H].
Qed.
Lemma lex_here_notype : forall rec stop chain path, stop <> 0 ->
  (forall c p, notype (rec c p)) -> notype (lex_here rec stop chain path).
Proof.
  intros rec stop chain path Hs Hr. unfold lex_here. destruct chain as [|cur ups]; [discriminate|].
  pose proof (scan_ok stop path cur Hs) as S. destruct (scan stop path cur); cbn in *; [|discriminate|destruct S].
  apply try_cands_notype. exact Hr.
Qed.
Lemma lex_up_notype : forall here chain, (forall c, notype (here c)) -> notype (lex_up here chain).
Proof.
  intros here chain Hh. induction chain as [|cur ups IH]; cbn [lex_up]; [discriminate|].
  pose proof (Hh (cur :: ups)) as H. destruct (here (cur :: ups)) as [[y|]| |c]; cbn; try discriminate; [exact IH|exact H].
Qed.
Lemma lexical_get_notype : forall f stop chain path su, stop <> 0 -> notype (lexical_get f stop chain path su).
Proof.
  induction f as [|f IH]; intros stop chain path su Hs.
  - cbn. intros H. apply c_type_fuel. symmetry.
    exact (f_equal (fun r : res (option found) => match r with Crash c => c | _ => [] end) H).
  - cbn [lexical_get].
    assert (Hh : forall c p, notype (lex_here (fun c0 p0 => lexical_get f stop c0 p0 false) stop c p)).
    { intros. apply lex_here_notype; [exact Hs|]. intros. apply IH. exact Hs. }
    destruct (strip_dot path); [apply Hh|]. destruct su; [apply lex_up_notype; intros; apply Hh|apply Hh].
Qed.
Lemma lexical_get_ok : forall f stop chain path su,
  stop <> 0 -> length path < f -> ok_res (lexical_get f stop chain path su).
Proof.
  intros f stop chain path su Hs Hl.
  pose proof (lexical_get_post f stop chain path su) as P.
  pose proof (lexical_get_notype f stop chain path su Hs) as T.
  pose proof (lexical_get_fuel f stop chain path su Hl) as F.
  destruct (lexical_get f stop chain path su) as [x| |c]; cbn; auto.
  cbn in P. destruct P as [E|E]; subst; [apply T|apply F]; reflexivity.
Qed.

(* documents whose definitions carry ids: no Crash at all *)
Lemma resolve_def_ok : forall env f diff chain d,
  wf_chain chain -> oid d <> 0 -> oid d < f -> ok_res (resolve_def env f diff chain d).
Proof.
  intros env f. induction f as [|f IH]; intros diff chain d Hwf Hid Hlt; [lia|].
  cbn [resolve_def]. apply cres_false_ok. apply resolve_words_cres. intros w v dt. unfold lookup_var.
  apply cres_bind.
  - destruct chain as [|c0 cr]; [exact I|]. apply cres_false_ok. apply lexical_get_ok; [exact Hid|lia].
  - intros src Hsrc. apply cres_bind.
    + destruct src as [[o ch]|]; [|exact I]. destruct (is_def o) eqn:Ed; cbn [negb]; [|exact I].
      destruct chain as [|c0 cr]; [discriminate|].
      destruct (lexical_get_found_def _ _ _ _ _ _ _ Hwf Hsrc) as [Hw Ho]. destruct (Ho Ed) as [Hn Hlt'].
      apply cres_bind; [|intros; exact I]. apply cres_false_ok. apply IH; [exact Hw|exact Hn|lia].
    + intros [ws|] _; [exact I|]. destruct (if diff then Some dt else env v); exact I.
Qed.

(* ------------------------------------------------------------------ the fetch plumbing, once for both theorems *)
Section Plumbing.
  Variable env : str -> option str.
  Variable canon : obj -> option obj -> res str.
  Variable diff : bool.
  Variable P : str -> Prop.            (* the Crash outcomes allowed *)
  Variable G : lsrc -> Prop.           (* invariant of located source objects *)
  Variable MK : obj -> Prop.           (* invariant of master objects *)
  Variable CH : ctx -> Prop.           (* invariant of master chains *)

  Hypothesis Hcanon : forall M s, cres P (canon M s).
  Hypothesis Hdef : forall dm h mws a s, MK (Def h mws a) -> G s -> cres P (def_fetch_value env dm h mws a s).
  Hypothesis HG_gwsp : forall s n x, G s -> In x (gwsp (lpos s) (lctx s) n (lobj s)) -> G x.
  Hypothesis HG_kids : forall s x, G s -> In x (src_kids s) -> G x.
  Hypothesis HMK_kid : forall h ks a k, MK (Scp h ks a) -> In k ks -> MK k.
  Hypothesis HCH_kid : forall h ks a mchain, MK (Scp h ks a) -> CH mchain -> CH (ks :: mchain).
  Hypothesis Hself : forall chain j k n x, CH chain -> MK k -> In x (gwsp [j] chain n k) -> G x.

  Definition allG (l:list lsrc) : Prop := forall s, In s l -> G s.

  Lemma match_sources_G : forall n l, allG l -> allG (match_sources n l).
  Proof.
    intros n l H x Hx. unfold match_sources in Hx. apply filter_In in Hx. destruct Hx as [Hx _].
    apply in_flat_map in Hx. destruct Hx as [s [Hs Hx]]. destruct (odis (ohdr (lobj s))); [destruct Hx|].
    eapply HG_gwsp; [apply H; exact Hs|exact Hx].
  Qed.
  Lemma flat_kids_G : forall l, allG l -> allG (flat_map src_kids l).
  Proof. intros l H x Hx. apply in_flat_map in Hx. destruct Hx as [s [Hs Hx]]. eapply HG_kids; [apply H; exact Hs|exact Hx]. Qed.

  Lemma combine_cres : forall ms, cres P (combine ms).
  Proof.
    induction ms as [|s r IH]; [exact I|]. cbn [combine]. destruct (is_def (lobj s)); [exact I|].
    apply cres_bind; [exact IH|]. intros; exact I.
  Qed.
  Lemma combine_eq : forall ms c, combine ms = Ok c -> c = flat_map src_kids ms.
  Proof.
    induction ms as [|s r IH]; intros c H; cbn in H; [injection H as E; subst; reflexivity|].
    destruct (is_def (lobj s)); [discriminate|]. bind_inv H as rest Hr. injection H as E. subst c.
    rewrite (IH _ Hr). reflexivity.
  Qed.

  Lemma def_fetch_cres : forall h mws a s, MK (Def h mws a) -> G s -> cres P (def_fetch env canon diff h mws a s).
  Proof.
    intros h mws a s Hk Hs. unfold def_fetch. destruct diff; [|apply Hdef; assumption].
    apply cres_bind; [apply Hdef; assumption|]. intros r _.
    apply cres_bind; [apply Hcanon|]. intros x _. apply cres_bind; [apply Hcanon|]. intros y _.
    destruct (eqs x y); exact I.
  Qed.

  Lemma def_loop_cres : forall h mws a ms last, MK (Def h mws a) -> allG ms ->
    cres P (def_loop env canon diff h mws a ms last).
  Proof.
    intros h mws a ms. induction ms as [|s r IH]; intros last Hk Hs; [exact I|].
    cbn [def_loop]. apply cres_bind; [apply def_fetch_cres; [exact Hk|apply Hs; left; reflexivity]|].
    intros x _. apply IH; [exact Hk|]. intros y Hy. apply Hs. right. exact Hy.
  Qed.

  (* [rec] is only consulted for scope masters *)
  Definition rec_cres (k:obj) (rec:list lsrc -> res fout) : Prop :=
    is_def k = false -> forall comb, allG comb -> cres P (rec comb).

  Lemma cand_fetch_cres : forall k rec s, MK k -> rec_cres k rec -> G s -> cres P (cand_fetch env canon diff k rec s).
  Proof.
    intros k rec s Hk Hrec Hs. destruct k as [h mws a|h ks a]; cbn [cand_fetch].
    - apply cres_bind; [apply def_fetch_cres; assumption|]. intros; exact I.
    - apply cres_bind; [apply combine_cres|]. intros comb Hc. apply combine_eq in Hc. subst comb.
      apply cres_bind; [|intros; exact I]. apply Hrec; [reflexivity|].
      apply flat_kids_G. intros x [E|[]]. subst. exact Hs.
  Qed.

  Lemma mult_loop_cres : forall k rec mas cands pd robjs used, MK k -> rec_cres k rec ->
    (forall c, In c cands -> G (snd c)) ->
    cres P (mult_loop env canon diff k rec mas cands pd robjs used).
  Proof.
    intros k rec mas cands. induction cands as [|[fm s] r IH]; intros pd robjs used Hk Hrec Hc; [exact I|].
    assert (Hr : forall c, In c r -> G (snd c)) by (intros; apply Hc; right; assumption).
    cbn [mult_loop]. apply cres_bind; [apply cand_fetch_cres; [exact Hk|exact Hrec|apply (Hc (fm, s)); left; reflexivity]|].
    intros cc _. destruct (diff_skip diff k (fst cc)); [apply IH; assumption|].
    apply cres_bind; [apply Hcanon|]. intros cs _. destruct (eqs cs mas); [apply IH; assumption|].
    destruct (pget cs pd) as [[i|]|]; [|apply IH; assumption|]; (destruct (diff && fm); apply IH; assumption).
  Qed.

  Lemma self_matching_G : forall allks chain i n, CH chain -> (forall k, In k allks -> MK k) ->
    allG (self_matching allks chain i n).
  Proof.
    intros allks chain i n Hch Hk x Hx. unfold self_matching in Hx. apply filter_In in Hx. destruct Hx as [Hx _].
    apply in_flat_map in Hx. destruct Hx as [[j k] [Hjk Hx]]. cbn [fst snd] in Hx.
    destruct ((j =? i)%nat || odis (ohdr k)); [destruct Hx|].
    eapply Hself; [exact Hch| |exact Hx]. apply Hk.
    clear -Hjk. revert Hjk. generalize 0. induction allks as [|a r IH]; intros i0 H; [destruct H|].
    destruct H as [E|H]; [injection E as _ E; subst; left; reflexivity|right; eapply IH; exact H].
  Qed.

  Lemma fetch_one_cres : forall allks chain i k rec srcs,
    CH chain -> (forall x, In x allks -> MK x) -> MK k -> rec_cres k rec -> allG srcs ->
    cres P (fetch_one env canon diff allks chain i k rec srcs).
  Proof.
    intros allks chain i k rec srcs Hch Hall Hk Hrec Hs. unfold fetch_one.
    destruct (get_attr (s_ "alias") (oattrs k)); try exact I.
    destruct (oname (ohdr k)) as [|c0 nm]; [exact I|].
    pose proof (match_sources_G (c0 :: nm) srcs Hs) as Hm.
    destruct (omultiple k); cbn [negb].
    - apply cres_bind; [apply Hcanon|]. intros mas _.
      apply cres_bind.
      + apply mult_loop_cres; [exact Hk|exact Hrec|]. intros c Hc. apply in_app_or in Hc. destruct Hc as [Hc|Hc];
          apply in_map_iff in Hc; destruct Hc as [x [E Hx]]; subst c; cbn [snd].
        * eapply self_matching_G; eassumption.
        * apply Hm. exact Hx.
      + intros [[pd robjs] used] _. exact I.
    - destruct k as [h mws a|h ks a].
      + apply cres_bind; [apply def_loop_cres; assumption|]. intros ro _. destruct ro; [exact I|].
        destruct (negb diff && negb (odeprecated (Def h mws a))); exact I.
      + apply cres_bind; [apply combine_cres|]. intros comb Hc. apply combine_eq in Hc. subst comb.
        apply cres_bind; [apply Hrec; [reflexivity|apply flat_kids_G; exact Hm]|].
        intros oc _. destruct (diff && null_objs (fst oc)); exact I.
  Qed.

  Lemma mloop_cres : forall (body:nat -> obj -> res fout) l,
    (forall i k, In k l -> cres P (body i k)) -> forall seen i, cres P (mloop body seen i l).
  Proof.
    intros body l. induction l as [|k r IH]; intros Hb seen i; [exact I|].
    cbn [mloop]. destruct (mao_step seen k) as [| |seen'].
    - apply IH. intros; apply Hb; right; assumption.
    - exact I.
    - apply cres_bind; [apply Hb; left; reflexivity|]. intros a _.
      apply cres_bind; [apply IH; intros; apply Hb; right; assumption|]. intros; exact I.
  Qed.

  Lemma fetch_scope_cres : forall M mchain srcs,
    is_def M = false -> MK M -> CH mchain -> allG srcs -> cres P (fetch_scope env canon diff M mchain srcs).
  Proof.
    induction M as [h ws a|h ks a IH] using obj_ind2; intros mchain srcs Hd Hk Hch Hs; [discriminate|].
    cbn [fetch_scope]. apply mloop_cres. intros i k Hin.
    apply fetch_one_cres.
    - eapply HCH_kid; eassumption.
    - intros x Hx. eapply HMK_kid; eassumption.
    - eapply HMK_kid; eassumption.
    - intros Hdk comb Hcomb. rewrite Forall_forall in IH. apply IH; [exact Hin|exact Hdk|eapply HMK_kid; eassumption|eapply HCH_kid; eassumption|exact Hcomb].
    - exact Hs.
  Qed.
End Plumbing.

(* ------------------------------------------------------------------ theorem 1: the possible Crash outcomes *)
Definition fetch_crash (canon:obj -> option obj -> res str) (c:str) : Prop :=
  (exists M s, canon M s = Crash c) \/ c = c_assert \/ c = c_type \/ c = c_fuel.

Lemma def_fetch_value_kinds : forall env canon dm h mws a s,
  cres (fetch_crash canon) (def_fetch_value env dm h mws a s).
Proof.
  intros env canon dm h mws a s. unfold def_fetch_value. destruct (lobj s) as [h0 ws0 a0|]; [|exact I].
  apply cres_bind.
  - eapply cres_weaken; [|apply resolve_def_kinds]. intros c [E|E]; unfold fetch_crash; auto.
  - intros ws _. destruct (odeprecated (Def h mws a) && _); [exact I|].
    destruct (get_attr (s_ "type") a) as [| | | | |t]; try exact I. destruct t; try exact I.
    + apply cres_bind; [|intros; exact I].
      destruct (choice_fetch (get_attr (s_ "optional") a) mws ws false) eqn:E; cbn; auto.
      apply choice_fetch_crash in E. destruct E as [E _]. subst. unfold fetch_crash. auto.
    + destruct (prefixb (s_ "float") printed || prefixb (s_ "int") printed); exact I.
Qed.

Theorem fetch_root_crash_kinds : forall env canon diff m srcs,
  cres (fetch_crash canon) (fetch_root env canon diff m srcs).
Proof.
  intros env canon diff m srcs. unfold fetch_root.
  apply (fetch_scope_cres env canon diff (fetch_crash canon) (fun _ => True) (fun _ => True) (fun _ => True)); auto.
  - intros M s. destruct (canon M s) eqn:E; cbn; auto. left. eauto.
  - intros. apply def_fetch_value_kinds.
  - intros s Hs. exact I.
Qed.

Theorem fetch_crash_kinds : forall env canon diff m srcs c,
  fetch env canon diff m srcs = Crash c -> fetch_crash canon c.
Proof.
  intros env canon diff m srcs c H. unfold fetch in H.
  pose proof (fetch_root_crash_kinds env canon diff m srcs) as K.
  destruct (fetch_root env canon diff m srcs); cbn in *; try discriminate. injection H as E. subst. exact K.
Qed.
Theorem fetch_track_crash_kinds : forall env canon diff marks0 m srcs c,
  fetch_track_marks env canon diff marks0 m srcs = Crash c -> fetch_crash canon c.
Proof.
  intros env canon diff marks0 m srcs c H. unfold fetch_track_marks in H.
  pose proof (fetch_root_crash_kinds env canon diff m srcs) as K.
  destruct (fetch_root env canon diff m srcs); cbn in *; try discriminate. injection H as E. subst. exact K.
Qed.

(* ------------------------------------------------------------------ theorem 2: none of them on well-formed input *)
Definition canon_ok (canon:obj -> option obj -> res str) : Prop := forall M s, ok_res (canon M s).

Definition lsok (s:lsrc) : Prop := defs_have_ids (lobj s) = true /\ wf_chain (lctx s).

Lemma wf_chain_cons : forall h ks a chain, defs_have_ids (Scp h ks a) = true -> wf_chain chain -> wf_chain (ks :: chain).
Proof. intros h ks a chain H Hc. constructor; [rewrite <- (defs_have_ids_kids h ks a); exact H|exact Hc]. Qed.

Lemma kids_at_lsok : forall p h ks a chain x,
  defs_have_ids (Scp h ks a) = true -> wf_chain chain -> In x (kids_at p ks chain) -> lsok x.
Proof.
  intros p h ks a chain x H Hc Hx. unfold kids_at in Hx. apply in_map_iff in Hx. destruct Hx as [[j k] [E Hk]]. subst x.
  split; cbn [lobj lctx snd].
  - eapply defs_have_ids_in; [rewrite <- (defs_have_ids_kids h ks a); exact H|].
    clear -Hk. revert Hk. generalize 0. induction ks as [|a0 r IH]; intros i H; [destruct H|].
    destruct H as [E|H]; [injection E as _ E; subst; left; reflexivity|right; eapply IH; exact H].
  - eapply wf_chain_cons; eassumption.
Qed.

Lemma gwsp_lsok : forall o n p chain x,
  defs_have_ids o = true -> wf_chain chain -> In x (gwsp p chain n o) -> lsok x.
Proof.
  induction o as [h ws a|h ks a IH] using obj_ind2; intros n p chain x Ho Hc Hx.
  - cbn in Hx. destruct (odis h || negb (eqs (oname h) n)); [destruct Hx|]. destruct Hx as [E|[]]. subst x. split; assumption.
  - cbn [gwsp] in Hx. destruct (odis h); [destruct Hx|].
    assert (Hc' : wf_chain (ks :: chain)) by (eapply wf_chain_cons; eassumption).
    assert (Hks : forall k, In k ks -> defs_have_ids k = true).
    { intros k Hk. eapply defs_have_ids_in; [rewrite <- (defs_have_ids_kids h ks a); exact Ho|exact Hk]. }
    assert (Hin : forall pth j,
      In x ((fix go (j:nat) (l:list obj) : list lsrc :=
               match l with
               | [] => []
               | k :: r => (if odis (ohdr k) then [] else gwsp (p ++ [j]) (ks :: chain) pth k) ++ go (S j) r
               end) j ks) -> lsok x).
    { intros pth. revert Hc'. generalize (ks :: chain) as c1. clear Hx Ho. revert Hks.
      induction IH as [|k r Hk0 _ IHr]; intros Hks c1 Hc1 j Hx; [destruct Hx|].
      apply in_app_or in Hx. destruct Hx as [Hx|Hx].
      - destruct (odis (ohdr k)); [destruct Hx|]. eapply Hk0; [apply Hks; left; reflexivity|exact Hc1|exact Hx].
      - eapply IHr; [intros; apply Hks; right; assumption|exact Hc1|exact Hx]. }
    destruct (oname h) as [|c nm].
    + destruct n as [|c n]; [|eapply Hin; exact Hx]. exact (kids_at_lsok p h ks a chain x Ho Hc Hx).
    + destruct (eqs (c :: nm) n); [destruct Hx as [E|[]]; subst x; split; assumption|].
      destruct (prefixb ((c :: nm) ++ ["."]) n); [eapply Hin; exact Hx|destruct Hx].
Qed.

Lemma master_obj_ok_kid : forall h ks a k, master_obj_ok (Scp h ks a) = true -> In k ks -> master_obj_ok k = true.
Proof.
  intros h ks a k H Hk. cbn [master_obj_ok] in H. induction ks as [|x r IH]; [destruct Hk|].
  apply andb_true_iff in H. destruct H as [H1 H2]. destruct Hk as [E|Hk]; [subst; exact H1|apply IH; assumption].
Qed.
Lemma master_obj_ok_ids : forall o, master_obj_ok o = true -> defs_have_ids o = true.
Proof.
  induction o as [h ws a|h ks a IH] using obj_ind2; intros H.
  - cbn in *. apply andb_true_iff in H. apply H.
  - rewrite defs_have_ids_kids. cbn [master_obj_ok] in H. induction IH as [|k r Hk _ IHr]; [reflexivity|].
    apply andb_true_iff in H. destruct H as [H1 H2]. cbn [defs_have_ids_l]. rewrite (Hk H1), (IHr H2). reflexivity.
Qed.
Lemma master_ok_root : forall m, master_ok m = true -> master_obj_ok (root_scope m) = true.
Proof.
  intros m H. unfold root_scope. cbn [master_obj_ok]. induction m as [|k r IH]; [reflexivity|].
  cbn [master_ok] in H. apply andb_true_iff in H. destruct H as [H1 H2]. rewrite H1, (IH H2). reflexivity.
Qed.

Lemma def_fetch_value_ok : forall env dm h mws a s,
  master_obj_ok (Def h mws a) = true -> lsok s -> ok_res (def_fetch_value env dm h mws a s).
Proof.
  intros env dm h mws a s Hk [Hids Hwf]. unfold def_fetch_value.
  destruct (lobj s) as [h0 ws0 a0|] eqn:Es; [|exact I].
  apply cres_false_ok. apply cres_bind.
  - apply cres_false_ok. unfold resolve_top. apply resolve_def_ok; [exact Hwf| |lia].
    apply def_has_id; [exact Hids|reflexivity].
  - intros ws _. destruct (odeprecated (Def h mws a) && _); [exact I|].
    cbn [master_obj_ok] in Hk. apply andb_true_iff in Hk. destruct Hk as [_ Hk]. unfold choice_typed in Hk.
    destruct (get_attr (s_ "type") a) as [| | | | |t]; try exact I. destruct t; try exact I.
    + apply cres_bind; [|intros; exact I].
      destruct (choice_fetch (get_attr (s_ "optional") a) mws ws false) eqn:E; cbn; auto.
      apply choice_fetch_crash in E. destruct E as [_ E].
      apply andb_true_iff in Hk. destruct Hk as [H1 H2]. apply negb_true_iff in H1, H2.
      destruct E as [E|E]; congruence.
    + destruct (prefixb (s_ "float") printed || prefixb (s_ "int") printed); exact I.
Qed.

Lemma root_lsrcs_lsok : forall srcs s, srcs_ok srcs = true -> In s (root_lsrcs srcs) -> lsok s.
Proof.
  intros srcs s H Hs. unfold root_lsrcs in Hs. apply in_flat_map in Hs. destruct Hs as [[i t] [Hit Hs]].
  cbn [fst snd] in Hs. unfold srcs_ok in H. rewrite forallb_forall in H.
  assert (Ht : defs_have_ids_l t = true).
  { apply H. clear -Hit. revert Hit. generalize 0. induction srcs as [|a r IH]; intros j Hj; [destruct Hj|].
    destruct Hj as [E|Hj]; [injection E as _ E; subst; left; reflexivity|right; eapply IH; exact Hj]. }
  eapply (kids_at_lsok [i] (plain_hdr []) t []); [rewrite defs_have_ids_kids; exact Ht|constructor|exact Hs].
Qed.

Theorem fetch_root_total : forall env canon diff m srcs,
  canon_ok canon -> master_ok m = true -> srcs_ok srcs = true ->
  ok_res (fetch_root env canon diff m srcs).
Proof.
  intros env canon diff m srcs Hc Hm Hs. apply cres_false_ok. unfold fetch_root.
  apply (fetch_scope_cres env canon diff (fun _ => False) lsok (fun k => master_obj_ok k = true) wf_chain).
  - intros M s. apply cres_false_ok. apply Hc.
  - intros dm h mws a s Hk Hg. apply cres_false_ok. apply def_fetch_value_ok; assumption.
  - intros s n x [H1 H2] Hx. eapply gwsp_lsok; eassumption.
  - intros s x [H1 H2] Hx. unfold src_kids in Hx. destruct (lobj s) as [h ws a|h ks a]; [destruct Hx|].
    eapply kids_at_lsok; eassumption.
  - intros. eapply master_obj_ok_kid; eassumption.
  - intros h ks a mchain Hk Hch. eapply wf_chain_cons; [apply master_obj_ok_ids; exact Hk|exact Hch].
  - intros chain j k n x Hch Hk Hx. eapply gwsp_lsok; [apply master_obj_ok_ids; exact Hk|exact Hch|exact Hx].
  - reflexivity.
  - apply master_ok_root. exact Hm.
  - constructor.
  - intros s Hin. eapply root_lsrcs_lsok; eassumption.
Qed.

Theorem fetch_total : forall env canon diff m srcs,
  canon_ok canon -> master_ok m = true -> srcs_ok srcs = true ->
  ok_res (fetch env canon diff m srcs).
Proof.
  intros env canon diff m srcs Hc Hm Hs. unfold fetch.
  pose proof (fetch_root_total env canon diff m srcs Hc Hm Hs) as T.
  destruct (fetch_root env canon diff m srcs); cbn in *; auto.
Qed.
Theorem fetch_track_total : forall env canon diff marks0 m srcs,
  canon_ok canon -> master_ok m = true -> srcs_ok srcs = true ->
  ok_res (fetch_track_marks env canon diff marks0 m srcs).
Proof.
  intros env canon diff marks0 m srcs Hc Hm Hs. unfold fetch_track_marks.
  pose proof (fetch_root_total env canon diff m srcs Hc Hm Hs) as T.
  destruct (fetch_root env canon diff m srcs); cbn in *; auto.
Qed.

(* the hypotheses are not idle: each excluded outcome is reachable without its hypothesis *)
Definition tw (v:String.string) : word := mkword (s_ v) QN 1.
Example choice_master_none_crashes :
  fetch (fun _ => None) (fun _ _ => Ok []) false
        [Def (mkhdr (s_ "c") false 0 false 1 1) [tw "None"] [(s_ "type", AType (TyChoice false))]]
        [[Def (mkhdr (s_ "c") false 0 false 1 1) [tw "x"] []]]
  = Crash c_assert.
Proof. vm_compute. reflexivity. Qed.
Example missing_ids_crash :
  fetch (fun _ => None) (fun _ _ => Ok []) false
        [Def (mkhdr (s_ "a") false 0 false 1 1) [tw "1"] []]
        [[Def (mkhdr (s_ "y") false 0 false 1 1) [tw "5"] []; Def (mkhdr (s_ "a") false 0 false 0 2) [tw "$y"] []]]
  = Crash c_type.
Proof. vm_compute. reflexivity. Qed.
Print Assumptions fetch_total.
Print Assumptions fetch_track_total.
Print Assumptions fetch_crash_kinds.
