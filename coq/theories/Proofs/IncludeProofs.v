(* Proofs for C13 (include processing). *)
From Coq Require Import List Ascii String Bool Arith ZArith Lia.
From Phil Require Import Base Tree Include IncludeSpec.
Import ListNotations.

(* ---------------------------------------------------------------- strings *)
Lemma inc_eqs_refl : forall a, eqs a a = true.
Proof. induction a; cbn; auto. rewrite Ascii.eqb_refl. auto. Qed.

Lemma inc_eqs_eq : forall a b, eqs a b = true -> a = b.
Proof.
  induction a; destruct b; cbn; intros; try discriminate; auto.
  apply andb_true_iff in H. destruct H as [H1 H2]. apply Ascii.eqb_eq in H1. subst.
  f_equal. auto.
Qed.

Lemma inc_eqs_iff : forall a b, eqs a b = true <-> a = b.
Proof. split. apply inc_eqs_eq. intros ->. apply inc_eqs_refl. Qed.

Lemma inc_eqs_false : forall a b, eqs a b = false <-> a <> b.
Proof.
  intros. split; intros.
  - intros ->. rewrite inc_eqs_refl in H. discriminate.
  - destruct (eqs a b) eqn:E; auto. apply inc_eqs_eq in E. contradiction.
Qed.

Lemma inc_mems_In : forall x l, mems x l = true <-> In x l.
Proof.
  unfold mems. intros. rewrite existsb_exists. split.
  - intros [y [Hy E]]. apply inc_eqs_eq in E. subst. auto.
  - intros. exists x. split; auto. apply inc_eqs_refl.
Qed.

Lemma inc_mems_false : forall x l, mems x l = false <-> ~ In x l.
Proof.
  intros. rewrite <- inc_mems_In. destruct (mems x l); split; intros; try discriminate; auto.
  exfalso. auto.
Qed.

(* ---------------------------------------------------------------- walk / walks *)
Lemma walk_walks_ind (P : obj -> Prop) (Q : list obj -> Prop) :
  (forall h ws a, P (Def h ws a)) ->
  (forall h ks a, Q ks -> P (Scp h ks a)) ->
  Q [] -> (forall o r, P o -> Q r -> Q (o :: r)) ->
  (forall o, P o) /\ (forall l, Q l).
Proof.
  intros HD HS HN HC.
  assert (HP: forall o, P o).
  { induction o using obj_ind2. apply HD. apply HS. induction H; auto. }
  split; auto. induction l; auto.
Qed.

Section W.
  Variable isc : str -> option str -> option (list obj).

  Lemma walk_scp : forall rec rd h ks a,
    walk isc rec rd (Scp h ks a) =
    if odis h then Ok [Scp h ks a]
    else do ks' <- walks isc rec rd ks; Ok [Scp (with_tmpl h 0%Z) ks' a].
  Proof. reflexivity. Qed.

  Lemma walks_cons : forall rec rd o r,
    walks isc rec rd (o :: r) = do x <- walk isc rec rd o; do y <- walks isc rec rd r; Ok (x ++ y).
  Proof. reflexivity. Qed.

  Lemma targets_scp : forall h ks a,
    targets_o (Scp h ks a) = if odis h then [] else targets ks.
  Proof. reflexivity. Qed.
End W.

Lemma classify_err_kind : forall ws k, classify ws = IKErr k -> k = k_args \/ k = k_unknown.
Proof.
  intros ws k. unfold classify. destruct (existsb has_dollar ws). discriminate.
  destruct ws as [|w0 [|w1 rest]].
  - intros H; inversion H; auto.
  - intros H; inversion H; auto.
  - cbv zeta. destruct (eqs (lowers (wv w0)) (s_ "file")).
    + destruct rest; intros H; inversion H; auto.
    + destruct (eqs (lowers (wv w0)) (s_ "scope")).
      * destruct rest as [|w2 [|w3 r]]; intros H; inversion H; auto.
      * intros H; inversion H; auto.
Qed.

(* errors that the walk raises by itself (never IncludeCycle, never OutOfFuel) *)
Definition own_kind (k:str) : Prop := k = k_args \/ k = k_unknown \/ k = k_unmodelled.

Inductive def_case (isc : str -> option str -> option (list obj)) (rec : str -> res (list obj))
          (rd:option str) (h:hdr) (ws:list word) (a:attrs) : Prop :=
| DC_copy :
    (odis h = true \/ (odis h = false /\ oname h <> s_include)) ->
    walk isc rec rd (Def h ws a) = Ok [Def h ws a] -> targets_o (Def h ws a) = [] ->
    def_case isc rec rd h ws a
| DC_file : forall x,
    odis h = false -> oname h = s_include -> classify ws = IKFile x ->
    walk isc rec rd (Def h ws a) = rec (resolve rd x) -> targets_o (Def h ws a) = [x] ->
    def_case isc rec rd h ws a
| DC_scope : forall ip pp l,
    odis h = false -> oname h = s_include -> classify ws = IKScope ip pp -> isc ip pp = Some l ->
    walk isc rec rd (Def h ws a) = Ok l -> targets_o (Def h ws a) = [] ->
    def_case isc rec rd h ws a
| DC_err : forall k,
    odis h = false -> oname h = s_include -> own_kind k ->
    (forall x, classify ws <> IKFile x) ->
    (forall ip pp l, classify ws = IKScope ip pp -> isc ip pp <> Some l) ->
    walk isc rec rd (Def h ws a) = UErr k [] (oline h) -> targets_o (Def h ws a) = [] ->
    def_case isc rec rd h ws a.

Lemma walk_def : forall isc rec rd h ws a,
  walk isc rec rd (Def h ws a) =
  if odis h then Ok [Def h ws a]
  else if negb (eqs (oname h) s_include) then Ok [Def h ws a] else inc_def isc rec rd h ws.
Proof. reflexivity. Qed.
Lemma targets_def : forall h ws a,
  targets_o (Def h ws a) =
  if odis h then [] else if negb (eqs (oname h) s_include) then []
  else match classify ws with IKFile x => [x] | _ => [] end.
Proof. reflexivity. Qed.

Lemma walk_def_cases : forall isc rec rd h ws a, def_case isc rec rd h ws a.
Proof.
  intros. destruct (odis h) eqn:D.
  - apply DC_copy; auto; [rewrite walk_def | rewrite targets_def]; rewrite D; auto.
  - destruct (eqs (oname h) s_include) eqn:E.
    + assert (N: oname h = s_include) by (apply inc_eqs_eq; auto).
      assert (W: walk isc rec rd (Def h ws a) = inc_def isc rec rd h ws)
        by (rewrite walk_def, D, E; reflexivity).
      assert (T: targets_o (Def h ws a) = match classify ws with IKFile x => [x] | _ => [] end)
        by (rewrite targets_def, D, E; reflexivity).
      unfold inc_def in W.
      destruct (classify ws) eqn:C.
      * apply DC_err with (k:=k_unmodelled); auto; unfold own_kind; auto; congruence.
      * destruct (classify_err_kind ws k C) as [K|K]; subst k.
        -- apply DC_err with (k:=k_args); auto; unfold own_kind; auto; congruence.
        -- apply DC_err with (k:=k_unknown); auto; unfold own_kind; auto; congruence.
      * eapply DC_file; eauto.
      * destruct (isc import_path phil_path) eqn:I.
        -- eapply DC_scope; eauto.
        -- apply DC_err with (k:=k_unmodelled); auto; unfold own_kind; auto; try congruence.
    + apply DC_copy.
      * right. split; auto. apply inc_eqs_false; auto.
      * rewrite walk_def, D, E. reflexivity.
      * rewrite targets_def, D, E. reflexivity.
Qed.

(* ---------------------------------------------------------------- constants are distinct *)
Lemma nofile_not_fuel : c_nofile <> c_fuel.
Proof. intro H. vm_compute in H. discriminate. Qed.
Lemma own_not_cycle : forall k, own_kind k -> k <> k_cycle.
Proof. intros k [H|[H|H]]; subst; intro H; vm_compute in H; discriminate. Qed.
Lemma parse_not_cycle : k_parse <> k_cycle.
Proof. intro H. vm_compute in H. discriminate. Qed.

Lemma fs_get_cases : forall fs p,
  (exists l, fs_get fs p = Ok l /\ In p (map fst fs)) \/ (exists ln, fs_get fs p = UErr k_parse [] ln)
  \/ fs_get fs p = Crash c_nofile.
Proof.
  induction fs as [|[k v] r IH]; intros; cbn [fs_get]; auto.
  destruct (eqs k p) eqn:E.
  - apply inc_eqs_eq in E. subst. destruct v; eauto. left. eexists. split; eauto. cbn. auto.
  - destruct (IH p) as [[l [H1 H2]]|H]; auto. left. exists l. split; auto. cbn. auto.
Qed.

Lemma NoDup_snoc : forall (A:Type) (l:list A) x, NoDup l -> ~ In x l -> NoDup (l ++ [x]).
Proof.
  induction l; intros x H H0; cbn.
  - constructor. intros []. constructor.
  - inversion H; subst. constructor.
    + intro HI. apply in_app_or in HI. destruct HI as [HI|[HI|[]]]; auto. subst. apply H0. cbn. auto.
    + apply IHl; auto. intro. apply H0. cbn. auto.
Qed.

Section Main.
  Variable isc : str -> option str -> option (list obj).
  Variable fs : fsys.
  Variable cwd : str.

  Notation walk' := (walk isc).
  Notation walks' := (walks isc).
  Notation includes' := (includes isc fs cwd).
  Notation Ex := (Expands isc fs cwd).
  Notation ExL := (ExpandsL isc fs cwd).
  Notation ExO := (ExpandsO isc fs cwd).

  (* ------------------------------------------------------------ soundness *)
  Lemma walks_sound : forall chk rec rd stack,
    (forall x out, rec x = Ok out -> Ex chk stack x out) ->
    (forall o out, walk' rec rd o = Ok out -> ExO chk stack rd o out) /\
    (forall l out, walks' rec rd l = Ok out -> ExL chk stack rd l out).
  Proof.
    intros chk rec rd stack Hrec. apply walk_walks_ind.
    - intros h ws a out H.
      destruct (walk_def_cases isc rec rd h ws a)
        as [C W T|x D N C W T|ip pp l D N C I W T|k D N K NF NS W T]; rewrite W in H.
      + inversion H; subst. destruct C as [C|[C1 C2]].
        apply EO_disabled; auto. apply EO_def; auto.
      + eapply EO_file; eauto.
      + inversion H; subst. eapply EO_scope; eauto.
      + discriminate.
    - intros h ks a IH out H. rewrite walk_scp in H. destruct (odis h) eqn:D.
      + inversion H; subst. apply EO_disabled; auto.
      + destruct (walks' rec rd ks) eqn:E; cbn [bind] in H; try discriminate.
        inversion H; subst. apply EO_scp; auto.
    - intros out H. cbn in H. inversion H. constructor.
    - intros o r IHo IHr out H. rewrite walks_cons in H.
      destruct (walk' rec rd o) eqn:E1; cbn [bind] in H; try discriminate.
      destruct (walks' rec rd r) eqn:E2; cbn [bind] in H; try discriminate.
      inversion H; subst. constructor; auto.
  Qed.

  Lemma includes_unfold : forall f stack file,
    includes' (S f) stack file =
    do objs <- fs_get fs (fs_key (nrm cwd file));
    if mems (nrm cwd file) stack then UErr k_cycle (chain_text (stack ++ [nrm cwd file])) 0
    else walks' (includes' f (stack ++ [nrm cwd file])) (Some (dirname (nrm cwd file))) objs.
  Proof. reflexivity. Qed.

  Theorem includes_sound : forall fuel stack file t,
    includes' fuel stack file = Ok t -> Ex true stack file t.
  Proof.
    induction fuel; intros stack file t H. discriminate.
    rewrite includes_unfold in H.
    destruct (fs_get fs (fs_key (nrm cwd file))) eqn:G; cbn [bind] in H; try discriminate.
    destruct (mems (nrm cwd file) stack) eqn:M; try discriminate.
    eapply Ex_file; eauto. intros _. apply inc_mems_false; auto.
    eapply (proj2 (walks_sound true _ _ _ (IHfuel _))); eauto.
  Qed.

  Lemma Expands_weaken :
    (forall stack file out, Ex true stack file out -> Ex false stack file out) /\
    (forall stack rd l out, ExL true stack rd l out -> ExL false stack rd l out) /\
    (forall stack rd o out, ExO true stack rd o out -> ExO false stack rd o out).
  Proof.
    apply Expands_mut; intros.
    - eapply Ex_file; eauto; try discriminate.
    - constructor.
    - constructor; auto.
    - apply EO_disabled; auto.
    - apply EO_def; auto.
    - eapply EO_file; eauto.
    - eapply EO_scope; eauto.
    - apply EO_scp; auto.
  Qed.

  (* ------------------------------------------------------------ completeness (by determinism) *)
  Lemma walks_complete : forall rec rd stack,
    (forall x r t, rec x = r -> r <> Crash c_fuel -> Ex true stack x t -> r = Ok t) ->
    (forall o r t, walk' rec rd o = r -> r <> Crash c_fuel -> ExO true stack rd o t -> r = Ok t) /\
    (forall l r t, walks' rec rd l = r -> r <> Crash c_fuel -> ExL true stack rd l t -> r = Ok t).
  Proof.
    intros rec rd stack Hrec. apply walk_walks_ind.
    - intros h ws a r t H NF HE.
      destruct (walk_def_cases isc rec rd h ws a)
        as [C W T|x D N C W T|ip pp l D N C I W T|k D N K NFi NS W T]; rewrite W in H;
        inversion HE; subst; cbn [ohdr] in *; try congruence.
      + destruct C as [C|[C1 C2]]; congruence.
      + destruct C as [C|[C1 C2]]; congruence.
      + assert (x0 = x) by congruence. subst. eapply Hrec; eauto.
      + exfalso. first [ eapply NFi; eauto; fail | eapply NS; eauto ].
    - intros h ks a IH r t H NF HE. rewrite walk_scp in H. subst r.
      destruct (odis h) eqn:D; inversion HE; subst; cbn [ohdr] in *; try congruence.
      destruct (walks' rec rd ks) eqn:E; cbn [bind] in *.
      * assert (Ok a0 = Ok ks') by (eapply IH; eauto; discriminate). congruence.
      * assert (UErr kind tok line = Ok ks') by (eapply IH; eauto; discriminate). discriminate.
      * assert (Crash c = Ok ks') by (eapply IH; eauto). discriminate.
    - intros r t H NF HE. inversion HE; subst. reflexivity.
    - intros o l IHo IHl r t H NF HE. rewrite walks_cons in H. inversion HE; subst.
      destruct (walk' rec rd o) eqn:E1; cbn [bind] in *.
      + assert (Ok a0 = Ok a) by (eapply IHo; eauto; discriminate).
        destruct (walks' rec rd l) eqn:E2; cbn [bind] in *.
        * assert (Ok a1 = Ok b) by (eapply IHl; eauto; discriminate). congruence.
        * assert (UErr kind tok line = Ok b) by (eapply IHl; eauto; discriminate). discriminate.
        * assert (Crash c = Ok b) by (eapply IHl; eauto). discriminate.
      + assert (UErr kind tok line = Ok a) by (eapply IHo; eauto; discriminate). discriminate.
      + assert (Crash c = Ok a) by (eapply IHo; eauto). discriminate.
  Qed.

  Theorem includes_complete : forall fuel stack file r t,
    includes' fuel stack file = r -> r <> Crash c_fuel -> Ex true stack file t -> r = Ok t.
  Proof.
    induction fuel; intros stack file r t H NF HE.
    - subst r. exfalso. apply NF. reflexivity.
    - rewrite includes_unfold in H. inversion HE as [s0 f0 objs out G NI HL]; subst.
      rewrite G. cbn [bind].
      assert (M: mems (nrm cwd file) stack = false) by (apply inc_mems_false; auto).
      rewrite M in *. rewrite G in NF. cbn [bind] in NF.
      eapply (proj2 (walks_complete _ _ _ (IHfuel _))); eauto.
  Qed.

  (* ------------------------------------------------------------ where an error comes from *)
  Definition own_err (r:res (list obj)) : Prop := exists k ln, r = UErr k [] ln /\ own_kind k.

  Lemma walks_err_src : forall rec rd,
    (forall o r, walk' rec rd o = r -> (forall t, r <> Ok t) ->
       own_err r \/ exists x, In x (targets_o o) /\ rec (resolve rd x) = r) /\
    (forall l r, walks' rec rd l = r -> (forall t, r <> Ok t) ->
       own_err r \/ exists x, In x (targets l) /\ rec (resolve rd x) = r).
  Proof.
    intros rec rd. apply walk_walks_ind.
    - intros h ws a r H NO.
      destruct (walk_def_cases isc rec rd h ws a)
        as [C W T|x D N C W T|ip pp l D N C I W T|k D N K NFi NS W T]; rewrite W in H; subst r.
      + exfalso. eapply NO; eauto.
      + right. exists x. rewrite T. cbn. auto.
      + exfalso. eapply NO; eauto.
      + left. exists k, (oline h). auto.
    - intros h ks a IH r H NO. rewrite walk_scp in H. rewrite targets_scp. subst r.
      destruct (odis h). exfalso; eapply NO; eauto.
      destruct (walks' rec rd ks) eqn:E; cbn [bind] in *.
      + exfalso; eapply NO; eauto.
      + apply IH; auto.
      + apply IH; auto.
    - intros r H NO. cbn in H. subst r. exfalso; eapply NO; eauto.
    - intros o l IHo IHl r H NO. rewrite walks_cons in H. subst r. cbn [targets].
      destruct (walk' rec rd o) eqn:E1; cbn [bind] in *.
      + destruct (walks' rec rd l) eqn:E2; cbn [bind] in *.
        * exfalso; eapply NO; eauto.
        * destruct (IHl _ eq_refl NO) as [H|[x [H1 H2]]]; auto.
          right. exists x. split; auto. apply in_or_app; auto.
        * destruct (IHl _ eq_refl NO) as [H|[x [H1 H2]]]; auto.
          right. exists x. split; auto. apply in_or_app; auto.
      + destruct (IHo _ eq_refl NO) as [H|[x [H1 H2]]]; auto.
        right. exists x. split; auto. apply in_or_app; auto.
      + destruct (IHo _ eq_refl NO) as [H|[x [H1 H2]]]; auto.
        right. exists x. split; auto. apply in_or_app; auto.
  Qed.

  (* ------------------------------------------------------------ termination *)
  Lemma fs_key_cases : forall n, n = fs_key n \/ n = sl :: fs_key n.
  Proof.
    destruct n as [|c1 [|c2 r]]; cbn; auto.
    destruct (is_sl c1) eqn:E1; cbn; auto. destruct (is_sl c2) eqn:E2; cbn; auto.
    right. apply Ascii.eqb_eq in E1. subst. reflexivity.
  Qed.

  (* the names a file of the table can have on the stack *)
  Definition names : list str := map fst fs ++ map (cons sl) (map fst fs).

  Lemma key_in_names : forall n, In (fs_key n) (map fst fs) -> In n names.
  Proof.
    intros n H. unfold names. apply in_or_app. destruct (fs_key_cases n) as [E|E].
    - left. rewrite E. auto.
    - right. rewrite E. apply in_map. auto.
  Qed.

  Theorem includes_fuel : forall fuel stack file,
    NoDup stack -> incl stack names -> 2 * length fs < fuel + length stack ->
    includes' fuel stack file <> Crash c_fuel.
  Proof.
    induction fuel; intros stack file ND IN LT.
    - exfalso. pose proof (NoDup_incl_length ND IN) as L. unfold names in L.
      rewrite app_length, !map_length in L. lia.
    - rewrite includes_unfold.
      destruct (fs_get_cases fs (fs_key (nrm cwd file))) as [[l [G I]]|[[pl G]|G]]; rewrite G; cbn [bind].
      + destruct (mems (nrm cwd file) stack) eqn:M. discriminate.
        intro H.
        destruct (proj2 (walks_err_src _ _) _ _ H) as [[k [ln [H1 H2]]]|[x [H1 H2]]].
        * discriminate.
        * discriminate.
        * revert H2. apply IHfuel.
          -- apply NoDup_snoc; auto. apply inc_mems_false; auto.
          -- intros y Hy. apply in_app_or in Hy. destruct Hy as [Hy|[Hy|[]]]; auto. subst.
             apply key_in_names; auto.
          -- rewrite app_length. cbn [length]. lia.
      + discriminate.
      + intro H. apply nofile_not_fuel. congruence.
  Qed.

  Theorem includes_file_terminates : forall file, includes_file isc fs cwd file <> Crash c_fuel.
  Proof.
    intros. unfold includes_file, fuel0. apply includes_fuel.
    constructor. intros x []. cbn [length]. lia.
  Qed.

  Theorem includes_string_terminates : forall objs, includes_string isc fs cwd objs <> Crash c_fuel.
  Proof.
    intros objs H. unfold includes_string in H.
    destruct (proj2 (walks_err_src _ _) _ _ H) as [[k [ln [H1 H2]]]|[x [H1 H2]]]; try discriminate.
    revert H2. apply includes_fuel. constructor. intros y []. unfold fuel0. cbn [length]. lia.
  Qed.

  (* entry point: sound and complete w.r.t. acyclic derivations *)
  Theorem includes_file_iff : forall file t,
    includes_file isc fs cwd file = Ok t <-> Ex true [] file t.
  Proof.
    intros. split. apply includes_sound.
    intros HE. eapply includes_complete; [reflexivity| |exact HE]. apply includes_file_terminates.
  Qed.

  (* ------------------------------------------------------------ chains *)
  Notation chain' := (chain fs cwd).
  Notation edge' := (edge fs cwd).

  Lemma chain_snoc : forall l a b, chain' (l ++ [a]) -> edge' a b -> chain' ((l ++ [a]) ++ [b]).
  Proof.
    induction l as [|c l IH]; intros a b H E.
    - cbn. auto.
    - destruct l as [|d l].
      + cbn in *. destruct H. auto.
      + change (edge' c d /\ chain' ((d :: l) ++ [a])) in H.
        change (edge' c d /\ chain' (((d :: l) ++ [a]) ++ [b])).
        destruct H. split; auto.
  Qed.

  Lemma edge_intro : forall n objs x,
    fs_get fs (fs_key n) = Ok objs -> In x (targets objs) ->
    edge' n (nrm cwd (resolve (Some (dirname n)) x)).
  Proof. intros. exists objs, x. auto. Qed.

  (* an IncludeCycle report names a genuine chain that extends the current one and ends in a repeat *)
  Theorem cycle_genuine : forall fuel stack file tok ln,
    includes' fuel stack file = UErr k_cycle tok ln ->
    chain' (stack ++ [nrm cwd file]) ->
    ln = 0 /\ genuine_cycle_report fs cwd (stack ++ [nrm cwd file]) tok.
  Proof.
    induction fuel; intros stack file tok ln H CH. discriminate.
    rewrite includes_unfold in H.
    destruct (fs_get_cases fs (fs_key (nrm cwd file))) as [[l [G I]]|[[pl G]|G]]; rewrite G in H; cbn [bind] in H.
    - destruct (mems (nrm cwd file) stack) eqn:M.
      + inversion H; subst. split; auto.
        exists (stack ++ [nrm cwd file]), stack, (nrm cwd file).
        repeat split; auto. exists []. rewrite app_nil_r. auto. apply inc_mems_In; auto.
      + destruct (proj2 (walks_err_src _ _) _ _ H) as [[k [ln' [H1 H2]]]|[x [H1 H2]]].
        * discriminate.
        * inversion H1; subst. exfalso. eapply own_not_cycle; eauto.
        * apply IHfuel in H2.
          -- destruct H2 as [L [c [pre [y [T [C [[ext E] [P Q]]]]]]]]. split; auto.
             exists c, pre, y. repeat split; auto.
             exists ([nrm cwd (resolve (Some (dirname (nrm cwd file))) x)] ++ ext).
             rewrite E. rewrite <- !app_assoc. reflexivity.
          -- apply chain_snoc; auto. eapply edge_intro; eauto.
    - exfalso. apply parse_not_cycle. congruence.
    - discriminate.
  Qed.

  Lemma NoDup_snoc_inv : forall (A:Type) (l:list A) x, NoDup (l ++ [x]) -> ~ In x l.
  Proof.
    intros A l x H HI. apply NoDup_remove_2 in H. apply H. rewrite app_nil_r. auto.
  Qed.

  (* acyclic reachable graph (diamonds allowed): no IncludeCycle error *)
  Theorem no_false_cycle : forall fuel file tok ln,
    acyclic_from fs cwd (nrm cwd file) ->
    includes' fuel [] file <> UErr k_cycle tok ln.
  Proof.
    intros fuel file tok ln AC H.
    apply cycle_genuine in H; [|cbn; auto].
    destruct H as [_ [c [pre [y [T [C [[ext E] [P Q]]]]]]]].
    cbn in E. subst c. apply AC in C. rewrite P in C. apply NoDup_snoc_inv in C. auto.
  Qed.

  (* ------------------------------------------------------------ a reachable cycle is never swallowed *)
  (* every active include-file line of an expanded object list has its own sub-derivation *)
  Lemma Expands_targets : forall chk,
    (forall stack file out, Ex chk stack file out -> True) /\
    (forall stack rd l out, ExL chk stack rd l out ->
       forall x, In x (targets l) -> exists out', Ex chk stack (resolve rd x) out') /\
    (forall stack rd o out, ExO chk stack rd o out ->
       forall x, In x (targets_o o) -> exists out', Ex chk stack (resolve rd x) out').
  Proof.
    intro chk. apply Expands_mut; intros; auto.
    - destruct H.
    - cbn [targets] in H3. apply in_app_or in H3. destruct H3; eauto.
    - destruct o; [rewrite targets_def in H0 | rewrite targets_scp in H0];
        cbn [ohdr] in H; rewrite H in H0; destruct H0.
    - rewrite targets_def in H1. rewrite H in H1.
      apply inc_eqs_false in H0. rewrite H0 in H1. destruct H1.
    - rewrite targets_def in H4. rewrite H in H4.
      assert (E: eqs (oname h) s_include = true) by (apply inc_eqs_iff; auto).
      rewrite E, H1 in H4. cbn in H4. destruct H4 as [H4|[]]. subst. eauto.
    - rewrite targets_def in H3. rewrite H in H3.
      assert (E: eqs (oname h) s_include = true) by (apply inc_eqs_iff; auto).
      rewrite E, H1 in H3. destruct H3.
    - rewrite targets_scp in H2. rewrite H in H2. eauto.
  Qed.

  Lemma Expands_follows_chain : forall c stack file t,
    Ex true stack file t -> chain' (nrm cwd file :: c) ->
    (forall y, In y (nrm cwd file :: c) -> ~ In y stack) /\ NoDup (nrm cwd file :: c).
  Proof.
    induction c as [|m c IH]; intros stack file t HE CH;
      inversion HE as [s0 f0 objs out G NI HL]; subst.
    - split. intros y [Hy|[]]; subst; auto. constructor. intros []. constructor.
    - change (edge' (nrm cwd file) m /\ chain' (m :: c)) in CH. destruct CH as [E CH].
      destruct E as [objs' [x [G' [Hx Hm]]]]. rewrite G in G'. inversion G'; subst objs'.
      destruct (proj1 (proj2 (Expands_targets true)) _ _ _ _ HL x Hx) as [out' HE'].
      rewrite Hm in CH. destruct (IH _ _ _ HE' CH) as [A B]. rewrite <- Hm in *.
      split.
      + intros y [Hy|Hy]; subst; auto. intro HI. apply (A y Hy). apply in_or_app; auto.
      + constructor; auto. intro HI. apply (A _ HI). apply in_or_app. right. cbn. auto.
  Qed.

  Theorem cycle_never_ok : forall fuel file t,
    cyclic_from fs cwd (nrm cwd file) -> includes' fuel [] file <> Ok t.
  Proof.
    intros fuel file t [c [CH ND]] H. apply includes_sound in H.
    destruct (Expands_follows_chain _ _ _ _ H CH). auto.
  Qed.

  (* ------------------------------------------------------------ clean graphs: only a cycle can fail *)
  Definition good (r:res (list obj)) : Prop :=
    (exists t, r = Ok t) \/ (exists tok ln, r = UErr k_cycle tok ln) \/ r = Crash c_fuel.

  Lemma walks_clean : forall rec rd rd0,
    (forall o t0, walk' (fun _ => Ok []) rd0 o = Ok t0 ->
       (forall x, In x (targets_o o) -> good (rec (resolve rd x))) -> good (walk' rec rd o)) /\
    (forall l t0, walks' (fun _ => Ok []) rd0 l = Ok t0 ->
       (forall x, In x (targets l) -> good (rec (resolve rd x))) -> good (walks' rec rd l)).
  Proof.
    intros rec rd rd0. apply walk_walks_ind.
    - intros h ws a t0 H0 HT.
      destruct (walk_def_cases isc rec rd h ws a)
        as [C W T|x D N C W T|ip pp l D N C I W T|k D N K NFi NS W T]; rewrite W.
      + left; eauto.
      + apply HT. rewrite T. cbn. auto.
      + left; eauto.
      + exfalso.
        destruct (walk_def_cases isc (fun _ => Ok []) rd0 h ws a)
          as [C' W' T'|x' D' N' C' W' T'|ip' pp' l' D' N' C' I' W' T'|k' D' N' K' NFi' NS' W' T'];
          rewrite W' in H0; try discriminate.
        * destruct C' as [C'|[C1 C2]]; congruence.
        * eapply NFi; eauto.
        * eapply NS; eauto.
    - intros h ks a IH t0 H0 HT. rewrite walk_scp in *. rewrite targets_scp in HT.
      destruct (odis h). left; eauto.
      destruct (walks' (fun _ => Ok []) rd0 ks) eqn:E0; cbn [bind] in H0; try discriminate.
      destruct (IH _ eq_refl HT) as [[t E]|[[tok [ln E]]|E]]; rewrite E; cbn [bind].
      left; eauto. right; left; eauto. right; right; auto.
    - intros. left. cbn. eauto.
    - intros o l IHo IHl t0 H0 HT. rewrite walks_cons in *. cbn [targets] in HT.
      destruct (walk' (fun _ => Ok []) rd0 o) eqn:E0; cbn [bind] in H0; try discriminate.
      destruct (walks' (fun _ => Ok []) rd0 l) eqn:E1; cbn [bind] in H0; try discriminate.
      assert (Go: good (walk' rec rd o)).
      { eapply IHo; eauto. intros. apply HT. apply in_or_app; auto. }
      assert (Gl: good (walks' rec rd l)).
      { eapply IHl; eauto. intros. apply HT. apply in_or_app; auto. }
      destruct Go as [[t E]|[[tok [ln E]]|E]]; rewrite E; cbn [bind].
      + destruct Gl as [[t' E']|[[tok [ln E']]|E']]; rewrite E'; cbn [bind].
        left; eauto. right; left; eauto. right; right; auto.
      + right; left; eauto.
      + right; right; auto.
  Qed.

  Lemma includes_good : forall n0,
    (forall n, reach fs cwd n0 n -> clean isc fs n) ->
    forall fuel stack file, reach fs cwd n0 (nrm cwd file) -> good (includes' fuel stack file).
  Proof.
    intros n0 CL. induction fuel; intros stack file R.
    - right; right; reflexivity.
    - rewrite includes_unfold. destruct (CL _ R) as [objs [t0 [G W0]]]. rewrite G. cbn [bind].
      destruct (mems (nrm cwd file) stack). right; left; eauto.
      eapply (proj2 (walks_clean _ _ _)); eauto.
      intros x Hx. apply IHfuel. eapply reach_step; eauto. eapply edge_intro; eauto.
  Qed.

  Theorem cycle_reported : forall file,
    cyclic_from fs cwd (nrm cwd file) ->
    (forall n, reach fs cwd (nrm cwd file) n -> clean isc fs n) ->
    exists tok, includes_file isc fs cwd file = UErr k_cycle tok 0
                /\ genuine_cycle_report fs cwd [nrm cwd file] tok.
  Proof.
    intros file CY CL.
    destruct (includes_good _ CL (fuel0 fs) [] file (reach_refl _ _ _)) as [[t E]|[[tok [ln E]]|E]].
    - exfalso. eapply cycle_never_ok; eauto.
    - destruct (cycle_genuine _ _ _ _ _ E) as [L G]. cbn; auto. subst ln.
      exists tok. split; auto.
    - exfalso. eapply includes_file_terminates; eauto.
  Qed.

  (* ------------------------------------------------------------ acyclic graphs: the plain spec suffices *)
  Lemma hd_error_app : forall (A:Type) (l:list A) x y, hd_error l = Some x -> hd_error (l ++ y) = Some x.
  Proof. destruct l; cbn; intros; auto. discriminate. Qed.

  Lemma Expands_acyclic : forall n0, acyclic_from fs cwd n0 ->
    (forall stack file out, Ex false stack file out ->
       chain' (stack ++ [nrm cwd file]) -> hd_error (stack ++ [nrm cwd file]) = Some n0 ->
       Ex true stack file out) /\
    (forall stack rd l out, ExL false stack rd l out ->
       (forall x, In x (targets l) -> chain' (stack ++ [nrm cwd (resolve rd x)])) ->
       hd_error stack = Some n0 -> ExL true stack rd l out) /\
    (forall stack rd o out, ExO false stack rd o out ->
       (forall x, In x (targets_o o) -> chain' (stack ++ [nrm cwd (resolve rd x)])) ->
       hd_error stack = Some n0 -> ExO true stack rd o out).
  Proof.
    intros n0 AC. apply Expands_mut.
    - intros stack file objs out G _ HL IH CH HD.
      eapply Ex_file; eauto.
      + intros _. apply NoDup_snoc_inv.
        destruct (stack ++ [nrm cwd file]) as [|a c] eqn:E; cbn in HD; inversion HD; subst.
        apply AC; auto.
      + apply IH; auto. intros x Hx. apply chain_snoc; auto. eapply edge_intro; eauto.
    - intros. constructor.
    - intros stack rd o r a b HO IHO HL IHL HT HD. constructor.
      + apply IHO; auto. intros. apply HT. cbn [targets]. apply in_or_app; auto.
      + apply IHL; auto. intros. apply HT. cbn [targets]. apply in_or_app; auto.
    - intros. apply EO_disabled; auto.
    - intros. apply EO_def; auto.
    - intros stack rd h ws a x out D N C HE IH HT HD. eapply EO_file; eauto.
      apply IH.
      + apply HT. rewrite targets_def, D.
        assert (E: eqs (oname h) s_include = true) by (apply inc_eqs_iff; auto).
        rewrite E, C. cbn. auto.
      + apply hd_error_app; auto.
    - intros. eapply EO_scope; eauto.
    - intros stack rd h ks a ks' D HL IH HT HD. apply EO_scp; auto.
      apply IH; auto. intros. apply HT. rewrite targets_scp, D. auto.
  Qed.

  Theorem acyclic_inlining : forall file t,
    acyclic_from fs cwd (nrm cwd file) ->
    (includes_file isc fs cwd file = Ok t <-> Ex false [] file t).
  Proof.
    intros file t AC. split.
    - intro H. apply includes_file_iff in H. apply (proj1 Expands_weaken); auto.
    - intro H. apply includes_file_iff.
      apply (proj1 (Expands_acyclic _ AC)); cbn; auto.
  Qed.
End Main.

(* ---------------------------------------------------------------- path facts *)
Lemma initial_slashes_abs : forall p, isabs p = true -> exists k, initial_slashes p = S k.
Proof.
  destruct p as [|c1 [|c2 [|c3 r]]]; cbn; intros H; try discriminate; rewrite H; eauto;
    destruct (is_sl c2); eauto; destruct (is_sl c3); eauto.
Qed.

Lemma isabs_normpath : forall p, isabs p = true -> isabs (normpath p) = true.
Proof.
  intros p H. destruct (initial_slashes_abs p H) as [k E].
  destruct p as [|c r]. discriminate.
  unfold normpath. rewrite E. reflexivity.
Qed.

Lemma rstrip_nil : forall p, rstrip_sl p = [] -> all_sl p = true.
Proof.
  induction p as [|c r IH]; cbn; auto.
  destruct (rstrip_sl r) eqn:E.
  - destruct (is_sl c); intros; try discriminate. cbn. auto.
  - discriminate.
Qed.

Lemma isabs_dirname : forall p, isabs p = true -> isabs (dirname p) = true.
Proof.
  destruct p as [|c r]; cbn [isabs]; intro H. discriminate.
  unfold dirname. cbn [head_sl]. rewrite H.
  destruct (all_sl (c :: head_sl r)) eqn:A. cbn; auto.
  cbn [rstrip_sl]. destruct (rstrip_sl (head_sl r)) eqn:E.
  - apply rstrip_nil in E. unfold all_sl in A, E. cbn [forallb] in A. rewrite H, E in A. discriminate.
  - cbn. auto.
Qed.

Lemma isabs_resolve : forall d x, isabs d = true -> isabs (resolve (Some d) x) = true.
Proof.
  intros d x H. unfold resolve. destruct (isabs x) eqn:X; auto.
  unfold join. rewrite X. destruct d as [|c r]. discriminate.
  destruct (ends_sl (c :: r)); cbn in *; auto.
Qed.

Lemma nrm_abs : forall cwd file, isabs file = true -> nrm cwd file = normpath (normpath file).
Proof. intros. unfold nrm, abspath. rewrite H. reflexivity. Qed.

Lemma isabs_nrm : forall cwd file, isabs file = true -> isabs (nrm cwd file) = true.
Proof. intros. rewrite nrm_abs; auto. apply isabs_normpath. apply isabs_normpath. auto. Qed.

Section Cwd.
  Variable isc : str -> option str -> option (list obj).
  Variable fs : fsys.

  Lemma walks_ext : forall rec1 rec2 rd,
    (forall o, (forall x, In x (targets_o o) -> rec1 (resolve rd x) = rec2 (resolve rd x)) ->
       walk isc rec1 rd o = walk isc rec2 rd o) /\
    (forall l, (forall x, In x (targets l) -> rec1 (resolve rd x) = rec2 (resolve rd x)) ->
       walks isc rec1 rd l = walks isc rec2 rd l).
  Proof.
    intros rec1 rec2 rd. apply walk_walks_ind.
    - intros h ws a HT. rewrite !walk_def. rewrite targets_def in HT.
      destruct (odis h); auto. destruct (negb (eqs (oname h) s_include)); auto.
      unfold inc_def. destruct (classify ws); auto. apply HT. cbn. auto.
    - intros h ks a IH HT. rewrite !walk_scp. rewrite targets_scp in HT.
      destruct (odis h); auto. rewrite IH; auto.
    - auto.
    - intros o l IHo IHl HT. rewrite !walks_cons. cbn [targets] in HT.
      rewrite IHo, IHl; auto; intros; apply HT; apply in_or_app; auto.
  Qed.

  (* the current directory is irrelevant once the root name is absolute *)
  Theorem includes_cwd_indep : forall cwd1 cwd2 fuel stack file,
    isabs file = true ->
    includes isc fs cwd1 fuel stack file = includes isc fs cwd2 fuel stack file.
  Proof.
    intros cwd1 cwd2. induction fuel; intros stack file A. reflexivity.
    rewrite !includes_unfold. rewrite (nrm_abs cwd1 file A), (nrm_abs cwd2 file A).
    destruct (fs_get fs (fs_key (normpath (normpath file)))) as [objs|k t l|c]; cbn [bind];
      [|reflexivity|reflexivity].
    destruct (mems (normpath (normpath file)) stack); [reflexivity|].
    apply (proj2 (walks_ext _ _ _)). intros x _. apply IHfuel.
    apply isabs_resolve. apply isabs_dirname. apply isabs_normpath. apply isabs_normpath. auto.
  Qed.

  (* nested names: relative ones are looked up next to the including file, whatever cwd is *)
  Theorem resolve_next_to_includer : forall cwd n x,
    isabs n = true ->
    nrm cwd (resolve (Some (dirname n)) x)
    = normpath (normpath (if isabs x then x else join (dirname n) x)).
  Proof.
    intros. rewrite nrm_abs. reflexivity. apply isabs_resolve. apply isabs_dirname. auto.
  Qed.
End Cwd.

(* ---------------------------------------------------------------- statements as used by Properties/C13.v *)
Theorem includes_sound_spec : forall isc fs cwd fuel stack file t,
  includes isc fs cwd fuel stack file = Ok t ->
  Expands isc fs cwd true stack file t /\ Expands isc fs cwd false stack file t.
Proof.
  intros. apply includes_sound in H. split; auto. apply (proj1 (Expands_weaken isc fs cwd)); auto.
Qed.

Theorem includes_complete_entry : forall isc fs cwd file t,
  Expands isc fs cwd true [] file t -> includes_file isc fs cwd file = Ok t.
Proof. intros. apply includes_file_iff; auto. Qed.

Theorem cycle_detected : forall isc fs cwd file,
  cyclic_from fs cwd (nrm cwd file) ->
  (forall t, includes_file isc fs cwd file <> Ok t) /\
  ((forall n, reach fs cwd (nrm cwd file) n -> clean isc fs n) ->
   exists tok, includes_file isc fs cwd file = UErr k_cycle tok 0
               /\ genuine_cycle_report fs cwd [nrm cwd file] tok).
Proof.
  intros. split. intros t. apply cycle_never_ok; auto. apply cycle_reported; auto.
Qed.

Theorem cycle_report_genuine : forall isc fs cwd file tok ln,
  includes_file isc fs cwd file = UErr k_cycle tok ln ->
  ln = 0 /\ genuine_cycle_report fs cwd [nrm cwd file] tok.
Proof. intros. eapply (cycle_genuine isc fs cwd _ [] file); eauto. cbn. auto. Qed.

Theorem no_false_cycle_entry : forall isc fs cwd file tok ln,
  acyclic_from fs cwd (nrm cwd file) -> includes_file isc fs cwd file <> UErr k_cycle tok ln.
Proof. intros. apply no_false_cycle; auto. Qed.

Theorem terminates_entry : forall isc fs cwd,
  (forall file, includes_file isc fs cwd file <> Crash c_fuel) /\
  (forall objs, includes_string isc fs cwd objs <> Crash c_fuel).
Proof. intros. split. apply includes_file_terminates. apply includes_string_terminates. Qed.

Theorem relative_to_includer : forall isc fs cwd1 cwd2,
  (forall file, isabs file = true -> includes_file isc fs cwd1 file = includes_file isc fs cwd2 file) /\
  (forall n x, isabs n = true ->
     nrm cwd1 (resolve (Some (dirname n)) x)
     = normpath (normpath (if isabs x then x else join (dirname n) x))).
Proof.
  intros. split. intros. apply includes_cwd_indep; auto. intros. apply resolve_next_to_includer; auto.
Qed.
