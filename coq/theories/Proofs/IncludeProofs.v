(* Proofs for C13 (include processing). *)
From Coq Require Import List Ascii String Bool Arith ZArith Lia.
From Phil Require Import Base Tree Include IncludeSpec.
Import ListNotations.

(* ---------------------------------------------------------------- strings *)
Lemma inc_eqs_refl : forall a, eqs a a = true.
Proof. induction a; cbn; auto. rewrite Ascii.eqb_refl. auto. Qed.

Lemma inc_eqs_eq : forall a b, eqs a b = true -> a = b.
Proof.
  induction a; destruct b; cbn; intros; try discriminate; auto.
  apply andb_true_iff in H. destruct H as [H1 H2]. apply Ascii.eqb_eq in H1. subst.
  f_equal. auto.
Qed.

Lemma inc_eqs_iff : forall a b, eqs a b = true <-> a = b.
Proof. split. apply inc_eqs_eq. intros ->. apply inc_eqs_refl. Qed.

Lemma inc_eqs_false : forall a b, eqs a b = false <-> a <> b.
Proof.
  intros. split; intros.
  - intros ->. rewrite inc_eqs_refl in H. discriminate.
  - destruct (eqs a b) eqn:E; auto. apply inc_eqs_eq in E. contradiction.
Qed.

Lemma inc_mems_In : forall x l, mems x l = true <-> In x l.
Proof.
  unfold mems. intros. rewrite existsb_exists. split.
  - intros [y [Hy E]]. apply inc_eqs_eq in E. subst. auto.
  - intros. exists x. split; auto. apply inc_eqs_refl.
Qed.

Lemma inc_mems_false : forall x l, mems x l = false <-> ~ In x l.
Proof.
  intros. rewrite <- inc_mems_In. destruct (mems x l); split; intros; try discriminate; auto.
  exfalso. auto.
Qed.

(* ---------------------------------------------------------------- walk / walks *)
Lemma walk_walks_ind (P : obj -> Prop) (Q : list obj -> Prop) :
  (forall h ws a, P (Def h ws a)) ->
  (forall h ks a, Q ks -> P (Scp h ks a)) ->
  Q [] -> (forall o r, P o -> Q r -> Q (o :: r)) ->
  (forall o, P o) /\ (forall l, Q l).
Proof.
  intros HD HS HN HC.
  assert (HP: forall o, P o).
  { induction o using obj_ind2. apply HD. apply HS. induction H; auto. }
  split; auto. induction l; auto.
Qed.

Section W.
  Variable isc : str -> option str -> option (list obj).

  Lemma walk_scp : forall rec rd h ks a,
    walk isc rec rd (Scp h ks a) =
    if odis h then Ok [Scp h ks a]
    else do ks' <- walks isc rec rd ks; Ok [Scp (with_tmpl h 0%Z) ks' a].
  Proof. reflexivity. Qed.

  Lemma walks_cons : forall rec rd o r,
    walks isc rec rd (o :: r) = do x <- walk isc rec rd o; do y <- walks isc rec rd r; Ok (x ++ y).
  Proof. reflexivity. Qed.

  Lemma targets_scp : forall h ks a,
    targets_o (Scp h ks a) = if odis h then [] else targets ks.
  Proof. reflexivity. Qed.
End W.

Lemma classify_err_kind : forall ws k, classify ws = IKErr k -> k = k_args \/ k = k_unknown.
Proof.
  intros ws k. unfold classify. destruct (existsb has_dollar ws). discriminate.
  destruct ws as [|w0 [|w1 rest]].
  - intros H; inversion H; auto.
  - intros H; inversion H; auto.
  - cbv zeta. destruct (eqs (lowers (wv w0)) (s_ "file")).
    + destruct rest; intros H; inversion H; auto.
    + destruct (eqs (lowers (wv w0)) (s_ "scope")).
      * destruct rest as [|w2 [|w3 r]]; intros H; inversion H; auto.
      * intros H; inversion H; auto.
Qed.

(* errors that the walk raises by itself (never IncludeCycle, never OutOfFuel) *)
Definition own_kind (k:str) : Prop := k = k_args \/ k = k_unknown \/ k = k_unmodelled.

Inductive def_case (isc : str -> option str -> option (list obj)) (rec : str -> res (list obj))
          (rd:option str) (h:hdr) (ws:list word) (a:attrs) : Prop :=
| DC_copy :
    (odis h = true \/ (odis h = false /\ oname h <> s_include)) ->
    walk isc rec rd (Def h ws a) = Ok [Def h ws a] -> targets_o (Def h ws a) = [] ->
    def_case isc rec rd h ws a
| DC_file : forall x,
    odis h = false -> oname h = s_include -> classify ws = IKFile x ->
    walk isc rec rd (Def h ws a) = rec (resolve rd x) -> targets_o (Def h ws a) = [x] ->
    def_case isc rec rd h ws a
| DC_scope : forall ip pp l,
    odis h = false -> oname h = s_include -> classify ws = IKScope ip pp -> isc ip pp = Some l ->
    walk isc rec rd (Def h ws a) = Ok l -> targets_o (Def h ws a) = [] ->
    def_case isc rec rd h ws a
| DC_err : forall k,
    odis h = false -> oname h = s_include -> own_kind k ->
    (forall x, classify ws <> IKFile x) ->
    (forall ip pp l, classify ws = IKScope ip pp -> isc ip pp <> Some l) ->
    walk isc rec rd (Def h ws a) = UErr k [] (oline h) -> targets_o (Def h ws a) = [] ->
    def_case isc rec rd h ws a.

Lemma walk_def : forall isc rec rd h ws a,
  walk isc rec rd (Def h ws a) =
  if odis h then Ok [Def h ws a]
  else if negb (eqs (oname h) s_include) then Ok [Def h ws a] else inc_def isc rec rd h ws.
Proof. reflexivity. Qed.
Lemma targets_def : forall h ws a,
  targets_o (Def h ws a) =
  if odis h then [] else if negb (eqs (oname h) s_include) then []
  else match classify ws with IKFile x => [x] | _ => [] end.
Proof. reflexivity. Qed.

Lemma walk_def_cases : forall isc rec rd h ws a, def_case isc rec rd h ws a.
Proof.
  intros. destruct (odis h) eqn:D.
  - apply DC_copy; auto; [rewrite walk_def | rewrite targets_def]; rewrite D; auto.
  - destruct (eqs (oname h) s_include) eqn:E.
    + assert (N: oname h = s_include) by (apply inc_eqs_eq; auto).
      assert (W: walk isc rec rd (Def h ws a) = inc_def isc rec rd h ws)
        by (rewrite walk_def, D, E; reflexivity).
      assert (T: targets_o (Def h ws a) = match classify ws with IKFile x => [x] | _ => [] end)
        by (rewrite targets_def, D, E; reflexivity).
      unfold inc_def in W.
      destruct (classify ws) eqn:C.
      * apply DC_err with (k:=k_unmodelled); auto; unfold own_kind; auto; congruence.
      * destruct (classify_err_kind ws k C) as [K|K]; subst k.
        -- apply DC_err with (k:=k_args); auto; unfold own_kind; auto; congruence.
        -- apply DC_err with (k:=k_unknown); auto; unfold own_kind; auto; congruence.
      * eapply DC_file; eauto.
      * destruct (isc import_path phil_path) eqn:I.
        -- eapply DC_scope; eauto.
        -- apply DC_err with (k:=k_unmodelled); auto; unfold own_kind; auto; try congruence.
    + apply DC_copy.
      * right. split; auto. apply inc_eqs_false; auto.
      * rewrite walk_def, D, E. reflexivity.
      * rewrite targets_def, D, E. reflexivity.
Qed.
