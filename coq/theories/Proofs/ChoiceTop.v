(* Proofs about Model/Choice.v, part 2: choice_fetch as a whole, from_words, their composition,
   and the concrete witnesses. *)
From Coq Require Import List Ascii String Bool Arith ZArith Lia.
From Phil Require Import Base Tree Choice ChoiceProofs.
Import ListNotations.
Local Open Scope char_scope.

(* ---------- well-formed masters (domain of the statements that speak about names) *)
Fixpoint nodup_keys (l:list str) : bool :=
  match l with [] => true | k :: r => negb (mems k r) && nodup_keys r end.
Definition wf_alt (w:word) : bool :=
  negb (starts_star (unstar (wv w))) && negb (eqs (key w) (s_ "none")) && negb (eqs (key w) (s_ "auto")).
Definition wf_choice_master (m:list word) : bool :=
  match m with [] => false | _ => true end && nodup_keys (keys m) && forallb wf_alt m.

Definition master_ok (m:list word) : bool := negb (is_plain_none m) && negb (is_plain_auto m).

(* the two selection loops behind one name *)
Definition sel_loop (mand:bool) (m src:list word) (ign:bool) (fl0:flags) : lres :=
  if mand || negb (is_plain_none src) then
    if plus_form m src then pieces_loop (plus_pieces src) fl0
    else normal_loop (length src =? 1)%nat ign src fl0
  else LOk fl0.

Lemma fetch_unfold : forall opt m src ign,
  master_ok m = true -> is_plain_auto src = false ->
  choice_fetch_x opt m src ign =
    match sel_loop (mandatory opt) m src ign (init_flags m []) with
    | LBad v l => FNotAChoice v l (map wv m)
    | LOk fl => rebuild m fl
    end.
Proof.
  intros opt m src ign M A. unfold master_ok in M. apply andb_true_iff in M. destruct M as [M1 M2].
  apply negb_true_iff in M1, M2. unfold choice_fetch_x, sel_loop. rewrite M1, M2, A.
  rewrite process_plus_spec. rewrite plus_loop_pieces. reflexivity.
Qed.
Lemma fetch_crash : forall opt m src ign,
  master_ok m = false -> choice_fetch_x opt m src ign = FCrash (s_ "AssertionError").
Proof.
  intros opt m src ign M. unfold master_ok in M. unfold choice_fetch_x.
  destruct (is_plain_none m); [reflexivity|]. destruct (is_plain_auto m); [reflexivity | discriminate].
Qed.
Lemma fetch_auto : forall opt m src ign,
  master_ok m = true -> is_plain_auto src = true -> choice_fetch_x opt m src ign = FOk [uw (s_ "Auto")].
Proof.
  intros opt m src ign M A. unfold master_ok in M. apply andb_true_iff in M. destruct M as [M1 M2].
  apply negb_true_iff in M1, M2. unfold choice_fetch_x. rewrite M1, M2, A. reflexivity.
Qed.
Lemma fetch_ok_master_ok : forall opt m src ign r, choice_fetch_x opt m src ign = FOk r -> master_ok m = true.
Proof.
  intros opt m src ign r H. destruct (master_ok m) eqn:M; [reflexivity|].
  rewrite (fetch_crash opt m src ign M) in H. discriminate.
Qed.
Lemma fetch_res_ok : forall opt m src ign r,
  choice_fetch opt m src ign = Ok r <-> choice_fetch_x opt m src ign = FOk r.
Proof.
  intros. unfold choice_fetch. destruct (choice_fetch_x opt m src ign); cbn; split; intro H; inversion H; reflexivity.
Qed.

Lemma init_get_master : forall m w, In w m -> fget (key w) (init_flags m []) = Some false.
Proof.
  intros m w H. rewrite fget_init. replace (mems (key w) (keys m)) with true; [reflexivity|].
  symmetry. apply mems_In. unfold keys. apply in_map. exact H.
Qed.
Lemma init_has_master : forall m w, In w m -> fhas (key w) (init_flags m []) = true.
Proof. intros m w H. unfold fhas. rewrite (init_get_master m w H). reflexivity. Qed.

(* ---------- selection: the one equation behind C11_alternatives_kept and C11_selection *)
Theorem fetch_ok_spec : forall opt m src ign r,
  choice_fetch_x opt m src ign = FOk r -> is_plain_auto src = false ->
  r = map (fun w => restar (requested (mandatory opt) m src (key w)) w) m.
Proof.
  intros opt m src ign r H A. pose proof (fetch_ok_master_ok _ _ _ _ _ H) as M.
  rewrite (fetch_unfold opt m src ign M A) in H.
  assert (G : forall fl, (forall w, In w m -> fget (key w) fl = Some (requested (mandatory opt) m src (key w))) ->
                         rebuild m fl = FOk r -> r = map (fun w => restar (requested (mandatory opt) m src (key w)) w) m).
  { intros fl Hfl Hr. rewrite (rebuild_spec (requested (mandatory opt) m src) m fl Hfl) in Hr. inversion Hr. reflexivity. }
  unfold sel_loop in H.
  destruct (mandatory opt || negb (is_plain_none src)) eqn:Gd.
  - assert (Gd' : negb (mandatory opt) && is_plain_none src = false).
    { destruct (mandatory opt); [reflexivity|]. cbn in *. apply negb_true_iff in Gd. exact Gd. }
    destruct (plus_form m src) eqn:P.
    + destruct (pieces_loop (plus_pieces src) (init_flags m [])) as [fl|v l] eqn:L; [|discriminate].
      apply (G fl); [|exact H]. intros w Hw. unfold requested. rewrite Gd', P.
      rewrite (pieces_get _ _ _ (key w) L). fold (plus_names src).
      destruct (mems (key w) (map lowers (plus_names src))); [reflexivity | apply init_get_master; exact Hw].
    + destruct (normal_loop (length src =? 1)%nat ign src (init_flags m [])) as [fl|v l] eqn:L; [|discriminate].
      apply (G fl); [|exact H]. intros w Hw. unfold requested. rewrite Gd', P.
      rewrite (normal_get _ _ _ _ _ (key w) (init_has_master m w Hw) L).
      destruct (last_match (key w) src); [reflexivity | apply init_get_master; exact Hw].
  - assert (Gd' : negb (mandatory opt) && is_plain_none src = true).
    { apply orb_false_iff in Gd. destruct Gd as [G1 G2]. rewrite G1. apply negb_false_iff in G2. rewrite G2. reflexivity. }
    apply (G (init_flags m [])); [|exact H]. intros w Hw. unfold requested. rewrite Gd'.
    apply init_get_master. exact Hw.
Qed.

Lemma unstar_star : forall x, unstar (star :: x) = x.
Proof. reflexivity. Qed.
Lemma unstar_fix : forall x, starts_star x = false -> unstar x = x.
Proof. intros x H. unfold unstar. rewrite H. reflexivity. Qed.

Lemma wf_forall : forall m, wf_choice_master m = true -> forall w, In w m -> wf_alt w = true.
Proof.
  intros m H. unfold wf_choice_master in H. apply andb_true_iff in H. destruct H as [_ H].
  rewrite forallb_forall in H. exact H.
Qed.
Lemma wf_alt_nostar : forall w, wf_alt w = true -> starts_star (unstar (wv w)) = false.
Proof.
  intros w H. unfold wf_alt in H. apply andb_true_iff in H. destruct H as [H _].
  apply andb_true_iff in H. destruct H as [H _]. apply negb_true_iff in H. exact H.
Qed.

Theorem alternatives_kept : forall opt m src ign r,
  choice_fetch opt m src ign = Ok r ->
  (is_plain_auto src = true -> r = [uw (s_ "Auto")]) /\
  (is_plain_auto src = false ->
     length r = length m /\ map wq r = map wq m /\ map wline r = map wline m
     /\ Forall2 (fun a b => wv a = unstar (wv b) \/ wv a = star :: unstar (wv b)) r m
     /\ (wf_choice_master m = true -> map (fun w => unstar (wv w)) r = map (fun w => unstar (wv w)) m)).
Proof.
  intros opt m src ign r H. apply fetch_res_ok in H. split; intro A.
  - rewrite (fetch_auto opt m src ign (fetch_ok_master_ok _ _ _ _ _ H) A) in H. inversion H. reflexivity.
  - pose proof (fetch_ok_spec _ _ _ _ _ H A) as E. subst r.
    repeat split.
    + apply map_length.
    + rewrite map_map. reflexivity.
    + rewrite map_map. reflexivity.
    + clear H. generalize (requested (mandatory opt) m src). intro sel.
      induction m as [|w m' IH]; cbn; constructor; [|exact IH].
      destruct (sel (key w)); cbn; [right | left]; reflexivity.
    + intro W. rewrite map_map. apply map_ext_in. intros w Hw. cbn.
      destruct (requested (mandatory opt) m src (key w)); [apply unstar_star|].
      apply unstar_fix. apply wf_alt_nostar. apply (wf_forall m W w Hw).
Qed.

Theorem selection : forall opt m src ign r,
  choice_fetch opt m src ign = Ok r -> is_plain_auto src = false ->
  r = map (fun w => restar (requested (mandatory opt) m src (key w)) w) m
  /\ (wf_choice_master m = true ->
        map (fun w => starts_star (wv w)) r = map (fun w => requested (mandatory opt) m src (key w)) m).
Proof.
  intros opt m src ign r H A. apply fetch_res_ok in H.
  pose proof (fetch_ok_spec _ _ _ _ _ H A) as E. split; [exact E|].
  intro W. subst r. rewrite map_map. apply map_ext_in. intros w Hw. cbn.
  destruct (requested (mandatory opt) m src (key w)); [reflexivity|].
  apply wf_alt_nostar. apply (wf_forall m W w Hw).
Qed.

(* "the last occurrence decides" spelled out for the normal form *)
Lemma last_match_app_last : forall k pre w post,
  key w = k -> (forall p, In p post -> key p <> k) -> last_match k (pre ++ w :: post) = Some w.
Proof.
  intros k. induction pre as [|x pre IH]; intros w post Hk Hp.
  - cbn [app last_match].
    assert (N : last_match k post = None).
    { induction post as [|p post IHp]; [reflexivity|]. cbn [last_match].
      rewrite IHp by (intros q Hq; apply Hp; right; exact Hq).
      replace (eqs (key p) k) with false; [reflexivity|].
      symmetry. apply eqs_false_iff. apply Hp. left. reflexivity. }
    rewrite N. rewrite Hk. rewrite eqs_refl. reflexivity.
  - cbn [app last_match]. rewrite (IH w post Hk Hp). reflexivity.
Qed.

Theorem last_occurrence_decides : forall opt m pre w post ign r a,
  let src := pre ++ w :: post in
  choice_fetch opt m src ign = Ok r -> is_plain_auto src = false ->
  (mandatory opt || negb (is_plain_none src)) = true -> plus_form m src = false ->
  (forall p, In p post -> key p <> key w) ->
  In a m -> key a = key w ->
  In (restar (starts_star (wv w) || (length src =? 1)%nat) a) r.
Proof.
  intros opt m pre w post ign r a src H A G P Hp Ha Hk.
  destruct (selection _ _ _ _ _ H A) as [E _]. rewrite E. apply in_map_iff. exists a. split; [|exact Ha].
  f_equal. unfold requested.
  replace (negb (mandatory opt) && is_plain_none src) with false.
  - rewrite P. rewrite Hk. unfold src. rewrite (last_match_app_last (key w) pre w post eq_refl Hp). reflexivity.
  - symmetry. destruct (mandatory opt); [reflexivity|]. cbn in *. apply negb_true_iff in G. exact G.
Qed.

Theorem none_clears : forall opt m src ign,
  mandatory opt = false -> is_plain_none src = true ->
  choice_fetch opt m src ign =
    if master_ok m then Ok (map (restar false) m) else Crash (s_ "AssertionError").
Proof.
  intros opt m src ign Hm Hn. unfold choice_fetch. destruct (master_ok m) eqn:M.
  - assert (A : is_plain_auto src = false).
    { unfold is_plain_none, is_plain_auto, is_plain in *. destruct src as [|w [|? ?]]; try discriminate.
      apply andb_true_iff in Hn. destruct Hn as [_ Hn]. apply eqs_true_iff in Hn. rewrite Hn.
      rewrite andb_false_r. reflexivity. }
    rewrite (fetch_unfold opt m src ign M A). unfold sel_loop. rewrite Hm, Hn. cbn [orb negb].
    rewrite (rebuild_spec (fun _ => false) m _ (init_get_master m)). reflexivity.
  - rewrite (fetch_crash opt m src ign M). reflexivity.
Qed.

(* ---------- errors *)
Lemma existsb_false : forall {A} (f:A -> bool) l, (forall x, In x l -> f x = false) -> existsb f l = false.
Proof.
  intros A f. induction l as [|x l IH]; intro H; [reflexivity|]. cbn.
  rewrite (H x (or_introl eq_refl)). rewrite IH; [reflexivity | intros y Hy; apply H; right; exact Hy].
Qed.

Theorem unknown_selected_errors : forall opt m pre w post,
  let src := pre ++ w :: post in
  let sg := (length src =? 1)%nat in
  master_ok m = true -> is_plain_auto src = false ->
  (mandatory opt || negb (is_plain_none src)) = true -> plus_form m src = false ->
  flagged sg w = true -> mems (key w) (keys m) = false ->
  (forall p, In p pre -> flagged sg p = true -> mems (key p) (keys m) = true) ->
  choice_fetch_x opt m src false = FNotAChoice (unstar (wv w)) (wline w) (map wv m).
Proof.
  intros opt m pre w post src sg M A G P F U Hpre.
  rewrite (fetch_unfold opt m src false M A). unfold sel_loop. rewrite G, P. fold sg. unfold src.
  rewrite normal_app.
  destruct (normal_pre_ok sg false pre (init_flags m [])) as [fl' L].
  { intros p Hp Fp. rewrite fhas_init. apply Hpre; assumption. }
  rewrite L. rewrite normal_step. rewrite F.
  rewrite (normal_keys _ _ _ _ _ L (key w)). rewrite fhas_init, U. reflexivity.
Qed.

(* first element satisfying a test *)
Lemma first_such : forall {A} (f:A -> bool) l,
  existsb f l = true ->
  exists pre x post, l = pre ++ x :: post /\ f x = true /\ (forall y, In y pre -> f y = false).
Proof.
  intros A f. induction l as [|a l IH]; intro H; [discriminate|].
  cbn in H. destruct (f a) eqn:Fa.
  - exists [], a, l. split; [reflexivity|]. split; [exact Fa|]. intros y [].
  - cbn in H. destruct (IH H) as [pre [x [post [E [Fx Hpre]]]]].
    exists (a :: pre), x, post. subst l. split; [reflexivity|]. split; [exact Fx|].
    intros y [Hy|Hy]; [subst y; exact Fa | apply Hpre; exact Hy].
Qed.

Lemma lower_plus : forall c, Ascii.eqb (lower c) plus = Ascii.eqb c plus.
Proof. intros [[] [] [] [] [] [] [] []]; vm_compute; reflexivity. Qed.
Lemma mem_plus_lowers : forall s, mem plus (lowers s) = mem plus s.
Proof.
  unfold lowers. induction s as [|c s IH]; [reflexivity|]. cbn [map mem]. rewrite IH.
  rewrite (Ascii.eqb_sym plus (lower c)), (Ascii.eqb_sym plus c), lower_plus. reflexivity.
Qed.
Lemma plus_form0_not_plain : forall src name,
  mem plus name = false -> plus_form0 src = true -> is_plain name src = false.
Proof.
  intros src name Hn P. unfold is_plain. destruct src as [|w [|? ?]]; try reflexivity.
  unfold plus_form0 in P. apply andb_true_iff in P. destruct P as [P _].
  apply andb_true_iff in P. destruct P as [_ P]. cbn in P. rewrite orb_false_r in P.
  eqs_case (lowers (wv w)) name; [|apply andb_false_r].
  rewrite <- mem_plus_lowers in P. rewrite E in P. congruence.
Qed.
Lemma plus_form0_guard : forall src mand,
  plus_form0 src = true -> is_plain_auto src = false /\ (mand || negb (is_plain_none src)) = true.
Proof.
  intros src mand P. split.
  - apply (plus_form0_not_plain src (s_ "auto")); [reflexivity | exact P].
  - unfold is_plain_none. rewrite (plus_form0_not_plain src (s_ "none")); [apply orb_true_r | reflexivity | exact P].
Qed.
Lemma plus_form_not_plain : forall m src name,
  mem plus name = false -> plus_form m src = true -> is_plain name src = false.
Proof.
  intros m src name Hn P. apply plus_form_true_inv in P. destruct P as [_ P].
  apply plus_form0_not_plain; assumption.
Qed.
Lemma plus_form_guard : forall m src mand,
  plus_form m src = true -> is_plain_auto src = false /\ (mand || negb (is_plain_none src)) = true.
Proof.
  intros m src mand P. apply plus_form_true_inv in P. destruct P as [_ P].
  apply plus_form0_guard. exact P.
Qed.

Theorem unknown_selected_errors_plus : forall opt m src ign pre v l post,
  master_ok m = true -> plus_form m src = true ->
  plus_pieces src = pre ++ (v, l) :: post ->
  (forall p, In p pre -> mems (lowers (fst p)) (keys m) = true) -> mems (lowers v) (keys m) = false ->
  choice_fetch_x opt m src ign = FNotAChoice v l (map wv m).
Proof.
  intros opt m src ign pre v l post M P E Hpre Hv.
  destruct (plus_form_guard m src (mandatory opt) P) as [A G].
  rewrite (fetch_unfold opt m src ign M A). unfold sel_loop. rewrite G, P, E.
  rewrite (pieces_first_bad pre v l post); [reflexivity | |].
  - intros p Hp. rewrite fhas_init. apply Hpre. exact Hp.
  - rewrite fhas_init. exact Hv.
Qed.

(* a selected name that is not an alternative is never dropped: some error is raised *)
Theorem selected_unknown_never_dropped : forall opt m src,
  master_ok m = true -> is_plain_auto src = false ->
  (mandatory opt || negb (is_plain_none src)) = true ->
  (plus_form m src = false ->
     (exists w, In w src /\ flagged (length src =? 1)%nat w = true /\ mems (key w) (keys m) = false) ->
     exists w, In w src /\ flagged (length src =? 1)%nat w = true /\ mems (key w) (keys m) = false
       /\ choice_fetch_x opt m src false = FNotAChoice (unstar (wv w)) (wline w) (map wv m)) /\
  (plus_form m src = true -> forall ign,
     (exists n, In n (plus_names src) /\ mems (lowers n) (keys m) = false) ->
     exists v l, In (v, l) (plus_pieces src) /\ mems (lowers v) (keys m) = false
       /\ choice_fetch_x opt m src ign = FNotAChoice v l (map wv m)).
Proof.
  intros opt m src M A G. split.
  - intros P [w [Hw [Fw Uw]]].
    set (bad := fun x => flagged (length src =? 1)%nat x && negb (mems (key x) (keys m))).
    assert (Ex : existsb bad src = true).
    { apply existsb_exists. exists w. split; [exact Hw|]. unfold bad. rewrite Fw, Uw. reflexivity. }
    destruct (first_such bad src Ex) as [pre [x [post [E [Bx Hpre]]]]].
    unfold bad in Bx. apply andb_true_iff in Bx. destruct Bx as [Fx Ux]. apply negb_true_iff in Ux.
    exists x. split; [rewrite E; apply in_or_app; right; left; reflexivity|].
    split; [exact Fx|]. split; [exact Ux|].
    subst src. apply unknown_selected_errors; try assumption.
    intros p Hp Fp. pose proof (Hpre p Hp) as B. unfold bad in B. rewrite Fp in B. cbn in B.
    apply negb_false_iff in B. exact B.
  - intros P ign [n [Hn Un]].
    set (bad := fun p : str * nat => negb (mems (lowers (fst p)) (keys m))).
    assert (Ex : existsb bad (plus_pieces src) = true).
    { unfold plus_names in Hn. apply in_map_iff in Hn. destruct Hn as [[v l] [E Hp]]. cbn in E. subst v.
      apply existsb_exists. exists (n, l). split; [exact Hp|]. unfold bad. cbn [fst]. rewrite Un. reflexivity. }
    destruct (first_such bad _ Ex) as [pre [[v l] [post [E [Bx Hpre]]]]].
    unfold bad in Bx. cbn [fst] in Bx. apply negb_true_iff in Bx.
    exists v, l. split; [rewrite E; apply in_or_app; right; left; reflexivity|]. split; [exact Bx|].
    apply (unknown_selected_errors_plus opt m src ign pre v l post M P E); [|exact Bx].
    intros p Hp. pose proof (Hpre p Hp) as B. unfold bad in B. apply negb_false_iff in B. exact B.
Qed.

(* the "+" form is case-insensitive like the other spellings *)
Theorem plus_case_insensitive : forall opt m src ign,
  master_ok m = true -> plus_form m src = true ->
  (forall n, In n (plus_names src) -> mems (lowers n) (keys m) = true) ->
  choice_fetch opt m src ign =
    Ok (map (fun w => restar (mems (key w) (map lowers (plus_names src))) w) m).
Proof.
  intros opt m src ign M P H.
  destruct (plus_form_guard m src (mandatory opt) P) as [A G].
  unfold choice_fetch. rewrite (fetch_unfold opt m src ign M A). unfold sel_loop. rewrite G, P.
  assert (Ok' : exists fl, pieces_loop (plus_pieces src) (init_flags m []) = LOk fl).
  { destruct (pieces_loop (plus_pieces src) (init_flags m [])) as [fl|v l] eqn:L; [exists fl; reflexivity|].
    destruct (pieces_bad_sound _ _ _ _ L) as [pre [post [E [Hv _]]]].
    rewrite fhas_init in Hv. rewrite H in Hv; [discriminate|].
    unfold plus_names. rewrite E. rewrite map_app. apply in_or_app. right. left. reflexivity. }
  destruct Ok' as [fl L]. rewrite L.
  rewrite (rebuild_spec (fun k => mems k (map lowers (plus_names src))) m fl); [reflexivity|].
  intros w Hw. rewrite (pieces_get _ _ _ (key w) L). fold (plus_names src).
  destruct (mems (key w) (map lowers (plus_names src))); [reflexivity | apply init_get_master; exact Hw].
Qed.

(* every error is "not a possible choice", names a selected name of the source that is not
   (up to case) an alternative, and lists the master's words *)
Theorem error_sound : forall opt m src ign v l alts,
  choice_fetch_x opt m src ign = FNotAChoice v l alts ->
  alts = map wv m /\
  (plus_form m src = false ->
     ign = false /\ exists pre w post, src = pre ++ w :: post /\ v = unstar (wv w) /\ l = wline w
       /\ flagged (length src =? 1)%nat w = true /\ mems (key w) (keys m) = false) /\
  (plus_form m src = true -> In (v, l) (plus_pieces src) /\ mems (lowers v) (keys m) = false).
Proof.
  intros opt m src ign v l alts H.
  destruct (master_ok m) eqn:M; [|rewrite (fetch_crash _ _ _ _ M) in H; discriminate].
  destruct (is_plain_auto src) eqn:A; [rewrite (fetch_auto _ _ _ _ M A) in H; discriminate|].
  rewrite (fetch_unfold opt m src ign M A) in H.
  assert (R : forall fl, rebuild m fl <> FNotAChoice v l alts).
  { intro fl. clear. induction m as [|w m IH]; cbn; [discriminate|].
    destruct (fget (lowers (unstar (wv w))) fl); [|discriminate].
    destruct (rebuild m fl); [discriminate | exact IH | discriminate]. }
  unfold sel_loop in H.
  destruct (mandatory opt || negb (is_plain_none src)); [|exfalso; exact (R _ H)].
  destruct (plus_form m src) eqn:P.
  - destruct (pieces_loop (plus_pieces src) (init_flags m [])) as [fl|v' l'] eqn:L; [exfalso; exact (R _ H)|].
    inversion H; subst. split; [reflexivity|]. split; [discriminate|]. intros _.
    destruct (pieces_bad_sound _ _ _ _ L) as [pre [post [E [Hv _]]]].
    rewrite E. split; [apply in_or_app; right; left; reflexivity|]. rewrite <- fhas_init. exact Hv.
  - destruct (normal_loop (length src =? 1)%nat ign src (init_flags m [])) as [fl|v' l'] eqn:L; [exfalso; exact (R _ H)|].
    inversion H; subst. split; [reflexivity|]. split; [|discriminate]. intros _.
    destruct (normal_bad_sound _ _ _ _ _ _ L) as [Ei [pre [w [post [E [E1 [E2 [E3 [E4 _]]]]]]]]].
    split; [exact Ei|]. exists pre, w, post. rewrite fhas_init in E4. repeat split; assumption.
Qed.

Theorem ignore_errors_normal : forall opt m src v l alts,
  plus_form m src = false -> choice_fetch_x opt m src true <> FNotAChoice v l alts.
Proof.
  intros opt m src v l alts P H. apply error_sound in H. destruct H as [_ [H _]].
  destruct (H P) as [E _]. discriminate.
Qed.

(* ---------- unselected unknown names *)
Lemma len2_not_plain : forall name src, (2 <= length src)%nat -> is_plain name src = false.
Proof. intros name src H. unfold is_plain. destruct src as [|a [|b r]]; cbn in H; try lia; reflexivity. Qed.
Lemma len2_not_single : forall {A} (l:list A), (2 <= length l)%nat -> (length l =? 1)%nat = false.
Proof. intros A l H. apply Nat.eqb_neq. lia. Qed.

Theorem unknown_unselected_ignored : forall opt m pre u post ign,
  (2 <= length (pre ++ post))%nat ->
  starts_star (wv u) = false -> mems (key u) (keys m) = false ->
  plus_form m (pre ++ post) = false -> plus_form m (pre ++ u :: post) = false ->
  choice_fetch_x opt m (pre ++ u :: post) ign = choice_fetch_x opt m (pre ++ post) ign.
Proof.
  intros opt m pre u post ign Len Su Uu P1 P2.
  assert (Len' : (2 <= length (pre ++ u :: post))%nat).
  { rewrite app_length in *. cbn. lia. }
  destruct (master_ok m) eqn:M; [|rewrite !(fetch_crash _ _ _ _ M); reflexivity].
  rewrite (fetch_unfold opt m _ ign M (len2_not_plain _ _ Len')).
  rewrite (fetch_unfold opt m _ ign M (len2_not_plain _ _ Len)).
  unfold sel_loop. unfold is_plain_none. rewrite (len2_not_plain _ _ Len'), (len2_not_plain _ _ Len).
  rewrite P1, P2. rewrite (len2_not_single _ Len'), (len2_not_single _ Len).
  rewrite orb_true_r. rewrite !normal_app.
  destruct (normal_loop false ign pre (init_flags m [])) as [fl1|v l] eqn:L; [|reflexivity].
  rewrite normal_step. rewrite (normal_keys _ _ _ _ _ L (key u)). rewrite fhas_init, Uu.
  unfold flagged. rewrite Su. reflexivity.
Qed.

(* without a master in scope: stated for the master-independent part (the stronger form) ... *)
Lemma qs_not_plus_form0 : forall src, existsb qs src = true -> plus_form0 src = false.
Proof. intros src H. unfold plus_form0. rewrite H. reflexivity. Qed.
Lemma no_plus_not_plus_form0 : forall src,
  (forall w, In w src -> mem plus (wv w) = false) -> plus_form0 src = false.
Proof.
  intros src H. unfold plus_form0. rewrite (existsb_false _ src H). rewrite andb_false_r. reflexivity.
Qed.
(* ... and hence for every master *)
Lemma qs_not_plus_form : forall m src, existsb qs src = true -> plus_form m src = false.
Proof. intros m src H. apply plus_form0_false. apply qs_not_plus_form0. exact H. Qed.
Lemma no_plus_not_plus_form : forall m src,
  (forall w, In w src -> mem plus (wv w) = false) -> plus_form m src = false.
Proof. intros m src H. apply plus_form0_false. apply no_plus_not_plus_form0. exact H. Qed.

(* ---------- from_words *)
Lemma single_loop_spec : forall ws all acc,
  single_loop ws all acc =
    match acc, starred_names ws with
    | None, [] => Ok None
    | None, [s] => Ok (Some s)
    | Some a, [] => Ok (Some a)
    | _, _ => do l <- first_line all ; UErr (s_ "MultipleChoices") [] l
    end.
Proof.
  induction ws as [|w ws IH]; intros all acc; cbn.
  - destruct acc; reflexivity.
  - destruct (starts_star (wv w)); [|apply IH].
    destruct acc; [destruct (starred_names ws); reflexivity|].
    rewrite IH. destruct (starred_names ws); reflexivity.
Qed.

Lemma plain_no_starred : forall name ws,
  starts_star name = false -> is_plain name ws = true -> starred_names ws = [].
Proof.
  intros name ws Hn H. unfold is_plain in H. destruct ws as [|w [|? ?]]; try discriminate.
  apply andb_true_iff in H. destruct H as [_ H]. apply eqs_true_iff in H. cbn.
  destruct (starts_star (wv w)) eqn:S; [|reflexivity].
  destruct (wv w) as [|c r]; [discriminate|]. cbn in S. apply Ascii.eqb_eq in S. subst c.
  cbn in H. rewrite <- H in Hn. discriminate.
Qed.

Theorem extract_single : forall opt ws,
  (forall v, choice_from_words false opt ws = Ok v ->
     (v = PAuto /\ is_plain_auto ws = true) \/
     (is_plain_auto ws = false /\
        ((v = PNone /\ starred_names ws = [] /\ mandatory opt = false) \/
         (exists s, v = PStr s /\ starred_names ws = [s])))) /\
  ((2 <= length (starred_names ws))%nat ->
     exists l, choice_from_words false opt ws = UErr (s_ "MultipleChoices") [] l).
Proof.
  intros opt ws. split.
  - intros v H. unfold choice_from_words in H. destruct (is_plain_auto ws) eqn:A.
    + inversion H. left. split; reflexivity.
    + right. split; [reflexivity|]. rewrite single_loop_spec in H.
      destruct (starred_names ws) as [|s [|s2 r]] eqn:S; cbn in H.
      * destruct (mandatory opt) eqn:Mo; [destruct (first_line ws); discriminate|].
        inversion H. left. repeat split; reflexivity.
      * inversion H. right. exists s. split; reflexivity.
      * destruct (first_line ws); discriminate.
  - intro L. unfold choice_from_words.
    destruct (is_plain_auto ws) eqn:A.
    + unfold is_plain_auto in A. rewrite (plain_no_starred (s_ "auto") ws eq_refl A) in L. cbn in L. lia.
    + rewrite single_loop_spec. destruct (starred_names ws) as [|s [|s2 r]] eqn:S; cbn in L; try lia.
      destruct ws as [|w ws']; [discriminate|]. cbn. exists (wline w). reflexivity.
Qed.

Theorem extract_multi : forall opt ws v,
  choice_from_words true opt ws = Ok v ->
  (v = PAuto /\ is_plain_auto ws = true) \/ (is_plain_auto ws = false /\ v = PList (starred_names ws)).
Proof.
  intros opt ws v H. unfold choice_from_words in H. destruct (is_plain_auto ws).
  - inversion H. left. split; reflexivity.
  - right. split; [reflexivity|].
    destruct ((length (starred_names ws) =? 0)%nat && mandatory opt); [destruct (first_line ws); discriminate|].
    inversion H. reflexivity.
Qed.

Theorem mandatory_never_empty : forall multi opt ws v,
  mandatory opt = true -> choice_from_words multi opt ws = Ok v -> v <> PNone /\ v <> PList [].
Proof.
  intros multi opt ws v Mo H. unfold choice_from_words in H. rewrite Mo in H.
  destruct (is_plain_auto ws); [inversion H; split; discriminate|].
  destruct multi.
  - rewrite andb_true_r in H. destruct (starred_names ws) as [|s r] eqn:S; cbn in H.
    + destruct (first_line ws); discriminate.
    + inversion H. split; discriminate.
  - rewrite single_loop_spec in H. destruct (starred_names ws) as [|s [|s2 r]]; cbn in H.
    + destruct (first_line ws); discriminate.
    + inversion H. split; discriminate.
    + destruct (first_line ws); discriminate.
Qed.

(* ---------- composition *)
Definition selected_names (mand:bool) (m src:list word) : list str :=
  map (fun w => unstar (wv w)) (filter (fun w => requested mand m src (key w)) m).

Lemma starred_names_restar : forall (sel:str -> bool) m,
  (forall w, In w m -> starts_star (unstar (wv w)) = false) ->
  starred_names (map (fun w => restar (sel (key w)) w) m) =
  map (fun w => unstar (wv w)) (filter (fun w => sel (key w)) m).
Proof.
  intros sel. induction m as [|w m IH]; intro H; [reflexivity|].
  cbn [map filter starred_names]. rewrite IH by (intros x Hx; apply H; right; exact Hx).
  destruct (sel (key w)); cbn; [reflexivity|].
  rewrite (H w (or_introl eq_refl)). reflexivity.
Qed.

Lemma lower_star : forall c, Ascii.eqb c star = true -> lower c = star.
Proof. intros c H. apply Ascii.eqb_eq in H. subst. reflexivity. Qed.

Lemma wf_master_ok : forall m, wf_choice_master m = true -> master_ok m = true.
Proof.
  intros m W. unfold master_ok, is_plain_none, is_plain_auto, is_plain.
  destruct m as [|w [|? ?]]; try reflexivity.
  pose proof (wf_forall _ W w (or_introl eq_refl)) as Hw. unfold wf_alt in Hw.
  apply andb_true_iff in Hw. destruct Hw as [Hw Ha]. apply andb_true_iff in Hw. destruct Hw as [_ Hn].
  apply negb_true_iff in Hn, Ha. unfold key in Hn, Ha.
  assert (K : forall name, starts_star name = false -> eqs (lowers (wv w)) name = true ->
                           eqs (lowers (unstar (wv w))) name = true).
  { intros name Sn E. apply eqs_true_iff in E. unfold unstar.
    destruct (starts_star (wv w)) eqn:S; [|apply eqs_true_iff; exact E].
    destruct (wv w) as [|c r]; [discriminate|]. cbn in S. cbn in E. rewrite (lower_star c S) in E.
    rewrite <- E in Sn. discriminate. }
  destruct (eqs (lowers (wv w)) (s_ "none")) eqn:E1; [rewrite (K (s_ "none") eq_refl E1) in Hn; discriminate|].
  destruct (eqs (lowers (wv w)) (s_ "auto")) eqn:E2; [rewrite (K (s_ "auto") eq_refl E2) in Ha; discriminate|].
  rewrite !andb_false_r. reflexivity.
Qed.

Lemma restar_not_plain_auto : forall (sel:str -> bool) m,
  wf_choice_master m = true -> is_plain_auto (map (fun w => restar (sel (key w)) w) m) = false.
Proof.
  intros sel m W. unfold is_plain_auto, is_plain. destruct m as [|w [|? ?]]; try reflexivity.
  cbn [map]. pose proof (wf_forall _ W w (or_introl eq_refl)) as Hw. unfold wf_alt in Hw.
  apply andb_true_iff in Hw. destruct Hw as [_ Ha]. apply negb_true_iff in Ha. unfold key in Ha.
  destruct (sel (key w)); cbn [restar wv isq wq].
  - replace (eqs (lowers (star :: unstar (wv w))) (s_ "auto")) with false; [apply andb_false_r | reflexivity].
  - rewrite Ha. apply andb_false_r.
Qed.

Definition no_names (l:list str) : bool := match l with [] => true | _ => false end.
(* what from_words must return when the starred names are [names] *)
Definition extract_spec (multi mand:bool) (names:list str) (out:res pyv) : Prop :=
  if multi then
    if no_names names && mand then exists l, out = UErr (s_ "UnspecifiedChoice") [] l
    else out = Ok (PList names)
  else match names with
       | [] => if mand then exists l, out = UErr (s_ "UnspecifiedChoice") [] l else out = Ok PNone
       | [s] => out = Ok (PStr s)
       | _ => exists l, out = UErr (s_ "MultipleChoices") [] l
       end.

Lemma from_words_spec : forall multi opt r,
  is_plain_auto r = false -> r <> [] ->
  extract_spec multi (mandatory opt) (starred_names r) (choice_from_words multi opt r).
Proof.
  intros multi opt r A N. unfold extract_spec, choice_from_words. rewrite A.
  destruct r as [|w0 r0]; [contradiction|].
  destruct multi.
  - destruct (starred_names (w0 :: r0)) as [|s t]; cbn [length Nat.eqb no_names andb].
    + destruct (mandatory opt); [cbn; eexists; reflexivity | reflexivity].
    + reflexivity.
  - rewrite single_loop_spec. destruct (starred_names (w0 :: r0)) as [|s [|s2 t]].
    + cbn. destruct (mandatory opt); [cbn; eexists; reflexivity | reflexivity].
    + reflexivity.
    + cbn. eexists; reflexivity.
Qed.

Theorem fetch_then_extract : forall multi opt m src ign r,
  wf_choice_master m = true ->
  choice_fetch opt m src ign = Ok r -> is_plain_auto src = false ->
  extract_spec multi (mandatory opt) (selected_names (mandatory opt) m src) (choice_from_words multi opt r).
Proof.
  intros multi opt m src ign r W H A.
  destruct (selection _ _ _ _ _ H A) as [E _].
  assert (S : starred_names r = selected_names (mandatory opt) m src).
  { rewrite E. unfold selected_names. apply starred_names_restar.
    intros w Hw. apply wf_alt_nostar. apply (wf_forall m W w Hw). }
  rewrite <- S. apply from_words_spec.
  - rewrite E. apply restar_not_plain_auto. exact W.
  - rewrite E. destruct m; [discriminate|]. discriminate.
Qed.

Theorem fetch_auto_then_extract : forall multi opt m src ign r,
  choice_fetch opt m src ign = Ok r -> is_plain_auto src = true ->
  choice_from_words multi opt r = Ok PAuto.
Proof.
  intros multi opt m src ign r H A. apply fetch_res_ok in H.
  rewrite (fetch_auto opt m src ign (fetch_ok_master_ok _ _ _ _ _ H) A) in H. inversion H. reflexivity.
Qed.

(* ---------- a single name (bare or quoted, any case) selects exactly the alternative it names *)
Lemma filter_unique : forall (k:str) m a,
  nodup_keys (keys m) = true -> In a m -> key a = k ->
  filter (fun x => eqs k (key x)) m = [a].
Proof.
  intros k. induction m as [|x m IH]; intros a N Ha Hk; [contradiction|].
  cbn [keys map nodup_keys] in N. apply andb_true_iff in N. destruct N as [N1 N2].
  apply negb_true_iff in N1. cbn [filter]. destruct Ha as [Ha|Ha].
  - subst x. rewrite Hk. rewrite eqs_refl. f_equal.
    assert (F : forall l, (forall y, In y l -> key y <> k) -> filter (fun x => eqs k (key x)) l = []).
    { induction l as [|y l IHl]; intro H; [reflexivity|]. cbn.
      replace (eqs k (key y)) with false.
      - apply IHl. intros z Hz. apply H. right. exact Hz.
      - symmetry. apply eqs_false_iff. intro E. apply (H y (or_introl eq_refl)). congruence. }
    apply F. intros y Hy E. assert (In k (keys m)) by (rewrite <- E; unfold keys; apply in_map; exact Hy).
    apply mems_In in H. rewrite <- Hk in H. fold (keys m) in N1. congruence.
  - replace (eqs k (key x)) with false; [apply IH; assumption|].
    symmetry. apply eqs_false_iff. intro E. assert (In (key x) (keys m)).
    { rewrite <- E, <- Hk. unfold keys. apply in_map. exact Ha. }
    apply mems_In in H. fold (keys m) in N1. congruence.
Qed.

Lemma wf_nodup : forall m, wf_choice_master m = true -> nodup_keys (keys m) = true.
Proof.
  intros m W. unfold wf_choice_master in W. apply andb_true_iff in W. destruct W as [W _].
  apply andb_true_iff in W. apply W.
Qed.

Theorem single_name_selects : forall multi opt m w a ign,
  wf_choice_master m = true -> In a m -> key w = key a ->
  starts_star (wv w) = false -> mem plus (wv w) = false ->
  exists r, choice_fetch opt m [w] ign = Ok r
    /\ r = map (fun x => restar (eqs (key a) (key x)) x) m
    /\ choice_from_words multi opt r = Ok (if multi then PList [unstar (wv a)] else PStr (unstar (wv a))).
Proof.
  intros multi opt m w a ign W Ha Hk Sw Pw.
  pose proof (wf_forall m W a Ha) as Wa. unfold wf_alt in Wa.
  apply andb_true_iff in Wa. destruct Wa as [Wa Wauto]. apply andb_true_iff in Wa. destruct Wa as [_ Wnone].
  apply negb_true_iff in Wauto, Wnone.
  assert (A : is_plain_auto [w] = false).
  { unfold is_plain_auto, is_plain. unfold key in Hk. rewrite (unstar_fix _ Sw) in Hk.
    rewrite Hk. fold (key a). rewrite Wauto. apply andb_false_r. }
  assert (Nn : is_plain_none [w] = false).
  { unfold is_plain_none, is_plain. unfold key in Hk. rewrite (unstar_fix _ Sw) in Hk.
    rewrite Hk. fold (key a). rewrite Wnone. apply andb_false_r. }
  assert (P : plus_form m [w] = false).
  { apply no_plus_not_plus_form. intros x [Hx|[]]. subst x. exact Pw. }
  assert (Rq : forall k, requested (mandatory opt) m [w] k = eqs (key a) k).
  { intro k. unfold requested. rewrite Nn, P, andb_false_r. cbn [last_match length Nat.eqb].
    rewrite Hk. destruct (eqs (key a) k); [apply orb_true_r | reflexivity]. }
  pose proof (wf_master_ok m W) as M.
  assert (Hok : exists r, choice_fetch_x opt m [w] ign = FOk r).
  { rewrite (fetch_unfold opt m [w] ign M A). unfold sel_loop. rewrite Nn, P. rewrite orb_true_r.
    cbn [length Nat.eqb]. rewrite normal_step. unfold flagged. rewrite orb_true_r. cbn [andb].
    rewrite fhas_init, Hk.
    replace (mems (key a) (keys m)) with true
      by (symmetry; apply mems_In; unfold keys; apply in_map; exact Ha).
    cbn [negb normal_loop].
    assert (forall fl, (forall x, In x m -> fhas (key x) fl = true) -> exists r, rebuild m fl = FOk r).
    { clear. intros fl. induction m as [|x m IH]; intro H; [exists []; reflexivity|].
      cbn. fold (key x). pose proof (H x (or_introl eq_refl)) as Hx. unfold fhas in Hx.
      destruct (fget (key x) fl); [|discriminate].
      destruct IH as [r Hr]; [intros y Hy; apply H; right; exact Hy|]. rewrite Hr. eexists; reflexivity. }
    apply H. intros x Hx. rewrite fhas_fset. rewrite (init_has_master m x Hx). apply orb_true_r. }
  destruct Hok as [r Hr]. exists r. apply fetch_res_ok in Hr.
  destruct (selection _ _ _ _ _ Hr A) as [E _].
  assert (E' : r = map (fun x => restar (eqs (key a) (key x)) x) m).
  { rewrite E. apply map_ext. intro x. rewrite Rq. reflexivity. }
  split; [exact Hr|]. split; [exact E'|].
  pose proof (fetch_then_extract multi opt m [w] ign r W Hr A) as X.
  unfold selected_names in X.
  rewrite (filter_ext _ (fun x => eqs (key a) (key x))) in X by (intro x; apply Rq).
  rewrite (filter_unique (key a) m a (wf_nodup m W) Ha eq_refl) in X. cbn [map] in X.
  unfold extract_spec in X. destruct multi; exact X.
Qed.

(* ---------- the complete list of alternatives, written without a star, selects nothing *)
Lemma last_match_In : forall k src w, last_match k src = Some w -> In w src.
Proof.
  intros k. induction src as [|x src IH]; intros w H; [discriminate|].
  cbn [last_match] in H. destruct (last_match k src) as [y|] eqn:L.
  - inversion H; subst. right. apply IH. reflexivity.
  - destruct (eqs (key x) k); [|discriminate]. inversion H; subst. left. reflexivity.
Qed.

(* several words, none starred, not the "+" form: nothing is selected and nothing raises (an
   un-starred word never raises), whatever .optional and ignore_errors are *)
Theorem unstarred_list_selects_nothing : forall opt m src ign,
  master_ok m = true -> (2 <= length src)%nat -> plus_form m src = false ->
  (forall w, In w src -> starts_star (wv w) = false) ->
  choice_fetch opt m src ign = Ok (map (restar false) m).
Proof.
  intros opt m src ign M Len P Hs. unfold choice_fetch.
  rewrite (fetch_unfold opt m src ign M (len2_not_plain _ _ Len)). unfold sel_loop.
  unfold is_plain_none. rewrite (len2_not_plain _ _ Len). rewrite orb_true_r. rewrite P.
  rewrite (len2_not_single _ Len).
  destruct (normal_pre_ok false ign src (init_flags m [])) as [fl L].
  { intros p Hp Fp. unfold flagged in Fp. rewrite (Hs p Hp) in Fp. discriminate. }
  rewrite L. rewrite (rebuild_spec (fun _ => false) m fl); [reflexivity|].
  intros w Hw. rewrite (normal_get _ _ _ _ _ (key w) (init_has_master m w Hw) L).
  destruct (last_match (key w) src) as [x|] eqn:Lm; [|apply init_get_master; exact Hw].
  unfold flagged. rewrite (Hs x (last_match_In _ _ _ Lm)). reflexivity.
Qed.

Theorem plus_form_needs_incomplete_list : forall m src,
  plus_form m src = true -> full_list m src = false.
Proof. intros m src H. apply plus_form_true_inv in H. apply H. Qed.

(* the words of a complete list carry the master's names *)
Lemma full_list_words : forall m src w,
  full_list m src = true -> In w src -> exists a, In a m /\ wv w = unstar (wv a).
Proof.
  intros m src w F Hw. apply full_list_true_iff in F.
  assert (I : In (wv w) (alts_of m)) by (rewrite <- F; apply in_map; exact Hw).
  unfold alts_of in I. apply in_map_iff in I. destruct I as [a [E Ha]]. exists a. split; [exact Ha | symmetry; exact E].
Qed.

(* For a well-formed master with at least two alternatives: the complete list written without a
   star (any quoting, any .optional, any ignore_errors) is not the "+" form even if names contain
   "+", it is accepted, no alternative comes back starred, and the values that come back are
   exactly the values of the source. *)
Theorem full_list_selects_nothing : forall opt m src ign,
  wf_choice_master m = true -> full_list m src = true -> (2 <= length src)%nat ->
  plus_form m src = false
  /\ choice_fetch opt m src ign = Ok (map (restar false) m)
  /\ map (fun w => starts_star (wv w)) (map (restar false) m) = map (fun _ => false) m
  /\ map wv (map (restar false) m) = map wv src.
Proof.
  intros opt m src ign W F Len.
  assert (Hm : forall a, In a m -> starts_star (unstar (wv a)) = false).
  { intros a Ha. apply wf_alt_nostar. apply (wf_forall m W a Ha). }
  split; [apply plus_form_full; exact F|]. split; [|split].
  - apply unstarred_list_selects_nothing; [apply wf_master_ok; exact W | exact Len | apply plus_form_full; exact F |].
    intros w Hw. destruct (full_list_words m src w F Hw) as [a [Ha E]]. rewrite E. apply Hm. exact Ha.
  - rewrite map_map. apply map_ext_in. intros a Ha. cbn. apply Hm. exact Ha.
  - rewrite map_map. apply full_list_true_iff in F. rewrite F. reflexivity.
Qed.

(* ---------- witnesses *)
(* outside wf_choice_master: an alternative whose name itself starts with a star *)
Theorem refuted_starred_name :
  exists m src r, wf_choice_master m = false
    /\ choice_fetch ANone m src false = Ok r
    /\ map (fun w => unstar (wv w)) r <> map (fun w => unstar (wv w)) m
    /\ choice_from_words true ANone r = Ok (PList [s_ "a"; s_ "b"]).
Proof.
  exists [uw (s_ "**a"); uw (s_ "b")], [uw (s_ "b")], [uw (s_ "*a"); uw (s_ "*b")].
  vm_compute. repeat split; try reflexivity. discriminate.
Qed.
