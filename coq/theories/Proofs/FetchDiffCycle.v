(* C08: the difference of working parameters, merged back, and differenced again.
   Domain D08: D07 (Proofs/FetchIdem.v), unique sibling names, no .multiple SCOPE (the .multiple entries are
   definitions), and the canon oracle answers X.extract_format(source=X) as X.extract_format()
   (H_self; in the library source=None means source=self).
   Block-wise description (one block per master entry, Proofs/FetchDiffBase.v):
     wb  k b         b is the block of entry k in working parameters W obtained by fetching
     dsp k b db      db is what fetch_diff makes of it
     req k b db rb   rb is what fetching the difference gives back
   Theorems (analysis form: "if the run returns a tree, it is this one"):
     diff_spec, restore_spec, diff_of_restored, defaults_empty. *)
From Coq Require Import List Ascii String Bool Arith ZArith Lia.
From Phil Require Import Base Tree Vars Choice ChoiceProofs ChoiceTop Fetch FetchBasics FetchShape FetchDisabled
  FetchIdemLists FetchIdemBase FetchIdem FetchIdemCopy FetchDiffBase.
Import ListNotations.
Local Open Scope char_scope.

Arguments Bl {X} P _ _.
Arguments Bl_nil {X P}.
Arguments Bl_cons {X P}.
Arguments Bl2 {X} Q _ _ _.
Arguments Bl2_nil {X Q}.
Arguments Bl2_cons {X Q}.

Section Cycle.
  Variable env : str -> option str.
  Variable canon : obj -> option obj -> res str.
  Hypothesis H_self : forall k, canon k (Some k) = canon k None.

  (* ---------------------------------------------------------------- values of a definition *)
  (* v is a value of the master definition k that fetch_value reproduces (in either mode) *)
  Definition vfix (k v:obj) : Prop :=
    match k with
    | Def h mws a =>
        exists ws, v = dcopy h a ws /\ words_plain ws /\
                   forall dm s', lobj s' = v -> def_fetch_value env dm h mws a s' = Ok (Some v)
    | Scp _ _ _ => False
    end.

  Lemma def_value_refetch_dm : forall dm dm' h mws a s o, def_ok (Def h mws a) -> words_plain mws -> oplain (lobj s) ->
    def_fetch_value env dm h mws a s = Ok (Some o) ->
    forall s', lobj s' = o -> def_fetch_value env dm' h mws a s' = Ok (Some o).
  Proof.
    intros dm dm' h mws a s o [Ht [Hdep Hch]] Hm Hs H s' Es'. unfold def_fetch_value in H.
    destruct (lobj s) as [h0 ws0 a0|] eqn:Es; [|discriminate].
    apply oplain_def in Hs. rewrite resolve_plain in H by exact Hs. cbn [bind owords] in H.
    rewrite Hdep in H. cbn [andb] in H.
    assert (Hgen : forall w, words_plain w -> o = dcopy h a w ->
              (match get_attr (s_ "type") a with
               | AType (TyChoice _) => False | AType (TyOther p) => (prefixb (s_ "float") p || prefixb (s_ "int") p) = true
               | _ => True end) ->
              def_fetch_value env dm' h mws a s' = Ok (Some o)).
    { intros w Hw Eo Hty. unfold def_fetch_value. rewrite Es', Eo. unfold dcopy.
      rewrite resolve_plain by exact Hw. cbn [bind owords]. rewrite Hdep. cbn [andb].
      destruct (get_attr (s_ "type") a) as [| | | | |t]; try reflexivity.
      destruct t; try reflexivity; [contradiction|]. rewrite Hty. reflexivity. }
    destruct (get_attr (s_ "type") a) as [| | | | |t] eqn:Et; try (injection H as E; apply (Hgen ws0 Hs); [symmetry; exact E|exact I]).
    destruct t; try (injection H as E; apply (Hgen ws0 Hs); [symmetry; exact E|exact I]).
    - bind_inv H as cw Hcw. injection H as E. subst o.
      unfold def_fetch_value. rewrite Es'. unfold dcopy.
      assert (Hcwp : words_plain cw) by (eapply choice_fetch_plain; [exact Hm|exact Hcw]).
      rewrite resolve_plain by exact Hcwp. cbn [bind owords]. rewrite Hdep. cbn [andb]. rewrite Et.
      destruct Hch as [_ Hst]. rewrite (Hst _ _ Hcw). reflexivity.
    - destruct (prefixb (s_ "float") printed || prefixb (s_ "int") printed) eqn:Ep; [|discriminate].
      injection H as E. apply (Hgen ws0 Hs); [symmetry; exact E|reflexivity].
  Qed.

  Lemma def_self_fetch_dm : forall dm h mws a s', def_ok (Def h mws a) -> words_plain mws ->
    (exists h' a', lobj s' = Def h' mws a') ->
    def_fetch_value env dm h mws a s' = Ok (Some (Def h mws a)).
  Proof.
    intros dm h mws a s' [Ht [Hdep Hch]] Hm [h' [a' Es']]. unfold def_fetch_value. rewrite Es'.
    rewrite resolve_plain by exact Hm. cbn [bind owords]. rewrite Hdep. cbn [andb].
    assert (E : dcopy h a mws = Def h mws a) by (unfold dcopy; rewrite (with_tmpl_id h 0%Z Ht); reflexivity).
    destruct (get_attr (s_ "type") a) as [| | | | |t] eqn:Et; try (rewrite E; reflexivity).
    destruct t; try (rewrite E; reflexivity).
    - destruct Hch as [Hself _]. rewrite Hself. cbn [bind]. rewrite E. reflexivity.
    - rewrite Hch. rewrite E. reflexivity.
  Qed.

  Lemma choice_self_plain : forall h mws a, def_ok (Def h mws a) -> words_plain mws -> True.
  Proof. intros. exact I. Qed.

  (* a value produced by fetch_value from a "$"-free source is a fixed point *)
  Lemma vfix_of_fetch : forall dm h mws a s o, def_ok (Def h mws a) -> words_plain mws -> oplain (lobj s) ->
    def_fetch_value env dm h mws a s = Ok (Some o) -> vfix (Def h mws a) o.
  Proof.
    intros dm h mws a s o Hok Hm Hs H. cbn [vfix].
    destruct (def_fetch_value_shape env dm h mws a s o H) as [w [Eo _]]. exists w. split; [exact Eo|]. split.
    - pose proof (def_fetch_value_plain env dm h mws a s o Hm Hs H) as P. subst o. apply (proj1 (oplain_def _ _ _) P).
    - intros dm' s' Es'. eapply def_value_refetch_dm; eassumption.
  Qed.
  (* the master definition itself is one *)
  Lemma vfix_self : forall h mws a, def_ok (Def h mws a) -> words_plain mws -> vfix (Def h mws a) (Def h mws a).
  Proof.
    intros h mws a Hok Hm. cbn [vfix]. exists mws. destruct Hok as [Ht Hrest]. split; [|split; [exact Hm|]].
    - unfold dcopy. rewrite (with_tmpl_id h 0%Z Ht). reflexivity.
    - intros dm s' Es'. apply def_self_fetch_dm; [split; assumption|exact Hm|]. exists h, a. exact Es'.
  Qed.

  (* ---------------------------------------------------------------- the three block relations *)
  (* the scope a non-multiple scope entry contributes to a difference: nothing if nothing differs *)
  Definition optscope (h:hdr) (a:attrs) (os:list obj) : list obj :=
    match os with [] => [] | _ => [scopy h a os] end.

  Inductive wb : obj -> list obj -> Prop :=
    | wb_def : forall h mws a v, omultiple (Def h mws a) = false -> vfix (Def h mws a) v -> wb (Def h mws a) [v]
    | wb_scp : forall h kids a bs, omultiple (Scp h kids a) = false -> Bl wb (entries kids) bs ->
        wb (Scp h kids a) [scopy h a (List.concat bs)]
    | wb_mult : forall k mas L ts, omultiple k = true -> is_def k = true -> canon k None = Ok mas ->
        Forall (vfix k) L -> Forall2 (fun c t => canon k (Some c) = Ok t /\ eqs t mas = false) L ts -> NoDup ts ->
        wb k (set_hdr k (with_tmpl (ohdr k) (tmpl_flag k L)) :: L).

  Inductive dsp : obj -> list obj -> list obj -> Prop :=
    | dsp_keep : forall h mws a v x y, omultiple (Def h mws a) = false -> vfix (Def h mws a) v ->
        canon (Def h mws a) (Some v) = Ok x -> canon (Def h mws a) None = Ok y -> eqs x y = false ->
        dsp (Def h mws a) [v] [v]
    | dsp_drop : forall h mws a v x, omultiple (Def h mws a) = false -> vfix (Def h mws a) v ->
        canon (Def h mws a) (Some v) = Ok x -> canon (Def h mws a) None = Ok x ->
        dsp (Def h mws a) [v] []
    | dsp_scp : forall h kids a bs dbs, omultiple (Scp h kids a) = false ->
        Bl wb (entries kids) bs -> Bl2 dsp (entries kids) bs dbs ->
        dsp (Scp h kids a) [scopy h a (List.concat bs)] (optscope h a (List.concat dbs))
    | dsp_mult : forall k T L, omultiple k = true -> wb k (T :: L) -> dsp k (T :: L) L.

  Inductive req : obj -> list obj -> list obj -> list obj -> Prop :=
    | req_keep : forall h mws a v, omultiple (Def h mws a) = false -> dsp (Def h mws a) [v] [v] ->
        req (Def h mws a) [v] [v] [v]
    | req_drop : forall h mws a v, omultiple (Def h mws a) = false -> dsp (Def h mws a) [v] [] ->
        req (Def h mws a) [v] [] [Def h mws a]
    | req_scp : forall h kids a (xs:list (list obj * list obj)) rbs, omultiple (Scp h kids a) = false ->
        Bl2 (fun k (x:list obj * list obj) rb => req k (fst x) (snd x) rb) (entries kids) xs rbs ->
        req (Scp h kids a) [scopy h a (List.concat (map fst xs))] (optscope h a (List.concat (map snd xs)))
            [scopy h a (List.concat rbs)]
    | req_mult : forall k b L, omultiple k = true -> dsp k b L -> req k b L b.

  (* ---------------------------------------------------------------- names inside the blocks *)
  Lemma vfix_named : forall k v, vfix k v -> named k v.
  Proof. intros [h mws a|h ks a] v H; [|destruct H]. destruct H as [ws [E _]]. subst. split; reflexivity. Qed.

  Lemma wb_named : forall k b, wb k b -> forall o, In o b -> named k o.
  Proof.
    intros k b H o Ho. destruct H as [h mws a v Em Hv|h kids a bs Em HB|k mas L ts Em Hd Hmas HL HF Hnd].
    - destruct Ho as [E|[]]. subst. apply vfix_named. exact Hv.
    - destruct Ho as [E|[]]. subst. split; reflexivity.
    - destruct Ho as [E|Ho]; [subst; destruct k; split; reflexivity|].
      rewrite Forall_forall in HL. apply vfix_named. apply HL. exact Ho.
  Qed.

  Lemma dsp_wb : forall k b db, dsp k b db -> wb k b.
  Proof.
    intros k b db H. destruct H as [h mws a v x y Em Hv Hx Hy E|h mws a v x Em Hv Hx Hy|h kids a bs dbs Em HB HB2|k T L Em Hw].
    - apply wb_def; assumption.
    - apply wb_def; assumption.
    - apply wb_scp; assumption.
    - exact Hw.
  Qed.

  Lemma dsp_named : forall k b db, dsp k b db -> forall o, In o db -> named k o.
  Proof.
    intros k b db H o Ho. pose proof (dsp_wb _ _ _ H) as Hw.
    destruct H as [h mws a v x y Em Hv Hx Hy E|h mws a v x Em Hv Hx Hy|h kids a bs dbs Em HB HB2|k T L Em Hw'].
    - apply (wb_named _ _ Hw). exact Ho.
    - destruct Ho.
    - unfold optscope in Ho. destruct (List.concat dbs); [destruct Ho|]. destruct Ho as [E|[]]. subst. split; reflexivity.
    - apply (wb_named _ _ Hw). right. exact Ho.
  Qed.

  Lemma req_named : forall k b db rb, req k b db rb -> forall o, In o rb -> named k o.
  Proof.
    intros k b db rb H o Ho. destruct H as [h mws a v Em Hd|h mws a v Em Hd|h kids a xs rbs Em HB|k b L Em Hd].
    - apply (wb_named _ _ (dsp_wb _ _ _ Hd)). exact Ho.
    - destruct Ho as [E|[]]. subst. split; reflexivity.
    - destruct Ho as [E|[]]. subst. split; reflexivity.
    - apply (wb_named _ _ (dsp_wb _ _ _ Hd)). exact Ho.
  Qed.

  (* ---------------------------------------------------------------- the blocks of a fetch result *)
  Lemma mloop_blocks : forall (body:nat -> obj -> res fout) (Pb:obj -> list obj -> Prop) l seen i o,
    (forall j k b, In (j, k) (ientries_from seen i l) -> body j k = Ok b -> Pb k (fst b)) ->
    mloop body seen i l = Ok o -> exists bs, fst o = List.concat bs /\ Bl Pb (entries_from seen l) bs.
  Proof.
    intros body Pb l. induction l as [|k r IH]; intros seen i o Hb H.
    - cbn in H. injection H as E. subst. exists []. split; [reflexivity|constructor].
    - cbn [mloop] in H. cbn [ientries_from] in Hb. cbn [entries_from]. destruct (mao_step seen k) as [| |seen'].
      + eapply IH; eassumption.
      + discriminate.
      + bind_inv H as a Ha. bind_inv H as b Hb'. injection H as E. subst o. cbn [fst].
        destruct (IH seen' (S i) b) as [bs [Ebs HB]]; [intros j k' b' Hk'; apply Hb; right; exact Hk'|exact Hb'|].
        exists (fst a :: bs). split; [cbn [List.concat]; rewrite Ebs; reflexivity|].
        constructor; [|exact HB]. apply (Hb i k a); [left; reflexivity|exact Ha].
  Qed.

  Definition rec_wb (k:obj) (rec:list lsrc -> res fout) : Prop :=
    forall comb os u, lplain comb -> rec comb = Ok (os, u) ->
    exists bs, os = List.concat bs /\ Bl wb (entries (okids k)) bs.

  Lemma Forall2_pairs : forall A B (R:B -> A -> Prop) (l:list (A * B)),
    (forall p, In p l -> R (snd p) (fst p)) -> Forall2 R (map snd l) (map fst l).
  Proof.
    intros A B R l. induction l as [|p l IH]; intros H; [constructor|]. cbn [map]. constructor.
    - apply H. left. reflexivity.
    - apply IH. intros q Hq. apply H. right. exact Hq.
  Qed.

  Lemma template_flag : forall k pd (L:list obj), (pd = [] <-> L = []) ->
    template_of k pd = set_hdr k (with_tmpl (ohdr k) (tmpl_flag k L)).
  Proof.
    intros k pd L H. unfold template_of, tmpl_flag. destruct (mandatory (ooptional k)); [reflexivity|].
    destruct pd as [|x pd]; destruct L as [|c L]; try reflexivity.
    - destruct H as [H _]. specialize (H eq_refl). discriminate.
    - destruct H as [_ H]. specialize (H eq_refl). discriminate.
  Qed.

  Lemma fetch_one_wb : forall allks chain i k rec srcs b u,
    odis (ohdr k) = false -> oplain k -> def_ok k -> (omultiple k = true -> is_def k = true) ->
    self_matching allks chain i (onm k) = [] -> rec_wb k rec -> lplain srcs ->
    fetch_one env canon false allks chain i k rec srcs = Ok (b, u) -> wb k b.
  Proof.
    intros allks chain i k rec srcs b u Hact Hk Hok Hmd Hself Hrec Hp H.
    unfold fetch_one in H. unfold onm in Hself.
    destruct (get_attr (s_ "alias") (oattrs k)); try discriminate.
    destruct (oname (ohdr k)) as [|c0 nm] eqn:En; [discriminate|].
    pose proof (match_sources_plain (c0 :: nm) srcs Hp) as Hm.
    destruct (omultiple k) eqn:Em; cbn [negb] in H.
    - specialize (Hmd eq_refl). destruct k as [h mws a|h ks a]; [|discriminate Hmd].
      bind_inv H as mas Hmas. bind_inv H as st Hst. destruct st as [[pd robjs] used]. injection H as Eb Eu. subst b.
      change ((if false then [] else [template_of (Def h mws a) pd]) ++ somes robjs) with (template_of (Def h mws a) pd :: somes robjs).
      rewrite Hself in Hst. cbn [map app] in Hst.
      set (X := match_sources (c0 :: nm) srcs) in *.
      pose proof (mult_loop_fold env canon false (Def h mws a) rec mas Hmas (map (pair false) X) (fun _ _ => eq_refl) [] [] []) as F.
      rewrite Hst in F. cbn [rmap fst] in F. rewrite map_snd_pair in F.
      destruct (evs env canon false (Def h mws a) rec mas X) as [el| |] eqn:Eel; cbn [rmap] in F; try discriminate.
      injection F as F.
      destruct (fold_pstep_grel el [] [] [] grel_nil) as [g [Hg Eg]]. rewrite <- F in Hg. cbn [fst snd] in Hg.
      cbn [somesP] in Eg. rewrite kl_dd in Eg.
      assert (HL : somes robjs = map snd (dd (somesP el))).
      { rewrite (gr_objs _ _ _ Hg), somes_objs_of, Eg. reflexivity. }
      assert (Hor : forall p, In p (dd (somesP el)) ->
                vfix (Def h mws a) (snd p) /\ canon (Def h mws a) (Some (snd p)) = Ok (fst p) /\ eqs (fst p) mas = false).
      { intros [t c] Hp0. apply In_dd in Hp0. destruct (evs_In env canon false _ rec mas _ _ _ Eel Hp0) as [s [Hs Hev]].
        destruct (ev_some env canon false _ _ _ _ _ _ Hev) as [u1 [Hcf [Hcn [Hne _]]]]. cbn [fst snd].
        split; [|split; assumption].
        cbn [cand_fetch] in Hcf. bind_inv Hcf as r Hr. injection Hcf as E _. subst r. unfold def_fetch in Hr.
        eapply vfix_of_fetch; [exact Hok|apply (proj1 (oplain_def h mws a) Hk)|apply Hm; exact Hs|exact Hr]. }
      rewrite HL.
      assert (Hiff : pd = [] <-> map snd (dd (somesP el)) = []).
      { rewrite (grel_pd_nil _ _ _ Hg), Eg. destruct (dd (somesP el)); cbn; split; intros; congruence. }
      pose proof (template_flag (Def h mws a) pd (map snd (dd (somesP el))) Hiff) as Etf.
      unfold template_of in Etf. cbn [set_hdr ohdr] in Etf. rewrite Etf.
      change (Def (with_tmpl h (tmpl_flag (Def h mws a) (map snd (dd (somesP el))))) mws a)
        with (set_hdr (Def h mws a) (with_tmpl (ohdr (Def h mws a)) (tmpl_flag (Def h mws a) (map snd (dd (somesP el)))))).
      apply (wb_mult (Def h mws a) mas _ (map fst (dd (somesP el)))); try assumption; try reflexivity.
      + apply Forall_forall. intros c Hc. apply in_map_iff in Hc. destruct Hc as [p [E Hp0]]. subst c. apply (Hor p Hp0).
      + apply Forall2_pairs. intros p Hp0. destruct (Hor p Hp0) as [_ [A B]]. auto.
      + apply dd_nodup.
    - destruct k as [h mws a|h ks a].
      + pose proof Hok as [Ht [Hdep Hty]]. pose proof (proj1 (oplain_def h mws a) Hk) as Hmws.
        bind_inv H as ro Hro. destruct ro as [o|].
        * injection H as Eb Eu. subst b.
          destruct (def_loop_last env canon _ _ _ _ _ _ Hro) as [[_ E]|[s [Hs Hfv]]]; [discriminate|].
          apply wb_def; [exact Em|]. eapply vfix_of_fetch; [exact Hok|exact Hmws|apply Hm; exact Hs|exact Hfv].
        * cbn [negb andb] in H. rewrite Hdep in H. cbn [negb] in H. injection H as Eb Eu. subst b.
          apply wb_def; [exact Em|]. apply vfix_self; assumption.
      + bind_inv H as comb Hcomb. bind_inv H as oc Hoc. cbn [andb] in H. injection H as Eb Eu. subst b.
        destruct oc as [os u0]. cbn [fst snd] in *.
        destruct (Hrec comb os u0) as [bs [Eos HB]]; [eapply combine_plain; [exact Hm|exact Hcomb]|exact Hoc|].
        subst os. apply wb_scp; [exact Em|exact HB].
  Qed.

  (* ---------------------------------------------------------------- helpers: values offered as sources *)
  Lemma vfix_def : forall k v, vfix k v -> exists h ws a, v = Def h ws a /\ odis h = odis (ohdr k).
  Proof.
    intros [h mws a|h ks a] v H; [|destruct H]. destruct H as [ws [E _]]. subst. unfold dcopy. eexists. eexists. eexists.
    split; reflexivity.
  Qed.

  Lemma views_defs : forall (L:list obj) M', (forall c, In c L -> exists h ws a, c = Def h ws a) ->
    map sl M' = L -> map lobj M' = L.
  Proof.
    induction L as [|c L IH]; intros M' HL Hv; destruct M' as [|s' M']; try discriminate; [reflexivity|].
    cbn [map] in *. injection Hv as Hs Hr. f_equal.
    - destruct (HL c (or_introl eq_refl)) as [h [ws [a E]]]. rewrite E in Hs |- *. unfold sl in Hs. apply strip_obj_def_inv. exact Hs.
    - apply IH; [intros x Hx; apply HL; right; exact Hx|exact Hr].
  Qed.

  Lemma strip_defs : forall (L:list obj), (forall c, In c L -> exists h ws a, c = Def h ws a /\ odis h = false) ->
    strip_objs L = L.
  Proof.
    induction L as [|c L IH]; intros HL; [reflexivity|]. destruct (HL c (or_introl eq_refl)) as [h [ws [a [E Hd]]]]. subst c.
    cbn [strip_objs ohdr]. rewrite Hd. cbn [strip_obj]. f_equal. apply IH. intros x Hx. apply HL. right. exact Hx.
  Qed.

  Lemma combine_fst : forall A B (l:list A) (l':list B), length l = length l' -> map fst (List.combine l l') = l.
  Proof. induction l as [|x l IH]; intros [|y l'] H; try discriminate; [reflexivity|]. cbn. f_equal. apply IH. cbn in H. lia. Qed.
  Lemma combine_snd : forall A B (l:list A) (l':list B), length l = length l' -> map snd (List.combine l l') = l'.
  Proof. induction l as [|x l IH]; intros [|y l'] H; try discriminate; [reflexivity|]. cbn. f_equal. apply IH. cbn in H. lia. Qed.

  (* the kept values of a .multiple definition, offered again (in either mode), are kept with their texts *)
  Lemma evs_values : forall diff h mws a rec mas (L:list obj) ts M',
    canon (Def h mws a) None = Ok mas -> Forall (vfix (Def h mws a)) L ->
    Forall2 (fun c t => canon (Def h mws a) (Some c) = Ok t /\ eqs t mas = false) L ts ->
    map lobj M' = L ->
    evs env canon diff (Def h mws a) rec mas M' = Ok (map Some (List.combine ts L)).
  Proof.
    intros diff h mws a rec mas L ts M' Hmas HL HF. revert M'. induction HF as [|c t L ts [Hc Hne] _ IH]; intros M' HM.
    - destruct M'; [reflexivity|discriminate].
    - destruct M' as [|s' M']; [discriminate|]. cbn [map] in HM. injection HM as Hs HM.
      inversion HL as [|c0 L0 Hvc HL']; subst c0 L0.
      cbn [evs List.combine map]. rewrite (IH HL' M' HM).
      destruct Hvc as [ws [Ec [Hws Hfix]]].
      assert (Hcf : cand_fetch env canon diff (Def h mws a) rec s' = Ok (Some c, [lpos s'])).
      { cbn [cand_fetch]. unfold def_fetch. destruct diff.
        - rewrite (Hfix true s' Hs). cbn [bind]. rewrite Hc, Hmas. cbn [bind]. rewrite Hne. reflexivity.
        - rewrite (Hfix false s' Hs). reflexivity. }
      unfold ev. rewrite Hcf. cbn [bind fst]. unfold diff_skip. rewrite andb_false_r. rewrite Hc. cbn [bind]. rewrite Hne. reflexivity.
  Qed.

  Lemma Forall2_length' : forall A B (R:A -> B -> Prop) l l', Forall2 R l l' -> length l = length l'.
  Proof. intros A B R l l' H. induction H; cbn; congruence. Qed.

  (* ---------------------------------------------------------------- the difference of a block *)
  Definition rec_dsp (k:obj) (recD:list lsrc -> res fout) : Prop :=
    forall bs comb dos u, Bl wb (entries (okids k)) bs -> lplain comb -> lview comb = strip_objs (List.concat bs) ->
    recD comb = Ok (dos, u) -> exists dbs, dos = List.concat dbs /\ Bl2 dsp (entries (okids k)) bs dbs.

  Lemma null_optscope : forall h a os, (if null_objs os then [] else [scopy h a os]) = optscope h a os.
  Proof. intros h a [|o os]; reflexivity. Qed.

  Lemma fetch_one_dsp : forall allks chain i k recD b,
    odis (ohdr k) = false -> oplain k -> def_ok k ->
    self_matching allks chain i (onm k) = [] -> wb k b -> rec_dsp k recD ->
    forall sW db u, lplain sW -> map sl (match_sources (onm k) sW) = strip_objs b ->
    fetch_one env canon true allks chain i k recD sW = Ok (db, u) -> dsp k b db.
  Proof.
    intros allks chain i k recD b Hact Hk Hok Hself Hwb Hrec sW db u Hp Hv H.
    unfold fetch_one in H. unfold onm in Hv, Hself.
    destruct (get_attr (s_ "alias") (oattrs k)); try discriminate.
    destruct (oname (ohdr k)) as [|c0 nm] eqn:En; [discriminate|].
    pose proof (match_sources_plain (c0 :: nm) sW Hp) as Hm.
    pose proof Hwb as Hwb0.
    destruct Hwb as [h mws a v Em Hvf|h kids a bs Em HB|k mas L ts Em Hd Hmas HL HF Hnd].
    - (* non-multiple definition *)
      rewrite Em in H. cbn [negb] in H. cbn [ohdr] in Hact.
      pose proof Hvf as Hvf0. destruct Hvf as [ws [Ev [Hws Hfix]]].
      assert (Hsv : strip_objs [v] = [v]) by (subst v; cbn [strip_objs dcopy ohdr with_tmpl odis]; rewrite Hact; reflexivity).
      rewrite Hsv in Hv.
      destruct (match_sources (c0 :: nm) sW) as [|s' r'] eqn:EM; [discriminate|]. destruct r'; [|discriminate].
      cbn [map] in Hv. injection Hv as Hv.
      assert (El : lobj s' = v) by (unfold sl in Hv; rewrite Ev in Hv |- *; apply strip_obj_def_inv; exact Hv).
      cbn [def_loop] in H. unfold def_fetch in H. rewrite (Hfix true s' El) in H. cbn [bind] in H.
      bind_inv H as ro Hro. bind_inv Hro as x0 Hx0. injection Hro as Ero. subst x0.
      bind_inv Hx0 as x Hx. bind_inv Hx0 as y Hy.
      destruct (eqs x y) eqn:Exy; injection Hx0 as Ero; subst ro.
      + cbn [negb andb] in H. injection H as Eb _. subst db. apply f_eqs_eq in Exy. subst y. eapply dsp_drop; eassumption.
      + injection H as Eb _. subst db. eapply dsp_keep; eassumption.
    - (* non-multiple scope *)
      rewrite Em in H. cbn [negb] in H. cbn [ohdr] in Hact.
      assert (Hso : strip_objs [scopy h a (List.concat bs)] = [Scp (with_tmpl h 0) (strip_objs (List.concat bs)) a]).
      { cbn [strip_objs scopy ohdr with_tmpl odis]. rewrite Hact. reflexivity. }
      rewrite Hso in Hv.
      destruct (match_sources (c0 :: nm) sW) as [|s' r'] eqn:EM; [discriminate|]. destruct r'; [|discriminate].
      cbn [map] in Hv. injection Hv as Hv. unfold sl in Hv. apply strip_obj_scp_inv in Hv. destruct Hv as [ks' [El Ek]].
      cbn [combine] in H. rewrite El in H. cbn [is_def bind] in H.
      bind_inv H as oc Hoc. destruct oc as [dos u0]. cbn [fst snd andb] in H.
      destruct (Hrec bs (src_kids s' ++ []) dos u0 HB) as [dbs [Edos HB2]].
      + rewrite app_nil_r. apply src_kids_plain1. apply Hm. left. reflexivity.
      + rewrite app_nil_r, lview_src_kids. unfold sl. rewrite El, strip_obj_scp. cbn. exact Ek.
      + exact Hoc.
      + assert (Edb : db = optscope h a dos).
        { destruct (null_objs dos) eqn:En0; injection H as Eb _; subst db; destruct dos; try discriminate; reflexivity. }
        subst db dos. apply dsp_scp; assumption.
    - (* multiple definition *)
      destruct k as [h mws a|h ks a]; [|discriminate Hd]. rewrite Em in H. cbn [negb] in H. cbn [ohdr] in Hact.
      rewrite Hmas in H. cbn [bind] in H. rewrite Hself in H. cbn [map app] in H.
      assert (HLd : forall c, In c L -> exists h' ws' a', c = Def h' ws' a' /\ odis h' = false).
      { intros c Hc. rewrite Forall_forall in HL. destruct (vfix_def _ _ (HL c Hc)) as [h' [ws' [a' [E Hd']]]].
        exists h', ws', a'. split; [exact E|]. rewrite Hd'. exact Hact. }
      cbn [strip_objs set_hdr ohdr with_tmpl odis] in Hv. rewrite Hact in Hv. cbn [strip_obj] in Hv. rewrite (strip_defs L HLd) in Hv.
      destruct (match_sources (c0 :: nm) sW) as [|sT M'] eqn:EM; [discriminate|].
      cbn [map] in Hv. injection Hv as HvT HvM.
      assert (HML : map lobj M' = L).
      { apply views_defs; [|exact HvM]. intros c Hc. destruct (HLd c Hc) as [h' [ws' [a' [E _]]]]. eauto. }
      assert (HevT : ev env canon true (Def h mws a) recD mas sT = Ok None).
      { unfold ev. cbn [cand_fetch]. unfold def_fetch.
        rewrite (def_self_fetch_dm true h mws a sT Hok (proj1 (oplain_def h mws a) Hk)).
        2:{ unfold sl in HvT. apply strip_obj_def_inv in HvT. eexists. eexists. exact HvT. }
        cbn [bind]. rewrite (H_self (Def h mws a)), Hmas. cbn [bind]. rewrite f_eqs_refl. cbn [bind fst]. reflexivity. }
      pose proof (evs_values true h mws a recD mas L ts M' Hmas HL HF HML) as HevM.
      bind_inv H as st Hst. destruct st as [[pd robjs] used]. injection H as Eb _. subst db. cbn [app].
      assert (Hfl : forall fs, In fs (map (pair false) (sT :: M')) -> true && fst fs = false).
      { intros fs Hfs. apply in_map_iff in Hfs. destruct Hfs as [x [E _]]. subst fs. reflexivity. }
      pose proof (mult_loop_fold env canon true (Def h mws a) recD mas Hmas (map (pair false) (sT :: M')) Hfl [] [] []) as F.
      rewrite Hst in F. cbn [rmap fst] in F. rewrite map_snd_pair in F. cbn [evs] in F. rewrite HevT, HevM in F. cbn [bind rmap] in F.
      injection F as F.
      destruct (fold_pstep_grel (map Some (List.combine ts L)) [] [] [] grel_nil) as [g [Hg Eg]]. rewrite <- F in Hg. cbn [fst snd] in Hg.
      cbn [somesP] in Eg. rewrite somesP_map_some, kl_dd in Eg.
      pose proof (Forall2_length' _ _ _ _ _ HF) as Hlen.
      rewrite dd_id in Eg by (unfold pkeys; rewrite combine_fst by (symmetry; exact Hlen); exact Hnd).
      assert (Esr : somes robjs = L).
      { rewrite (gr_objs _ _ _ Hg), somes_objs_of, Eg. apply combine_snd. symmetry. exact Hlen. }
      rewrite Esr. apply dsp_mult; [exact Em|exact Hwb0].
  Qed.

  (* ---------------------------------------------------------------- block lists as pairs / triples *)
  Lemma Bl2_lengths : forall X (Q:obj -> X -> list obj -> Prop) es xs ys, Bl2 Q es xs ys -> length xs = length ys.
  Proof. intros X Q es xs ys H. induction H; cbn; congruence. Qed.

  Lemma Bl2_pairs : forall X (Q:obj -> X -> list obj -> Prop) es xs ys, Bl2 Q es xs ys ->
    Bl (fun k (p:X * list obj) => Q k (fst p) (snd p)) es (List.combine xs ys).
  Proof. intros X Q es xs ys H. induction H; cbn [List.combine]; constructor; assumption. Qed.

  Lemma flat_map_id : forall (bs:list (list obj)), flat_map (fun x => x) bs = List.concat bs.
  Proof. induction bs as [|b bs IH]; cbn; [reflexivity|rewrite IH; reflexivity]. Qed.
  Lemma flat_map_snd : forall A (xs:list (A * list obj)), flat_map snd xs = List.concat (map snd xs).
  Proof. induction xs as [|x xs IH]; cbn; [reflexivity|rewrite IH; reflexivity]. Qed.

  (* ---------------------------------------------------------------- the difference merged back *)
  Definition PR (k:obj) (x:list obj * list obj) : Prop := dsp k (fst x) (snd x).
  Definition QR (k:obj) (x:list obj * list obj) (rb:list obj) : Prop := req k (fst x) (snd x) rb.

  Definition rec_req (k:obj) (recF:list lsrc -> res fout) : Prop :=
    forall xs comb ros u, Bl PR (entries (okids k)) xs -> lplain comb ->
    lview comb = strip_objs (List.concat (map snd xs)) -> recF comb = Ok (ros, u) ->
    exists rbs, ros = List.concat rbs /\ Bl2 QR (entries (okids k)) xs rbs.

  Lemma wb_def_inv : forall h mws a v, omultiple (Def h mws a) = false -> wb (Def h mws a) [v] -> vfix (Def h mws a) v.
  Proof.
    intros h mws a v Em H. inversion H as [h0 mws0 a0 v0 Em0 Hv|?|k mas L ts Em1 Hd Hmas HL HF Hnd]; subst.
    - exact Hv.
    - congruence.
  Qed.

  Lemma fetch_one_req : forall allks chain i k recF b db,
    odis (ohdr k) = false -> oplain k -> def_ok k ->
    self_matching allks chain i (onm k) = [] -> dsp k b db -> rec_req k recF ->
    forall sD rb u, lplain sD -> map sl (match_sources (onm k) sD) = strip_objs db ->
    fetch_one env canon false allks chain i k recF sD = Ok (rb, u) -> req k b db rb.
  Proof.
    intros allks chain i k recF b db Hact Hk Hok Hself Hd Hrec sD rb u Hp Hv H.
    unfold fetch_one in H. unfold onm in Hv, Hself.
    destruct (get_attr (s_ "alias") (oattrs k)); try discriminate.
    destruct (oname (ohdr k)) as [|c0 nm] eqn:En; [discriminate|].
    pose proof (match_sources_plain (c0 :: nm) sD Hp) as Hm.
    pose proof Hd as Hd0.
    destruct Hd as [h mws a v x y Em Hvf Hx Hy Exy|h mws a v x Em Hvf Hx Hy|h kids a bs dbs Em HB HB2|k T L Em Hw].
    - (* kept definition *)
      rewrite Em in H. cbn [negb] in H. cbn [ohdr] in Hact.
      pose proof Hvf as [ws [Ev [Hws Hfix]]].
      assert (Hsv : strip_objs [v] = [v]) by (subst v; cbn [strip_objs dcopy ohdr with_tmpl odis]; rewrite Hact; reflexivity).
      rewrite Hsv in Hv.
      destruct (match_sources (c0 :: nm) sD) as [|s' r'] eqn:EM; [discriminate|]. destruct r'; [|discriminate].
      cbn [map] in Hv. injection Hv as Hv.
      assert (El : lobj s' = v) by (unfold sl in Hv; rewrite Ev in Hv |- *; apply strip_obj_def_inv; exact Hv).
      cbn [def_loop] in H. unfold def_fetch in H. rewrite (Hfix false s' El) in H. cbn [bind] in H.
      injection H as Eb _. subst rb. apply req_keep; assumption.
    - (* dropped definition: the master's own comes back *)
      rewrite Em in H. cbn [negb] in H.
      cbn [strip_objs] in Hv. destruct (match_sources (c0 :: nm) sD) as [|s' r'] eqn:EM; [|discriminate].
      cbn [def_loop bind] in H. destruct Hok as [_ [Hdep _]]. rewrite Hdep in H. cbn [negb andb] in H.
      injection H as Eb _. subst rb. apply req_drop; assumption.
    - (* scope *)
      rewrite Em in H. cbn [negb] in H. cbn [ohdr] in Hact.
      pose proof (Bl2_pairs _ _ _ _ _ HB2) as HBP. pose proof (Bl2_lengths _ _ _ _ _ HB2) as Hlen.
      set (xs := List.combine bs dbs) in *.
      assert (Efst : map fst xs = bs) by (apply combine_fst; exact Hlen).
      assert (Esnd : map snd xs = dbs) by (apply combine_snd; exact Hlen).
      assert (Hrun : forall comb, lplain comb -> lview comb = strip_objs (List.concat dbs) ->
                forall oc, recF comb = Ok oc -> req (Scp h kids a) [scopy h a (List.concat bs)] (optscope h a (List.concat dbs))
                                                   [scopy h a (fst oc)]).
      { intros comb Hcp Hcv [ros u0] Hoc. cbn [fst].
        destruct (Hrec xs comb ros u0 HBP Hcp) as [rbs [Eros HB3]]; [rewrite Esnd; exact Hcv|exact Hoc|].
        subst ros. rewrite <- Efst, <- Esnd. apply req_scp; assumption. }
      destruct (List.concat dbs) as [|d0 dr] eqn:Edbs; cbn [optscope] in Hv, Hrun |- *.
      + cbn [strip_objs] in Hv. destruct (match_sources (c0 :: nm) sD) as [|s' r'] eqn:EM; [|discriminate].
        cbn [combine bind] in H. bind_inv H as oc Hoc. cbn [andb] in H. injection H as Eb _. subst rb.
        apply (Hrun [] (fun x Hx => match Hx with end) eq_refl oc Hoc).
      + assert (Hso : strip_objs [scopy h a (d0 :: dr)] = [Scp (with_tmpl h 0) (strip_objs (d0 :: dr)) a]).
        { cbn [strip_objs scopy ohdr with_tmpl odis]. rewrite Hact. reflexivity. }
        rewrite Hso in Hv.
        destruct (match_sources (c0 :: nm) sD) as [|s' r'] eqn:EM; [discriminate|]. destruct r'; [|discriminate].
        cbn [map] in Hv. injection Hv as Hv. unfold sl in Hv. apply strip_obj_scp_inv in Hv. destruct Hv as [ks' [El Ek]].
        cbn [combine] in H. rewrite El in H. cbn [is_def bind] in H.
        bind_inv H as oc Hoc. cbn [andb] in H. injection H as Eb _. subst rb.
        apply (Hrun (src_kids s' ++ [])); [| |exact Hoc].
        * rewrite app_nil_r. apply src_kids_plain1. apply Hm. left. reflexivity.
        * rewrite app_nil_r, lview_src_kids. unfold sl. rewrite El, strip_obj_scp. cbn. exact Ek.
    - (* multiple definition: the same block comes back *)
      inversion Hw as [?|?|k0 mas L0 ts Em0 Hdk Hmas HL HF Hnd]; subst; try congruence.
      destruct k as [h mws a|h ks a]; [|discriminate Hdk]. rewrite Em in H. cbn [negb] in H. cbn [ohdr] in Hact.
      rewrite Hmas in H. cbn [bind] in H. rewrite Hself in H. cbn [map app] in H.
      assert (HLd : forall c, In c L -> exists h' ws' a', c = Def h' ws' a' /\ odis h' = false).
      { intros c Hc. rewrite Forall_forall in HL. destruct (vfix_def _ _ (HL c Hc)) as [h' [ws' [a' [E Hd']]]].
        exists h', ws', a'. split; [exact E|]. rewrite Hd'. exact Hact. }
      rewrite (strip_defs L HLd) in Hv.
      assert (HML : map lobj (match_sources (c0 :: nm) sD) = L).
      { apply views_defs; [|exact Hv]. intros c Hc. destruct (HLd c Hc) as [h' [ws' [a' [E _]]]]. eauto. }
      pose proof (evs_values false h mws a recF mas L ts _ Hmas HL HF HML) as HevM.
      bind_inv H as st Hst. destruct st as [[pd robjs] used]. injection H as Eb _. subst rb.
      pose proof (mult_loop_fold env canon false (Def h mws a) recF mas Hmas (map (pair false) (match_sources (c0 :: nm) sD)) (fun _ _ => eq_refl) [] [] []) as F.
      rewrite Hst in F. cbn [rmap fst] in F. rewrite map_snd_pair in F. rewrite HevM in F. cbn [rmap] in F. injection F as F.
      destruct (fold_pstep_grel (map Some (List.combine ts L)) [] [] [] grel_nil) as [g [Hg Eg]]. rewrite <- F in Hg. cbn [fst snd] in Hg.
      cbn [somesP] in Eg. rewrite somesP_map_some, kl_dd in Eg.
      pose proof (Forall2_length' _ _ _ _ _ HF) as Hlen.
      rewrite dd_id in Eg by (unfold pkeys; rewrite combine_fst by (symmetry; exact Hlen); exact Hnd).
      assert (Esr : somes robjs = L).
      { rewrite (gr_objs _ _ _ Hg), somes_objs_of, Eg. apply combine_snd. symmetry. exact Hlen. }
      assert (Hiff : pd = [] <-> L = []).
      { rewrite (grel_pd_nil _ _ _ Hg), Eg. clear -Hlen. destruct L as [|c L'], ts as [|t ts']; cbn in Hlen |- *; try lia; split; intros E; try reflexivity; discriminate E. }
      pose proof (template_flag (Def h mws a) pd L Hiff) as Etf.
      unfold template_of in Etf. cbn [set_hdr ohdr] in Etf. cbn [app]. rewrite Esr, Etf.
      apply (req_mult (Def h mws a) (set_hdr (Def h mws a) (with_tmpl (ohdr (Def h mws a)) (tmpl_flag (Def h mws a) L)) :: L) L); assumption.
  Qed.

  (* ---------------------------------------------------------------- the difference of what came back *)
  Definition X3 : Type := ((list obj * list obj) * list obj)%type.
  Definition PD2 (k:obj) (x:X3) : Prop := req k (fst (fst x)) (snd (fst x)) (snd x).
  Definition QD2 (k:obj) (x:X3) (d2b:list obj) : Prop := d2b = snd (fst x).

  Definition rec_d2 (k:obj) (recD:list lsrc -> res fout) : Prop :=
    forall (xs:list X3) comb d2os u, Bl PD2 (entries (okids k)) xs -> lplain comb ->
    lview comb = strip_objs (List.concat (map snd xs)) -> recD comb = Ok (d2os, u) ->
    d2os = List.concat (map (fun x:X3 => snd (fst x)) xs).

  Lemma dsp_mult_inv : forall k b d d', omultiple k = true -> dsp k b d -> dsp k b d' -> d = d'.
  Proof.
    intros k b d d' Em H H'.
    destruct H as [h mws a v x y Em0|h mws a v x Em0|h kids a bs dbs Em0|k T L _ Hw]; try congruence.
    inversion H' as [? ? ? ? ? ? Em1|? ? ? ? ? Em1|? ? ? ? ? Em1|k1 T1 L1 _ Hw1]; subst; try congruence.
  Qed.

  Lemma fetch_one_d2 : forall allks chain i k recD b db rb,
    odis (ohdr k) = false -> oplain k -> def_ok k ->
    self_matching allks chain i (onm k) = [] -> req k b db rb -> rec_dsp k recD -> rec_d2 k recD ->
    forall sR d2b u, lplain sR -> map sl (match_sources (onm k) sR) = strip_objs rb ->
    fetch_one env canon true allks chain i k recD sR = Ok (d2b, u) -> d2b = db.
  Proof.
    intros allks chain i k recD b db rb Hact Hk Hok Hself Hr Hrd Hr2 sR d2b u Hp Hv H.
    destruct Hr as [h mws a v Em Hd|h mws a v Em Hd|h kids a xs rbs Em HB|k b L Em Hd].
    - (* kept: the same run as the first difference *)
      pose proof (fetch_one_dsp allks chain i _ recD [v] Hact Hk Hok Hself (dsp_wb _ _ _ Hd) Hrd sR d2b u Hp Hv H) as Hd'.
      inversion Hd as [? ? ? ? x y _ Hvf Hx Hy Exy|? ? ? ? ? _ ? ? ?|?|? ? ? Em1 ?]; subst; try congruence.
      inversion Hd' as [|? ? ? ? x' _ _ Hx' Hy'|?|? ? ? Em1 ?]; subst; try congruence.
      rewrite Hx in Hx'. injection Hx' as E. subst x'. rewrite Hy in Hy'. injection Hy' as E. subst y.
      rewrite f_eqs_refl in Exy. discriminate.
    - (* dropped: the master's own definition does not differ from itself *)
      unfold fetch_one in H. unfold onm in Hv.
      destruct (get_attr (s_ "alias") (oattrs (Def h mws a))); try discriminate.
      destruct (oname (ohdr (Def h mws a))) as [|c0 nm] eqn:En; [discriminate|].
      rewrite Em in H. cbn [negb] in H. cbn [ohdr] in Hact.
      cbn [strip_objs ohdr] in Hv. rewrite Hact in Hv. cbn [strip_obj] in Hv.
      destruct (match_sources (c0 :: nm) sR) as [|s' r'] eqn:EM; [discriminate|]. destruct r'; [|discriminate].
      cbn [map] in Hv. injection Hv as Hv. unfold sl in Hv. apply strip_obj_def_inv in Hv.
      cbn [def_loop] in H. unfold def_fetch in H.
      rewrite (def_self_fetch_dm true h mws a s' Hok (proj1 (oplain_def h mws a) Hk)) in H by (eexists; eexists; exact Hv).
      cbn [bind] in H. rewrite (H_self (Def h mws a)) in H.
      inversion Hd as [|? ? ? ? x _ _ Hx Hy|?|? ? ? Em1 ?]; subst; try congruence.
      rewrite Hy in H. cbn [bind] in H. rewrite f_eqs_refl in H. cbn [bind negb andb] in H. injection H as E _. auto.
    - (* scope *)
      unfold fetch_one in H. unfold onm in Hv.
      destruct (get_attr (s_ "alias") (oattrs (Scp h kids a))); try discriminate.
      destruct (oname (ohdr (Scp h kids a))) as [|c0 nm] eqn:En; [discriminate|].
      pose proof (match_sources_plain (c0 :: nm) sR Hp) as Hm.
      rewrite Em in H. cbn [negb] in H. cbn [ohdr] in Hact.
      assert (Hso : strip_objs [scopy h a (List.concat rbs)] = [Scp (with_tmpl h 0) (strip_objs (List.concat rbs)) a]).
      { cbn [strip_objs scopy ohdr with_tmpl odis]. rewrite Hact. reflexivity. }
      rewrite Hso in Hv.
      destruct (match_sources (c0 :: nm) sR) as [|s' r'] eqn:EM; [discriminate|]. destruct r'; [|discriminate].
      cbn [map] in Hv. injection Hv as Hv. unfold sl in Hv. apply strip_obj_scp_inv in Hv. destruct Hv as [ks' [El Ek]].
      cbn [combine] in H. rewrite El in H. cbn [is_def bind] in H.
      bind_inv H as oc Hoc. destruct oc as [d2os u0]. cbn [fst snd andb] in H.
      pose proof (Bl2_pairs _ _ _ _ _ HB) as HBP. pose proof (Bl2_lengths _ _ _ _ _ HB) as Hlen.
      assert (E2 : d2os = List.concat (map (fun x:X3 => snd (fst x)) (List.combine xs rbs))).
      { apply (Hr2 (List.combine xs rbs) (src_kids s' ++ []) d2os u0 HBP).
        - rewrite app_nil_r. apply src_kids_plain1. apply Hm. left. reflexivity.
        - rewrite app_nil_r, lview_src_kids. unfold sl. rewrite El, strip_obj_scp. cbn [okids].
          rewrite (combine_snd _ _ xs rbs Hlen). exact Ek.
        - exact Hoc. }
      assert (Emap : map (fun x:X3 => snd (fst x)) (List.combine xs rbs) = map snd xs).
      { rewrite <- (combine_fst _ _ xs rbs Hlen) at 2. rewrite map_map. reflexivity. }
      rewrite Emap in E2. subst d2os.
      destruct (null_objs (List.concat (map snd xs))) eqn:En0; injection H as Eb _; subst d2b;
        destruct (List.concat (map snd xs)); try discriminate; reflexivity.
    - (* multiple: the same block, the same difference *)
      pose proof (fetch_one_dsp allks chain i k recD b Hact Hk Hok Hself (dsp_wb _ _ _ Hd) Hrd sR d2b u Hp Hv H) as Hd'.
      eapply dsp_mult_inv; eassumption.
  Qed.

  (* ---------------------------------------------------------------- the whole scope *)
  (* no .multiple scope: the .multiple entries are definitions *)
  Inductive nms : obj -> Prop :=
    | nms_def : forall h ws a, nms (Def h ws a)
    | nms_scp : forall h ks a,
        (forall k, In k (entries ks) -> (omultiple k = true -> is_def k = true) /\ nms k) -> nms (Scp h ks a).

  Lemma Bl2_QD2 : forall es (xs:list X3) ys, Bl2 QD2 es xs ys -> ys = map (fun x:X3 => snd (fst x)) xs.
  Proof. intros es xs ys H. induction H as [|k x y es xs ys Hq _ IH]; [reflexivity|]. cbn [map]. rewrite Hq, IH. reflexivity. Qed.

  Lemma In_ientries : forall l seen i j k, In (j, k) (ientries_from seen i l) -> In k (entries_from seen l).
  Proof. intros l seen i j k H. rewrite <- (ientries_snd l seen i). apply (in_map snd) in H. exact H. Qed.

  Lemma scope_cycle : forall M, wfd env canon M -> wf_obj M -> nms M -> oplain M -> forall chain,
    rec_wb M (fetch_scope env canon false M chain) /\ rec_dsp M (fetch_scope env canon true M chain) /\
    rec_req M (fetch_scope env canon false M chain) /\ rec_d2 M (fetch_scope env canon true M chain).
  Proof.
    induction M as [h ws a|h ks a IH] using obj_ind2; intros Hwf Hu Hn HM chain.
    - repeat split; intro; intros; cbn in *; discriminate.
    - inversion Hwf as [|h0 ks0 a0 Hnd Hent]; subst. inversion Hn as [|h1 ks1 a1 Hnms]; subst.
      pose proof Hu as [Hun _].
      pose proof (proj1 (oplain_scp h ks a) HM) as Hks. rewrite Forall_forall in IH.
      pose proof (active_names_nonempty env canon _ _ _ Hwf Hun) as Hnames.
      assert (Hnm : forall k, In k (entries ks) -> onm k <> [] /\ nodot (onm k)).
      { intros k Hk. destruct (Hent k Hk) as [A [B _]]. auto. }
      (* facts about one entry at its position *)
      assert (HE : forall j k, In (j, k) (ientries_from [] 0 ks) ->
                odis (ohdr k) = false /\ oplain k /\ def_ok k /\ (omultiple k = true -> is_def k = true) /\
                self_matching ks (ks :: chain) j (onm k) = [] /\
                rec_wb k (fetch_scope env canon false k (ks :: chain)) /\ rec_dsp k (fetch_scope env canon true k (ks :: chain)) /\
                rec_req k (fetch_scope env canon false k (ks :: chain)) /\ rec_d2 k (fetch_scope env canon true k (ks :: chain))).
      { intros j k Hjk. pose proof (In_ientries _ _ _ _ _ Hjk) as Hk.
        destruct (entries_active _ _ _ Hk) as [Hact Hin].
        destruct (Hent k Hk) as [_ [Hdot [_ Hw]]]. destruct (Hnms k Hk) as [Hmd Hnk].
        destruct (ientries_nth _ _ _ _ _ Hjk) as [_ Hnth]. rewrite Nat.sub_0_r in Hnth.
        assert (Hkp : oplain k) by (apply Hks; exact Hin).
        split; [exact Hact|]. split; [exact Hkp|]. split; [eapply wfd_def_ok; exact Hw|]. split; [exact Hmd|].
        split; [apply self_matching_uniq; try assumption; intros x Hx Hd; apply (Hnames x Hx Hd)|].
        apply (IH k Hin Hw (wf_obj_kid _ _ _ _ Hu Hin Hact) Hnk Hkp). }
      split; [|split; [|split]].
      + (* the blocks of a fetch result *)
        intros comb os u Hp H. cbn [fetch_scope] in H.
        destruct (mloop_blocks (fun i0 k0 => fetch_one env canon false ks (ks :: chain) i0 k0 (fetch_scope env canon false k0 (ks :: chain)) comb) wb ks [] 0 (os, u)) with (2 := H) as [bs [E HB]]; [|exists bs; split; [exact E|exact HB]].
        intros j k [bb ub] Hjk Hb. destruct (HE j k Hjk) as [A [B [C [D [E [F _]]]]]]. cbn [fst].
        eapply fetch_one_wb; eassumption.
      + (* their difference *)
        intros bs comb dos u HB Hp Hv H. cbn [fetch_scope okids] in *.
        destruct (mloop_an (list obj) (fun x => x) wb dsp (fun i0 k0 => fetch_one env canon true ks (ks :: chain) i0 k0 (fetch_scope env canon true k0 (ks :: chain)) comb) wb_named (List.concat bs) ks [] 0 bs [] [] (dos, u) HB Hnd Hnm)
          as [ys [Eys HB2]]; [intros x []|cbn [app]; rewrite app_nil_r; symmetry; apply flat_map_id|exact H| |exists ys; split; [exact Eys|exact HB2]].
        intros j k x [bo uo] Hjk Hx Hg Hb. destruct (HE j k Hjk) as [A [B [C [D [E [_ [G _]]]]]]]. cbn [fst].
        eapply fetch_one_dsp; try eassumption.
        rewrite (match_sources_gview (onm k) comb (List.concat bs) Hv). exact Hg.
      + (* merged back *)
        intros xs comb ros u HB Hp Hv H. cbn [fetch_scope okids] in *.
        destruct (mloop_an (list obj * list obj)%type snd PR QR (fun i0 k0 => fetch_one env canon false ks (ks :: chain) i0 k0 (fetch_scope env canon false k0 (ks :: chain)) comb) (fun k x Hx => dsp_named _ _ _ Hx) (List.concat (map snd xs)) ks [] 0 xs [] [] (ros, u) HB Hnd Hnm)
          as [ys [Eys HB2]]; [intros x []|cbn [app]; rewrite app_nil_r; symmetry; apply flat_map_snd|exact H| |exists ys; split; [exact Eys|exact HB2]].
        intros j k x [bo uo] Hjk Hx Hg Hb. destruct (HE j k Hjk) as [A [B [C [D [E [_ [_ [G _]]]]]]]]. cbn [fst].
        unfold QR. eapply fetch_one_req; try eassumption.
        rewrite (match_sources_gview (onm k) comb (List.concat (map snd xs)) Hv). exact Hg.
      + (* and differenced again *)
        intros xs comb d2os u HB Hp Hv H. cbn [fetch_scope okids] in *.
        destruct (mloop_an X3 snd PD2 QD2 (fun i0 k0 => fetch_one env canon true ks (ks :: chain) i0 k0 (fetch_scope env canon true k0 (ks :: chain)) comb) (fun k x Hx => req_named _ _ _ _ Hx) (List.concat (map snd xs)) ks [] 0 xs [] [] (d2os, u) HB Hnd Hnm)
          as [ys [Eys HB2]]; [intros x []|cbn [app]; rewrite app_nil_r; symmetry; apply flat_map_snd|exact H| |].
        * intros j k x [bo uo] Hjk Hx Hg Hb. destruct (HE j k Hjk) as [A [B [C [D [E [_ [G1 [_ G2]]]]]]]]. cbn [fst].
          unfold QD2. eapply fetch_one_d2; try eassumption.
          rewrite (match_sources_gview (onm k) comb (List.concat (map snd xs)) Hv). exact Hg.
        * cbn [fst] in Eys. rewrite Eys, (Bl2_QD2 _ _ _ HB2). reflexivity.
  Qed.

  (* ---------------------------------------------------------------- the difference of the defaults *)
  Inductive dflb : obj -> list obj -> Prop :=
    | dflb_def : forall h mws a, omultiple (Def h mws a) = false -> dflb (Def h mws a) [Def h mws a]
    | dflb_scp : forall h kids a bs, omultiple (Scp h kids a) = false -> Bl dflb (entries kids) bs ->
        dflb (Scp h kids a) [scopy h a (List.concat bs)]
    | dflb_mult : forall k h', omultiple k = true -> is_def k = true -> odis h' = odis (ohdr k) -> oname h' = oname (ohdr k) ->
        dflb k [set_hdr k h'].

  Lemma dflb_named : forall k b, dflb k b -> forall o, In o b -> named k o.
  Proof.
    intros k b H o Ho. destruct H as [h mws a Em|h kids a bs Em HB|k h' Em Hd Hdis Hnm]; destruct Ho as [E|[]]; subst o.
    - split; reflexivity.
    - split; reflexivity.
    - destruct k; split; cbn; assumption.
  Qed.

  Definition rec_dflb (k:obj) (rec:list lsrc -> res fout) : Prop :=
    forall os u, rec [] = Ok (os, u) -> exists bs, os = List.concat bs /\ Bl dflb (entries (okids k)) bs.
  Definition rec_dd (k:obj) (recD:list lsrc -> res fout) : Prop :=
    forall bs comb dos u, Bl dflb (entries (okids k)) bs -> lplain comb -> lview comb = strip_objs (List.concat bs) ->
    recD comb = Ok (dos, u) -> dos = [].

  Lemma match_sources_nil : forall n, match_sources n [] = [].
  Proof. reflexivity. Qed.

  Lemma fetch_one_dflb : forall allks chain i k rec b u,
    def_ok k -> (omultiple k = true -> is_def k = true) ->
    self_matching allks chain i (onm k) = [] -> rec_dflb k rec ->
    fetch_one env canon false allks chain i k rec [] = Ok (b, u) -> dflb k b.
  Proof.
    intros allks chain i k rec b u Hok Hmd Hself Hrec H. unfold fetch_one in H. unfold onm in Hself.
    destruct (get_attr (s_ "alias") (oattrs k)); try discriminate.
    destruct (oname (ohdr k)) as [|c0 nm] eqn:En; [discriminate|].
    rewrite match_sources_nil in H.
    destruct (omultiple k) eqn:Em; cbn [negb] in H.
    - specialize (Hmd eq_refl). bind_inv H as mas Hmas. rewrite Hself in H. cbn [map app mult_loop bind] in H.
      injection H as Eb _. subst b. cbn [somes app]. unfold template_of.
      apply dflb_mult; try assumption; destruct k; reflexivity.
    - destruct k as [h mws a|h ks a].
      + cbn [def_loop bind] in H. destruct Hok as [_ [Hdep _]]. rewrite Hdep in H. cbn [negb andb] in H.
        injection H as Eb _. subst b. apply dflb_def. exact Em.
      + cbn [combine bind] in H. bind_inv H as oc Hoc. cbn [andb] in H. injection H as Eb _. subst b.
        destruct oc as [os u0]. destruct (Hrec os u0 Hoc) as [bs [E HB]]. cbn [fst]. subst os. apply dflb_scp; assumption.
  Qed.

  Lemma fetch_one_dd : forall allks chain i k recD b,
    odis (ohdr k) = false -> oplain k -> def_ok k ->
    self_matching allks chain i (onm k) = [] -> dflb k b -> rec_dd k recD ->
    forall sW db u, lplain sW -> map sl (match_sources (onm k) sW) = strip_objs b ->
    fetch_one env canon true allks chain i k recD sW = Ok (db, u) -> db = [].
  Proof.
    intros allks chain i k recD b Hact Hk Hok Hself Hdf Hrec sW db u Hp Hv H.
    unfold fetch_one in H. unfold onm in Hv, Hself.
    destruct (get_attr (s_ "alias") (oattrs k)); try discriminate.
    destruct (oname (ohdr k)) as [|c0 nm] eqn:En; [discriminate|].
    pose proof (match_sources_plain (c0 :: nm) sW Hp) as Hm.
    destruct Hdf as [h mws a Em|h kids a bs Em HB|k h' Em Hd Hdis Hnm].
    - rewrite Em in H. cbn [negb] in H. cbn [ohdr] in Hact.
      cbn [strip_objs ohdr] in Hv. rewrite Hact in Hv. cbn [strip_obj] in Hv.
      destruct (match_sources (c0 :: nm) sW) as [|s' r'] eqn:EM; [discriminate|]. destruct r'; [|discriminate].
      cbn [map] in Hv. injection Hv as Hv. unfold sl in Hv. apply strip_obj_def_inv in Hv.
      cbn [def_loop] in H. unfold def_fetch in H.
      rewrite (def_self_fetch_dm true h mws a s' Hok (proj1 (oplain_def h mws a) Hk)) in H by (eexists; eexists; exact Hv).
      cbn [bind] in H. rewrite (H_self (Def h mws a)) in H.
      destruct (canon (Def h mws a) None) as [y| |]; cbn [bind] in H; try discriminate.
      rewrite f_eqs_refl in H. cbn [bind negb andb] in H. injection H as E _. auto.
    - rewrite Em in H. cbn [negb] in H. cbn [ohdr] in Hact.
      assert (Hso : strip_objs [scopy h a (List.concat bs)] = [Scp (with_tmpl h 0) (strip_objs (List.concat bs)) a]).
      { cbn [strip_objs scopy ohdr with_tmpl odis]. rewrite Hact. reflexivity. }
      rewrite Hso in Hv.
      destruct (match_sources (c0 :: nm) sW) as [|s' r'] eqn:EM; [discriminate|]. destruct r'; [|discriminate].
      cbn [map] in Hv. injection Hv as Hv. unfold sl in Hv. apply strip_obj_scp_inv in Hv. destruct Hv as [ks' [El Ek]].
      cbn [combine] in H. rewrite El in H. cbn [is_def bind] in H.
      bind_inv H as oc Hoc. destruct oc as [dos u0]. cbn [fst snd andb] in H.
      assert (E0 : dos = []).
      { apply (Hrec bs (src_kids s' ++ []) dos u0 HB); [| |exact Hoc].
        - rewrite app_nil_r. apply src_kids_plain1. apply Hm. left. reflexivity.
        - rewrite app_nil_r, lview_src_kids. unfold sl. rewrite El, strip_obj_scp. cbn. exact Ek. }
      subst dos. cbn in H. injection H as E _. auto.
    - destruct k as [h mws a|h ks a]; [|discriminate Hd]. rewrite Em in H. cbn [negb] in H. cbn [ohdr] in *.
      cbn [strip_objs set_hdr ohdr] in Hv. rewrite Hdis, Hact in Hv. cbn [strip_obj] in Hv.
      destruct (match_sources (c0 :: nm) sW) as [|sT r'] eqn:EM; [discriminate|]. destruct r'; [|discriminate].
      cbn [map] in Hv. injection Hv as Hv. unfold sl in Hv. apply strip_obj_def_inv in Hv.
      bind_inv H as mas Hmas. rewrite Hself in H. cbn [map app mult_loop] in H.
      cbn [cand_fetch] in H. unfold def_fetch in H.
      rewrite (def_self_fetch_dm true h mws a sT Hok (proj1 (oplain_def h mws a) Hk)) in H by (eexists; eexists; exact Hv).
      cbn [bind] in H. rewrite (H_self (Def h mws a)), Hmas in H. cbn [bind] in H. rewrite f_eqs_refl in H.
      cbn [bind fst snd diff_skip andb] in H. injection H as E _. subst db. reflexivity.
  Qed.

  Lemma Bl2_nils : forall X (es:list obj) (xs:list X) ys,
    Bl2 (fun (_:obj) (_:X) (y:list obj) => y = []) es xs ys -> List.concat ys = [].
  Proof. intros X es xs ys H. induction H as [|k x y es xs ys Hq _ IH]; [reflexivity|]. cbn. rewrite Hq, IH. reflexivity. Qed.

  Lemma scope_defaults : forall M, wfd env canon M -> wf_obj M -> nms M -> oplain M -> forall chain,
    rec_dflb M (fetch_scope env canon false M chain) /\ rec_dd M (fetch_scope env canon true M chain).
  Proof.
    induction M as [h ws a|h ks a IH] using obj_ind2; intros Hwf Hu Hn HM chain.
    - split; intro; intros; cbn in *; discriminate.
    - inversion Hwf as [|h0 ks0 a0 Hnd Hent]; subst. inversion Hn as [|h1 ks1 a1 Hnms]; subst.
      pose proof Hu as [Hun _].
      pose proof (proj1 (oplain_scp h ks a) HM) as Hks. rewrite Forall_forall in IH.
      pose proof (active_names_nonempty env canon _ _ _ Hwf Hun) as Hnames.
      assert (Hnm : forall k, In k (entries ks) -> onm k <> [] /\ nodot (onm k)).
      { intros k Hk. destruct (Hent k Hk) as [A [B _]]. auto. }
      assert (HE : forall j k, In (j, k) (ientries_from [] 0 ks) ->
                odis (ohdr k) = false /\ oplain k /\ def_ok k /\ (omultiple k = true -> is_def k = true) /\
                self_matching ks (ks :: chain) j (onm k) = [] /\
                rec_dflb k (fetch_scope env canon false k (ks :: chain)) /\ rec_dd k (fetch_scope env canon true k (ks :: chain))).
      { intros j k Hjk. pose proof (In_ientries _ _ _ _ _ Hjk) as Hk.
        destruct (entries_active _ _ _ Hk) as [Hact Hin].
        destruct (Hent k Hk) as [_ [Hdot [_ Hw]]]. destruct (Hnms k Hk) as [Hmd Hnk].
        destruct (ientries_nth _ _ _ _ _ Hjk) as [_ Hnth]. rewrite Nat.sub_0_r in Hnth.
        assert (Hkp : oplain k) by (apply Hks; exact Hin).
        split; [exact Hact|]. split; [exact Hkp|]. split; [eapply wfd_def_ok; exact Hw|]. split; [exact Hmd|].
        split; [apply self_matching_uniq; try assumption; intros x Hx Hd; apply (Hnames x Hx Hd)|].
        apply (IH k Hin Hw (wf_obj_kid _ _ _ _ Hu Hin Hact) Hnk Hkp). }
      split.
      + intros os u H. cbn [fetch_scope] in H.
        destruct (mloop_blocks (fun i0 k0 => fetch_one env canon false ks (ks :: chain) i0 k0 (fetch_scope env canon false k0 (ks :: chain)) []) dflb ks [] 0 (os, u)) with (2 := H) as [bs [E HB]]; [|exists bs; split; [exact E|exact HB]].
        intros j k [bb ub] Hjk Hb. destruct (HE j k Hjk) as [A [B [C [D [E [F _]]]]]]. cbn [fst].
        eapply fetch_one_dflb; eassumption.
      + intros bs comb dos u HB Hp Hv H. cbn [fetch_scope okids] in *.
        destruct (mloop_an (list obj) (fun x => x) dflb (fun _ _ y => y = [])
                    (fun i0 k0 => fetch_one env canon true ks (ks :: chain) i0 k0 (fetch_scope env canon true k0 (ks :: chain)) comb)
                    dflb_named (List.concat bs) ks [] 0 bs [] [] (dos, u) HB Hnd Hnm)
          as [ys [Eys HB2]]; [intros x []|cbn [app]; rewrite app_nil_r; symmetry; apply flat_map_id|exact H| |].
        * intros j k x [bo uo] Hjk Hx Hg Hb. destruct (HE j k Hjk) as [A [B [C [D [E [_ G]]]]]]. cbn [fst].
          eapply fetch_one_dd; try eassumption.
          rewrite (match_sources_gview (onm k) comb (List.concat bs) Hv). exact Hg.
        * cbn [fst] in Eys. rewrite Eys. eapply Bl2_nils. exact HB2.
  Qed.
End Cycle.

(* ------------------------------------------------------------------ root statements *)
Section Root.
  Variable env : str -> option str.
  Variable canon : obj -> option obj -> res str.
  Hypothesis H_self : forall k, canon k (Some k) = canon k None.

  Definition D08 (m:list obj) : Prop := D07 env canon m /\ wf_master m /\ nms (root_scope m).

  Lemma root_view : forall w, lview (root_lsrcs [w]) = strip_objs w.
  Proof. intros w. rewrite lview_root. cbn [flat_map]. apply app_nil_r. Qed.

  (* working parameters obtained by fetching: one block per master entry *)
  Theorem working_blocks : forall m srcs w, D08 m -> srcs_have_dollar srcs = false ->
    fetch env canon false m srcs = Ok w ->
    exists bs, w = List.concat bs /\ Bl (wb env canon) (entries m) bs.
  Proof.
    intros m srcs w [[Hwf Hmp] [Hu Hn]] Hd H. unfold fetch in H. bind_inv H as oc Hoc. injection H as E. subst w.
    destruct oc as [w u]. unfold fetch_root in Hoc.
    destruct (scope_cycle env canon H_self (root_scope m) Hwf Hu Hn (root_plain m Hmp) []) as [A _].
    apply (A (root_lsrcs srcs) w u); [apply lplain_root; exact Hd|exact Hoc].
  Qed.

  Theorem diff_spec : forall m srcs w d, D08 m -> srcs_have_dollar srcs = false ->
    fetch env canon false m srcs = Ok w -> fetch env canon true m [w] = Ok d ->
    exists bs dbs, w = List.concat bs /\ d = List.concat dbs /\ Bl2 (dsp env canon) (entries m) bs dbs.
  Proof.
    intros m srcs w d HD Hd H Hdf. destruct (working_blocks m srcs w HD Hd H) as [bs [Ew HB]].
    pose proof HD as [[Hwf Hmp] [Hu Hn]].
    pose proof (fetch_result_plain env canon false m srcs w Hmp Hd H) as Hwp.
    unfold fetch in Hdf. bind_inv Hdf as oc Hoc. injection Hdf as E. subst d. destruct oc as [d u]. unfold fetch_root in Hoc.
    destruct (scope_cycle env canon H_self (root_scope m) Hwf Hu Hn (root_plain m Hmp) []) as [_ [B _]].
    destruct (B bs (root_lsrcs [w]) d u HB) as [dbs [Ed HB2]].
    - apply lplain_root. exact Hwp.
    - rewrite root_view, Ew. reflexivity.
    - exact Hoc.
    - exists bs, dbs. auto.
  Qed.

  Theorem restore_spec : forall m srcs w d r, D08 m -> srcs_have_dollar srcs = false ->
    fetch env canon false m srcs = Ok w -> fetch env canon true m [w] = Ok d -> fetch env canon false m [d] = Ok r ->
    exists xs rbs, w = List.concat (map fst xs) /\ d = List.concat (map snd xs) /\ r = List.concat rbs /\
                   Bl2 (QR env canon) (entries m) xs rbs.
  Proof.
    intros m srcs w d r HD Hd H Hdf Hr. destruct (diff_spec m srcs w d HD Hd H Hdf) as [bs [dbs [Ew [Ed HB2]]]].
    pose proof HD as [[Hwf Hmp] [Hu Hn]].
    pose proof (fetch_result_plain env canon false m srcs w Hmp Hd H) as Hwp.
    pose proof (fetch_result_plain env canon true m [w] d Hmp Hwp Hdf) as Hdp.
    unfold fetch in Hr. bind_inv Hr as oc Hoc. injection Hr as E. subst r. destruct oc as [r u]. unfold fetch_root in Hoc.
    destruct (scope_cycle env canon H_self (root_scope m) Hwf Hu Hn (root_plain m Hmp) []) as [_ [_ [C _]]].
    pose proof (Bl2_lengths _ _ _ _ _ HB2) as Hlen.
    destruct (C (List.combine bs dbs) (root_lsrcs [d]) r u (Bl2_pairs _ _ _ _ _ HB2)) as [rbs [Er HB3]].
    - apply lplain_root. exact Hdp.
    - rewrite root_view, (combine_snd _ _ bs dbs Hlen), Ed. reflexivity.
    - exact Hoc.
    - exists (List.combine bs dbs), rbs. rewrite (combine_fst _ _ bs dbs Hlen), (combine_snd _ _ bs dbs Hlen). auto.
  Qed.

  Theorem diff_of_restored : forall m srcs w d r d2, D08 m -> srcs_have_dollar srcs = false ->
    fetch env canon false m srcs = Ok w -> fetch env canon true m [w] = Ok d -> fetch env canon false m [d] = Ok r ->
    fetch env canon true m [r] = Ok d2 -> d2 = d.
  Proof.
    intros m srcs w d r d2 HD Hd H Hdf Hr Hd2.
    destruct (restore_spec m srcs w d r HD Hd H Hdf Hr) as [xs [rbs [Ew [Ed [Er HB3]]]]].
    pose proof HD as [[Hwf Hmp] [Hu Hn]].
    pose proof (fetch_result_plain env canon false m srcs w Hmp Hd H) as Hwp.
    pose proof (fetch_result_plain env canon true m [w] d Hmp Hwp Hdf) as Hdp.
    pose proof (fetch_result_plain env canon false m [d] r Hmp Hdp Hr) as Hrp.
    unfold fetch in Hd2. bind_inv Hd2 as oc Hoc. injection Hd2 as E. subst d2. destruct oc as [d2 u]. unfold fetch_root in Hoc.
    destruct (scope_cycle env canon H_self (root_scope m) Hwf Hu Hn (root_plain m Hmp) []) as [_ [_ [_ D]]].
    pose proof (Bl2_lengths _ _ _ _ _ HB3) as Hlen.
    rewrite (D (List.combine xs rbs) (root_lsrcs [r]) d2 u (Bl2_pairs _ _ _ _ _ HB3)).
    - cbn [fst]. rewrite Ed. f_equal. rewrite <- (combine_fst _ _ xs rbs Hlen) at 2. rewrite map_map. reflexivity.
    - apply lplain_root. exact Hrp.
    - rewrite root_view, (combine_snd _ _ xs rbs Hlen), Er. reflexivity.
    - exact Hoc.
  Qed.

  Theorem defaults_empty : forall m w0 d, D08 m ->
    fetch env canon false m [] = Ok w0 -> fetch env canon true m [w0] = Ok d -> d = [].
  Proof.
    intros m w0 d HD H Hdf. pose proof HD as [[Hwf Hmp] [Hu Hn]].
    pose proof (fetch_result_plain env canon false m [] w0 Hmp eq_refl H) as Hwp.
    destruct (scope_defaults env canon H_self (root_scope m) Hwf Hu Hn (root_plain m Hmp) []) as [A B].
    unfold fetch in H. bind_inv H as oc Hoc. injection H as E. subst w0. destruct oc as [w0 u]. unfold fetch_root in Hoc.
    cbn [fst] in *. destruct (A w0 u Hoc) as [bs [Ew HB]].
    unfold fetch in Hdf. bind_inv Hdf as oc Hoc'. injection Hdf as E. subst d. destruct oc as [d u']. unfold fetch_root in Hoc'.
    cbn [fst]. apply (B bs (root_lsrcs [w0]) d u' HB); [apply lplain_root; exact Hwp|rewrite root_view, Ew; reflexivity|exact Hoc'].
  Qed.
End Root.
