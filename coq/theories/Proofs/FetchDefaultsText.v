(* C07: "the master's own defaults, re-parsed from their printed TEXT, as first source".
   d = M.fetch() (no source), text = d.as_str() (attributes level 0), d' = parse(text); then
   M.fetch(sources=[d'] + S) and M.fetch(sources=S) succeed together, and their results agree up to the line
   numbers of value words (we) - hence in every printed form - and fail together with the SAME error
   (defaults_text_outcome).  Equality of the results on the nose fails: where S leaves a default, the run
   with d' in front hands on the word of d', which sits on its line of the printed text, the run without
   hands on the master's word (defaults_text_example: dtx_result2 <> dtx_result).
   Parts:
   A. defaults_pruned_first: the OBJECT form FetchDefaultsFirst.defaults_first with the hidden templates of d
      removed (what the text shows): M.fetch([prune d] + S) = M.fetch(S), outcome for outcome.  The induction of
      FetchDefaultsFirst with the pruned views of FetchReparse.refetch_pruned: under a .multiple name the
      first source holds the template copy only if it is not hidden (skipped by default_ok), then the kept
      instances without their own hidden templates (kept again: rec_idem_p).
   B. d' and prune d have the same skeleton up to word lines (defaults_text_skeleton: C01 round trip on the
      shown part of d).
   C. fetch_lines_prefix: FetchReparse.fetch_lines relates successful runs only; here the first source alone is
      fetched without error (refetch_pruned with no source), so its word lines matter to no error of the
      combined run: [prune d] + S and [d'] + S are related outcome for outcome.
   Hypotheses: those of C07_refetch_text (canon blind to word lines, D07, nohids, "$"-free sources, the
   shown part of d in dtree_ok); the last one is discharged for parsed masters (defaults_text_first_parsed). *)
From Coq Require Import List Ascii String Bool Arith ZArith Lia.
From Phil Require Import Base Tokenizer Tree Parser Show ShowProofs Vars Choice ChoiceProofs ChoiceTop Fetch FetchBasics FetchShape
  FetchDisabled FetchExamples FetchIdemLists FetchIdemBase FetchIdem FetchIdemCopy FetchIdemNoMult EntryFetch EntryIdem
  FetchMergeObs ShowErase TreeRoundtrip ParserShape FetchReparse FetchDomain FetchDefaultsFirst.
Import ListNotations.
Local Open Scope char_scope.

Notation rrel := FetchDisabled.rrel.
Notation rrel_bind := FetchDisabled.rrel_bind.

Section DefaultsPruned.
  Variable env : str -> option str.
  Variable canon : obj -> option obj -> res str.
  Notation fsc := (fetch_scope env canon false).

  (* ---------------------------------------------------------------- the multiple branch *)
  (* candidates of the second run: master occurrences S, candidates T that are all skipped (the template copy,
     if shown), the kept instances I of the first run, then the sources' candidates *)
  Lemma mult_branch_dflt_p : forall k rec mas S T preT I M2 M elS, canon k None = Ok mas -> rec_ok rec ->
    Forall2 srel M2 M ->
    evs env canon false k rec mas S = Ok elS ->
    evs env canon false k rec mas T = Ok preT -> somesP preT = [] ->
    evs env canon false k rec mas I = Ok (map Some (dd (somesP elS))) ->
    rrel (fun st st' : pdict * list (option obj) * list pos =>
            somes (snd (fst st)) = somes (snd (fst st')) /\ (fst (fst st) = [] <-> fst (fst st') = []))
      (mult_loop env canon false k rec mas (map (pair true) S ++ map (pair false) (T ++ I ++ M2)) [] [] [])
      (mult_loop env canon false k rec mas (map (pair true) S ++ map (pair false) M) [] [] []).
  Proof.
    intros k rec mas S T preT I M2 M elS Hmas Hrec HM HS HT HpT HI.
    pose proof (mult_loop_fold env canon false k rec mas Hmas (map (pair true) S ++ map (pair false) (T ++ I ++ M2))
                  (fun _ _ => eq_refl) [] [] []) as F2.
    pose proof (mult_loop_fold env canon false k rec mas Hmas (map (pair true) S ++ map (pair false) M)
                  (fun _ _ => eq_refl) [] [] []) as F1.
    rewrite (map_app snd), !map_snd_pair in F2, F1.
    rewrite evs_app, HS in F2, F1. cbn [bind] in F2, F1.
    rewrite evs_app, HT in F2. cbn [bind] in F2. rewrite evs_app, HI in F2. cbn [bind] in F2.
    rewrite (evs_srel env canon k rec mas M2 M Hrec HM) in F2.
    destruct (evs env canon false k rec mas M) as [elX| |] eqn:EX; cbn [bind rmap] in F2, F1.
    - apply rmap_fst_ok in F2. destruct F2 as [st2 [E2 F2]].
      apply rmap_fst_ok in F1. destruct F1 as [st1 [E1 F1]].
      rewrite E2, E1. cbn [FetchDisabled.rrel].
      destruct (fold_pstep_grel (elS ++ preT ++ map Some (dd (somesP elS)) ++ elX) [] [] [] grel_nil) as [g2 [Hg2 Eg2]].
      destruct (fold_pstep_grel (elS ++ elX) [] [] [] grel_nil) as [g1 [Hg1 Eg1]].
      rewrite <- F2 in Hg2. rewrite <- F1 in Hg1.
      cbn [somesP] in Eg2, Eg1. rewrite kl_dd in Eg2, Eg1.
      rewrite somesP_app in Eg2, Eg1. rewrite somesP_app, HpT in Eg2. cbn [app] in Eg2.
      rewrite somesP_app, somesP_map_some in Eg2.
      rewrite dd_defaults in Eg2.
      split.
      + rewrite (gr_objs _ _ _ Hg2), (gr_objs _ _ _ Hg1), !somes_objs_of, Eg2, Eg1. reflexivity.
      + rewrite (grel_pd_nil _ _ _ Hg2), (grel_pd_nil _ _ _ Hg1), Eg2, Eg1. reflexivity.
    - apply rmap_fst_err; [|intros x E; rewrite E in F1; discriminate F1]. rewrite F2, F1. reflexivity.
    - apply rmap_fst_err; [|intros x E; rewrite E in F1; discriminate F1]. rewrite F2, F1. reflexivity.
  Qed.

  (* ---------------------------------------------------------------- one master entry *)
  Definition rec_dflt_p (rec:list lsrc -> res fout) : Prop :=
    forall d u0 comb comb2, rec [] = Ok (d, u0) -> lplain comb -> lplain comb2 ->
      lview comb2 = strip_objs (prune d) ++ lview comb -> rrel same_tree (rec comb2) (rec comb).

  Lemma fetch_one_dflt_p : forall allks chain i k rec srcs srcs2 b u0,
    odis (ohdr k) = false -> oplain k -> (forall x, In x allks -> oplain x) -> def_ok k -> nohid k = true ->
    (omultiple k = true -> exists c0 u0, cand_fetch env canon false k rec (mklsrc [] k []) = Ok (Some c0, u0) /\
                                         canon k (Some c0) = canon k None) ->
    rec_ok rec -> rec_idem_p rec -> rec_mlike k rec -> rec_dflt_p rec ->
    lplain srcs -> lplain srcs2 ->
    fetch_one env canon false allks chain i k rec [] = Ok (b, u0) ->
    map sl (match_sources (onm k) srcs2) = strip_objs (prune b) ++ map sl (match_sources (onm k) srcs) ->
    rrel same_tree (fetch_one env canon false allks chain i k rec srcs2) (fetch_one env canon false allks chain i k rec srcs).
  Proof.
    intros allks chain i k rec srcs srcs2 b u0 Hact Hk Hall Hok Hnh Hdef Hrok Hrid Hrml Hrdf Hp Hp2 H0 Hv.
    destruct (omultiple k) eqn:Em.
    - (* ---- multiple *)
      unfold fetch_one in *. unfold onm in Hv.
      destruct (get_attr (s_ "alias") (oattrs k)); try discriminate.
      destruct (oname (ohdr k)) as [|c0 nm] eqn:En; [discriminate|].
      rewrite Em in *. cbn [negb] in *.
      change (match_sources (c0 :: nm) []) with (@nil lsrc) in H0.
      pose proof (match_sources_plain (c0 :: nm) srcs Hp) as Hm.
      pose proof (match_sources_plain (c0 :: nm) srcs2 Hp2) as Hm2.
      bind_inv H0 as mas Hmas. bind_inv H0 as st Hst. destruct st as [[pd robjs] used]. injection H0 as Eb Eu. subst b.
      cbn [app] in Hv.
      set (S := self_matching allks chain i (c0 :: nm)) in *.
      set (M := match_sources (c0 :: nm) srcs) in *.
      pose proof (mult_loop_fold env canon false k rec mas Hmas (map (pair true) S ++ map (pair false) []) (fun _ _ => eq_refl) [] [] []) as F.
      rewrite Hst in F. cbn [rmap fst] in F. rewrite map_app, !map_snd_pair, app_nil_r in F.
      destruct (evs env canon false k rec mas S) as [elS| |] eqn:HelS; cbn [rmap] in F; try discriminate.
      injection F as F.
      destruct (fold_pstep_grel elS [] [] [] grel_nil) as [g [Hg Eg]]. rewrite <- F in Hg. cbn [fst snd] in Hg.
      cbn [somesP] in Eg. rewrite kl_dd in Eg.
      assert (HL : somes robjs = map snd (dd (somesP elS))).
      { rewrite (gr_objs _ _ _ Hg), somes_objs_of, Eg. reflexivity. }
      assert (Hor : forall p, In p (dd (somesP elS)) -> exists s, oplain (lobj s) /\ ev env canon false k rec mas s = Ok (Some p)).
      { intros p Hp0. apply In_dd in Hp0. destruct (evs_In env canon false k rec mas _ _ _ HelS Hp0) as [s [Hs Hev]].
        exists s. split; [|exact Hev]. eapply self_matching_plain; eassumption. }
      assert (Hhdr : forall x, In x (somes robjs) -> ohdr x = with_tmpl (ohdr k) 0).
      { intros x Hx. rewrite HL in Hx. apply in_map_iff in Hx. destruct Hx as [[t c] [E Hx]]. cbn in E. subst x.
        destruct (Hor _ Hx) as [s [_ Hev]]. destruct (ev_some _ _ _ _ _ _ _ _ _ Hev) as [u1 [Hcf _]].
        exact (cand_fetch_hdr env canon _ _ _ _ _ Hcf). }
      assert (Hshown : forall x, In x (somes robjs) -> hidden x = false).
      { intros x Hx. unfold hidden. rewrite (Hhdr x Hx). reflexivity. }
      assert (Hactive : forall x, In x (map prune_obj (somes robjs)) -> odis (ohdr x) = false).
      { intros x Hx. apply in_map_iff in Hx. destruct Hx as [y [E Hy]]. subst x. rewrite prune_obj_hdr, (Hhdr y Hy). cbn. exact Hact. }
      assert (HactT : odis (ohdr (template_of k pd)) = false).
      { unfold template_of. destruct k; cbn; exact Hact. }
      assert (HpT : prune_obj (template_of k pd) = template_of k pd).
      { unfold template_of. rewrite prune_set_hdr, (prune_id_obj k Hnh). reflexivity. }
      cbn [prune] in Hv. rewrite (prune_shown_all _ Hshown) in Hv.
      (* the first source's candidates: nothing or the (skipped) template, then the kept instances *)
      assert (Hsplit : exists T preT I M2, match_sources (c0 :: nm) srcs2 = T ++ I ++ M2 /\
                 evs env canon false k rec mas T = Ok preT /\ somesP preT = [] /\
                 map sl I = map strip_obj (map prune_obj (map snd (dd (somesP elS)))) /\
                 map sl M2 = map sl M).
      { destruct (hidden (template_of k pd)) eqn:EhT.
        - rewrite (strip_objs_active_map _ Hactive) in Hv.
          apply map_eq_app in Hv. destruct Hv as [I [M2 [EM2 [HvI HvM]]]].
          exists [], [], I, M2. split; [exact EM2|]. split; [reflexivity|]. split; [reflexivity|].
          split; [rewrite HvI, HL; reflexivity|exact HvM].
        - cbn [strip_objs] in Hv. rewrite prune_obj_hdr, HactT, HpT in Hv. rewrite (strip_objs_active_map _ Hactive) in Hv.
          destruct (match_sources (c0 :: nm) srcs2) as [|sT M'] eqn:EM'; [discriminate|].
          cbn [map app] in Hv. injection Hv as HvT HvM.
          apply map_eq_app in HvM. destruct HvM as [I [M2 [EM2 [HvI HvM]]]]. subst M'.
          assert (HevT : ev env canon false k rec mas sT = Ok None).
          { destruct (Hdef eq_refl) as [cd [ud [Hcd Hcn]]].
            assert (Hsim : ssim sT (mklsrc [] k [])).
            { split; [|split; [apply Hm2; left; reflexivity|exact Hk]]. cbn [lobj].
              eapply same_body_trans; [apply same_body_sym, same_body_strip|]. unfold sl in HvT. rewrite HvT.
              eapply same_body_trans; [apply same_body_strip|]. unfold template_of. apply same_body_set_hdr. }
            pose proof (cand_fetch_ssim env canon false k rec sT _ Hrok Hsim) as R. rewrite Hcd in R.
            destruct (cand_fetch env canon false k rec sT) as [[cT uT]| |] eqn:EcT; cbn in R; try contradiction. subst cT.
            unfold ev. rewrite EcT. cbn [bind fst]. unfold diff_skip. cbn [andb]. rewrite Hcn, Hmas. cbn [bind]. rewrite f_eqs_refl. reflexivity. }
          exists [sT], [None], I, M2. split; [reflexivity|]. split; [cbn [evs]; rewrite HevT; reflexivity|]. split; [reflexivity|].
          split; [rewrite HvI, HL; reflexivity|exact HvM]. }
      destruct Hsplit as [T [preT [I [M2 [EM2 [HevT [HpreT [HvI HvM]]]]]]]].
      rewrite EM2 in Hm2 |- *.
      assert (HpI : forall s, In s I -> oplain (lobj s)).
      { intros s Hs. apply Hm2. apply in_or_app. right. apply in_or_app. left. exact Hs. }
      assert (HpM2 : lplain M2).
      { intros s Hs. apply Hm2. apply in_or_app. right. apply in_or_app. right. exact Hs. }
      pose proof (Forall2_srel_of_views M2 M HvM HpM2 Hm) as HF.
      assert (HevI : evs env canon false k rec mas I = Ok (map Some (dd (somesP elS)))).
      { apply (evs_insts_p env canon); try assumption. }
      pose proof (mult_branch_dflt_p k rec mas S T preT I M2 M elS Hmas Hrok HF HelS HevT HpreT HevI) as B.
      rewrite Hmas. cbn [bind].
      destruct (mult_loop env canon false k rec mas (map (pair true) S ++ map (pair false) (T ++ I ++ M2)) [] [] []) as [[[pd2 r2] u2]| |];
        destruct (mult_loop env canon false k rec mas (map (pair true) S ++ map (pair false) M) [] [] []) as [[[pd1 r1] u1]| |];
        cbn in B; try contradiction; cbn [bind]; try exact B.
      destruct B as [B1 B2]. change (template_of k pd2 :: somes r2 = template_of k pd1 :: somes r1). f_equal.
      + apply template_of_nil_iff. exact B2.
      + exact B1.
    - destruct k as [h mws a|h ks a].
      + (* ---- definition: the first source carries the master's own words *)
        assert (Eb : b = [Def h mws a]).
        { unfold fetch_one in H0.
          destruct (get_attr (s_ "alias") (oattrs (Def h mws a))); try discriminate.
          destruct (oname (ohdr (Def h mws a))) as [|c0 nm] eqn:En; [discriminate|].
          rewrite Em in H0. cbn [negb] in H0.
          change (match_sources (c0 :: nm) []) with (@nil lsrc) in H0.
          cbn [def_loop bind map] in H0. destruct Hok as [_ [Hdep _]]. rewrite Hdep in H0. cbn [negb andb] in H0.
          injection H0 as E _. symmetry. exact E. }
        subst b.
        apply (fetch_one_mlike env canon allks chain i (Def h mws a) rec srcs srcs2 [Def h mws a]); try assumption.
        * intros E. rewrite Em in E. discriminate E.
        * apply ml_def. exact Em.
        * rewrite Hv. cbn [prune prune_obj]. rewrite (nohid_not_hidden _ Hnh). cbn [strip_objs strip_obj]. rewrite Hact. reflexivity.
      + (* ---- scope: the first source carries the scope's own defaults *)
        unfold fetch_one in *. unfold onm in Hv.
        destruct (get_attr (s_ "alias") (oattrs (Scp h ks a))); try discriminate.
        destruct (oname (ohdr (Scp h ks a))) as [|c0 nm] eqn:En; [discriminate|].
        rewrite Em in *. cbn [negb] in *.
        change (match_sources (c0 :: nm) []) with (@nil lsrc) in H0.
        pose proof (match_sources_plain (c0 :: nm) srcs Hp) as Hm.
        pose proof (match_sources_plain (c0 :: nm) srcs2 Hp2) as Hm2.
        set (M := match_sources (c0 :: nm) srcs) in *.
        cbn [combine bind] in H0. bind_inv H0 as oc Hoc. cbn [andb] in H0. injection H0 as Eb Eu. subst b.
        destruct oc as [dk uk]. cbn [fst snd] in *. cbn [ohdr] in Hact.
        assert (Hso : strip_objs (prune [scopy h a dk]) = [Scp (with_tmpl h 0) (strip_objs (prune dk)) a]).
        { unfold scopy. cbn. rewrite Hact. reflexivity. }
        rewrite Hso in Hv.
        destruct (match_sources (c0 :: nm) srcs2) as [|sK M2] eqn:EM2; [discriminate|].
        cbn [app map] in Hv. injection Hv as HvK HvM. unfold sl in HvK.
        apply strip_obj_scp_inv in HvK. destruct HvK as [ks' [ElK Ekids]].
        cbn [combine]. rewrite ElK. cbn [is_def].
        pose proof (combine_rel M2 M HvM) as R.
        destruct (combine M2) as [c2| |]; destruct (combine M) as [c1| |]; cbn in R; try contradiction; cbn [bind]; try exact R.
        destruct R as [E2 E1]. subst c2 c1.
        eapply rrel_bind.
        * apply (Hrdf dk uk).
          -- exact Hoc.
          -- apply src_kids_plain. exact Hm.
          -- intros x Hx. apply in_app_or in Hx. destruct Hx as [Hx|Hx].
             ++ eapply src_kids_plain1; [|exact Hx]. apply Hm2. left. reflexivity.
             ++ eapply (src_kids_plain M2); [|exact Hx]. intros y Hy. apply Hm2. right. exact Hy.
          -- rewrite lview_app, lview_src_kids, !lview_flat_kids. unfold sl at 1. rewrite ElK, strip_obj_scp. cbn [okids].
             rewrite Ekids, HvM. reflexivity.
        * intros oc oc' E. unfold same_tree in E. rewrite E. simpl. unfold same_tree. reflexivity.
  Qed.

  (* ---------------------------------------------------------------- the loop over the master's entries *)
  Lemma mloop_dflt_p : forall (body0 body2 body1:nat -> obj -> res fout) (W:list obj) l,
    (forall i k o, In k l -> body0 i k = Ok o -> shape_block k (fst o)) ->
    forall seen i o pre post,
    mloop body0 seen i l = Ok o ->
    NoDup (map onm (entries_from seen l)) ->
    (forall k, In k (entries_from seen l) -> onm k <> [] /\ nodot (onm k)) ->
    (forall x, In x (pre ++ post) -> onm x <> [] /\ forall k, In k (entries_from seen l) -> onm x <> onm k) ->
    W = pre ++ fst o ++ post ->
    (forall j k b, In k (entries_from seen l) -> body0 j k = Ok b -> gview (onm k) (prune W) = strip_objs (prune (fst b)) ->
                   rrel same_tree (body2 j k) (body1 j k)) ->
    rrel same_tree (mloop body2 seen i l) (mloop body1 seen i l).
  Proof.
    intros body0 body2 body1 W l. induction l as [|k r IH]; intros Hsh seen i o pre post H Hnd Hnm Hpp HW Hstep.
    - cbn. reflexivity.
    - cbn [mloop] in H. cbn [entries_from] in Hnd, Hnm, Hpp, Hstep. cbn [mloop].
      assert (Hsh' : forall i k o, In k r -> body0 i k = Ok o -> shape_block k (fst o))
        by (intros; eapply Hsh; [right; eassumption|eassumption]).
      destruct (mao_step seen k) as [| |seen'] eqn:Es.
      + eapply IH; eassumption.
      + discriminate.
      + bind_inv H as a Ha. bind_inv H as b Hb. injection H as E. subst o. cbn [fst] in *.
        cbn [map] in Hnd. inversion Hnd as [|x l0 Hnin Hnd']; subst x l0.
        assert (Hkact : odis (ohdr k) = false).
        { assert (In k (entries_from seen (k :: r))) by (cbn [entries_from]; rewrite Es; left; reflexivity).
          apply entries_active in H. apply H. }
        destruct (Hnm k (or_introl eq_refl)) as [Hkne Hkdot].
        assert (Ha_names : forall x, In x (fst a) -> onm x = onm k /\ odis (ohdr x) = false).
        { intros x Hx. destruct (shape_block_origin _ _ _ (Hsh i k a (or_introl eq_refl) Ha) Hx) as [A [_ [_ D]]].
          split; [exact A|]. rewrite D. exact Hkact. }
        assert (Hb_names : forall x, In x (fst b) -> exists k', In k' (entries_from seen' r) /\ onm x = onm k').
        { intros x Hx. pose proof (mloop_shape body0 r Hsh' seen' (Datatypes.S i) b Hb) as SB.
          destruct (shape_blocks_names _ _ SB x Hx) as [k' [A [B _]]]. eauto. }
        assert (Hgv : gview (onm k) (prune W) = strip_objs (prune (fst a))).
        { rewrite HW, !prune_app, !gview_app.
          rewrite (gview_other (onm k) (prune pre) Hkdot).
          2:{ intros x Hx. destruct (prune_names _ _ Hx) as [y [Hy [En _]]]. rewrite En.
              destruct (Hpp y (in_or_app _ _ _ (or_introl Hy))) as [A B]. split; [|exact A].
              apply B. left. reflexivity. }
          rewrite (gview_same (onm k) (prune (fst a)) Hkne).
          2:{ intros x Hx. destruct (prune_names _ _ Hx) as [y [Hy [En Ed]]]. rewrite En, Ed. apply Ha_names. exact Hy. }
          rewrite (gview_other (onm k) (prune (fst b)) Hkdot).
          2:{ intros x Hx. destruct (prune_names _ _ Hx) as [y [Hy [En _]]]. rewrite En.
              destruct (Hb_names y Hy) as [k' [A B]]. rewrite B. split.
              - intros E. apply Hnin. rewrite <- E. apply in_map. exact A.
              - apply Hnm. right. exact A. }
          rewrite (gview_other (onm k) (prune post) Hkdot).
          2:{ intros x Hx. destruct (prune_names _ _ Hx) as [y [Hy [En _]]]. rewrite En.
              destruct (Hpp y (in_or_app _ _ _ (or_intror Hy))) as [A B]. split; [|exact A].
              apply B. left. reflexivity. }
          cbn [app]. rewrite !app_nil_r. reflexivity. }
        pose proof (Hstep i k a (or_introl eq_refl) Ha Hgv) as Hs1.
        eapply rrel_bind; [exact Hs1|]. intros a2 a1 Ea.
        eapply rrel_bind.
        * apply (IH Hsh' seen' (Datatypes.S i) b (pre ++ fst a) post Hb Hnd').
          -- intros k' Hk'. apply Hnm. right. exact Hk'.
          -- intros x Hx. rewrite <- app_assoc in Hx. apply in_app_or in Hx. destruct Hx as [Hx|Hx].
             ++ destruct (Hpp x (in_or_app _ _ _ (or_introl Hx))) as [A B]. split; [exact A|]. intros k' Hk'. apply B. right. exact Hk'.
             ++ apply in_app_or in Hx. destruct Hx as [Hx|Hx].
                ** destruct (Ha_names x Hx) as [A _]. rewrite A. split; [exact Hkne|].
                   intros k' Hk' E. apply Hnin. rewrite E. apply in_map. exact Hk'.
                ** destruct (Hpp x (in_or_app _ _ _ (or_intror Hx))) as [A B]. split; [exact A|]. intros k' Hk'. apply B. right. exact Hk'.
          -- rewrite HW. rewrite <- !app_assoc. reflexivity.
          -- intros j k' b' Hk' Hb' Hg. apply (Hstep j k' b'); [right; exact Hk'|exact Hb'|exact Hg].
        * intros b2 b1 Eb. unfold same_tree in *. cbn. rewrite Ea, Eb. reflexivity.
  Qed.

  (* ---------------------------------------------------------------- scope.fetch *)
  Lemma fetch_scope_dflt_p : forall M, wfd env canon M -> oplain M -> nohid M = true ->
    forall chain, rec_dflt_p (fsc M chain).
  Proof.
    induction M as [h ws a|h ks a IH] using obj_ind2; intros Hwf HM Hnh chain d u0 comb comb2 H0 Hp Hp2 Hv.
    - cbn in H0. discriminate.
    - inversion Hwf as [|h0 ks0 a0 Hnd Hent]; subst.
      cbn [fetch_scope] in *.
      pose proof (proj1 (oplain_scp h ks a) HM) as Hks.
      rewrite nohid_scp in Hnh. apply andb_prop in Hnh. destruct Hnh as [_ Hnh].
      rewrite Forall_forall in IH.
      eapply (mloop_dflt_p _ _ _ d ks) with (o := (d, u0)) (pre := []) (post := []).
      + intros i k o Hk Ho. eapply fetch_one_shape; [|exact Ho]. intros c oc Hoc. eapply fetch_scope_shape. exact Hoc.
      + exact H0.
      + exact Hnd.
      + intros k Hk. destruct (Hent k Hk) as [A [B _]]. auto.
      + intros x [].
      + cbn. rewrite app_nil_r. reflexivity.
      + intros j k [bb ub] Hk Hb Hg. cbn [fst] in *.
        destruct (entries_active _ _ _ Hk) as [Hact Hin].
        destruct (Hent k Hk) as [_ [_ [Hmul Hw]]].
        assert (Hkp : oplain k) by (apply Hks; exact Hin).
        assert (Hkn : nohid k = true) by (eapply nohids_In; eassumption).
        assert (Hdf : omultiple k = true -> exists c0 u0,
                  cand_fetch env canon false k (fsc k (ks :: chain)) (mklsrc [] k []) = Ok (Some c0, u0) /\
                  canon k (Some c0) = canon k None).
        { intros Em. destruct (Hmul Em (ks :: chain)) as [c0 [u1 Hc0]]. eauto. }
        apply (fetch_one_dflt_p ks (ks :: chain) j k (fsc k (ks :: chain)) comb comb2 bb ub Hact Hkp Hks
                 (wfd_def_ok env canon _ Hw) Hkn Hdf (fetch_scope_view env canon false k (ks :: chain))
                 (fetch_scope_refetch_p env canon k Hw Hkp Hkn (ks :: chain))
                 (fetch_scope_mlike env canon k Hw Hkp (ks :: chain))
                 (IH k Hin Hw Hkp Hkn (ks :: chain)) Hp Hp2 Hb).
        rewrite !match_sources_view, Hv, flat_map_app.
        change (flat_map (fun o => lview (gwsp [] [] (onm k) o)) (strip_objs (prune d))) with (gview (onm k) (prune d)).
        rewrite Hg. reflexivity.
  Qed.

  (* ---------------------------------------------------------------- root *)
  (* A: the master's own defaults WITHOUT their hidden templates as an extra first source *)
  Theorem defaults_pruned_first : forall m d srcs, D07 env canon m -> nohids m = true -> srcs_have_dollar srcs = false ->
    fetch env canon false m [] = Ok d ->
    fetch env canon false m (prune d :: srcs) = fetch env canon false m srcs.
  Proof.
    intros m d srcs [Hwf Hmp] Hnh Hd H0.
    pose proof (fetch_result_plain env canon false m [] d Hmp eq_refl H0) as Hdp.
    unfold fetch in H0. bind_inv H0 as oc Hoc. injection H0 as E. destruct oc as [d0 u0]. cbn [fst] in E. subst d0.
    unfold fetch.
    change (rmap fst (fetch_root env canon false m (prune d :: srcs)) = rmap fst (fetch_root env canon false m srcs)).
    apply rrel_eq. unfold fetch_root in *.
    apply (fetch_scope_dflt_p (root_scope m) Hwf (root_plain m Hmp)) with (chain := @nil (list obj)) (d := d) (u0 := u0).
    - unfold root_scope. rewrite nohid_scp. cbn. exact Hnh.
    - exact Hoc.
    - apply lplain_root. exact Hd.
    - apply lplain_root. unfold srcs_have_dollar in *. cbn [existsb] in *. rewrite orb_false_r in Hdp.
      rewrite (all_plain_existsb (prune d) (prune_plain d (existsb_plain d Hdp))), Hd. reflexivity.
    - rewrite !lview_root. reflexivity.
  Qed.
End DefaultsPruned.

(* ====================================================================================== *)
(* B. the text form                                                                        *)
(* ====================================================================================== *)
Lemma leql_refl : forall l, leql l l.
Proof. intros l. apply lk_leql. reflexivity. Qed.

(* the re-parsed text of the defaults has the skeleton of the pruned defaults, up to word lines *)
Lemma defaults_text_skeleton : forall env canon o m d width text d',
  nohids m = true -> fetch env canon false m [] = Ok d ->
  forallb (dtree_ok []) (shown d) = true ->
  as_str d [] None 0 width = Ok text -> parse o text = Ok d' ->
  map lk (prune d) = map lk d'.
Proof.
  intros env canon o m d width text d' Hnh Hf Hdt Htext Hparse.
  pose proof (fetch_mstables env canon m [] d Hnh Hf) as Hms.
  rewrite <- (as_str_shown d [] None 0%Z width Hms eq_refl) in Htext.
  destruct (parse_as_str_level0_dotted o (shown d) width text Hdt Htext) as [l' [Hp' Hl]].
  rewrite Hparse in Hp'. injection Hp' as E. subst l'.
  rewrite <- lk_shown. symmetry. apply lk_of_erasures. exact Hl.
Qed.

(* ====================================================================================== *)
(* non-vacuity                                                                             *)
(* ====================================================================================== *)
Definition dtx_master_text : str := s_ "
a = 1
t { c = 5 }
d = 0
  .multiple = True
d = 3
  .multiple = True
s
  .multiple = True
{
  b = x
}
".
Definition dtx_src_text : str := s_ "d = 7
d = 3
s { b = y }
t { c = 6 }
".
Definition dtx_master : list obj := Eval vm_compute in match parse [] dtx_master_text with Ok l => l | _ => [] end.
Definition dtx_src : list obj := Eval vm_compute in match parse [] dtx_src_text with Ok l => l | _ => [] end.
Definition dtx_defaults : list obj :=
  Eval vm_compute in match fetch ex_env ex_canon false dtx_master [] with Ok r => r | _ => [] end.
Definition dtx_text : str := Eval vm_compute in match as_str dtx_defaults [] None 0 None with Ok t => t | _ => [] end.
Definition dtx_parsed : list obj := Eval vm_compute in match parse [] dtx_text with Ok l => l | _ => [] end.
Definition dtx_result : list obj :=
  Eval vm_compute in match fetch ex_env ex_canon false dtx_master [dtx_src] with Ok r => r | _ => [] end.
Definition dtx_result2 : list obj :=
  Eval vm_compute in match fetch ex_env ex_canon false dtx_master [dtx_parsed; dtx_src] with Ok r => r | _ => [] end.

(* ====================================================================================== *)
(* C. outcome for outcome: the lines of a first source that succeeds alone                 *)
(* ====================================================================================== *)
(* FetchReparse.fetch_lines relates successful runs only (a "Not a possible choice" error carries the line
   of the offending source word).  If the first source ALONE is fetched without error, every candidate
   it supplies is fetched without error in front of further sources as well, so changing its word lines
   changes no error of the combined run: the two runs are related outcome for outcome. *)
Section LinesPrefix.
  Variable env : str -> option str.
  Variable canon : obj -> option obj -> res str.
  Hypothesis canon_lines : forall k c c', optwe c c' -> canon k c = canon k c'.

  Definition lweo (o o':fout) : Prop := lwe (fst o) (fst o').

  Lemma match_sources_split : forall n a b, match_sources n (a ++ b) = match_sources n a ++ match_sources n b.
  Proof. intros. unfold match_sources. rewrite flat_map_app, filter_app. reflexivity. Qed.

  Lemma def_loop_app : forall h mws a l1 l2 last,
    def_loop env canon false h mws a (l1 ++ l2) last =
    bind (def_loop env canon false h mws a l1 last) (fun x => def_loop env canon false h mws a l2 x).
  Proof.
    intros h mws a l1. induction l1 as [|s r IH]; intros l2 last; [reflexivity|]. cbn [app def_loop].
    destruct (def_fetch env canon false h mws a s); cbn [bind]; [apply IH|reflexivity|reflexivity].
  Qed.

  Lemma combine_app : forall l1 l2,
    combine (l1 ++ l2) = bind (combine l1) (fun a => bind (combine l2) (fun b => Ok (a ++ b))).
  Proof.
    induction l1 as [|s r IH]; intros l2.
    - cbn [app combine bind]. destruct (combine l2); reflexivity.
    - cbn [app combine]. destruct (is_def (lobj s)); [reflexivity|]. rewrite IH.
      destruct (combine r); cbn [bind]; [|reflexivity|reflexivity].
      destruct (combine l2); cbn [bind]; [|reflexivity|reflexivity]. rewrite app_assoc. reflexivity.
  Qed.

  Lemma mult_loop_app : forall k rec mas c1 c2 pd robjs used,
    mult_loop env canon false k rec mas (c1 ++ c2) pd robjs used =
    bind (mult_loop env canon false k rec mas c1 pd robjs used)
         (fun st => mult_loop env canon false k rec mas c2 (fst (fst st)) (snd (fst st)) (snd st)).
  Proof.
    intros k rec mas c1. induction c1 as [|[fm s] r IH]; intros c2 pd robjs used; [reflexivity|].
    cbn [app mult_loop].
    destruct (cand_fetch env canon false k rec s) as [cc| |]; cbn [bind]; [|reflexivity|reflexivity].
    destruct (diff_skip false k (fst cc)); [apply IH|].
    destruct (canon k (fst cc)) as [cs| |]; cbn [bind]; [|reflexivity|reflexivity].
    destruct (eqs cs mas); [apply IH|].
    destruct (pget cs pd) as [[j|]|]; cbn [andb]; apply IH.
  Qed.

  (* identical candidates, states equal up to word lines *)
  Lemma mult_loop_same : forall k rec mas cands pd robjs robjs' used used',
    map (option_map we) robjs = map (option_map we) robjs' ->
    rrel strel (mult_loop env canon false k rec mas cands pd robjs used)
               (mult_loop env canon false k rec mas cands pd robjs' used').
  Proof.
    intros k rec mas cands. induction cands as [|[fm s] r IH]; intros pd robjs robjs' used used' Hr.
    - cbn. split; [reflexivity|exact Hr].
    - cbn [mult_loop].
      destruct (cand_fetch env canon false k rec s) as [[cand u]| |]; cbn [bind fst snd]; [|cbn; auto|cbn; auto].
      unfold diff_skip. cbn [andb].
      destruct (canon k cand) as [cs| |]; cbn [bind]; [|cbn; auto|cbn; auto].
      destruct (eqs cs mas); [apply IH; exact Hr|].
      assert (Hlen : forall a b : list (option obj), map (option_map we) a = map (option_map we) b -> length a = length b).
      { intros a0 b0 E0. rewrite <- (map_length (option_map we) a0), E0. apply map_length. }
      destruct (pget cs pd) as [[j|]|]; [|apply IH; exact Hr|]; cbn [andb].
      + rewrite (Hlen _ _ (set_none_we j _ _ Hr)). apply IH. rewrite !map_app, (set_none_we j _ _ Hr). reflexivity.
      + rewrite (Hlen _ _ Hr). apply IH. rewrite !map_app, Hr. reflexivity.
  Qed.

  Definition opl (s s':lsrc) : Prop := oeql (lobj s) (lobj s') /\ oplain (lobj s) /\ oplain (lobj s').
  Lemma opl_orl : forall ms ms', Forall2 opl ms ms' -> Forall2 orl ms ms'.
  Proof. intros ms ms' H. induction H as [|s s' r r' Hs _ IH]; constructor; [right; exact Hs|exact IH]. Qed.
  Lemma opl_oeql : forall ms ms', Forall2 opl ms ms' -> Forall2 (fun s s' => oeql (lobj s) (lobj s')) ms ms'.
  Proof. intros ms ms' H. induction H as [|s s' r r' Hs _ IH]; constructor; [apply Hs|exact IH]. Qed.
  Lemma opl_plain_l : forall ms ms', Forall2 opl ms ms' -> lplain ms.
  Proof. intros ms ms' H. induction H as [|s s' r r' Hs _ IH]; intros x Hx; [destruct Hx|]. destruct Hx as [Hx|Hx]; [subst; apply Hs|apply IH; exact Hx]. Qed.
  Lemma opl_plain_r : forall ms ms', Forall2 opl ms ms' -> lplain ms'.
  Proof. intros ms ms' H. induction H as [|s s' r r' Hs _ IH]; intros x Hx; [destruct Hx|]. destruct Hx as [Hx|Hx]; [subst; apply Hs|apply IH; exact Hx]. Qed.

  Lemma corl_true : forall l, Forall2 corl (map (pair true) l) (map (pair true) l).
  Proof. induction l as [|x l IH]; cbn [map]; constructor; [|exact IH]. split; [reflexivity|left; reflexivity]. Qed.
  Lemma corl_false : forall l l', Forall2 orl l l' -> Forall2 corl (map (pair false) l) (map (pair false) l').
  Proof. intros l l' F. induction F as [|s s' r r' Hs _ IH]; cbn [map]; constructor; [|exact IH]. split; [reflexivity|exact Hs]. Qed.

  Definition rec_x (rec:list lsrc -> res fout) : Prop :=
    forall A A' B o, leql (map lobj A) (map lobj A') -> lplain A -> lplain A' -> rec A = Ok o ->
      rrel lweo (rec (A ++ B)) (rec (A' ++ B)).

  Lemma fetch_one_x : forall allks chain i k rec A A' B o,
    rec_l rec -> rec_x rec ->
    Forall2 opl (match_sources (oname (ohdr k)) A) (match_sources (oname (ohdr k)) A') ->
    fetch_one env canon false allks chain i k rec A = Ok o ->
    rrel lweo (fetch_one env canon false allks chain i k rec (A ++ B)) (fetch_one env canon false allks chain i k rec (A' ++ B)).
  Proof.
    intros allks chain i k rec A A' B o Hrl Hrx Hm0 H. unfold fetch_one in *.
    destruct (get_attr (s_ "alias") (oattrs k)); try discriminate.
    destruct (oname (ohdr k)) as [|c0 nm]; [discriminate|].
    rewrite !match_sources_split.
    set (mA := match_sources (c0 :: nm) A) in *. set (mA' := match_sources (c0 :: nm) A') in *.
    set (mB := match_sources (c0 :: nm) B).
    pose proof (opl_orl _ _ Hm0) as Hm.
    destruct (omultiple k); cbn [negb] in *.
    - (* ---- multiple *)
      destruct (canon k None) as [mas| |]; cbn [bind] in *; try discriminate.
      bind_inv H as st Hst. clear H.
      set (S := self_matching allks chain i (c0 :: nm)) in *.
      rewrite !(map_app (pair false)), !app_assoc.
      rewrite (mult_loop_app k rec mas (map (pair true) S ++ map (pair false) mA)), (mult_loop_app k rec mas (map (pair true) S ++ map (pair false) mA')).
      assert (HF : Forall2 corl (map (pair true) S ++ map (pair false) mA) (map (pair true) S ++ map (pair false) mA')).
      { apply Forall2_app; [apply corl_true|apply corl_false; exact Hm]. }
      pose proof (mult_loop_l env canon canon_lines k rec mas _ _ Hrl HF [] [] [] [] [] eq_refl) as L.
      rewrite Hst in L. destruct L as [st' [Hst' [E1 E2]]].
      rewrite Hst, Hst'. cbn [bind]. rewrite <- E1.
      eapply rrel_bind; [apply mult_loop_same; exact E2|].
      intros [[pd1 r1] u1] [[pd2 r2] u2] [F1 F2]. cbn [fst snd] in *. subst pd2. cbn.
      unfold lweo, lwe. cbn [fst map]. rewrite (somes_we _ _ F2). reflexivity.
    - destruct k as [h mws a|h ks a].
      + (* ---- definition *)
        bind_inv H as ro Hro. clear H. rewrite !def_loop_app.
        pose proof (def_loop_l env canon h mws a mA mA' Hm None None eq_refl) as L. rewrite Hro in L.
        destruct L as [ro' [Hro' E]]. rewrite Hro, Hro'. cbn [bind].
        destruct mB as [|sB rB].
        * cbn [def_loop bind]. destruct ro as [x|], ro' as [y|]; try discriminate E.
          -- cbn. unfold lweo, lwe. cbn. injection E as E. rewrite E. reflexivity.
          -- cbn [negb andb]. destruct (negb (odeprecated (Def h mws a))); cbn; reflexivity.
        * rewrite (def_loop_cons_last env canon h mws a sB rB ro ro').
          destruct (def_loop env canon false h mws a (sB :: rB) ro') as [[x|]| |]; cbn [bind]; [cbn; reflexivity| |cbn; auto|cbn; auto].
          cbn [negb andb]. destruct (negb (odeprecated (Def h mws a))); cbn; reflexivity.
      + (* ---- scope *)
        bind_inv H as comb Hcomb. bind_inv H as oc Hoc. clear H. rewrite !combine_app.
        pose proof (combine_l mA mA' Hm) as L. rewrite Hcomb in L. destruct L as [comb' [Hcomb' [E E']]].
        rewrite Hcomb, Hcomb'. cbn [bind].
        destruct (combine mB) as [cB| |]; cbn [bind]; [|cbn; auto|cbn; auto].
        subst comb comb'.
        eapply rrel_bind.
        * apply (Hrx _ _ cB oc); [| | |exact Hoc].
          -- apply kids_leql. apply opl_oeql. exact Hm0.
          -- apply src_kids_plain. eapply opl_plain_l. exact Hm0.
          -- apply src_kids_plain. eapply opl_plain_r. exact Hm0.
        * intros o1 o2 E. cbn [andb]. cbn. unfold lweo, lwe, scopy in *. cbn [fst map we]. rewrite E. reflexivity.
  Qed.

  Lemma mloop_x : forall (body0 body2 body1:nat -> obj -> res fout) l,
    (forall i k o, In k l -> body0 i k = Ok o -> rrel lweo (body2 i k) (body1 i k)) ->
    forall seen i o, mloop body0 seen i l = Ok o -> rrel lweo (mloop body2 seen i l) (mloop body1 seen i l).
  Proof.
    intros body0 body2 body1 l. induction l as [|k r IH]; intros Hb seen i o H; [cbn; reflexivity|].
    cbn [mloop] in *. destruct (mao_step seen k) as [| |seen'].
    - eapply IH; [|exact H]. intros; eapply Hb; [right; eassumption|eassumption].
    - discriminate.
    - bind_inv H as a Ha. bind_inv H as b Hb0. clear H.
      eapply rrel_bind; [eapply Hb; [left; reflexivity|exact Ha]|]. intros a2 a1 E.
      eapply rrel_bind; [eapply IH; [|exact Hb0]; intros; eapply Hb; [right; eassumption|eassumption]|]. intros b2 b1 E'.
      cbn. unfold lweo, lwe in *. cbn [fst]. rewrite !map_app, E, E'. reflexivity.
  Qed.

  Lemma fetch_scope_x : forall M mchain, rec_x (fetch_scope env canon false M mchain).
  Proof.
    induction M as [h ws a|h ks a IH] using obj_ind2; intros mchain A A' B o Hv Hp Hp' H.
    - cbn in H. discriminate.
    - cbn [fetch_scope] in *. eapply mloop_x; [|exact H]. intros i k o0 Hk Ho.
      rewrite Forall_forall in IH.
      eapply fetch_one_x; [apply (fetch_scope_l env canon canon_lines)|apply IH; exact Hk| |exact Ho].
      apply matching_l; assumption.
  Qed.

  (* a first source that is fetched alone without error: its word lines do not matter in front of any further
     sources, outcome for outcome *)
  Theorem fetch_lines_prefix : forall m a a' srcs w0,
    existsb obj_has_dollar a = false -> existsb obj_has_dollar a' = false -> leql a a' ->
    fetch env canon false m [a] = Ok w0 ->
    rrel lwe (fetch env canon false m (a :: srcs)) (fetch env canon false m (a' :: srcs)).
  Proof.
    intros m a a' srcs w0 Hd Hd' Hv H. unfold fetch in *. bind_inv H as oc Hoc. clear H.
    unfold fetch_root in *.
    set (T := flat_map (fun it => kids_at [fst it] (snd it) []) (index_from 1 srcs)).
    assert (E1 : root_lsrcs (a :: srcs) = root_lsrcs [a] ++ T).
    { unfold root_lsrcs. cbn [index_from flat_map]. rewrite app_nil_r. reflexivity. }
    assert (E2 : root_lsrcs (a' :: srcs) = root_lsrcs [a'] ++ T).
    { unfold root_lsrcs. cbn [index_from flat_map]. rewrite app_nil_r. reflexivity. }
    rewrite E1, E2.
    eapply rrel_bind.
    - apply (fetch_scope_x (root_scope m) [] (root_lsrcs [a]) (root_lsrcs [a']) T oc); [| | |exact Hoc].
      + rewrite !map_lobj_root. cbn [List.concat]. rewrite !app_nil_r. exact Hv.
      + apply lplain_root. unfold srcs_have_dollar. cbn [existsb]. rewrite Hd. reflexivity.
      + apply lplain_root. unfold srcs_have_dollar. cbn [existsb]. rewrite Hd'. reflexivity.
    - intros o1 o2 E. cbn. exact E.
  Qed.
End LinesPrefix.

(* the strongest form: outcome for outcome - the same error, or results equal up to the line numbers of value
   words *)
Theorem defaults_text_first_exact : forall env canon o m d srcs width text d',
  (forall k c c', optwe c c' -> canon k c = canon k c') ->
  D07 env canon m -> nohids m = true -> srcs_have_dollar srcs = false ->
  fetch env canon false m [] = Ok d ->
  forallb (dtree_ok []) (shown d) = true ->
  as_str d [] None 0 width = Ok text -> parse o text = Ok d' ->
  rrel (fun w' w => map we w' = map we w) (fetch env canon false m (d' :: srcs)) (fetch env canon false m srcs).
Proof.
  intros env canon o m d srcs width text d' Hcl HD Hnh Hd Hf Hdt Htext Hparse.
  pose proof (defaults_text_skeleton env canon o m d width text d' Hnh Hf Hdt Htext Hparse) as Hlk.
  pose proof (defaults_pruned_first env canon m d srcs HD Hnh Hd Hf) as Hpr.
  pose proof (refetch_pruned env canon m [] d HD Hnh eq_refl Hf) as Hsolo.
  assert (Hdp : existsb obj_has_dollar (prune d) = false).
  { apply all_plain_existsb. apply prune_plain. apply existsb_plain.
    pose proof (fetch_result_plain env canon false m [] d (proj2 HD) eq_refl Hf) as P.
    unfold srcs_have_dollar in P. cbn [existsb] in P. rewrite orb_false_r in P. exact P. }
  assert (Hdp' : existsb obj_has_dollar d' = false) by (rewrite <- (lk_dollar_list _ _ Hlk); exact Hdp).
  pose proof (fetch_lines_prefix env canon Hcl m (prune d) d' srcs d Hdp Hdp' (lk_leql _ _ Hlk) Hsolo) as R.
  rewrite Hpr in R.
  destruct (fetch env canon false m srcs) as [w| |], (fetch env canon false m (d' :: srcs)) as [w'| |]; cbn in *; try contradiction.
  - unfold lwe in R. symmetry. exact R.
  - destruct R as [A [B C]]. auto.
  - symmetry. exact R.
Qed.

(* ---------------------------------------------------------------- the statement with the printed forms *)
Definition outcome_up_to_lines (r2 r1:res (list obj)) : Prop :=
  match r2, r1 with
  | Ok w', Ok w => map we w' = map we w /\ forall p e lv wd, as_str w' p e lv wd = as_str w p e lv wd
  | UErr k t l, UErr k' t' l' => k = k' /\ t = t' /\ l = l'
  | Crash c, Crash c' => c = c'
  | _, _ => False
  end.

Lemma outcome_of_rrel : forall r2 r1, rrel (fun w' w => map we w' = map we w) r2 r1 -> outcome_up_to_lines r2 r1.
Proof.
  intros [w'| |] [w| |] H; cbn in *; try contradiction; try exact H.
  split; [exact H|]. intros p e lv wd. apply we_same_text. exact H.
Qed.

Theorem defaults_text_outcome : forall env canon o m d srcs width text d',
  (forall k c c', optwe c c' -> canon k c = canon k c') ->
  D07 env canon m -> nohids m = true -> srcs_have_dollar srcs = false ->
  fetch env canon false m [] = Ok d ->
  forallb (dtree_ok []) (shown d) = true ->
  as_str d [] None 0 width = Ok text -> parse o text = Ok d' ->
  outcome_up_to_lines (fetch env canon false m (d' :: srcs)) (fetch env canon false m srcs).
Proof. intros. apply outcome_of_rrel. eapply defaults_text_first_exact; eassumption. Qed.

Theorem defaults_text_outcome_nomultiple : forall env canon o m d srcs width text d',
  D07s m -> nohids m = true -> srcs_have_dollar srcs = false ->
  fetch env canon false m [] = Ok d ->
  forallb (dtree_ok []) (shown d) = true ->
  as_str d [] None 0 width = Ok text -> parse o text = Ok d' ->
  outcome_up_to_lines (fetch env canon false m (d' :: srcs)) (fetch env canon false m srcs).
Proof.
  intros env canon o m d srcs width text d' HD Hnh Hd Hf Hdt Htext Hparse.
  pose proof HD as [_ [Hnm _]].
  set (canon0 := fun (_:obj) (_:option obj) => @Ok str []).
  rewrite (fetch_canon env canon canon0 m _ Hnm) in Hf. rewrite !(fetch_canon env canon canon0 m _ Hnm).
  apply (defaults_text_outcome env canon0 o m d srcs width text d'); try assumption; [reflexivity|].
  apply D07s_D07. exact HD.
Qed.

Theorem defaults_text_outcome_parsed : forall env canon om sm m srcs o' d width,
  (forall k c c', optwe c c' -> canon k c = canon k c') ->
  parse om sm = Ok m -> no_deprecated_or_include m = true ->
  D07 env canon m -> srcs_have_dollar srcs = false ->
  forallb merged_plain m = true -> forallb choice_alts_ok m = true ->
  fetch env canon false m [] = Ok d ->
  exists text d', as_str d [] None 0 width = Ok text /\ parse o' text = Ok d' /\
    outcome_up_to_lines (fetch env canon false m (d' :: srcs)) (fetch env canon false m srcs).
Proof.
  intros env canon om sm m srcs o' d width Hcl Hpm Hnd HD Hsd Hmg Hch Hf.
  pose proof (parsed_fetch_result_in_domain env canon om sm m [] d Hpm Hnd (Forall_nil _) (proj2 HD) eq_refl Hmg Hch Hf) as Hdt.
  pose proof (parsed_master_nohids om sm m Hpm Hnd) as Hnh.
  pose proof (fetch_mstables env canon m [] d Hnh Hf) as Hms.
  pose proof (as_str_level0_total_dotted (shown d) width Hdt) as Hts.
  destruct (parse_as_str_level0_dotted o' (shown d) width _ Hdt Hts) as [d' [Hl _]].
  pose proof Hts as Ht. rewrite (as_str_shown d [] None 0%Z width Hms eq_refl) in Ht.
  eexists _, d'. split; [exact Ht|]. split; [exact Hl|].
  exact (defaults_text_outcome env canon o' m d srcs width _ d' Hcl HD Hnh Hsd Hf Hdt Ht Hl).
Qed.

(* ---------------------------------------------------------------- the example *)
(* master (first line empty)                 source          printed defaults (4 objects of the 5: the template of d
     a = 1                                     d = 7         is hidden, that of s is shown)
     t { c = 5 }                               d = 3           a = 1
     d = 0 .multiple = True                    s { b = y }     t { c = 5 }
     d = 3 .multiple = True                    t { c = 6 }     d = 3
     s .multiple = True { b = x }                              s { b = x }
   two master occurrences of d (outside wf_master).  The runs with / without the re-parsed defaults in front
   give 7 objects each, equal up to word lines and NOT equal: a = 1 is left to its default by the source, its
   word sits on line 2 in the master and on line 1 in the printed defaults.  With a definition where the
   scope t is expected both runs raise the same error. *)
Definition dtx_bad : list obj := Eval vm_compute in match parse [] (s_ "t = 1
") with Ok l => l | _ => [] end.

Lemma dtx_D07 : D07 ex_env ex_canon dtx_master.
Proof.
  split; [|reflexivity]. unfold root_scope. apply wfd_scp.
  - vm_compute. repeat (constructor; [cbn; intuition discriminate|]). constructor.
  - intros k Hk. vm_compute in Hk. destruct Hk as [E|[E|[E|[E|[]]]]]; subst k.
    + split; [discriminate|]. split; [reflexivity|]. split; [intros H; discriminate H|].
      apply wfd_def. split; [reflexivity|]. split; [reflexivity|exact I].
    + split; [discriminate|]. split; [reflexivity|]. split; [intros H; discriminate H|].
      apply wfd_scp.
      * vm_compute. constructor; [intros []|constructor].
      * intros k Hk. vm_compute in Hk. destruct Hk as [E|[]]. subst k.
        split; [discriminate|]. split; [reflexivity|]. split; [intros H; discriminate H|].
        apply wfd_def. split; [reflexivity|]. split; [reflexivity|exact I].
    + split; [discriminate|]. split; [reflexivity|]. split.
      * intros _ chain. eexists. eexists. split; vm_compute; reflexivity.
      * apply wfd_def. split; [reflexivity|]. split; [reflexivity|exact I].
    + split; [discriminate|]. split; [reflexivity|]. split.
      * intros _ chain. eexists. eexists. split; vm_compute; reflexivity.
      * apply wfd_scp.
        -- vm_compute. constructor; [intros []|constructor].
        -- intros k Hk. vm_compute in Hk. destruct Hk as [E|[]]. subst k.
           split; [discriminate|]. split; [reflexivity|]. split; [intros H; discriminate H|].
           apply wfd_def. split; [reflexivity|]. split; [reflexivity|exact I].
Qed.

Lemma dtx_not_wf : ~ wf_master dtx_master.
Proof.
  intros [H _]. vm_compute in H.
  inversion H as [|x1 l1 _ H2]; subst. inversion H2 as [|x2 l2 _ H3]; subst. inversion H3 as [|x3 l3 Hn _]; subst.
  apply Hn. left. reflexivity.
Qed.

Example defaults_text_example :
  (forall k c c', optwe c c' -> ex_canon k c = ex_canon k c') /\
  parse [] dtx_master_text = Ok dtx_master /\ no_deprecated_or_include dtx_master = true /\
  D07 ex_env ex_canon dtx_master /\ ~ wf_master dtx_master /\ nohids dtx_master = true /\
  forallb merged_plain dtx_master = true /\ forallb choice_alts_ok dtx_master = true /\
  srcs_have_dollar [dtx_src] = false /\
  fetch ex_env ex_canon false dtx_master [] = Ok dtx_defaults /\
  forallb (dtree_ok []) (shown dtx_defaults) = true /\
  List.length dtx_defaults = 5 /\ List.length (shown dtx_defaults) = 4 /\ List.length (gview (s_ "d") dtx_defaults) = 2 /\
  as_str dtx_defaults [] None 0 None = Ok dtx_text /\ parse [] dtx_text = Ok dtx_parsed /\
  fetch ex_env ex_canon false dtx_master [dtx_src] = Ok dtx_result /\
  fetch ex_env ex_canon false dtx_master [dtx_parsed; dtx_src] = Ok dtx_result2 /\
  List.length dtx_result = 7 /\ map we dtx_result2 = map we dtx_result /\ dtx_result2 <> dtx_result /\
  fetch ex_env ex_canon false dtx_master [dtx_parsed; dtx_bad] = UErr k_incompat_sd [] 0 /\
  fetch ex_env ex_canon false dtx_master [dtx_bad] = UErr k_incompat_sd [] 0.
Proof.
  split; [exact ex_canon_lines|]. split; [vm_compute; reflexivity|]. split; [vm_compute; reflexivity|].
  split; [exact dtx_D07|]. split; [exact dtx_not_wf|].
  repeat (split; [vm_compute; reflexivity|]).
  split; [vm_compute; discriminate|]. split; vm_compute; reflexivity.
Qed.

(* the theorem applied to the example *)
Example defaults_text_applied :
  outcome_up_to_lines (fetch ex_env ex_canon false dtx_master [dtx_parsed; dtx_src])
                      (fetch ex_env ex_canon false dtx_master [dtx_src]).
Proof.
  destruct defaults_text_example as (H1 & _ & _ & H4 & _ & H6 & _ & _ & H9 & H10 & H11 & _ & _ & _ & H15 & H16 & _).
  exact (defaults_text_outcome ex_env ex_canon [] dtx_master dtx_defaults [dtx_src] None dtx_text dtx_parsed H1 H4 H6 H9 H10 H11 H15 H16).
Qed.

(* an error that carries a source line: the parsed master of FetchDomain.v (scope, .multiple scope, .multiple
   definition, choice e = *u v), a source selecting an alternative the choice does not have on its line 3; with
   the re-parsed defaults in front the same error, the same word, the same line *)
Definition dte_defaults : list obj :=
  Eval vm_compute in match fetch ex_env ex_canon false exd_master [] with Ok r => r | _ => [] end.
Definition dte_text : str := Eval vm_compute in match as_str dte_defaults [] None 0 None with Ok t => t | _ => [] end.
Definition dte_parsed : list obj := Eval vm_compute in match parse [] dte_text with Ok l => l | _ => [] end.
Definition dte_bad : list obj := Eval vm_compute in match parse [] (s_ "

e = zzz
") with Ok l => l | _ => [] end.

Example defaults_text_error_example :
  D07 ex_env ex_canon exd_master /\ nohids exd_master = true /\ srcs_have_dollar [dte_bad] = false /\
  fetch ex_env ex_canon false exd_master [] = Ok dte_defaults /\
  forallb (dtree_ok []) (shown dte_defaults) = true /\
  as_str dte_defaults [] None 0 None = Ok dte_text /\ parse [] dte_text = Ok dte_parsed /\
  fetch ex_env ex_canon false exd_master [dte_parsed; dte_bad] = UErr (s_ "NotAChoice") (s_ "zzz") 3 /\
  fetch ex_env ex_canon false exd_master [dte_bad] = UErr (s_ "NotAChoice") (s_ "zzz") 3.
Proof.
  split; [exact exd_D07|]. repeat (split; [vm_compute; reflexivity|]). vm_compute; reflexivity.
Qed.

Print Assumptions defaults_pruned_first.
Print Assumptions fetch_lines_prefix.
Print Assumptions defaults_text_first_exact.
Print Assumptions defaults_text_outcome.
Print Assumptions defaults_text_outcome_nomultiple.
Print Assumptions defaults_text_outcome_parsed.
Print Assumptions defaults_text_example.
Print Assumptions defaults_text_applied.
Print Assumptions defaults_text_error_example.
