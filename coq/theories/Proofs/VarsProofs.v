(* Proofs about Model/Vars.v: fragments, fuel, passthrough, shape, environment, error line,
   search order.  (Document order and truncation: Proofs/VarsOrder.v.) *)
From Coq Require Import List Ascii String Bool Arith Lia.
From Phil Require Import Base Tree Vars.
Import ListNotations.
Local Open Scope char_scope.

(* ------------------------------------------------------------------ generalities *)
Definition nofuel {A} (r:res A) : Prop := r <> Crash c_fuel.

Lemma nofuel_ok : forall A (a:A), nofuel (Ok a).
Proof. intros; unfold nofuel; discriminate. Qed.
Lemma nofuel_uerr : forall A k t l, nofuel (@UErr A k t l).
Proof. intros; unfold nofuel; discriminate. Qed.
Lemma nofuel_bind : forall A B (r:res A) (k:A -> res B),
  nofuel r -> (forall a, r = Ok a -> nofuel (k a)) -> nofuel (bind r k).
Proof.
  intros A B r k Hr Hk. destruct r; cbn.
  - apply Hk; reflexivity.
  - apply nofuel_uerr.
  - unfold nofuel in *. congruence.
Qed.
Lemma nofuel_crash : forall A (c:str), c <> c_fuel -> nofuel (@Crash A c).
Proof. unfold nofuel; intros; congruence. Qed.

Lemma bind_ok : forall A B (r:res A) (k:A -> res B) b,
  bind r k = Ok b -> exists a, r = Ok a /\ k a = Ok b.
Proof. intros A B r k b H. destruct r; cbn in H; try discriminate. eauto. Qed.
Lemma bind_uerr : forall A B (r:res A) (k:A -> res B) kd t l,
  bind r k = UErr kd t l -> r = UErr kd t l \/ exists a, r = Ok a /\ k a = UErr kd t l.
Proof. intros A B r k kd t l H. destruct r; cbn in H; try discriminate; eauto. left; congruence. Qed.

Lemma mem_false_cons : forall c d s, mem c (d :: s) = false -> Ascii.eqb c d = false /\ mem c s = false.
Proof. intros c d s H. cbn in H. apply orb_false_iff in H. exact H. Qed.

(* ------------------------------------------------------------------ fragments *)
Definition pending (m:fmode) : bool := match m with MLit _ => false | _ => true end.

(* everything the other proofs need to know about the character loop, in one induction *)
Definition frags_post (w:word) (r:res (bool * list fragment)) : Prop :=
  match r with
  | Ok (h, frs) => h = existsb frag_is_var frs
  | UErr k t l => (k = k_dollar_end \/ k = k_missing_paren \/ k = k_improper) /\ t = wv w /\ l = wline w
  | Crash _ => False
  end.

Lemma existsb_rev : forall A (f:A -> bool) l, existsb f (rev l) = existsb f l.
Proof.
  intros A f l. induction l as [|a l IH]; cbn; [reflexivity|].
  rewrite existsb_app, IH. cbn. rewrite orb_false_r. apply orb_comm.
Qed.
Lemma existsb_flush : forall fv acc, existsb frag_is_var (flush_lit fv acc) = existsb frag_is_var acc.
Proof. intros [|c fv] acc; reflexivity. Qed.

Lemma frags_spec_n : forall w n s, length s <= n -> forall m have acc,
  have = existsb frag_is_var acc || pending m ->
  frags_post w (frags w m have acc s).
Proof.
  intros w n. induction n as [|n IH]; intros s Hlen m have acc Hinv.
  - destruct s; [|cbn in Hlen; lia].
    destruct m; cbn in *; auto.
    + rewrite existsb_rev, existsb_flush, orb_false_r in *. exact Hinv.
    + rewrite existsb_app. cbn. rewrite orb_true_r. rewrite orb_true_r in Hinv. exact Hinv.
  - destruct s as [|c r].
    { destruct m; cbn in *; auto.
      + rewrite existsb_rev, existsb_flush, orb_false_r in *. exact Hinv.
      + rewrite existsb_app. cbn. rewrite orb_true_r. rewrite orb_true_r in Hinv. exact Hinv. }
    cbn in Hlen. assert (Hr : length r <= n) by lia.
    assert (Hlit : forall fv h a, h = existsb frag_is_var a || false ->
               frags_post w
                 (if negb (Ascii.eqb c "$")
                  then if Ascii.eqb c bs
                       then match r with
                            | d :: r' => if Ascii.eqb d "$" then frags w (MLit (fv ++ [c; d])) h a r'
                                         else frags w (MLit (fv ++ [c])) h a r
                            | [] => frags w (MLit (fv ++ [c])) h a r
                            end
                       else frags w (MLit (fv ++ [c])) h a r
                  else frags w MDollar true (flush_lit fv a) r)).
    { intros fv h a Hi.
      destruct (Ascii.eqb c "$"); cbn [negb].
      - apply IH; [exact Hr|]. cbn. rewrite orb_true_r. reflexivity.
      - destruct (Ascii.eqb c bs).
        + destruct r as [|d r'].
          * apply IH; [exact Hr|exact Hi].
          * destruct (Ascii.eqb d "$").
            -- apply IH; [cbn in Hr; lia|exact Hi].
            -- apply IH; [exact Hr|exact Hi].
        + apply IH; [exact Hr|exact Hi]. }
    cbn [frags].
    destruct m as [fv| |fv|fv].
    + apply Hlit. exact Hinv.
    + cbn in Hinv. rewrite orb_true_r in Hinv. subst have.
      destruct (Ascii.eqb c "(").
      * apply IH; [exact Hr|]. cbn. rewrite orb_true_r. reflexivity.
      * destruct (vid_start c); cbn [negb].
        -- apply IH; [exact Hr|]. cbn. rewrite orb_true_r. reflexivity.
        -- cbn. auto.
    + cbn in Hinv. rewrite orb_true_r in Hinv. subst have.
      destruct (Ascii.eqb c ")").
      * match goal with |- context [negb ?b] => destruct b end; cbn [negb].
        -- apply IH; [exact Hr|]. reflexivity.
        -- cbn. auto.
      * apply IH; [exact Hr|]. cbn. rewrite orb_true_r. reflexivity.
    + cbn in Hinv. rewrite orb_true_r in Hinv. subst have.
      destruct (Ascii.eqb c "." || negb (vid_cont c)).
      * apply Hlit. reflexivity.
      * apply IH; [exact Hr|]. cbn. rewrite orb_true_r. reflexivity.
Qed.

Lemma frags_spec : forall w s m have acc,
  have = existsb frag_is_var acc || pending m -> frags_post w (frags w m have acc s).
Proof. intros. eapply frags_spec_n; eauto. Qed.

Lemma fragments_ok : forall w force have frs,
  fragments_of_word w = Ok (force, have, frs) ->
  have = existsb frag_is_var frs /\ force = (isq w || (1 <? length frs))%nat.
Proof.
  intros w force have frs H. unfold fragments_of_word in H.
  pose proof (frags_spec w (wv w) (MLit []) false [] eq_refl) as P.
  destruct (frags w (MLit []) false [] (wv w)) as [[h f]| |]; cbn in H; try discriminate.
  inversion H; subst. split; [exact P|reflexivity].
Qed.

Lemma fragments_uerr : forall w k t l,
  fragments_of_word w = UErr k t l ->
  (k = k_dollar_end \/ k = k_missing_paren \/ k = k_improper) /\ t = wv w /\ l = wline w.
Proof.
  intros w k t l H. unfold fragments_of_word in H.
  pose proof (frags_spec w (wv w) (MLit []) false [] eq_refl) as P.
  destruct (frags w (MLit []) false [] (wv w)) as [[h f]| |]; cbn in H; try discriminate.
  inversion H; subst. exact P.
Qed.

Lemma fragments_no_crash : forall w c, fragments_of_word w <> Crash c.
Proof.
  intros w c H. unfold fragments_of_word in H.
  pose proof (frags_spec w (wv w) (MLit []) false [] eq_refl) as P.
  destruct (frags w (MLit []) false [] (wv w)) as [[h f]| |]; cbn in H; try discriminate.
  exact P.
Qed.

(* a text without "$" is one literal fragment (none if empty) *)
Lemma frags_no_dollar : forall w s fv have acc,
  mem "$" s = false ->
  frags w (MLit fv) have acc s = Ok (have, rev (flush_lit (fv ++ s) acc)).
Proof.
  intros w s. induction s as [|c r IH]; intros fv have acc Hm.
  - cbn. rewrite app_nil_r. reflexivity.
  - apply mem_false_cons in Hm. destruct Hm as [Hc Hr].
    cbn [frags]. rewrite Ascii.eqb_sym in Hc. rewrite Hc. cbn [negb].
    replace (fv ++ c :: r) with ((fv ++ [c]) ++ r) by (rewrite <- app_assoc; reflexivity).
    destruct (Ascii.eqb c bs).
    + destruct r as [|d r'].
      * apply IH. reflexivity.
      * pose proof (mem_false_cons _ _ _ Hr) as [Hd _]. rewrite Ascii.eqb_sym in Hd. rewrite Hd.
        apply IH. exact Hr.
    + apply IH. exact Hr.
Qed.

Lemma fragments_no_dollar : forall w,
  mem "$" (wv w) = false ->
  fragments_of_word w = Ok (isq w, false, match wv w with [] => [] | _ => [FLit (wv w)] end).
Proof.
  intros w H. unfold fragments_of_word. rewrite frags_no_dollar by exact H. cbn [app bind].
  destruct (wv w); cbn; rewrite orb_false_r; reflexivity.
Qed.

(* ------------------------------------------------------------------ passthrough *)
Lemma resolve_word_passthrough : forall env rec diff chain stop w,
  wq w = Q1 \/ mem "$" (wv w) = false ->
  resolve_word env rec diff chain stop w = Ok [w].
Proof.
  intros env rec diff chain stop w [H|H]; unfold resolve_word.
  - rewrite H. reflexivity.
  - destruct (quote_eqb (wq w) Q1); [reflexivity|].
    rewrite fragments_no_dollar by exact H. cbn [bind].
    destruct (wv w); cbn; reflexivity.
Qed.

Lemma resolve_words_passthrough : forall env rec diff chain stop ws,
  (forall w, In w ws -> wq w = Q1 \/ mem "$" (wv w) = false) ->
  resolve_words env rec diff chain stop ws = Ok ws.
Proof.
  intros env rec diff chain stop ws. induction ws as [|w r IH]; intros H; [reflexivity|].
  cbn [resolve_words]. rewrite resolve_word_passthrough by (apply H; left; reflexivity).
  cbn [bind]. rewrite IH by (intros; apply H; right; assumption). reflexivity.
Qed.

Lemma resolve_passthrough : forall env diff chain d,
  (forall w, In w (owords d) -> wq w = Q1 \/ mem "$" (wv w) = false) ->
  resolve_top env diff chain d = Ok (owords d).
Proof.
  intros. unfold resolve_top. cbn [resolve_def]. apply resolve_words_passthrough. assumption.
Qed.

(* ------------------------------------------------------------------ shape *)
(* the text a fragment contributes to a string result *)
Definition frag_text env rec (diff:bool) (chain:ctx) (stop:nat) (w:word) (f:fragment) (nx:list fragment)
  : res str :=
  match f with
  | FLit v => Ok v
  | FVar v => do ws <- lookup_var env rec diff chain stop w v (dtext env rec diff chain stop w v nx); Ok (vjoin_sp (map wv ws))
  end.

Lemma mapM_result_value : forall env rec diff chain stop w frs,
  (do rs <- mapM_tl (frag_result env rec diff chain stop w true) frs; mapM result_value rs)
  = mapM_tl (frag_text env rec diff chain stop w) frs.
Proof.
  intros env rec diff chain stop w frs. induction frs as [|f r IH]; [reflexivity|].
  cbn [mapM_tl]. destruct f as [v|v]; cbn [frag_result frag_text bind].
  - rewrite <- IH.
    destruct (mapM_tl (frag_result env rec diff chain stop w true) r); cbn; reflexivity.
  - destruct (lookup_var env rec diff chain stop w v (dtext env rec diff chain stop w v r)) as [vws| |]; cbn [bind negb]; try reflexivity.
    rewrite <- IH.
    destruct (mapM_tl (frag_result env rec diff chain stop w true) r); cbn; reflexivity.
Qed.

Lemma existsb_single_var : forall frs,
  existsb frag_is_var frs = true -> (1 <? length frs)%nat = false -> exists v, frs = [FVar v].
Proof.
  intros [|f [|g r]] H1 H2; cbn in *; try discriminate.
  destruct f; cbn in H1; try discriminate. eauto.
Qed.

Lemma resolve_word_shape : forall env rec diff chain stop w force frs,
  wq w <> Q1 ->
  fragments_of_word w = Ok (force, true, frs) ->
  (force = false ->
     exists v, frs = [FVar v] /\ wq w = QN /\
               resolve_word env rec diff chain stop w = lookup_var env rec diff chain stop w v (dtext env rec diff chain stop w v []))
  /\ (force = true ->
     resolve_word env rec diff chain stop w =
       do ts <- mapM_tl (frag_text env rec diff chain stop w) frs; Ok [mkword (List.concat ts) Q2 0]).
Proof.
  intros env rec diff chain stop w force frs Hq Hf.
  pose proof (fragments_ok _ _ _ _ Hf) as [Hhave Hforce].
  assert (Hq1 : quote_eqb (wq w) Q1 = false) by (destruct (wq w); try reflexivity; congruence).
  split; intros Hfc; rewrite Hfc in *.
  - symmetry in Hforce. apply orb_false_iff in Hforce. destruct Hforce as [Hisq Hlen].
    destruct (existsb_single_var frs (eq_sym Hhave) Hlen) as [v Hv]. subst frs.
    exists v. split; [reflexivity|]. split.
    { unfold isq in Hisq. destruct (wq w); try discriminate; reflexivity. }
    unfold resolve_word. rewrite Hq1, Hf. cbn [bind mapM_tl frag_result].
    destruct (lookup_var env rec diff chain stop w v (dtext env rec diff chain stop w v [])); reflexivity.
  - unfold resolve_word. rewrite Hq1, Hf. cbn [bind].
    rewrite <- mapM_result_value.
    destruct (mapM_tl (frag_result env rec diff chain stop w true) frs); reflexivity.
Qed.

(* ------------------------------------------------------------------ lexical_get: basic facts *)
Definition c_type : str := s_ "TypeError".
Lemma c_type_fuel : c_type <> c_fuel.
Proof. unfold c_type, c_fuel. cbv. discriminate. Qed.

Definition wf_chain (ch:ctx) : Prop := Forall (fun l => defs_have_ids_l l = true) ch.

Lemma defs_have_ids_kids : forall h ks a,
  defs_have_ids (Scp h ks a) = defs_have_ids_l ks.
Proof.
  intros h ks a. cbn [defs_have_ids]. induction ks as [|k r IH]; [reflexivity|].
  cbn [defs_have_ids_l]. rewrite <- IH. reflexivity.
Qed.
Lemma defs_have_ids_okids : forall o, defs_have_ids o = true -> defs_have_ids_l (okids o) = true.
Proof. intros [h ws a|h ks a] H; [reflexivity|]. rewrite defs_have_ids_kids in H. exact H. Qed.
Lemma defs_have_ids_in : forall l o, defs_have_ids_l l = true -> In o l -> defs_have_ids o = true.
Proof.
  induction l as [|k r IH]; intros o H Hin; [destruct Hin|].
  cbn in H. apply andb_true_iff in H. destruct H as [Hk Hr].
  destruct Hin as [->|Hin]; [exact Hk|apply IH; assumption].
Qed.
Lemma def_has_id : forall o, defs_have_ids o = true -> is_def o = true -> oid o <> 0.
Proof.
  intros [h ws a|h ks a] H Hd; [|discriminate]. cbn in *. unfold oid. cbn.
  destruct (opid h =? 0)%nat eqn:E; [discriminate|]. apply Nat.eqb_neq in E. exact E.
Qed.

Lemma live_cand_true : forall path o,
  live_cand path o = true -> odis (ohdr o) = false /\ cand path o = true.
Proof.
  intros path o H. unfold live_cand in H. apply andb_true_iff in H. destruct H as [H1 H2].
  apply negb_true_iff in H1. auto.
Qed.

Lemma scan_sub : forall stop path l cs,
  scan stop path l = Ok cs ->
  Forall (fun o => cand path o = true /\ stops stop o = false /\ In o l /\ odis (ohdr o) = false) cs.
Proof.
  intros stop path l. induction l as [|o r IH]; intros cs H.
  - cbn in H. inversion H. constructor.
  - cbn [scan] in H.
    destruct (negb (oid o =? 0)%nat && (stop =? 0)%nat); [discriminate|].
    destruct (stops stop o) eqn:Es; [inversion H; constructor|].
    apply bind_ok in H. destruct H as [cs' [Hs Hc]]. inversion Hc; subst; clear Hc.
    specialize (IH _ Hs).
    assert (IH' : Forall (fun o0 => cand path o0 = true /\ stops stop o0 = false /\ In o0 (o :: r)
                                     /\ odis (ohdr o0) = false) cs').
    { eapply Forall_impl; [|exact IH]. cbn. intros a [H1 [H2 [H3 H4]]]. auto. }
    destruct (live_cand path o) eqn:Ec; [|exact IH'].
    destruct (live_cand_true _ _ Ec) as [Hd Hc]. constructor; [cbn; auto|exact IH'].
Qed.

Lemma scan_kind : forall stop path l,
  match scan stop path l with Ok _ => True | UErr _ _ _ => False | Crash c => c = c_type end.
Proof.
  intros stop path l. induction l as [|o r IH]; cbn [scan]; [exact I|].
  destruct (negb (oid o =? 0)%nat && (stop =? 0)%nat); [reflexivity|].
  destruct (stops stop o); [exact I|].
  destruct (scan stop path r); cbn; auto.
Qed.

(* what lexical_get may answer *)
Definition lex_post (stop:nat) (chain:ctx) (r:res (option found)) : Prop :=
  match r with
  | Ok None => True
  | Ok (Some (o, ch)) =>
      stops stop o = false /\ (exists cur ups, ch = cur :: ups /\ In o cur) /\ (wf_chain chain -> wf_chain ch)
      /\ odis (ohdr o) = false
  | UErr _ _ _ => False
  | Crash c => c = c_type \/ c = c_fuel
  end.

Lemma try_cands_post : forall rec stop chain cur ups path l,
  chain = cur :: ups ->
  (forall o, In o l -> stops stop o = false /\ In o cur /\ odis (ohdr o) = false) ->
  (forall c p, lex_post stop c (rec c p)) ->
  lex_post stop chain (try_cands rec chain path l).
Proof.
  intros rec stop chain cur ups path l Hch. induction l as [|o rest IH]; intros Hl Hrec; [exact I|].
  cbn [try_cands]. destruct (Hl o (or_introl eq_refl)) as [Hs [Hin Hdis]].
  destruct (eqs (onm o) path).
  - cbn. split; [exact Hs|]. split; [exists cur, ups; auto|auto].
  - pose proof (Hrec (okids o :: chain) (drop (length (onm o) + 1) path)) as Hr.
    destruct (rec (okids o :: chain) (drop (length (onm o) + 1) path)) as [[[o' ch']|]| |]; cbn [bind lex_post] in *.
    + destruct Hr as [H1 [H2 [H3 H4]]]. split; [exact H1|]. split; [exact H2|]. split; [|exact H4].
      intros Hwf. apply H3. constructor; [|exact Hwf].
      apply defs_have_ids_okids. subst chain. inversion Hwf; subst.
      eapply defs_have_ids_in; eauto.
    + apply IH; [intros; apply Hl; right; assumption|assumption].
    + exact Hr.
    + exact Hr.
Qed.

Lemma lex_here_post : forall rec stop chain path,
  (forall c p, lex_post stop c (rec c p)) ->
  lex_post stop chain (lex_here rec stop chain path).
Proof.
  intros rec stop chain path Hrec. unfold lex_here. destruct chain as [|cur ups]; [exact I|].
  pose proof (scan_kind stop path cur) as K. pose proof (scan_sub stop path cur) as S.
  destruct (scan stop path cur) as [cs| |c]; cbn [bind].
  - eapply try_cands_post; [reflexivity| |exact Hrec].
    intros o Hin. apply in_rev in Hin. specialize (S cs eq_refl).
    rewrite Forall_forall in S. destruct (S o Hin) as [_ [H2 [H3 H4]]]. auto.
  - destruct K.
  - cbn. left. exact K.
Qed.

Lemma wf_chain_tail : forall c ups, wf_chain (c :: ups) -> wf_chain ups.
Proof. intros c ups H. inversion H; assumption. Qed.

Lemma lex_up_post : forall here stop chain,
  (forall c, lex_post stop c (here c)) ->
  lex_post stop chain (lex_up here chain).
Proof.
  intros here stop chain Hh. induction chain as [|cur ups IH]; [exact I|].
  cbn [lex_up]. specialize (Hh (cur :: ups)).
  destruct (here (cur :: ups)) as [[[o ch]|]| |]; cbn [bind]; try exact Hh.
  destruct (lex_up here ups) as [[[o ch]|]| |]; cbn in *; auto.
  destruct IH as [H1 [H2 [H3 H4]]]. split; [exact H1|]. split; [exact H2|]. split; [|exact H4].
  intros Hwf. apply H3. eapply wf_chain_tail; eauto.
Qed.

Lemma wf_root_of : forall chain, wf_chain chain -> wf_chain (root_of chain).
Proof.
  induction chain as [|c [|c2 r] IH]; intros H; cbn [root_of]; [constructor|exact H|].
  apply IH. eapply wf_chain_tail; eauto.
Qed.

Lemma lexical_get_post : forall f stop chain path su,
  lex_post stop chain (lexical_get f stop chain path su).
Proof.
  induction f as [|f IH]; intros stop chain path su; [cbn; right; reflexivity|].
  cbn [lexical_get].
  assert (Hh : forall c p, lex_post stop c (lex_here (fun c0 p0 => lexical_get f stop c0 p0 false) stop c p)).
  { intros. apply lex_here_post. intros. apply IH. }
  destruct (strip_dot path) as [p|].
  - specialize (Hh (root_of chain) p).
    destruct (lex_here _ stop (root_of chain) p) as [[[o ch]|]| |]; cbn in *; auto.
    destruct Hh as [H1 [H2 [H3 H4]]]. split; [exact H1|]. split; [exact H2|]. split; [|exact H4].
    intros Hwf. apply H3. apply wf_root_of. exact Hwf.
  - destruct su; [|apply Hh].
    apply lex_up_post. intros c. apply Hh.
Qed.

(* a definition found by a lookup carries a strictly smaller id than stop_id *)
Lemma lexical_get_found_def : forall f stop chain path su o ch,
  wf_chain chain ->
  lexical_get f stop chain path su = Ok (Some (o, ch)) ->
  wf_chain ch /\ (is_def o = true -> oid o <> 0 /\ oid o < stop).
Proof.
  intros f stop chain path su o ch Hwf H.
  pose proof (lexical_get_post f stop chain path su) as P. rewrite H in P. cbn in P.
  destruct P as [Hs [[cur [ups [Hch Hin]]] [Hw _]]]. specialize (Hw Hwf). split; [exact Hw|].
  intros Hd. subst ch. inversion Hw; subst.
  assert (Hid : oid o <> 0) by (apply def_has_id; [eapply defs_have_ids_in; eauto|exact Hd]).
  split; [exact Hid|]. unfold stops in Hs. apply andb_false_iff in Hs. destruct Hs as [Hs|Hs].
  - apply negb_false_iff in Hs. apply Nat.eqb_eq in Hs. contradiction.
  - apply Nat.leb_gt in Hs. exact Hs.
Qed.

(* what a lookup returns is never a disabled object *)
Lemma lexical_get_found_live : forall f stop chain path su o ch,
  lexical_get f stop chain path su = Ok (Some (o, ch)) -> odis (ohdr o) = false.
Proof.
  intros f stop chain path su o ch H.
  pose proof (lexical_get_post f stop chain path su) as P. rewrite H in P. cbn in P. tauto.
Qed.

Lemma scan_live : forall stop path l cs,
  scan stop path l = Ok cs -> Forall (fun o => odis (ohdr o) = false /\ In o l) cs.
Proof.
  intros stop path l cs H. eapply Forall_impl; [|exact (scan_sub _ _ _ _ H)]. cbn. tauto.
Qed.

(* a disabled object that does not end the scan might as well be absent *)
Lemma scan_skip_disabled : forall stop path l1 o l2,
  stop <> 0 -> odis (ohdr o) = true -> stops stop o = false ->
  scan stop path (l1 ++ o :: l2) = scan stop path (l1 ++ l2).
Proof.
  intros stop path l1 o l2 Hs Hd Hst. apply Nat.eqb_neq in Hs.
  induction l1 as [|k r IH]; cbn [app scan].
  - rewrite Hs, andb_false_r, Hst. unfold live_cand. rewrite Hd. cbn [negb andb].
    destruct (scan stop path l2); reflexivity.
  - rewrite IH. reflexivity.
Qed.

Lemma lexical_get_no_uerr : forall f stop chain path su k t l,
  lexical_get f stop chain path su <> UErr k t l.
Proof.
  intros f stop chain path su k t l H.
  pose proof (lexical_get_post f stop chain path su) as P. rewrite H in P. exact P.
Qed.

(* ------------------------------------------------------------------ fuel of lexical_get *)
Lemma prefixb_length : forall p s, prefixb p s = true -> length p <= length s.
Proof.
  induction p as [|a p IH]; intros s H; [cbn; lia|].
  destruct s as [|b s]; [discriminate|]. cbn in H. apply andb_true_iff in H. destruct H as [_ H].
  specialize (IH _ H). cbn. lia.
Qed.
Lemma drop_length : forall A n (s:list A), length (drop n s) = length s - n.
Proof.
  intros A n. induction n as [|n IH]; intros s; [cbn; lia|].
  destruct s as [|a s]; [reflexivity|]. cbn. apply IH.
Qed.
Lemma eqs_refl : forall s, eqs s s = true.
Proof. induction s as [|a s IH]; [reflexivity|]. cbn. rewrite Ascii.eqb_refl. exact IH. Qed.
Lemma eqs_eq : forall a b, eqs a b = true -> a = b.
Proof.
  induction a as [|x a IH]; intros [|y b] H; try discriminate; [reflexivity|].
  cbn in H. apply andb_true_iff in H. destruct H as [H1 H2].
  apply Ascii.eqb_eq in H1. subst. f_equal. apply IH. exact H2.
Qed.

(* a candidate that is not the whole path is a scope whose dotted name is a proper prefix *)
Lemma cand_descend_shorter : forall path o,
  cand path o = true -> eqs (onm o) path = false ->
  length (drop (length (onm o) + 1) path) < length path.
Proof.
  intros path [h ws a|h ks a] Hc He; unfold onm in *; cbn in *.
  - congruence.
  - rewrite He in Hc. cbn in Hc. apply prefixb_length in Hc.
    rewrite app_length in Hc. cbn in Hc. rewrite drop_length. lia.
Qed.

Lemma try_cands_nofuel : forall rec chain path l,
  (forall o, In o l -> cand path o = true) ->
  (forall c p, length p < length path -> nofuel (rec c p)) ->
  nofuel (try_cands rec chain path l).
Proof.
  intros rec chain path l. induction l as [|o rest IH]; intros Hl Hrec; [apply nofuel_ok|].
  cbn [try_cands]. destruct (eqs (onm o) path) eqn:He; [apply nofuel_ok|].
  apply nofuel_bind.
  - apply Hrec. apply cand_descend_shorter; [apply Hl; left; reflexivity|exact He].
  - intros [y|] _; [apply nofuel_ok|]. apply IH; [intros; apply Hl; right; assumption|exact Hrec].
Qed.

Lemma lex_here_nofuel : forall rec stop chain path,
  (forall c p, length p < length path -> nofuel (rec c p)) ->
  nofuel (lex_here rec stop chain path).
Proof.
  intros rec stop chain path Hrec. unfold lex_here. destruct chain as [|cur ups]; [apply nofuel_ok|].
  pose proof (scan_kind stop path cur) as K. pose proof (scan_sub stop path cur) as S.
  destruct (scan stop path cur) as [cs| |c]; cbn [bind].
  - apply try_cands_nofuel; [|exact Hrec].
    intros o Hin. apply in_rev in Hin. specialize (S cs eq_refl). rewrite Forall_forall in S.
    apply S. exact Hin.
  - destruct K.
  - subst c. apply nofuel_crash. apply c_type_fuel.
Qed.

Lemma lex_up_nofuel : forall here chain,
  (forall c, nofuel (here c)) -> nofuel (lex_up here chain).
Proof.
  intros here chain Hh. induction chain as [|cur ups IH]; [apply nofuel_ok|].
  cbn [lex_up]. apply nofuel_bind; [apply Hh|]. intros [y|] _; [apply nofuel_ok|exact IH].
Qed.

Lemma strip_dot_length : forall path p, strip_dot path = Some p -> length path = S (length p).
Proof.
  intros [|c r] p H; [discriminate|]. cbn in H. destruct (Ascii.eqb c "."); [|discriminate].
  inversion H; subst. reflexivity.
Qed.

(* S (length path) units are enough *)
Lemma lexical_get_fuel : forall f stop chain path su,
  length path < f -> nofuel (lexical_get f stop chain path su).
Proof.
  induction f as [|f IH]; intros stop chain path su Hlen; [lia|].
  cbn [lexical_get].
  destruct (strip_dot path) as [p|] eqn:Es.
  - apply strip_dot_length in Es. apply lex_here_nofuel. intros c p' Hp. apply IH. lia.
  - assert (Hh : forall c, nofuel (lex_here (fun c0 p0 => lexical_get f stop c0 p0 false) stop c path)).
    { intros c. apply lex_here_nofuel. intros c' p' Hp. apply IH. lia. }
    destruct su; [apply lex_up_nofuel; exact Hh|apply Hh].
Qed.

(* ------------------------------------------------------------------ fuel of resolve_def *)
Lemma mapM_nofuel : forall A B (f:A -> res B) l,
  (forall a, In a l -> nofuel (f a)) -> nofuel (mapM f l).
Proof.
  intros A B f l. induction l as [|a r IH]; intros H; [apply nofuel_ok|].
  cbn [mapM]. apply nofuel_bind; [apply H; left; reflexivity|]. intros b _.
  apply nofuel_bind; [apply IH; intros; apply H; right; assumption|]. intros; apply nofuel_ok.
Qed.

Lemma mapM_tl_nofuel : forall A B (f:A -> list A -> res B) l,
  (forall a nx, nofuel (f a nx)) -> nofuel (mapM_tl f l).
Proof.
  intros A B f l H. induction l as [|a r IH]; [apply nofuel_ok|].
  cbn [mapM_tl]. apply nofuel_bind; [apply H|]. intros b _.
  apply nofuel_bind; [exact IH|]. intros; apply nofuel_ok.
Qed.

Lemma result_value_nofuel : forall r, nofuel (result_value r).
Proof. intros [x|ws]; cbn; [apply nofuel_ok|apply nofuel_crash; cbv; discriminate]. Qed.

Lemma get_new_words_nofuel : forall w force have rs, nofuel (get_new_words w force have rs).
Proof.
  intros w force have rs. unfold get_new_words.
  destruct (negb have); [apply nofuel_ok|].
  destruct (negb force).
  - destruct rs as [|[x|ws] r]; [apply nofuel_crash; cbv; discriminate|apply nofuel_crash; cbv; discriminate|apply nofuel_ok].
  - apply nofuel_bind; [apply mapM_nofuel; intros; apply result_value_nofuel|]. intros; apply nofuel_ok.
Qed.

Section Fuel.
  Variable env : str -> option str.
  Variable rec : ctx -> obj -> res (list word).
  Variable stop : nat.
  Hypothesis Hrec : forall ch o, wf_chain ch -> is_def o = true -> oid o < stop -> nofuel (rec ch o).

  Lemma lookup_var_nofuel : forall diff chain w v dt,
    wf_chain chain -> nofuel (lookup_var env rec diff chain stop w v dt).
  Proof.
    intros diff chain w v dt Hwf. unfold lookup_var.
    apply nofuel_bind.
    { destruct chain; [apply nofuel_ok|]. apply lexical_get_fuel. lia. }
    intros src Hsrc. apply nofuel_bind.
    - destruct src as [[o ch]|]; [|apply nofuel_ok].
      destruct (is_def o) eqn:Ed; cbn [negb]; [|apply nofuel_uerr].
      apply nofuel_bind; [|intros; apply nofuel_ok].
      destruct chain as [|c0 cr]; [discriminate|].
      destruct (lexical_get_found_def _ _ _ _ _ _ _ Hwf Hsrc) as [Hw Hid].
      apply Hrec; [exact Hw|exact Ed|apply Hid; exact Ed].
    - intros [ws|] _; [apply nofuel_ok|].
      destruct (if diff then Some dt else env v); [apply nofuel_ok|apply nofuel_uerr].
  Qed.

  Lemma resolve_word_nofuel : forall diff chain w,
    wf_chain chain -> nofuel (resolve_word env rec diff chain stop w).
  Proof.
    intros diff chain w Hwf. unfold resolve_word.
    destruct (quote_eqb (wq w) Q1); [apply nofuel_ok|].
    apply nofuel_bind.
    { intro H. exact (fragments_no_crash _ _ H). }
    intros [[force have] frs] _. apply nofuel_bind; [|intros; apply get_new_words_nofuel].
    apply mapM_tl_nofuel. intros [v|v] nx; cbn [frag_result]; [apply nofuel_ok|].
    apply nofuel_bind; [apply lookup_var_nofuel; exact Hwf|].
    intros; destruct (negb force); apply nofuel_ok.
  Qed.

  Lemma resolve_words_nofuel : forall diff chain ws,
    wf_chain chain -> nofuel (resolve_words env rec diff chain stop ws).
  Proof.
    intros diff chain ws Hwf. induction ws as [|w r IH]; [apply nofuel_ok|].
    cbn [resolve_words]. apply nofuel_bind; [apply resolve_word_nofuel; exact Hwf|].
    intros a _. apply nofuel_bind; [exact IH|]. intros; apply nofuel_ok.
  Qed.
End Fuel.

(* ids strictly decrease along the nesting: oid d < fuel is enough *)
Lemma resolve_def_fuel : forall env f diff chain d,
  wf_chain chain -> oid d < f -> nofuel (resolve_def env f diff chain d).
Proof.
  intros env f. induction f as [|f IH]; intros diff chain d Hwf Hlt; [lia|].
  cbn [resolve_def]. apply resolve_words_nofuel; [|exact Hwf].
  intros ch o Hw _ Ho. apply IH; [exact Hw|lia].
Qed.

Lemma resolve_top_terminates : forall env diff chain d,
  wf_chain chain -> resolve_top env diff chain d <> Crash c_fuel.
Proof. intros. unfold resolve_top. apply resolve_def_fuel; [assumption|lia]. Qed.

(* ------------------------------------------------------------------ locating a definition by id *)
Lemma find_in_obj_wf : forall id o chain d ch,
  wf_chain chain -> defs_have_ids o = true ->
  find_in_obj id chain o = Some (d, ch) ->
  wf_chain ch /\ is_def d = true /\ oid d = id.
Proof.
  intros id o. induction o as [h ws a|h ks a IH] using obj_ind2; intros chain d ch Hwf Hd H.
  - cbn in H. destruct (opid h =? id)%nat eqn:E; [|discriminate]. inversion H; subst.
    apply Nat.eqb_eq in E. auto.
  - rewrite defs_have_ids_kids in Hd. cbn [find_in_obj] in H.
    assert (Hwf' : wf_chain (ks :: chain)) by (constructor; assumption).
    revert H. generalize (ks :: chain) Hwf'. clear Hwf'. intros chain' Hwf'.
    induction IH as [|k r Hk Hr IHr]; intros H; [discriminate|].
    cbn in Hd. apply andb_true_iff in Hd. destruct Hd as [Hdk Hdr].
    destruct (find_in_obj id chain' k) as [x|] eqn:E.
    + inversion H; subst. eapply Hk; eauto.
    + apply IHr; assumption.
Qed.

Lemma find_def_wf : forall t id d ch,
  defs_have_ids_l t = true -> find_def t id = Some (d, ch) ->
  wf_chain ch /\ is_def d = true /\ oid d = id.
Proof.
  intros t id d ch Hd. unfold find_def.
  assert (Hwf : wf_chain [t]) by (constructor; [exact Hd|constructor]).
  revert Hwf. generalize [t] as chain. intros chain Hwf.
  induction t as [|k r IH]; intros H; [discriminate|].
  cbn in Hd. apply andb_true_iff in Hd. destruct Hd as [Hk Hr].
  cbn [find_in_list] in H. destruct (find_in_obj id chain k) as [x|] eqn:E.
  - inversion H; subst. eapply find_in_obj_wf; eauto.
  - apply IH; assumption.
Qed.

Lemma resolve_id_terminates : forall env diff t id,
  doc_ordered t = true -> resolve_id env diff t id <> Crash c_fuel.
Proof.
  intros env diff t id Hdoc. unfold doc_ordered in Hdoc. apply andb_true_iff in Hdoc.
  destruct Hdoc as [_ Hd]. unfold resolve_id.
  destruct (find_def t id) as [[d ch]|] eqn:E; [|cbv; discriminate].
  apply resolve_top_terminates. eapply find_def_wf; eauto.
Qed.

(* ------------------------------------------------------------------ environment *)
(* a reference that is found lexically never looks at the environment (nor at diff_mode) *)
Lemma lookup_var_found : forall env rec diff chain stop w v dt o ch c0 cr,
  chain = c0 :: cr ->
  lexical_get (S (length v)) stop chain v true = Ok (Some (o, ch)) ->
  lookup_var env rec diff chain stop w v dt =
    if is_def o then rec ch o else UErr k_not_a_def v (wline w).
Proof.
  intros env rec diff chain stop w v dt o ch c0 cr Hc H. unfold lookup_var. subst chain.
  rewrite H. cbn [bind]. destruct (is_def o); cbn [negb bind]; [|reflexivity].
  destruct (rec ch o); reflexivity.
Qed.

Lemma lookup_var_env_shadowed : forall env env' rec diff diff' chain stop w v dt dt' o ch,
  chain <> [] ->
  lexical_get (S (length v)) stop chain v true = Ok (Some (o, ch)) ->
  lookup_var env rec diff chain stop w v dt = lookup_var env' rec diff' chain stop w v dt'.
Proof.
  intros env env' rec diff diff' chain stop w v dt dt' o ch Hne H.
  destruct chain as [|c0 cr]; [congruence|].
  rewrite (lookup_var_found env rec diff _ _ w v dt o ch c0 cr eq_refl H).
  rewrite (lookup_var_found env' rec diff' _ _ w v dt' o ch c0 cr eq_refl H). reflexivity.
Qed.

(* whole resolution: if it succeeds with the empty environment, the environment is never consulted *)
Definition env0 : str -> option str := fun _ => None.

Section EnvMono.
  Variable env : str -> option str.
  Variables rec0 rec1 : ctx -> obj -> res (list word).
  Hypothesis Hrec : forall ch o ws, rec0 ch o = Ok ws -> rec1 ch o = Ok ws.

  Lemma lookup_var_env_mono : forall diff chain stop w v dt dt' ws,
    lookup_var env0 rec0 false chain stop w v dt = Ok ws ->
    lookup_var env rec1 diff chain stop w v dt' = Ok ws.
  Proof.
    intros diff chain stop w v dt dt' ws H. unfold lookup_var in *.
    destruct (match chain with [] => Ok None | _ :: _ => lexical_get (S (length v)) stop chain v true end)
      as [[[o ch]|]| |]; cbn [bind] in *; try discriminate.
    - destruct (is_def o); cbn [negb bind] in *; [|discriminate].
      destruct (rec0 ch o) as [ws0| |] eqn:E; cbn [bind] in H; try discriminate.
      rewrite (Hrec _ _ _ E). cbn [bind]. exact H.
  Qed.

  Lemma mapM_frag_result_env_mono : forall diff chain stop w force frs rs,
    mapM_tl (frag_result env0 rec0 false chain stop w force) frs = Ok rs ->
    mapM_tl (frag_result env rec1 diff chain stop w force) frs = Ok rs.
  Proof.
    intros diff chain stop w force frs. induction frs as [|f r IH]; intros rs H; [exact H|].
    cbn [mapM_tl] in *. apply bind_ok in H. destruct H as [b [Hb H]].
    apply bind_ok in H. destruct H as [bs [Hbs H]]. rewrite (IH _ Hbs).
    destruct f as [v|v]; cbn [frag_result] in *.
    - rewrite Hb. exact H.
    - apply bind_ok in Hb. destruct Hb as [vws [Hv Hb]].
      erewrite lookup_var_env_mono by exact Hv. cbn [bind]. rewrite Hb. exact H.
  Qed.

  Lemma resolve_words_env_mono : forall diff chain stop ws out,
    resolve_words env0 rec0 false chain stop ws = Ok out ->
    resolve_words env rec1 diff chain stop ws = Ok out.
  Proof.
    intros diff chain stop ws. induction ws as [|w r IH]; intros out H; [exact H|].
    cbn [resolve_words] in *. apply bind_ok in H. destruct H as [a [Ha H]].
    apply bind_ok in H. destruct H as [b [Hb H]]. rewrite (IH _ Hb).
    assert (Hw : resolve_word env rec1 diff chain stop w = Ok a).
    { unfold resolve_word in *. destruct (quote_eqb (wq w) Q1); [exact Ha|].
      destruct (fragments_of_word w) as [[[force have] frs]| |]; cbn [bind] in *; try discriminate.
      apply bind_ok in Ha. destruct Ha as [rs [Hrs Ha]].
      rewrite (mapM_frag_result_env_mono diff _ _ _ _ _ _ Hrs). exact Ha. }
    rewrite Hw. exact H.
  Qed.
End EnvMono.

Lemma resolve_def_env_irrelevant : forall env f diff chain d ws,
  resolve_def env0 f false chain d = Ok ws ->
  resolve_def env f diff chain d = Ok ws.
Proof.
  intros env f. induction f as [|f IH]; intros diff chain d ws H; [discriminate|].
  cbn [resolve_def] in *. eapply resolve_words_env_mono; [|exact H].
  intros ch o ws0 H0. apply IH. exact H0.
Qed.

(* ------------------------------------------------------------------ the line of "Undefined variable" *)
Lemma k_undefined_not_syntax :
  k_undefined <> k_dollar_end /\ k_undefined <> k_missing_paren /\ k_undefined <> k_improper
  /\ k_undefined <> k_not_a_def.
Proof. repeat split; cbv; discriminate. Qed.

(* where an UndefinedVariable error of resolve_def comes from: a word w' of some definition d'
   (d itself or one reached through references) on line l contains the variable v, the lexical
   lookup from d' finds nothing and the environment does not define v *)
Definition undefined_witness (env:str -> option str) (v:str) (l:nat) : Prop :=
  exists d' ch' w' force have frs,
    In w' (owords d') /\ wline w' = l /\ wq w' <> Q1 /\
    fragments_of_word w' = Ok (force, have, frs) /\ In (FVar v) frs /\
    (ch' = [] \/ lexical_get (S (length v)) (oid d') ch' v true = Ok None) /\
    env v = None.

Lemma mapM_uerr : forall A B (f:A -> res B) l k t ln,
  mapM f l = UErr k t ln -> exists a, In a l /\ f a = UErr k t ln.
Proof.
  intros A B f l. induction l as [|a r IH]; intros k t ln H; [discriminate|].
  cbn [mapM] in H. apply bind_uerr in H. destruct H as [H|[b [Hb H]]].
  - exists a. split; [left; reflexivity|exact H].
  - apply bind_uerr in H. destruct H as [H|[bs [_ H]]]; [|discriminate].
    destruct (IH _ _ _ H) as [a' [Hin Ha]]. exists a'. split; [right; exact Hin|exact Ha].
Qed.

Lemma mapM_tl_uerr : forall A B (f:A -> list A -> res B) l k t ln,
  mapM_tl f l = UErr k t ln -> exists a nx, In a l /\ f a nx = UErr k t ln.
Proof.
  intros A B f l. induction l as [|a r IH]; intros k t ln H; [discriminate|].
  cbn [mapM_tl] in H. apply bind_uerr in H. destruct H as [H|[b [Hb H]]].
  - exists a, r. split; [left; reflexivity|exact H].
  - apply bind_uerr in H. destruct H as [H|[bs [_ H]]]; [|discriminate].
    destruct (IH _ _ _ H) as [a' [nx [Hin Ha]]]. exists a', nx. split; [right; exact Hin|exact Ha].
Qed.

Lemma resolve_def_undefined : forall env f diff chain d v l,
  resolve_def env f diff chain d = UErr k_undefined v l -> undefined_witness env v l.
Proof.
  intros env f. induction f as [|f IH]; intros diff chain d v l H; [discriminate|].
  cbn [resolve_def] in H.
  remember (owords d) as ws eqn:Ews.
  assert (Hsub : forall w, In w ws -> In w (owords d)) by (subst; auto).
  clear Ews. induction ws as [|w r IHw]; [discriminate|].
  cbn [resolve_words] in H. apply bind_uerr in H. destruct H as [H|[a [_ H]]].
  2:{ apply bind_uerr in H. destruct H as [H|[b [_ H]]]; [|discriminate].
      apply IHw; [exact H|intros; apply Hsub; right; assumption]. }
  unfold resolve_word in H. destruct (quote_eqb (wq w) Q1) eqn:Eq; [discriminate|].
  apply bind_uerr in H. destruct H as [H|[[[force have] frs] [Hf H]]].
  { apply fragments_uerr in H. destruct k_undefined_not_syntax as [N1 [N2 [N3 _]]].
    destruct H as [[H|[H|H]] _]; congruence. }
  apply bind_uerr in H. destruct H as [H|[rs [_ H]]].
  2:{ unfold get_new_words in H. destruct (negb have); [discriminate|]. destruct (negb force).
      - destruct rs as [|[x|xs] rs']; discriminate.
      - apply bind_uerr in H. destruct H as [H|[vs [_ H]]]; [|discriminate].
        apply mapM_uerr in H. destruct H as [[x|xs] [_ H]]; discriminate. }
  apply mapM_tl_uerr in H. destruct H as [fr [nx [Hin H]]].
  destruct fr as [lit|v']; cbn [frag_result] in H; [discriminate|].
  apply bind_uerr in H. destruct H as [H|[vws [_ H]]]; [|destruct (negb force); discriminate].
  unfold lookup_var in H.
  apply bind_uerr in H. destruct H as [H|[src [Hsrc H]]].
  { destruct chain; [discriminate|]. exfalso. eapply lexical_get_no_uerr; eauto. }
  apply bind_uerr in H. destruct H as [H|[vw [Hvw H]]].
  - destruct src as [[o ch]|]; [|discriminate].
    destruct (is_def o); cbn [negb] in H.
    + apply bind_uerr in H. destruct H as [H|[x [_ H]]]; [|discriminate].
      eapply IH. exact H.
    + destruct k_undefined_not_syntax as [_ [_ [_ N4]]]. inversion H; congruence.
  - destruct vw as [x|]; [discriminate|].
    destruct diff; [discriminate|]. destruct (env v') eqn:Ee; [discriminate|].
    inversion H; subst v' l.
    exists d, chain, w, force, have, frs.
    split; [apply Hsub; left; reflexivity|]. split; [reflexivity|].
    split; [destruct (wq w); try discriminate; congruence|].
    split; [exact Hf|]. split; [exact Hin|]. split; [|exact Ee].
    destruct src as [[o ch]|].
    + destruct (is_def o); cbn [negb] in Hvw; [|discriminate].
      apply bind_ok in Hvw. destruct Hvw as [x [_ Hx]]. discriminate.
    + destruct chain; [left; reflexivity|right; exact Hsrc].
Qed.

(* ------------------------------------------------------------------ search order *)
Lemma scan_visible : forall stop path l,
  stop <> 0 -> scan stop path l = Ok (filter (live_cand path) (visible stop l)).
Proof.
  intros stop path l Hs. induction l as [|o r IH]; [reflexivity|].
  cbn [scan visible]. apply Nat.eqb_neq in Hs. rewrite Hs, andb_false_r.
  destruct (stops stop o); [reflexivity|]. rewrite IH. cbn [bind filter].
  destruct (live_cand path o); reflexivity.
Qed.

Lemma try_cands_app : forall rec chain path la lb,
  try_cands rec chain path (la ++ lb) =
  match try_cands rec chain path la with
  | Ok None => try_cands rec chain path lb
  | r => r
  end.
Proof.
  intros rec chain path la lb. induction la as [|o r IH]; [reflexivity|].
  cbn [app try_cands]. destruct (eqs (onm o) path); [reflexivity|].
  destruct (rec (okids o :: chain) (drop (length (onm o) + 1) path)) as [[y|]| |]; cbn [bind]; auto.
Qed.

Lemma lex_here_visible : forall rec stop cur ups path,
  stop <> 0 ->
  lex_here rec stop (cur :: ups) path =
  try_cands rec (cur :: ups) path (rev (filter (live_cand path) (visible stop cur))).
Proof. intros. unfold lex_here. rewrite scan_visible by assumption. reflexivity. Qed.

(* later objects of a scope take precedence over earlier ones *)
Lemma lex_here_later_first : forall rec stop cur ups path l1 l2,
  stop <> 0 -> visible stop cur = l1 ++ l2 ->
  lex_here rec stop (cur :: ups) path =
  match try_cands rec (cur :: ups) path (rev (filter (live_cand path) l2)) with
  | Ok None => try_cands rec (cur :: ups) path (rev (filter (live_cand path) l1))
  | r => r
  end.
Proof.
  intros rec stop cur ups path l1 l2 Hs Hv. rewrite lex_here_visible by assumption.
  rewrite Hv, filter_app, rev_app_distr. apply try_cands_app.
Qed.

Lemma cand_name : forall path o, eqs (onm o) path = true -> cand path o = true.
Proof. intros path [h ws a|h ks a] H; unfold onm in H; cbn in *; rewrite H; reflexivity. Qed.

(* the last visible, not disabled object whose name is the path wins, whatever precedes it *)
Lemma lex_here_last_wins : forall rec stop cur ups path l1 d l2,
  stop <> 0 -> visible stop cur = l1 ++ d :: l2 ->
  onm d = path -> odis (ohdr d) = false -> (forall o, In o l2 -> live_cand path o = false) ->
  lex_here rec stop (cur :: ups) path = Ok (Some (d, cur :: ups)).
Proof.
  intros rec stop cur ups path l1 d l2 Hs Hv Hn Hdis Hl2.
  rewrite (lex_here_later_first rec stop cur ups path l1 (d :: l2) Hs Hv).
  cbn [filter]. assert (He : eqs (onm d) path = true) by (rewrite Hn; apply eqs_refl).
  unfold live_cand at 1. rewrite Hdis, (cand_name _ _ He). cbn [negb andb].
  assert (Hf : filter (live_cand path) l2 = []).
  { clear Hv. induction l2 as [|o r IH]; [reflexivity|]. cbn. rewrite (Hl2 o (or_introl eq_refl)).
    apply IH. intros; apply Hl2; right; assumption. }
  rewrite Hf. cbn [rev app try_cands]. rewrite He. reflexivity.
Qed.

(* an object at or after the stopping object is never looked at *)
Lemma visible_app_stop : forall stop l1 o l2,
  stops stop o = true -> visible stop (l1 ++ o :: l2) = visible stop l1.
Proof.
  intros stop l1 o l2 Hs. induction l1 as [|k r IH]; cbn [app visible]; [rewrite Hs; reflexivity|].
  destruct (stops stop k); [reflexivity|]. rewrite IH. reflexivity.
Qed.

(* innermost scope first, then outwards; root-anchored paths look at the root only;
   a dotted path descends into the candidate scope without looking outwards from there *)
Lemma lexical_get_outward : forall f stop cur ups path,
  strip_dot path = None ->
  lexical_get (S f) stop (cur :: ups) path true =
  match lex_here (fun c p => lexical_get f stop c p false) stop (cur :: ups) path with
  | Ok None => lexical_get (S f) stop ups path true
  | r => r
  end.
Proof.
  intros f stop cur ups path Hs. cbn [lexical_get]. rewrite Hs. cbn [lex_up].
  destruct (lex_here _ stop (cur :: ups) path) as [[y|]| |]; reflexivity.
Qed.

Lemma lexical_get_outermost : forall f stop path, lexical_get (S f) stop [] path true = Ok None
  \/ exists p, strip_dot path = Some p.
Proof.
  intros f stop path. destruct (strip_dot path) eqn:E; [right; eauto|left].
  cbn [lexical_get]. rewrite E. reflexivity.
Qed.

Lemma lexical_get_anchored : forall f stop chain path p su,
  strip_dot path = Some p ->
  lexical_get (S f) stop chain path su =
  lex_here (fun c p => lexical_get f stop c p false) stop (root_of chain) p.
Proof. intros f stop chain path p su Hs. cbn [lexical_get]. rewrite Hs. reflexivity. Qed.

Lemma lexical_get_no_search_up : forall f stop chain path,
  strip_dot path = None ->
  lexical_get (S f) stop chain path false =
  lex_here (fun c p => lexical_get f stop c p false) stop chain path.
Proof. intros f stop chain path Hs. cbn [lexical_get]. rewrite Hs. reflexivity. Qed.

Lemma root_of_last : forall chain r, root_of (chain ++ [r]) = [r].
Proof.
  induction chain as [|c [|c2 rest] IH]; intros r; [reflexivity|reflexivity|].
  cbn [app root_of] in *. apply IH.
Qed.

Lemma try_cands_descend : forall rec chain path o rest,
  eqs (onm o) path = false ->
  try_cands rec chain path (o :: rest) =
  match rec (okids o :: chain) (drop (length (onm o) + 1) path) with
  | Ok None => try_cands rec chain path rest
  | r => r
  end.
Proof.
  intros rec chain path o rest He. cbn [try_cands]. rewrite He.
  destruct (rec (okids o :: chain) (drop (length (onm o) + 1) path)) as [[y|]| |]; reflexivity.
Qed.
